/-
C10 — invalid input is refused with a 4xx before any handler runs.

Property theorems only.  Model: `DropshotModel/Extract.lean`:
`handle` is `HttpRouteHandler::handle_request` (extract, then call or
respond), `ExtractErr.status` mirrors the status given at every construction
site of an extractor error in /repo (all `HttpError::for_bad_request`):

  http_util.rs       http_extract_path_params                      400
  extractor/query.rs http_request_load_query                       400
  extractor/body.rs  StreamingBody::into_stream (too large, frame error) 400 ×3
                     http_request_load_body (to_str, from_mime_type,
                       JSON, url-encoded, content-type mismatch)   400 ×5
                     MultipartBody::from_request                   400 ×4

The first group of theorems says: an extraction failure of any kind, in any
position, yields a 4xx and zero handler calls, and nothing else is possible
(totality).  The second group shows that each kind of bad input named by the
property *is* an extraction failure in the model.
-/
import DropshotModel.Extract
import DropshotModel.JsonBody
import DropshotProofs.Lemmas.Extract

namespace Dropshot.C10
open Dropshot Dropshot.Percent Dropshot.Utf8 Dropshot.Extract Dropshot.JsonBody

/-- A 400-level status. -/
def Is4xx (s : Nat) : Prop := 400 ≤ s ∧ s < 500

instance (s : Nat) : Decidable (Is4xx s) := by unfold Is4xx; infer_instance

/-- Every extractor error carries a 4xx status. -/
theorem extractErr_4xx (e : ExtractErr) : Is4xx e.status := by
  cases e <;> simp [ExtractErr.status, Is4xx]

/-! ### The pipeline: refuse, or call -/

/-- **C10 (core).**  Whatever the extractors are: if extraction fails the
client gets a 4xx and the handler function is not invoked. -/
theorem refused_of_error {α : Type} (x : Except ExtractErr α) (e : ExtractErr) (h : x = .error e) :
    ∃ s, handle x = .refused s ∧ Is4xx s ∧ (handle x).handlerCalls = 0 := by
  subst h
  exact ⟨e.status, rfl, extractErr_4xx e, rfl⟩

/-- **Totality.**  Every request gets exactly one of the two outcomes: a 4xx
refusal without a handler call, or one handler call with the extracted value.
No input yields a 5xx, no response, or a panic in the model. -/
theorem handle_total {α : Type} (x : Except ExtractErr α) :
    (∃ s, handle x = .refused s ∧ Is4xx s ∧ (handle x).handlerCalls = 0) ∨
      (∃ v, x = .ok v ∧ handle x = .called v ∧ (handle x).handlerCalls = 1) := by
  cases x with
  | error e => exact Or.inl ⟨e.status, rfl, extractErr_4xx e, rfl⟩
  | ok v => exact Or.inr ⟨v, rfl, rfl, rfl⟩

/-- The handler runs iff extraction succeeded. -/
theorem called_iff_ok {α : Type} (x : Except ExtractErr α) :
    (handle x).handlerCalls = 1 ↔ ∃ v, x = .ok v := by
  cases x <;> simp [handle, Outcome.handlerCalls]

/-- **`bad_path_400`.**  For every parameter type and every request path whose
variables `from_map` cannot turn into it, the answer is 400 and the handler is
not called. -/
theorem bad_path_400 (t : Ty) (route : List RSeg) (path : Bytes) (vars : VarSet) (e : DeErr)
    (hv : lookupVars route path = .ok vars) (h : mapDe t vars = .error e) :
    handle (extractPath t route path) = .refused 400 ∧
      (handle (extractPath t route path)).handlerCalls = 0 := by
  simp [extractPath, hv, h, handle, ExtractErr.status, Outcome.handlerCalls]

/-- **`bad_query_400`.**  For every parameter type and every query string that
does not deserialise into it. -/
theorem bad_query_400 (t : Ty) (q : Bytes) (e : DeErr) (h : extractQuery t q = .error e) :
    handle (extractQueryE t q) = .refused 400 ∧ (handle (extractQueryE t q)).handlerCalls = 0 := by
  simp [extractQueryE, h, handle, ExtractErr.status, Outcome.handlerCalls]

/-- **`bad_body_400`.**  For every body type (codec), endpoint content type,
limit, `Content-Type` header and body on which `http_request_load_body` fails —
too large, header not a string, unknown or different media type, undecodable
JSON or form data. -/
theorem bad_body_400 {α : Type} (json : Bytes → Except BodyErr α) (form : Bytes → Except DeErr α)
    (expected : BodyCT) (cap : Nat) (hdr : Option Bytes) (body : Bytes) (e : BodyErr)
    (h : loadBody json form expected cap hdr body = .error e) :
    handle (extractBodyE json form expected cap hdr body) = .refused 400 ∧
      (handle (extractBodyE json form expected cap hdr body)).handlerCalls = 0 := by
  simp [extractBodyE, h, handle, ExtractErr.status, Outcome.handlerCalls]

theorem bad_multipart_400 (hdr : Option Bytes) (e : MultipartErr)
    (h : multipartBoundary hdr = .error e) :
    handle (extractMultipartE hdr) = .refused 400 ∧
      (handle (extractMultipartE hdr)).handlerCalls = 0 := by
  simp [extractMultipartE, h, handle, ExtractErr.status, Outcome.handlerCalls]

/-- With several extractors on one endpoint (`(Path, Query, Body)`), a failure
of any one of them refuses the request. -/
theorem bad_any_400 {α β γ : Type} (p : Except ExtractErr α) (q : Except ExtractErr β)
    (b : Except ExtractErr γ) (h : (∃ e, p = .error e) ∨ (∃ e, q = .error e) ∨ (∃ e, b = .error e)) :
    ∃ s, handle (extract3 p q b) = .refused s ∧ Is4xx s ∧
      (handle (extract3 p q b)).handlerCalls = 0 := by
  cases p with
  | error e => exact ⟨e.status, rfl, extractErr_4xx e, rfl⟩
  | ok pv =>
    cases q with
    | error e => exact ⟨e.status, rfl, extractErr_4xx e, rfl⟩
    | ok qv =>
      cases b with
      | error e => exact ⟨e.status, rfl, extractErr_4xx e, rfl⟩
      | ok bv => rcases h with ⟨e, h⟩ | ⟨e, h⟩ | ⟨e, h⟩ <;> cases h

example : handle (extract3 (α := Nat) (β := Nat) (γ := Nat) (.ok 1) (.error (.query .parse)) (.ok 2)) =
    .refused 400 := by decide

/-! ### Malformed JSON, with the codec as the code uses it

`http_request_load_body` decodes the first JSON value into the type and then
calls `Deserializer::end()` (`JsonBody.decode`).  The specification is the
RFC 8259 reading `decodeStrict`: the body is exactly one JSON value (optional
whitespace around it) of the type.  Before commit 15a2707 `end()` was not
called (finding K10a, repaired): `decodeAsIs` and the witness below. -/

/-- The code accepts exactly what the specification accepts, with the same value. -/
theorem decode_ok_iff_strict (fs : List (Bytes × FTy)) (body : Bytes) (v : Val) :
    decode fs body = .ok v ↔ decodeStrict fs body = .ok v := by
  unfold decode decodeStrict
  cases hp : parseFirst body with
  | none => simp
  | some p =>
    obtain ⟨jv, rest⟩ := p
    simp only
    cases hd : deStructJ fs jv with
    | error e1 => by_cases hr : skipWs rest ≠ [] <;> simp [hr, hd]
    | ok x => by_cases hr : skipWs rest ≠ [] <;> simp [hr, hd]

/-- **Malformed JSON is refused**: whatever RFC 8259 + the type refuse —
syntax errors, truncation, a second value or any other bytes after the first,
wrong member types, missing or duplicate members — the code's decoder refuses. -/
theorem bad_json_refused (fs : List (Bytes × FTy)) (body : Bytes) (e : BodyErr)
    (hstrict : decodeStrict fs body = .error e) : ∃ e', decode fs body = .error e' := by
  cases hd : decode fs body with
  | error e' => exact ⟨e', rfl⟩
  | ok v =>
    rw [(decode_ok_iff_strict fs body v).1 hd] at hstrict
    cases hstrict

/-- … and so the request is answered 400 without a handler call. -/
theorem bad_json_400 (fs : List (Bytes × FTy)) (form : Bytes → Except DeErr Val)
    (cap : Nat) (hdr : Option Bytes) (body : Bytes) (e : BodyErr)
    (hct : requestCT hdr = .ok .json) (hcap : body.length ≤ cap)
    (hstrict : decodeStrict fs body = .error e) :
    handle (extractBodyE (decode fs) form .json cap hdr body) = .refused 400 ∧
      (handle (extractBodyE (decode fs) form .json cap hdr body)).handlerCalls = 0 := by
  obtain ⟨e', he⟩ := bad_json_refused fs body e hstrict
  have : ¬ body.length > cap := by omega
  exact bad_body_400 (decode fs) form .json cap hdr body e' (by simp [loadBody, this, hct, he])

/-- `{"a":1}x` for `struct { a: u8 }`. -/
def kBody : Bytes := [123, 34, 97, 34, 58, 49, 125, 120]
def kFs : List (Bytes × FTy) := [([97], .scalar (.uint 8))]

/-- **Defect K10a (regression witness).**  The body `{"a":1}x` is not JSON; the
code before the repair accepted it (the handler ran with `a = 1`), the repaired
code refuses it, as the specification does. -/
theorem decodeAsIs_fails :
    decodeAsIs kFs kBody = .ok [([97], .scalar (.nat 1))] ∧ decodeStrict kFs kBody = .error .json ∧
      decode kFs kBody = .error .json := by
  decide

/-- Non-vacuity: a truncated body (`{"a":1`), trailing whitespace is fine. -/
example : decodeStrict kFs [123, 34, 97, 34, 58, 49] = .error .json := by decide
example : decode kFs [123, 34, 97, 34, 58, 49, 125, 32, 10] = .ok [([97], .scalar (.nat 1))] := by decide

/-! ### Content types -/

/-- **`content_type_table`.**  The complete (endpoint's, request's) matrix: a
decoder is reached only on the diagonal, and only for JSON and url-encoded. -/
theorem content_type_table :
    ∀ expected got : BodyCT, ctAccepted expected got = true ↔
      (expected = got ∧ (expected = .json ∨ expected = .urlEncoded)) := by
  intro expected got
  cases expected <;> cases got <;> decide

/-- Off the accepted cells the request is refused with the mismatch error,
whatever the body. -/
theorem content_type_mismatch {α : Type} (json : Bytes → Except BodyErr α)
    (form : Bytes → Except DeErr α) (expected got : BodyCT) (cap : Nat) (hdr : Option Bytes)
    (body : Bytes) (hcap : body.length ≤ cap) (hct : requestCT hdr = .ok got)
    (hno : ctAccepted expected got = false) :
    loadBody json form expected cap hdr body = .error (.mismatch expected got) := by
  have : ¬ body.length > cap := by omega
  cases expected <;> cases got <;> simp [ctAccepted] at hno <;> simp [loadBody, this, hct]

/-- What the request's content type is taken to be (`http_request_load_body`):
essence only, any case, parameters and trailing blanks ignored, JSON when the
header is absent; anything else is refused. -/
example : requestCT none = .ok .json := by decide
-- "APPLICATION/JSON"
example : requestCT (some [65,80,80,76,73,67,65,84,73,79,78,47,74,83,79,78]) = .ok .json := by decide
-- "application/json\t; charset=utf-8"
example : requestCT (some [97,112,112,108,105,99,97,116,105,111,110,47,106,115,111,110,9,59,32,
    99,104,97,114,115,101,116,61,117,116,102,45,56]) = .ok .json := by decide
-- "text/plain"
example : requestCT (some [116,101,120,116,47,112,108,97,105,110]) = .error .unknownMime := by decide
-- " application/json" (leading blank is not trimmed by dropshot; hyper trims it on the wire)
example : requestCT (some [32,97,112,112,108,105,99,97,116,105,111,110,47,106,115,111,110]) =
    .error .unknownMime := by decide
-- "application/json" followed by a non-ASCII byte
example : requestCT (some [97,112,112,108,105,99,97,116,105,111,110,47,106,115,111,110,200]) =
    .error .headerNotStr := by decide
-- empty header value
example : requestCT (some []) = .error .unknownMime := by decide

/-! ### Each kind of bad input is an extraction failure -/

/-- Out-of-range number (`max+1`, `2^64`, …). -/
theorem uint_out_of_range (w n : Nat) (h : ¬ n < 2 ^ w) :
    deScalar (.uint w) (renderNat n) = .error .parse := by
  simp [deScalar, parseUInt_render, h]

theorem int_out_of_range (w : Nat) (i : Int)
    (h : ¬ (-(2 ^ (w - 1) : Int) ≤ i ∧ i < (2 ^ (w - 1) : Int))) :
    deScalar (.int w) (renderInt i) = .error .parse := by
  simp [deScalar, parseInt_render, h]

/-- A negative number is never an unsigned one. -/
theorem uint_negative (w : Nat) (s : Bytes) : deScalar (.uint w) (45 :: s) = .error .parse := by
  have : parseUInt w (45 :: s) = none := by
    rw [parseUInt_digits w 45 s (by omega)]; simp [decAcc, digitVal]
  simp [deScalar, this]

/-- Wrong type, concretely: "abc", "1.5", "0x10", " 1", "1 ", "" and "٣" (Arabic-Indic
digit three) are not `u32`s; "yes" is not a `bool`; "ab" and "" are not `char`s. -/
example : deScalar (.uint 32) [97, 98, 99] = .error .parse := by decide
example : deScalar (.uint 32) [49, 46, 53] = .error .parse := by decide
example : deScalar (.uint 32) [48, 120, 49, 48] = .error .parse := by decide
example : deScalar (.uint 32) [32, 49] = .error .parse := by decide
example : deScalar (.uint 32) [49, 32] = .error .parse := by decide
example : deScalar (.uint 32) [] = .error .parse := by decide
example : deScalar (.uint 32) [217, 163] = .error .parse := by decide
example : deScalar .bool [121, 101, 115] = .error .parse := by decide
example : deScalar .char [97, 98] = .error .parse := by decide
example : deScalar .char [] = .error .parse := by decide

/-- Unknown enum value. -/
theorem unknown_variant (vs : List Bytes) (s : Bytes) (h : s ∉ vs) :
    deScalar (.enum vs) s = .error .variant := by
  simp [deScalar, h]

/-- `finish` only ever fails with "missing field". -/
theorem finish_error (got : List (Bytes × FVal)) (fs : List (Bytes × FTy)) (e : DeErr)
    (h : finish got fs = .error e) : e = .missing := by
  induction fs with
  | nil => simp [finish] at h
  | cons f fs ih =>
    obtain ⟨n, ft⟩ := f
    simp only [finish] at h
    cases hl : lookupGot got n with
    | some fv =>
      simp only [hl] at h
      cases hf : finish got fs with
      | error e' => simp only [hf] at h; cases h; exact ih hf
      | ok r => simp [hf] at h
    | none =>
      cases ft with
      | option t =>
        simp only [hl] at h
        cases hf : finish got fs with
        | error e' => simp only [hf] at h; cases h; exact ih hf
        | ok r => simp [hf] at h
      | scalar t => simp only [hl] at h; cases h; rfl
      | seq t => simp only [hl] at h; cases h; rfl
      | nested => simp only [hl] at h; cases h; rfl

/-- Missing required field: if, after all entries were read, some field that is
not an `Option` has no value, the struct is refused with "missing field". -/
theorem missing_field (got : List (Bytes × FVal)) (fs : List (Bytes × FTy))
    (h : ∃ f ∈ fs, lookupGot got f.1 = none ∧ ∀ t, f.2 ≠ .option t) :
    finish got fs = .error .missing := by
  induction fs with
  | nil => obtain ⟨f, hf, _⟩ := h; simp at hf
  | cons g fs ih =>
    obtain ⟨n, ft⟩ := g
    obtain ⟨f, hf, h1, h2⟩ := h
    simp only [List.mem_cons] at hf
    cases hfin : finish got ((n, ft) :: fs) with
    | error e => rw [finish_error got _ e hfin]
    | ok v =>
      exfalso
      simp only [finish] at hfin
      rcases hf with rfl | hf
      · simp only at h1 h2
        cases ft with
        | option t => exact h2 t rfl
        | scalar t => simp [h1] at hfin
        | seq t => simp [h1] at hfin
        | nested => simp [h1] at hfin
      · have := ih ⟨f, hf, h1, h2⟩
        rw [this] at hfin
        cases hl : lookupGot got n with
        | some fv => simp [hl] at hfin
        | none => cases ft <;> simp [hl] at hfin

example : parseQueryRaw [97, 61, 49] = [([97], [49])] ∧
    deStruct [([97], .scalar (.uint 8)), ([98], .scalar .bool)] [([97], .str [49])] =
      .error .missing := by decide   -- "a=1" for {a: u8, b: bool}

/-- Duplicate field: a known key given twice is refused (not "last wins", not
"first wins"), whatever follows. -/
theorem duplicate_field (fs : List (Bytes × FTy)) (k : Bytes) (ft : FTy) (x1 x2 : VarVal)
    (rest : VarSet) (fv : FVal) (hk : lookupField fs k = some ft) (h1 : deField ft x1 = .ok fv) :
    deStruct fs ((k, x1) :: (k, x2) :: rest) = .error .duplicate := by
  simp [deStruct, deEntries, hk, h1, lookupGot]

example : parseQueryRaw [97, 61, 49, 38, 97, 61, 49] = [([97], [49]), ([97], [49])] ∧
    deStruct [([97], .scalar (.uint 8))] [([97], .str [49]), ([97], .str [49])] =
      .error .duplicate := by decide   -- "a=1&a=1"

/-- A repeated *unknown* key is not an error (unknown keys are skipped). -/
example : deStruct [([97], .scalar (.uint 8))] [([120], .str [49]), ([97], .str [55]), ([120], .str [50])] =
    .ok [([97], .scalar (.nat 7))] := by decide   -- "x=1&a=7&x=2"

/-- A sequence where a single value is required (and vice versa), a bare type
in place of a struct, a nested struct: refused, never a panic. -/
example : deField (.scalar .string) (.comps [[97]]) = .error .shape := by decide
example : deField (.seq .string) (.str [97]) = .error .shape := by decide
example : mapDe (.bare (.scalar .string)) [] = .error .shape := by decide
example : deField .nested (.str [97]) = .error .shape := by decide

/-- Multipart: missing header, non-ASCII header, wrong media type, no boundary. -/
example : multipartBoundary none = .error .noHeader := by decide
example : multipartBoundary (some [200]) = .error .headerNotStr := by decide
-- "multipart/form-data"
example : multipartBoundary (some [109,117,108,116,105,112,97,114,116,47,102,111,114,109,45,100,97,116,97]) =
    .error .badContentType := by decide
-- "text/plain; boundary=x"
example : multipartBoundary (some [116,101,120,116,47,112,108,97,105,110,59,32,98,111,117,110,100,97,114,121,61,120]) =
    .error .badContentType := by decide

/-! ### A chunked coding that cannot be undone

Stream `bad`, framing `bc`: the driver checks that `Extract.dechunk` fails on the
bytes sent (so that the case is what the generator meant it to be) and expects
400 with no handler run. -/

/-- A chunked body must begin with a hexadecimal digit: anything else (a blank, a
sign, CR, a letter beyond `f`) is refused outright. -/
theorem dechunk_refuses_bad_first_byte (c : Nat) (w : Bytes) (h : hexVal c = none) :
    dechunk (c :: w) = none := by
  simp [dechunk, dechunkAux, h]

/-- After the size only `CRLF`, blanks or `;extension CRLF` may follow. -/
theorem dechunk_refuses_bad_size_line (w : Bytes) (d : Nat) (hd : (hexVal d).isSome = true)
    (h : afterSize (hexPrefix (d :: w) 0).2 = none) : dechunk (d :: w) = none := by
  have : (hexVal d).isNone = false := by
    cases hh : hexVal d <;> simp_all
  simp only [dechunk, dechunkAux, this, Bool.false_eq_true, ↓reduceIte, h]

/-- The shapes the harness sends (tests of the definitions, not the general claim):
`zz`, `-1`, `0x24`, an empty size, a leading blank, LF alone, CR alone, no CRLF after
the data, a size one short. -/
example : dechunk [122, 122, 13, 10, 97, 98, 13, 10, 48, 13, 10, 13, 10] = none ∧
    dechunk [45, 49, 13, 10] = none ∧ dechunk [13, 10, 97] = none ∧ dechunk [32, 50, 13, 10] = none ∧
    dechunk [48, 120, 50, 13, 10, 97, 98, 13, 10, 48, 13, 10, 13, 10] = none ∧
    dechunk [50, 10, 97, 98, 13, 10, 48, 13, 10, 13, 10] = none ∧
    dechunk [50, 13, 97, 98, 13, 10, 48, 13, 10, 13, 10] = none ∧
    dechunk [50, 13, 10, 97, 98, 48, 13, 10, 13, 10] = none ∧
    dechunk [49, 13, 10, 97, 98, 13, 10, 48, 13, 10, 13, 10] = none ∧
    dechunk [50, 13, 10, 97, 98, 13, 10, 48, 13, 10, 13, 10] = some ([97, 98], []) := by
  refine ⟨?_, by decide, by decide, by decide, by decide, by decide, by decide, by decide, by decide, by decide⟩
  exact dechunk_refuses_bad_first_byte 122 _ (by decide)

end Dropshot.C10
