/-
C05 — version ranges mean what they say; conflict means a shared version.

Property theorems only.  `V` is any linearly ordered version type; the
instance for the `semver` model is `DropshotProofs.Lemmas.SemVerOrder`.
Model: DropshotModel/Version.lean (arm-for-arm `matches` / `overlaps_with` /
`from_until`, header policy).
-/
import DropshotModel.Version
import Mathlib.Order.Defs.LinearOrder

namespace Dropshot.C05
open Dropshot Range

variable {V : Type} [LinearOrder V]

/-! ### Membership: `matches` decides exactly the documented range -/

theorem matches_iff_mem (r : Range V) (v : V) : r.matches (some v) = true ↔ Mem v r := by
  cases r <;> simp [Range.matches, Mem]; grind

/-- A request that carries no version (unversioned server) matches every range. -/
theorem matches_none (r : Range V) : r.matches none = true := by
  cases r <;> rfl

theorem mem_all (v : V) : Mem v (.all : Range V) := trivial
theorem mem_from (a v : V) : Mem v (.from a) ↔ a ≤ v := Iff.rfl
theorem mem_until (b v : V) : Mem v (.until b) ↔ v < b := Iff.rfl
theorem mem_fromUntil_lt (a b v : V) (h : a < b) :
    Mem v (.fromUntil a b) ↔ a ≤ v ∧ v < b := by
  simp [Mem]; grind
/-- "exactly A when A = B". -/
theorem mem_fromUntil_eq (a v : V) : Mem v (.fromUntil a a) ↔ v = a := by
  simp [Mem]; grind

/-! ### The `from_until` constructor -/

theorem mkFromUntil_some_iff (a b : V) (r : Range V) :
    mkFromUntil a b = some r ↔ a ≤ b ∧ r = .fromUntil a b := by
  unfold mkFromUntil; split <;> grind

theorem mkFromUntil_none_iff (a b : V) : mkFromUntil a b = none ↔ b < a := by
  unfold mkFromUntil; split <;> simp_all

theorem mkFromUntil_WF (a b : V) (r : Range V) (h : mkFromUntil a b = some r) : WF r := by
  obtain ⟨h1, rfl⟩ := (mkFromUntil_some_iff a b r).1 h
  exact h1

/-! ### Adjacent ranges (an endpoint replaced at version `b`) -/

/-- **Adjacent ranges.**  `until b` and `from b` split the versions between them: every
version belongs to exactly one, whichever was declared first. -/
theorem until_from_partition (b v : V) : Mem v (.until b) ↔ ¬ Mem v (.from b) := by
  simp [Mem]

/-- … and they never conflict, in either registration order. -/
theorem until_from_compatible (b : V) :
    overlaps (.until b) (.from b) = false ∧ overlaps (.from b) (.until b) = false := by
  simp [overlaps, Range.matches]

/-- The same for a bounded range followed by an open one: `from a until b` and `from b`
(with `a < b`) share no version and are accepted together. -/
theorem fromUntil_from_compatible (a b : V) (h : a < b) :
    overlaps (.fromUntil a b) (.from b) = false ∧ overlaps (.from b) (.fromUntil a b) = false ∧
      ∀ v, ¬ (Mem v (.fromUntil a b) ∧ Mem v (.from b)) := by
  refine ⟨?_, ?_, ?_⟩ <;> simp [overlaps, Range.matches, Mem] <;> grind

/-! ### Conflict ⇔ a shared version -/

theorem overlaps_comm (r s : Range V) : overlaps r s = overlaps s r := by
  cases r <;> cases s <;> simp [overlaps, Range.matches] <;> grind

/-- A shared version is always reported as a conflict. -/
theorem overlaps_of_shared (r s : Range V) (hr : WF r) (hs : WF s)
    (h : ∃ v, Mem v r ∧ Mem v s) : overlaps r s = true := by
  obtain ⟨v, h1, h2⟩ := h
  cases r <;> cases s <;> simp [overlaps, Range.matches, Mem, WF] at * <;> grind

/-- A reported conflict between two non-empty ranges has a shared version. -/
theorem shared_of_overlaps (r s : Range V) (hr : WF r) (hs : WF s)
    (ner : ∃ v, Mem v r) (nes : ∃ v, Mem v s)
    (h : overlaps r s = true) : ∃ v, Mem v r ∧ Mem v s := by
  obtain ⟨x, hx⟩ := ner
  obtain ⟨y, hy⟩ := nes
  rcases r with _ | a | ⟨a, b⟩ | b <;> rcases s with _ | a' | ⟨a', b'⟩ | b' <;>
    simp only [overlaps, Range.matches, Mem, WF, Bool.or_eq_true, Bool.and_eq_true,
      decide_eq_true_eq, true_and, and_true] at *
  all_goals first
    | exact ⟨y, by grind⟩
    | exact ⟨x, by grind⟩
    | exact ⟨max a a', by grind⟩
    | exact ⟨a, by grind⟩
    | exact ⟨a', by grind⟩
    | exact ⟨if a ≤ a' then a' else a, by grind⟩
    | exact ⟨min x y, by grind⟩

/-- **C05 (conflict clause).**  For well-formed, non-empty ranges, in either
argument order, `overlaps_with` holds iff some version belongs to both.
(`…_partial`: the hypothesis excludes the empty range `until ⊥`, finding K2.) -/
theorem overlaps_iff_partial (r s : Range V) (hr : WF r) (hs : WF s)
    (ner : ∃ v, Mem v r) (nes : ∃ v, Mem v s) :
    overlaps r s = true ↔ ∃ v, Mem v r ∧ Mem v s :=
  ⟨shared_of_overlaps r s hr hs ner nes, overlaps_of_shared r s hr hs⟩

/-- The only empty well-formed range is `until ⊥`. -/
theorem empty_iff_until_bot [Nonempty V] (r : Range V) (hr : WF r) :
    (¬ ∃ v, Mem v r) ↔ ∃ b, r = .until b ∧ ∀ v, b ≤ v := by
  rcases r with _ | a | ⟨a, b⟩ | b
  · simp [Mem]
  · constructor
    · intro h; exact absurd ⟨a, le_refl a⟩ h
    · rintro ⟨b, hb, -⟩; cases hb
  · constructor
    · intro h
      refine absurd ⟨a, ?_⟩ h
      simp only [Mem, WF] at *
      grind
    · rintro ⟨b, hb, -⟩; cases hb
  · simp only [Mem, Range.until.injEq, not_exists, not_lt]
    constructor
    · intro h; exact ⟨b, rfl, h⟩
    · rintro ⟨b', rfl, h⟩; exact h

/-- **Finding K2 (negation witness of the full statement).**  With a least
version `b`, `until b` is empty, yet it is reported as conflicting with `all`. -/
theorem until_bot_false_conflict (b : V) (hb : ∀ v, b ≤ v) :
    overlaps (.all : Range V) (.until b) = true ∧ ¬ ∃ v, Mem v (.until b) ∧ Mem v (.all : Range V) := by
  refine ⟨rfl, ?_⟩
  rintro ⟨v, h, -⟩
  exact absurd h (not_lt.2 (hb v))

theorem C05_full_fails :
    ¬ ∀ r s : Range Nat, WF r → WF s → (overlaps r s = true ↔ ∃ v, Mem v r ∧ Mem v s) := by
  intro h
  have := (h .all (.until 0) trivial trivial).1 rfl
  obtain ⟨v, -, hv⟩ := this
  exact Nat.not_lt_zero v hv

/-- **Defect D2 (regression witness).**  The pre-repair arms report no conflict
between `from 1` and the one-version range `from 1 until 1`, which share 1. -/
theorem overlapsAsIs_fails :
    overlapsAsIs (.from 1 : Range Nat) (.fromUntil 1 1) = false ∧
    Mem 1 (.from 1 : Range Nat) ∧ Mem 1 (.fromUntil 1 1 : Range Nat) := by
  decide

/-! ### Only the order type matters (justifies small-scope exhaustive runs) -/

section
variable {W : Type} [LinearOrder W] (f : V → W) (hf : ∀ a b, a < b → f a < f b)
include hf

theorem mono_lt (a b : V) : f a < f b ↔ a < b := by
  constructor
  · intro h
    rcases lt_trichotomy a b with h1 | h1 | h1
    · exact h1
    · subst h1; exact absurd h (lt_irrefl _)
    · exact absurd (lt_trans h (hf _ _ h1)) (lt_irrefl _)
  · exact hf a b

theorem mono_le (a b : V) : f a ≤ f b ↔ a ≤ b := by
  rw [← not_lt, ← not_lt, mono_lt f hf]

theorem mono_eq (a b : V) : f a = f b ↔ a = b := by
  constructor
  · intro h
    rcases lt_trichotomy a b with h1 | h1 | h1
    · exact absurd (h ▸ hf _ _ h1) (lt_irrefl _)
    · exact h1
    · exact absurd (h ▸ hf _ _ h1) (lt_irrefl _)
  · rintro rfl; rfl

theorem matches_map (r : Range V) (v : V) : (r.map f).matches (some (f v)) = r.matches (some v) := by
  cases r <;> simp [Range.map, Range.matches, mono_le f hf, mono_lt f hf, mono_eq f hf]

theorem overlaps_map (r s : Range V) : overlaps (r.map f) (s.map f) = overlaps r s := by
  cases r <;> cases s <;>
    simp [Range.map, overlaps, Range.matches, mono_le f hf, mono_lt f hf, mono_eq f hf]
end

/-- If two ranges share a version they share one among their own endpoints and
the least version: the finite probe pool used by the run-time oracle is complete. -/
theorem shared_in_pool (bot : V) (hbot : ∀ v, bot ≤ v) (r s : Range V)
    (h : ∃ v, Mem v r ∧ Mem v s) :
    ∃ v ∈ bot :: (r.endpoints ++ s.endpoints), Mem v r ∧ Mem v s := by
  obtain ⟨v, h1, h2⟩ := h
  have := hbot v
  rcases r with _ | a | ⟨a, b⟩ | b <;> rcases s with _ | a' | ⟨a', b'⟩ | b' <;>
    simp only [Mem, endpoints] at *
  all_goals first
    | exact ⟨bot, by simp, by grind⟩
    | exact ⟨max a a', by simp; grind, by grind⟩
    | exact ⟨a, by simp, by grind⟩
    | exact ⟨a', by simp, by grind⟩

/-! ### Header version policy -/

/-- A handler can only be routed at version `v` when the header spells exactly
`v` (visible ASCII, valid semver) and `v` is not newer than the maximum. -/
theorem extract_ok_iff (hdr : Option (List UInt8)) (max v : SemVer) :
    extractVersion hdr max = .ok v ↔
      ∃ bs cs, hdr = some bs ∧ headerToStr bs = some cs ∧
        SemVer.parseChars cs = some v ∧ v ≤ max := by
  unfold extractVersion
  split
  · simp
  · rename_i bs
    split
    · simp_all
    · rename_i cs hcs
      split
      · simp_all
      · rename_i w hw
        split <;> simp_all <;> grind

/-- Missing, non-ASCII, unparsable or too-new: always an error, never a default. -/
theorem extract_error_cases (hdr : Option (List UInt8)) (max : SemVer) :
    (hdr = none → extractVersion hdr max = .error .missing) ∧
    (∀ bs, hdr = some bs → headerToStr bs = none → extractVersion hdr max = .error .notAscii) ∧
    (∀ bs cs, hdr = some bs → headerToStr bs = some cs → SemVer.parseChars cs = none →
        extractVersion hdr max = .error .unparsable) ∧
    (∀ bs cs v, hdr = some bs → headerToStr bs = some cs → SemVer.parseChars cs = some v →
        ¬ v ≤ max → extractVersion hdr max = .error .tooNew) := by
  refine ⟨?_, ?_, ?_, ?_⟩
  · rintro rfl; rfl
  · rintro bs rfl h; simp [extractVersion, h]
  · rintro bs cs rfl h1 h2; simp [extractVersion, h1, h2]
  · rintro bs cs v rfl h1 h2 h3; simp [extractVersion, h1, h2, h3]

/-! ### Non-vacuity -/

example : WF (.fromUntil 1 3 : Range Nat) ∧ WF (.from 2 : Range Nat) ∧
    (∃ v, Mem v (.fromUntil 1 3 : Range Nat)) ∧ (∃ v, Mem v (.from 2 : Range Nat)) ∧
    overlaps (.fromUntil 1 3 : Range Nat) (.from 2) = true :=
  ⟨by decide, trivial, ⟨1, by decide⟩, ⟨2, by decide⟩, by decide⟩

example : (extractVersion (some [49, 46, 50, 46, 51])
    { major := 2, minor := 0, patch := 0, pre := [], build := [] }).toOption =
    some { major := 1, minor := 2, patch := 3, pre := [], build := [] } := by decide

end Dropshot.C05
