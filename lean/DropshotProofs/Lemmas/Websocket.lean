/-
Helper lemmas for C20 (DropshotProofs/C20.lean): `str::split` on a union of
separator sets, OWS trimming, and the equivalence, on legal RFC 7230 list
lines, of the code's flat split with the grammar's comma-separated elements.
-/
import DropshotModel.Websocket

namespace Dropshot.Websocket


theorem splitOn_nil (p : Nat → Bool) : splitOn p [] = [[]] := rfl

theorem splitOn_cons_sep (p : Nat → Bool) (b : Nat) (bs : List Nat) (h : p b = true) :
    splitOn p (b :: bs) = [] :: splitOn p bs := by
  simp [splitOn, split1, h]

theorem splitOn_cons_nonsep (p : Nat → Bool) (b : Nat) (bs : List Nat) (h : p b = false) :
    splitOn p (b :: bs) = (b :: (split1 p bs).1) :: (split1 p bs).2 := by
  simp [splitOn, split1, h]

/-- A separator in the middle splits the pieces on either side independently. -/
theorem splitOn_append_sep (p : Nat → Bool) (a : List Nat) (c : Nat) (y : List Nat) (h : p c = true) :
    splitOn p (a ++ c :: y) = splitOn p a ++ splitOn p y := by
  induction a with
  | nil => simp [splitOn, split1, h]
  | cons b bs ih =>
    simp only [splitOn] at ih
    by_cases hb : p b = true
    · simp [splitOn, split1, hb] at *; exact ih
    · simp [splitOn, split1, hb] at *; exact ih

/-- A prefix without separators stays glued to the first piece of the rest. -/
theorem splitOn_append_free (p : Nat → Bool) (t w : List Nat) (h : ∀ b ∈ t, p b = false) :
    splitOn p (t ++ w) = (t ++ (split1 p w).1) :: (split1 p w).2 := by
  induction t with
  | nil => simp [splitOn]
  | cons b bs ih =>
    have hb : p b = false := h b (by simp)
    have := ih (fun x hx => h x (by simp [hx]))
    simp [splitOn, split1, hb] at *
    exact this

theorem splitOn_all_sep (p : Nat → Bool) (w : List Nat) (h : ∀ b ∈ w, p b = true) :
    splitOn p w = List.replicate (w.length + 1) [] := by
  induction w with
  | nil => rfl
  | cons b bs ih =>
    rw [splitOn_cons_sep p b bs (h b (by simp)), ih (fun x hx => h x (by simp [hx]))]
    simp [List.replicate_succ]

/-- Splitting on `p ∨ q` is splitting on `p`, then every piece on `q`. -/
theorem splitOn_or (p q : Nat → Bool) (v : List Nat) :
    splitOn (fun b => p b || q b) v = (splitOn p v).flatMap (splitOn q) := by
  induction v with
  | nil => rfl
  | cons b bs ih =>
    by_cases hp : p b = true
    · rw [splitOn_cons_sep _ b bs (by simp [hp]), splitOn_cons_sep p b bs hp, ih]
      simp [splitOn_nil]
    · have hp' : p b = false := by simpa using hp
      by_cases hq : q b = true
      · rw [splitOn_cons_sep _ b bs (by simp [hq]), splitOn_cons_nonsep p b bs hp', ih]
        simp only [List.flatMap_cons]
        rw [splitOn_cons_sep q b _ hq]
        simp [splitOn]
      · have hq' : q b = false := by simpa using hq
        rw [splitOn_cons_nonsep _ b bs (by simp [hp', hq']), splitOn_cons_nonsep p b bs hp']
        simp only [List.flatMap_cons]
        rw [splitOn_cons_nonsep q b _ hq']
        have : splitOn (fun b => p b || q b) bs = (split1 (fun b => p b || q b) bs).1 :: (split1 (fun b => p b || q b) bs).2 := rfl
        rw [this] at ih
        simp only [splitOn, List.flatMap_cons, List.cons_append, List.cons.injEq] at ih
        simp [ih.1, ih.2]



theorem mem_takeWhile_true (p : Nat → Bool) (l : List Nat) : ∀ b ∈ l.takeWhile p, p b = true := by
  induction l with
  | nil => simp
  | cons a as ih =>
    intro b hb
    by_cases ha : p a = true
    · simp [List.takeWhile, ha] at hb
      rcases hb with rfl | hb
      · exact ha
      · exact ih b hb
    · simp [List.takeWhile, ha] at hb

/-- Every byte string is leading OWS, its trimmed core, trailing OWS. -/
theorem trim_decomp (x : List Nat) :
    ∃ w1 w2, x = w1 ++ trimOWS x ++ w2 ∧ (∀ b ∈ w1, isOWS b = true) ∧ (∀ b ∈ w2, isOWS b = true) := by
  refine ⟨x.takeWhile isOWS, (((x.dropWhile isOWS).reverse).takeWhile isOWS).reverse, ?_, ?_, ?_⟩
  · unfold trimOWS
    have h1 : x = x.takeWhile isOWS ++ x.dropWhile isOWS := (List.takeWhile_append_dropWhile).symm
    have h3 : ∀ d : List Nat, d.reverse = (d.dropWhile isOWS).reverse ++ (d.takeWhile isOWS).reverse := by
      intro d
      rw [← List.reverse_append, List.takeWhile_append_dropWhile]
    have h4 := h3 (x.dropWhile isOWS).reverse
    rw [List.reverse_reverse] at h4
    rw [List.append_assoc, ← h4]
    exact h1
  · exact mem_takeWhile_true _ _
  · intro b hb
    rw [List.mem_reverse] at hb
    exact mem_takeWhile_true _ _ b hb




theorem splitOn_sep_prefix (p : Nat → Bool) (w y : List Nat) (h : ∀ b ∈ w, p b = true) :
    splitOn p (w ++ y) = List.replicate w.length [] ++ splitOn p y := by
  induction w with
  | nil => simp
  | cons b bs ih =>
    rw [List.cons_append, splitOn_cons_sep p b _ (h b (by simp)), ih (fun x hx => h x (by simp [hx]))]
    simp [List.replicate_succ]

theorem any_replicate_nil (f : List Nat → Bool) (hf : f [] = false) (n : Nat) :
    (List.replicate n ([] : List Nat)).any f = false := by
  induction n with
  | zero => rfl
  | succ n ih => simp [List.replicate_succ, hf, ih]

theorem any_splitOWS (f : List Nat → Bool) (hf : f [] = false) (x : List Nat)
    (hx : ∀ b ∈ trimOWS x, isOWS b = false) :
    (splitOn isOWS x).any f = f (trimOWS x) := by
  obtain ⟨w1, w2, hdec, h1, h2⟩ := trim_decomp x
  generalize trimOWS x = t at *
  subst hdec
  rw [List.append_assoc, splitOn_sep_prefix _ _ _ h1, splitOn_append_free _ _ _ hx]
  have h3 := splitOn_all_sep isOWS w2 h2
  simp only [splitOn, List.replicate_succ, List.cons.injEq] at h3
  rw [h3.1, h3.2]
  simp [List.any_append, any_replicate_nil f hf]




/-- Every byte of `v` is a separator or lies in one of the pieces. -/
theorem mem_splitOn (p : Nat → Bool) (v : List Nat) :
    ∀ b ∈ v, p b = true ∨ ∃ piece ∈ splitOn p v, b ∈ piece := by
  induction v with
  | nil => simp
  | cons a as ih =>
    intro b hb
    rcases List.mem_cons.1 hb with rfl | hb
    · by_cases ha : p b = true
      · exact Or.inl ha
      · right
        rw [splitOn_cons_nonsep p b as (by simpa using ha)]
        exact ⟨_, List.mem_cons_self, List.mem_cons_self⟩
    · rcases ih b hb with h | ⟨piece, hp, hbp⟩
      · exact Or.inl h
      · right
        by_cases ha : p a = true
        · rw [splitOn_cons_sep p a as ha]
          exact ⟨piece, List.mem_cons_of_mem _ hp, hbp⟩
        · rw [splitOn_cons_nonsep p a as (by simpa using ha)]
          rcases List.mem_cons.1 hp with rfl | hp
          · exact ⟨_, List.mem_cons_self, List.mem_cons_of_mem _ hbp⟩
          · exact ⟨piece, List.mem_cons_of_mem _ hp, hbp⟩

theorem any_congr_mem {α : Type} (l : List α) (f g : α → Bool) (h : ∀ x ∈ l, f x = g x) :
    l.any f = l.any g := by
  induction l with
  | nil => rfl
  | cons a as ih =>
    simp only [List.any_cons]
    rw [h a (by simp), ih (fun x hx => h x (by simp [hx]))]

theorem eqIgnoreCase_nil_left (tok : List Nat) (h : tok ≠ []) : eqIgnoreCase [] tok = false := by
  cases tok with
  | nil => exact absurd rfl h
  | cons a as => simp [eqIgnoreCase]

theorem isSep_eq : isSep = fun b => isComma b || isOWS b := rfl

/-- What `legalLine` says about each comma-separated piece. -/
theorem legalLine_piece (elem : List Nat → Bool) (v : List Nat) (hv : legalLine elem v = true) :
    ∀ piece ∈ splitOn isComma v, trimOWS piece = [] ∨ elem (trimOWS piece) = true := by
  intro piece hp
  have := (List.all_eq_true.1 hv) piece hp
  simpa [List.isEmpty_iff] using this

/-- On a legal list line the code's flat split on `','`, `' '`, `'\t'` finds a
word exactly when it is one of the RFC 7230 list elements. -/
theorem lineContains_eq (elem : List Nat → Bool)
    (helem : ∀ t, elem t = true → ∀ b ∈ t, isOWS b = false)
    (tok : List Nat) (htok : tok ≠ []) (v : List Nat) (hv : legalLine elem v = true) :
    lineContains tok v = (listElems v).any fun e => eqIgnoreCase e tok := by
  have hf := eqIgnoreCase_nil_left tok htok
  unfold lineContains listElems
  rw [isSep_eq, splitOn_or, List.any_flatMap]
  rw [List.any_filter, List.any_map]
  apply any_congr_mem
  intro piece hp
  have hx : ∀ b ∈ trimOWS piece, isOWS b = false := by
    rcases legalLine_piece elem v hv piece hp with h | h
    · rw [h]; simp
    · exact helem _ h
  rw [any_splitOWS _ hf piece hx]
  dsimp only [Function.comp]
  generalize trimOWS piece = t
  cases t with
  | nil => simp [hf]
  | cons a as => simp




theorem tchar_facts (b : Nat) (h : isTchar b = true) :
    isVisible b = true ∧ isOWS b = false ∧ isComma b = false ∧ (b == 47) = false := by
  simp only [isTchar, isVisible, isOWS, isComma, Bool.or_eq_true, Bool.and_eq_true, decide_eq_true_eq,
    beq_iff_eq, Bool.or_eq_false_iff, beq_eq_false_iff_ne] at *
  omega

theorem token_bytes (t : List Nat) (h : isToken t = true) : ∀ b ∈ t, isTchar b = true := by
  simp only [isToken, Bool.and_eq_true, List.all_eq_true] at h
  exact h.2

theorem token_ne_nil (t : List Nat) (h : isToken t = true) : t ≠ [] := by
  intro h0; subst h0; simp [isToken] at h

/-- A `protocol` consists of `tchar`s and at most one `/`. -/
theorem protocol_bytes (t : List Nat) (h : isProtocol t = true) :
    ∀ b ∈ t, isTchar b = true ∨ b = 47 := by
  intro b hb
  rcases mem_splitOn (· == 47) t b hb with h1 | ⟨piece, hp, hbp⟩
  · right; simpa using h1
  · left
    unfold isProtocol at h
    split at h
    · rename_i a heq
      rw [heq] at hp
      simp at hp; subst hp
      exact token_bytes _ h b hbp
    · rename_i a c heq
      rw [heq] at hp
      simp only [Bool.and_eq_true] at h
      simp at hp
      rcases hp with rfl | rfl
      · exact token_bytes _ h.1 b hbp
      · exact token_bytes _ h.2 b hbp
    · simp at h

theorem token_noOWS (t : List Nat) (h : isToken t = true) : ∀ b ∈ t, isOWS b = false :=
  fun b hb => (tchar_facts b (token_bytes t h b hb)).2.1

theorem token_visible (t : List Nat) (h : isToken t = true) : ∀ b ∈ t, isVisible b = true :=
  fun b hb => (tchar_facts b (token_bytes t h b hb)).1

theorem protocol_noOWS (t : List Nat) (h : isProtocol t = true) : ∀ b ∈ t, isOWS b = false := by
  intro b hb
  rcases protocol_bytes t h b hb with h1 | rfl
  · exact (tchar_facts b h1).2.1
  · decide

theorem protocol_visible (t : List Nat) (h : isProtocol t = true) : ∀ b ∈ t, isVisible b = true := by
  intro b hb
  rcases protocol_bytes t h b hb with h1 | rfl
  · exact (tchar_facts b h1).1
  · decide

theorem ows_visible (b : Nat) (h : isOWS b = true) : isVisible b = true := by
  simp only [isOWS, isVisible, Bool.or_eq_true, beq_iff_eq, Bool.and_eq_true, decide_eq_true_eq] at *
  omega

theorem comma_visible (b : Nat) (h : isComma b = true) : isVisible b = true := by
  simp only [isComma, isVisible, Bool.or_eq_true, beq_iff_eq, Bool.and_eq_true, decide_eq_true_eq] at *
  omega

/-- A legal list line is visible ASCII, so `HeaderValue::to_str` succeeds on it. -/
theorem legalLine_toStr (elem : List Nat → Bool)
    (helem : ∀ t, elem t = true → ∀ b ∈ t, isVisible b = true)
    (v : List Nat) (hv : legalLine elem v = true) : toStr v = some v := by
  have : v.all isVisible = true := by
    rw [List.all_eq_true]
    intro b hb
    rcases mem_splitOn isComma v b hb with h | ⟨piece, hp, hbp⟩
    · exact comma_visible b h
    · obtain ⟨w1, w2, hdec, h1, h2⟩ := trim_decomp piece
      rw [hdec] at hbp
      simp only [List.mem_append] at hbp
      rcases hbp with (hb1 | hbt) | hb2
      · exact ows_visible b (h1 b hb1)
      · rcases legalLine_piece elem v hv piece hp with h | h
        · rw [h] at hbt; simp at hbt
        · exact helem _ h b hbt
      · exact ows_visible b (h2 b hb2)
  simp [toStr, this]

/-- RFC 7230 §3.2.2 in the model: the elements of the comma-joined lines are
the elements of the lines, in order. -/
theorem listElems_combine (lines : List (List Nat)) :
    listElems (combine lines) = lines.flatMap listElems := by
  induction lines with
  | nil => rfl
  | cons v vs ih =>
    cases vs with
    | nil => simp [combine]
    | cons w ws =>
      have : combine (v :: w :: ws) = v ++ 44 :: combine (w :: ws) := rfl
      rw [this, List.flatMap_cons, ← ih]
      unfold listElems
      rw [splitOn_append_sep isComma v 44 _ (by decide)]
      simp

theorem filterMap_toStr_legal (elem : List Nat → Bool)
    (helem : ∀ t, elem t = true → ∀ b ∈ t, isVisible b = true)
    (lines : List (List Nat)) (h : lines.all (legalLine elem) = true) :
    lines.filterMap toStr = lines := by
  induction lines with
  | nil => rfl
  | cons v vs ih =>
    simp only [List.all_cons, Bool.and_eq_true] at h
    simp [legalLine_toStr elem helem v h.1, ih h.2]

/-- **Core of C20's list clause.**  When every line of the header `name` is a
legal RFC 7230 list of `elem`s, `header_list_contains` finds the (non-empty)
word `tok` iff it is, case-insensitively, one of the field's list elements. -/
theorem listContains_eq (elem : List Nat → Bool)
    (hvis : ∀ t, elem t = true → ∀ b ∈ t, isVisible b = true)
    (hows : ∀ t, elem t = true → ∀ b ∈ t, isOWS b = false)
    (hdrs : Headers) (name tok : List Nat) (htok : tok ≠ [])
    (h : (getAll hdrs name).all (legalLine elem) = true) :
    listContains hdrs name tok = (fieldElems hdrs name).any fun e => eqIgnoreCase e tok := by
  unfold listContains fieldElems
  rw [filterMap_toStr_legal elem hvis _ h, listElems_combine, List.any_flatMap]
  apply any_congr_mem
  intro v hv
  exact lineContains_eq elem hows tok htok v ((List.all_eq_true.1 h) v hv)


theorem getAll_remove (name : List Nat) (hdrs : Headers) : getAll (remove name hdrs) name = [] := by
  unfold getAll remove
  induction hdrs with
  | nil => rfl
  | cons h t ih =>
    by_cases hn : h.1 = name
    · simp [hn]
    · simp [hn]

end Dropshot.Websocket
