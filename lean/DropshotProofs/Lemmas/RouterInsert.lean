/-
Helper lemmas: what `HttpRouter::insert` does to the set of stored endpoints
and to the structural invariants.
-/
import DropshotProofs.Lemmas.RouterWalk
import Mathlib.Order.Defs.LinearOrder

namespace Dropshot
variable {V : Type} [LinearOrder V]

/-! ### `handlersFor` / `setHandlers` on association lists -/

def storedOf (ms : List (String × List (Endpoint V))) : List (Endpoint V) := ms.flatMap (·.2)

theorem handlersFor_cons (k : String) (v : List (Endpoint V)) (tl : List (String × List (Endpoint V)))
    (m : String) : handlersFor ((k, v) :: tl) m = if k = m then v else handlersFor tl m := by
  unfold handlersFor
  by_cases h : k = m
  · simp [List.find?_cons, h]
  · have : (k == m) = false := by simpa using h
    simp [List.find?_cons, h, this]

theorem handlersFor_subset (ms : List (String × List (Endpoint V))) (m : String) (x : Endpoint V)
    (h : x ∈ handlersFor ms m) : x ∈ storedOf ms := by
  induction ms with
  | nil => simp [handlersFor] at h
  | cons p tl ih =>
    obtain ⟨k, v⟩ := p
    rw [handlersFor_cons] at h
    simp only [storedOf, List.flatMap_cons, List.mem_append]
    split at h
    · exact Or.inl h
    · exact Or.inr (ih h)

theorem mem_stored_addHandler_aux (ms : List (String × List (Endpoint V))) (m : String)
    (e x : Endpoint V) :
    x ∈ storedOf (setHandlers ms m (handlersFor ms m ++ [e])) ↔ x = e ∨ x ∈ storedOf ms := by
  induction ms with
  | nil => simp [setHandlers, handlersFor, storedOf]
  | cons p tl ih =>
    obtain ⟨k, v⟩ := p
    rw [handlersFor_cons]
    simp only [setHandlers]
    by_cases h1 : m = k
    · subst h1
      simp only [if_true, storedOf, List.flatMap_cons, List.mem_append, List.mem_singleton]
      grind
    · have h1' : ¬ k = m := fun h => h1 h.symm
      simp only [h1, h1', if_false]
      split
      · simp only [storedOf, List.flatMap_cons, List.mem_append, List.mem_singleton]
        have := handlersFor_subset tl m x
        simp only [storedOf] at this
        grind
      · simp only [storedOf, List.flatMap_cons, List.mem_append] at ih ⊢
        rw [ih]; grind

theorem mem_stored_addHandler (ms ms' : List (String × List (Endpoint V))) (e x : Endpoint V)
    (h : addHandler ms e = .ok ms') : x ∈ storedOf ms' ↔ x = e ∨ x ∈ storedOf ms := by
  unfold addHandler at h
  simp only at h
  split at h
  · cases h
  · simp only [Except.ok.injEq] at h
    subst h
    exact mem_stored_addHandler_aux ms _ e x

/-! ### Fresh chains -/
theorem Node.chain_all : ∀ (segs : List Seg) (seen : List String) (e : Endpoint V) (c : Node V)
    (pre : List Seg), Node.chain segs seen e = .ok c → Node.all c pre = [(pre ++ segs, e)]
  | [], seen, e, c, pre, h => by
    simp only [Node.chain, Except.ok.injEq] at h
    subst h
    simp [Node.all, Edges.all]
  | .lit s :: rest, seen, e, c, pre, h => by
    simp only [Node.chain] at h
    split at h
    · cases h
    · rename_i c' hc
      simp only [Except.ok.injEq] at h; subst h
      simp [Node.all, Edges.all, Children.all, Node.chain_all rest seen e c' (pre ++ [.lit s]) hc]
  | .var n :: rest, seen, e, c, pre, h => by
    simp only [Node.chain] at h
    split at h
    · cases h
    · split at h
      · cases h
      · rename_i c' hc
        simp only [Except.ok.injEq] at h; subst h
        simp [Node.all, Edges.all, Node.chain_all rest (n :: seen) e c' (pre ++ [.var n]) hc]
  | .wild n :: rest, seen, e, c, pre, h => by
    simp only [Node.chain] at h
    split at h
    · cases h
    · split at h
      · cases h
      · split at h
        · cases h
        · rename_i c' hc
          simp only [Except.ok.injEq] at h; subst h
          simp [Node.all, Edges.all, Node.chain_all rest (n :: seen) e c' (pre ++ [.wild n]) hc]

theorem Node.chain_cons_methods (seg : Seg) (rest : List Seg) (seen : List String) (e : Endpoint V)
    (ms : List (String × List (Endpoint V))) (es : Edges V)
    (h : Node.chain (seg :: rest) seen e = .ok (.mk ms es)) : ms = [] := by
  cases seg <;> simp only [Node.chain] at h <;> (repeat' split at h) <;> simp_all

theorem Edges.chain_all (seg : Seg) (rest : List Seg) (seen : List String) (e : Endpoint V)
    (ms : List (String × List (Endpoint V))) (es : Edges V) (pre : List Seg)
    (h : Node.chain (seg :: rest) seen e = .ok (.mk ms es)) :
    Edges.all es pre = [(pre ++ seg :: rest, e)] := by
  have h1 := Node.chain_all (seg :: rest) seen e _ pre h
  have h2 := Node.chain_cons_methods seg rest seen e ms es h
  subst h2
  simpa [Node.all] using h1


/-! ### The stored set after an insert -/


theorem Node.all_mk (ms : List (String × List (Endpoint V))) (es : Edges V) (pre : List Seg)
    (x : List Seg × Endpoint V) :
    x ∈ Node.all (.mk ms es) pre ↔ (x.1 = pre ∧ x.2 ∈ storedOf ms) ∨ x ∈ Edges.all es pre := by
  obtain ⟨a, e⟩ := x
  simp only [Node.all, List.mem_append, List.mem_flatMap, List.mem_map, Prod.mk.injEq, storedOf]
  constructor
  · rintro (⟨p, hp, e', he', rfl, rfl⟩ | h)
    · exact Or.inl ⟨rfl, p, hp, he'⟩
    · exact Or.inr h
  · rintro (⟨rfl, p, hp, he'⟩ | h)
    · exact Or.inl ⟨p, hp, e, he', rfl, rfl⟩
    · exact Or.inr h

mutual
  theorem Node.insertAt_all : ∀ (n : Node V) (segs : List Seg) (seen : List String)
      (e : Endpoint V) (n' : Node V) (pre : List Seg) (x : List Seg × Endpoint V),
      Node.insertAt n segs seen e = .ok n' →
      (x ∈ Node.all n' pre ↔ x = (pre ++ segs, e) ∨ x ∈ Node.all n pre)
    | .mk ms es, [], seen, e, n', pre, x, h => by
      simp only [Node.insertAt] at h
      split at h
      · cases h
      · rename_i ms' hms
        simp only [Except.ok.injEq] at h; subst h
        rw [Node.all_mk, Node.all_mk, mem_stored_addHandler ms ms' e x.2 hms]
        obtain ⟨a, e'⟩ := x
        simp only [List.append_nil, Prod.mk.injEq]
        grind
    | .mk ms es, seg :: rest, seen, e, n', pre, x, h => by
      simp only [Node.insertAt] at h
      split at h
      · cases h
      · rename_i es' hes
        simp only [Except.ok.injEq] at h; subst h
        rw [Node.all_mk, Node.all_mk, Edges.insertAt_all es seg rest seen e es' pre x hes]
        grind

  theorem Edges.insertAt_all : ∀ (es : Edges V) (seg : Seg) (rest : List Seg) (seen : List String)
      (e : Endpoint V) (es' : Edges V) (pre : List Seg) (x : List Seg × Endpoint V),
      Edges.insertAt es seg rest seen e = .ok es' →
      (x ∈ Edges.all es' pre ↔ x = (pre ++ seg :: rest, e) ∨ x ∈ Edges.all es pre)
    | .none, seg, rest, seen, e, es', pre, x, h => by
      simp only [Edges.insertAt] at h
      split at h
      · cases h
      · rename_i ms es0 hc
        simp only [Except.ok.injEq] at h; subst h
        rw [Edges.chain_all seg rest seen e ms es0 pre hc]
        simp [Edges.all]
    | .lits cs, .lit s, rest, seen, e, es', pre, x, h => by
      simp only [Edges.insertAt] at h
      split at h
      · cases h
      · rename_i cs' hcs
        simp only [Except.ok.injEq] at h; subst h
        simpa [Edges.all] using Children.insertAt_all cs s rest seen e cs' pre x hcs
    | .lits _, .var n, _, seen, _, _, _, _, h => by
      simp only [Edges.insertAt] at h; split at h <;> cases h
    | .lits _, .wild n, rest, seen, _, _, _, _, h => by
      simp only [Edges.insertAt] at h; (repeat' split at h) <;> cases h
    | .single _ _, .lit _, _, _, _, _, _, _, h => by simp [Edges.insertAt] at h
    | .single n' c, .var n, rest, seen, e, es', pre, x, h => by
      simp only [Edges.insertAt] at h
      split at h
      · cases h
      · split at h
        · cases h
        · rename_i hn
          split at h
          · cases h
          · rename_i c' hc
            simp only [Except.ok.injEq] at h; subst h
            have hn' : n = n' := by simpa using hn
            subst hn'
            have := Node.insertAt_all c rest (n :: seen) e c' (pre ++ [.var n]) x hc
            simpa [Edges.all] using this
    | .single _ _, .wild n, rest, seen, _, _, _, _, h => by
      simp only [Edges.insertAt] at h; (repeat' split at h) <;> cases h
    | .rest _ _, .lit _, _, _, _, _, _, _, h => by simp [Edges.insertAt] at h
    | .rest _ _, .var n, _, seen, _, _, _, _, h => by
      simp only [Edges.insertAt] at h; split at h <;> cases h
    | .rest n' c, .wild n, rest, seen, e, es', pre, x, h => by
      simp only [Edges.insertAt] at h
      split at h
      · cases h
      · split at h
        · cases h
        · split at h
          · cases h
          · rename_i hn
            split at h
            · cases h
            · rename_i c' hc
              simp only [Except.ok.injEq] at h; subst h
              have hn' : n = n' := by simpa using hn
              subst hn'
              have := Node.insertAt_all c rest (n :: seen) e c' (pre ++ [.wild n]) x hc
              simpa [Edges.all] using this

  theorem Children.insertAt_all : ∀ (cs : Children V) (k : String) (rest : List Seg)
      (seen : List String) (e : Endpoint V) (cs' : Children V) (pre : List Seg)
      (x : List Seg × Endpoint V),
      Children.insertAt cs k rest seen e = .ok cs' →
      (x ∈ Children.all cs' pre ↔ x = (pre ++ Seg.lit k :: rest, e) ∨ x ∈ Children.all cs pre)
    | .nil, k, rest, seen, e, cs', pre, x, h => by
      simp only [Children.insertAt] at h
      split at h
      · cases h
      · rename_i c hc
        simp only [Except.ok.injEq] at h; subst h
        simp [Children.all, Node.chain_all rest seen e c (pre ++ [.lit k]) hc]
    | .cons k' c tl, k, rest, seen, e, cs', pre, x, h => by
      simp only [Children.insertAt] at h
      split at h
      · rename_i hk; subst hk
        split at h
        · cases h
        · rename_i c' hc
          simp only [Except.ok.injEq] at h; subst h
          have := Node.insertAt_all c rest seen e c' (pre ++ [.lit k]) x hc
          simp only [Children.all, List.mem_append, this]
          simp; grind
      · split at h
        · split at h
          · cases h
          · rename_i cn hc
            simp only [Except.ok.injEq] at h; subst h
            simp [Children.all, Node.chain_all rest seen e cn (pre ++ [.lit k]) hc]
        · split at h
          · cases h
          · rename_i tl' htl
            simp only [Except.ok.injEq] at h; subst h
            have := Children.insertAt_all tl k rest seen e tl' pre x htl
            simp only [Children.all, List.mem_append, this]
            grind
end


end Dropshot
