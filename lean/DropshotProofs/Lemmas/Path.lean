/-
Lemmas about the request-path model (DropshotModel/Path.lean): splitting on
`/`, the non-empty raw segments, and `collect`.
-/
import DropshotModel.Path
import DropshotProofs.Lemmas.Percent
import DropshotProofs.Lemmas.Utf8

namespace Dropshot.Path
open Dropshot.Percent Dropshot.Utf8

theorem splitSlash_ne_nil (p : Bytes) : splitSlash p ≠ [] := by
  fun_induction splitSlash p <;> simp_all

theorem splitSlash_cons_slash (p : Bytes) : splitSlash (47 :: p) = [] :: splitSlash p := by
  rw [splitSlash]; simp

theorem splitSlash_exists (p : Bytes) : ∃ s ss, splitSlash p = s :: ss := by
  cases h : splitSlash p with
  | nil => exact absurd h (splitSlash_ne_nil p)
  | cons s ss => exact ⟨s, ss, rfl⟩

theorem splitSlash_cons_ne (b : Nat) (p s : Bytes) (ss : List Bytes) (h : b ≠ 47)
    (hs : splitSlash p = s :: ss) : splitSlash (b :: p) = (b :: s) :: ss := by
  rw [splitSlash]; simp only [h, ↓reduceIte, hs]

/-- Splitting distributes over a `/`. -/
theorem splitSlash_append_slash (a b : Bytes) :
    splitSlash (a ++ 47 :: b) = splitSlash a ++ splitSlash b := by
  induction a with
  | nil => simp [splitSlash_cons_slash, splitSlash]
  | cons x a ih =>
    by_cases hx : x = 47
    · subst hx; simp [splitSlash_cons_slash, ih]
    · obtain ⟨s, ss, hs⟩ := splitSlash_exists a
      simp only [List.cons_append]
      rw [splitSlash_cons_ne x a s ss hx hs,
        splitSlash_cons_ne x (a ++ 47 :: b) s (ss ++ splitSlash b) hx (by rw [ih, hs]; rfl)]
      rfl

theorem splitSlash_noslash (s : Bytes) (h : 47 ∉ s) : splitSlash s = [s] := by
  induction s with
  | nil => rfl
  | cons b s ih =>
    have hb : b ≠ 47 := fun e => h (by simp [e])
    have := ih (fun m => h (by simp [m]))
    rw [splitSlash_cons_ne b s s [] hb this]

theorem mem_splitSlash_noslash (p : Bytes) : ∀ r ∈ splitSlash p, 47 ∉ r := by
  fun_induction splitSlash p <;> simp_all <;> grind

/-! ### rawSegments -/

theorem rawSegments_append_slash (a b : Bytes) :
    rawSegments (a ++ 47 :: b) = rawSegments a ++ rawSegments b := by
  simp [rawSegments, splitSlash_append_slash]

theorem rawSegments_nil : rawSegments [] = [] := by decide

theorem rawSegments_cons_slash (p : Bytes) : rawSegments (47 :: p) = rawSegments p := by
  simp [rawSegments, splitSlash_cons_slash]

theorem rawSegments_append_slash_end (p : Bytes) : rawSegments (p ++ [47]) = rawSegments p := by
  rw [rawSegments_append_slash, rawSegments_nil, List.append_nil]

theorem rawSegments_noslash (s : Bytes) (h : 47 ∉ s) (hne : s ≠ []) : rawSegments s = [s] := by
  simp [rawSegments, splitSlash_noslash s h, hne]

theorem mem_rawSegments (p r : Bytes) (h : r ∈ rawSegments p) : r ≠ [] ∧ 47 ∉ r := by
  simp only [rawSegments, List.mem_filter, decide_eq_true_eq] at h
  exact ⟨h.2, mem_splitSlash_noslash p r h.1⟩

/-- Joining good segments with one leading `/` each and splitting again is the identity. -/
theorem rawSegments_join (segs : List Bytes) (h : ∀ s ∈ segs, s ≠ [] ∧ 47 ∉ s) :
    rawSegments (segs.flatMap (47 :: ·)) = segs := by
  induction segs with
  | nil => exact rawSegments_nil
  | cons s segs ih =>
    have hs := h s (by simp)
    have ih := ih (fun s hs => h s (by simp [hs]))
    simp only [List.flatMap_cons, List.cons_append]
    rw [rawSegments_cons_slash]
    cases hseg : segs with
    | nil => simp [rawSegments_noslash s hs.2 hs.1]
    | cons t ts =>
      subst hseg
      simp only [List.flatMap_cons, List.cons_append] at *
      rw [rawSegments_append_slash, rawSegments_noslash s hs.2 hs.1]
      rw [rawSegments_cons_slash] at ih
      simp [ih]

theorem rawSegments_canon (p : Bytes) : rawSegments (canon p) = rawSegments p :=
  rawSegments_join _ (fun s hs => mem_rawSegments p s hs)

/-! ### collect -/

theorem checkSeg_ok_iff (r d : Bytes) :
    checkSeg r = .ok d ↔ d = pctDecode r ∧ utf8Valid d = true ∧ d ≠ dot ∧ d ≠ dotdot := by
  unfold checkSeg
  simp only
  split
  · split
    · simp; grind
    · simp; grind
  · simp; grind

theorem checkSeg_error_iff (r : Bytes) :
    (∃ e, checkSeg r = .error e) ↔
      (utf8Valid (pctDecode r) = false ∨ pctDecode r = dot ∨ pctDecode r = dotdot) := by
  unfold checkSeg
  simp only
  split
  · split <;> simp_all
  · simp_all

theorem collect_ok_iff (f : Bytes → Except PathErr Bytes) (rs ds : List Bytes) :
    collect f rs = .ok ds ↔ rs.map f = ds.map .ok := by
  induction rs generalizing ds with
  | nil => cases ds <;> simp [collect]
  | cons r rs ih =>
    rw [collect]
    split
    · rename_i e he
      cases ds <;> simp [he]
    · rename_i d hd
      split
      · rename_i e he
        cases ds with
        | nil => simp
        | cons d' ds' =>
          have := ih ds'
          simp [he] at this
          simp [hd]; intro _; exact this
      · rename_i ds' hds
        cases ds with
        | nil => simp
        | cons d' ds'' =>
          have h1 := ih ds'
          have h2 := ih ds''
          simp [hds] at h1 h2
          simp [hd]
          grind

theorem collect_error_of_mem (f : Bytes → Except PathErr Bytes) (rs : List Bytes) (r : Bytes)
    (hr : r ∈ rs) (he : ∃ e, f r = .error e) : ∃ e, collect f rs = .error e := by
  induction rs with
  | nil => cases hr
  | cons x rs ih =>
    rw [collect]
    rcases List.mem_cons.1 hr with rfl | hr
    · obtain ⟨e, he⟩ := he; rw [he]; exact ⟨e, rfl⟩
    · split
      · exact ⟨_, rfl⟩
      · obtain ⟨e, h⟩ := ih hr; rw [h]; exact ⟨e, rfl⟩

theorem collect_ok_of_all (f : Bytes → Except PathErr Bytes) (rs : List Bytes)
    (h : ∀ r ∈ rs, ∃ d, f r = .ok d) : ∃ ds, collect f rs = .ok ds := by
  induction rs with
  | nil => exact ⟨[], rfl⟩
  | cons x rs ih =>
    obtain ⟨d, hd⟩ := h x (by simp)
    obtain ⟨ds, hds⟩ := ih (fun r hr => h r (by simp [hr]))
    exact ⟨d :: ds, by rw [collect, hd, hds]⟩

end Dropshot.Path
