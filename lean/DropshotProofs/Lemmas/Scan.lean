/-
Helper lemmas for C15: a keyset page resumed after a prefix of a strictly
sorted collection is the next `limit` items of the rest; the scan that follows
next-page selectors lists the rest page by page (`scanFrom_spec`, by induction
on the fuel with the remaining length as the measure).
-/
import DropshotModel.Pagination
namespace Dropshot.Pagination

variable {α : Type}

/-- `coll` is listed in strictly increasing scan order. -/
def Sorted (lt : α → α → Bool) (coll : List α) : Prop := coll.Pairwise fun a b => lt a b = true

/-- `lt` is a strict order (irreflexive, transitive). -/
structure StrictOrder (lt : α → α → Bool) : Prop where
  irrefl : ∀ a, lt a a = false
  trans : ∀ a b c, lt a b = true → lt b c = true → lt a c = true

theorem dropWhile_append_all (p : α → Bool) (l1 l2 : List α) (h : ∀ x ∈ l1, p x = true) :
    (l1 ++ l2).dropWhile p = l2.dropWhile p := by
  induction l1 with
  | nil => rfl
  | cons a t ih =>
    simp only [List.cons_append, List.dropWhile_cons, h a (by simp), if_true]
    exact ih fun x hx => h x (by simp [hx])

theorem dropWhile_none (p : α → Bool) (l : List α) (h : ∀ x ∈ l, p x = false) : l.dropWhile p = l := by
  cases l with
  | nil => rfl
  | cons a t => simp [h a (by simp)]

theorem page_suffix (lt : α → α → Bool) (ho : StrictOrder lt) (pre post : List α) (L : Nat)
    (hs : Sorted lt (pre ++ post)) :
    page lt (pre ++ post) L pre.getLast? = post.take L := by
  rcases List.eq_nil_or_concat pre with rfl | ⟨pre', a, rfl⟩
  · rfl
  · rw [List.concat_eq_append] at hs ⊢
    have hl : (pre' ++ [a]).getLast? = some a := by simp
    rw [hl]
    simp only [page]
    unfold Sorted at hs
    rw [List.pairwise_append] at hs
    obtain ⟨h1, h2, h3⟩ := hs
    rw [List.pairwise_append] at h1
    obtain ⟨_, _, h13⟩ := h1
    rw [dropWhile_append_all, dropWhile_none]
    · intro x hx
      simp [h3 a (by simp) x hx]
    · intro x hx
      rcases List.mem_append.1 hx with hx | hx
      · have hxa := h13 x hx a (by simp)
        cases hax : lt a x with
        | false => rfl
        | true => have := ho.trans a x a hax hxa; rw [ho.irrefl] at this; cases this
      · simp at hx; subst hx; simp [ho.irrefl]


theorem ceil_step (n L : Nat) (hL : 0 < L) (hn : 0 < n) :
    (n + L - 1) / L = (n - min L n + L - 1) / L + 1 := by
  by_cases h : L ≤ n
  · rw [Nat.min_eq_left h]
    have e1 : n + L - 1 = (n - 1) + L := by omega
    have e2 : n - L + L - 1 = n - 1 := by omega
    rw [e1, e2, Nat.add_div_right _ hL]
  · have hlt : n < L := by omega
    rw [Nat.min_eq_right (by omega)]
    have e1 : n + L - 1 = (n - 1) + L := by omega
    have e2 : n - n + L - 1 = L - 1 := by omega
    rw [e1, e2, Nat.add_div_right _ hL, Nat.div_eq_of_lt (by omega), Nat.div_eq_of_lt (by omega)]

theorem nextSelector_id (p : List α) : nextSelector id p = p.getLast? := by
  simp [nextSelector]

/-- Everything about a scan resumed after `pre`: it lists exactly `post`, page
by page. -/
theorem scanFrom_spec (lt : α → α → Bool) (ho : StrictOrder lt) (L : Nat) (hL : 0 < L) :
    ∀ (f : Nat) (pre post : List α), Sorted lt (pre ++ post) → post.length + 2 ≤ f →
      (scanFrom lt (pre ++ post) L f pre.getLast?).2 = false ∧
      (scanFrom lt (pre ++ post) L f pre.getLast?).1.flatten = post ∧
      (∀ p ∈ (scanFrom lt (pre ++ post) L f pre.getLast?).1, p.length ≤ L) ∧
      (scanFrom lt (pre ++ post) L f pre.getLast?).1.length = (post.length + L - 1) / L + 1 ∧
      (scanFrom lt (pre ++ post) L f pre.getLast?).1.getLast? = some [] ∧
      (∀ p ∈ (scanFrom lt (pre ++ post) L f pre.getLast?).1.dropLast, p ≠ []) := by
  intro f
  induction f with
  | zero => intro pre post _ hf; omega
  | succ f ih =>
    intro pre post hs hf
    have hp := page_suffix lt ho pre post L hs
    unfold scanFrom
    simp only [hp, nextSelector_id]
    cases hpost : post with
    | nil =>
      simp only [List.take_nil, List.getLast?_nil]
      refine ⟨by simp, by simp, by simp, ?_, by simp, by simp⟩
      simp only [List.length_cons, List.length_nil]
      rw [Nat.div_eq_of_lt (by omega)]
    | cons b t =>
      rw [← hpost]
      have hne : post.take L ≠ [] := by
        rw [hpost]; cases L with
        | zero => omega
        | succ L => simp
      obtain ⟨last, hlast⟩ : ∃ last, (post.take L).getLast? = some last := by
        cases h : (post.take L).getLast? with
        | none => rw [List.getLast?_eq_none_iff] at h; exact absurd h hne
        | some l => exact ⟨l, rfl⟩
      simp only [hlast]
      have hsplit : pre ++ post = (pre ++ post.take L) ++ post.drop L := by
        rw [List.append_assoc, List.take_append_drop]
      have hlast' : (pre ++ post.take L).getLast? = some last := by
        rw [List.getLast?_append, hlast]; rfl
      have hlen : (post.drop L).length + 2 ≤ f := by
        rw [List.length_drop]
        have : 0 < post.length := by rw [hpost]; simp
        omega
      have := ih (pre ++ post.take L) (post.drop L) (by rw [← hsplit]; exact hs) hlen
      rw [← hsplit, hlast'] at this
      obtain ⟨h1, h2, h3, h4, h5, h6⟩ := this
      refine ⟨h1, ?_, ?_, ?_, ?_, ?_⟩
      · simp only [List.flatten_cons, h2, List.take_append_drop]
      · intro p hp'
        rcases List.mem_cons.1 hp' with rfl | hp'
        · simp [List.length_take]; omega
        · exact h3 p hp'
      · simp only [List.length_cons, h4, List.length_drop]
        have hn : 0 < post.length := by rw [hpost]; simp
        have := ceil_step post.length L hL hn
        have hm : post.length - min L post.length = post.length - L := by
          by_cases h : L ≤ post.length
          · rw [Nat.min_eq_left h]
          · rw [Nat.min_eq_right (by omega)]; omega
        rw [hm] at this
        omega
      · cases hr : (scanFrom lt (pre ++ post) L f (some last)).1 with
        | nil => rw [hr] at h5; simp at h5
        | cons q qs => rw [hr] at h5; simp only [List.getLast?_cons_cons]; exact h5
      · cases hr : (scanFrom lt (pre ++ post) L f (some last)).1 with
        | nil => rw [hr] at h5; simp at h5
        | cons q qs =>
          rw [hr] at h6
          simp only [List.dropLast_cons_cons]
          intro p hp'
          rcases List.mem_cons.1 hp' with rfl | hp'
          · exact hne
          · exact h6 p hp'

end Dropshot.Pagination
