/-
Helper lemmas for the isolation LTS (C18): prefix closure, projection onto the
lifecycle LTS, the listener invariant, fault slots summarise the trace.
-/
import DropshotModel.Isolation
import DropshotProofs.Lemmas.Lifecycle

namespace Dropshot.Isolation
open Dropshot.Lifecycle (Mode upd upd_apply)

theorem run_append (m : Mode) (s : State) (a b : List Event) :
    run m s (a ++ b) = (run m s a).bind fun s' => run m s' b := by
  induction a generalizing s with
  | nil => simp [run]
  | cons e a ih =>
    simp only [List.cons_append, run]
    cases step m s e with
    | none => simp
    | some s' => simpa using ih s'

theorem run_prefix {m : Mode} {s s' : State} {a b : List Event}
    (h : run m s (a ++ b) = some s') : ∃ s1, run m s a = some s1 ∧ run m s1 b = some s' := by
  rw [run_append] at h
  cases h1 : run m s a with
  | none => simp [h1] at h
  | some s1 => exact ⟨s1, rfl, by simpa [h1] using h⟩

theorem run_cons {m : Mode} {s s' : State} {e : Event} {tr : List Event}
    (h : run m s (e :: tr) = some s') : ∃ s1, step m s e = some s1 ∧ run m s1 tr = some s' := by
  simp only [run] at h
  cases hs : step m s e with
  | none => simp [hs] at h
  | some s1 => exact ⟨s1, rfl, by simpa [hs] using h⟩

theorem lcTrace_append (a b : List Event) : lcTrace (a ++ b) = lcTrace a ++ lcTrace b := by
  induction a with
  | nil => rfl
  | cons e a ih => cases e <;> simp [lcTrace, ih]

theorem mem_lcTrace (e : Lifecycle.Event) (tr : List Event) : e ∈ lcTrace tr ↔ Event.lc e ∈ tr := by
  induction tr with
  | nil => simp [lcTrace]
  | cons x tr ih => cases x <;> simp [lcTrace, ih]

/-- No event changes the listener. -/
theorem step_listener {m : Mode} {s s' : State} {e : Event} (h : step m s e = some s') :
    s'.listenerUp = s.listenerUp := by
  cases e <;> simp only [step] at h <;> (repeat' split at h) <;> (try (cases h; done)) <;>
    (cases h; rfl)

theorem run_listener {m : Mode} {s s' : State} {tr : List Event} (h : run m s tr = some s') :
    s'.listenerUp = s.listenerUp := by
  induction tr generalizing s with
  | nil => simp only [run] at h; cases h; rfl
  | cons e tr ih =>
    obtain ⟨s1, h1, h2⟩ := run_cons h
    rw [ih h2, step_listener h1]

/-- Trace/state summary of the isolation layer: fault slots and client flags
come from the trace. -/
structure FInv (tr : List Event) (s : State) : Prop where
  faultedEv : ∀ c f, s.faulted c = some f → Event.fault c f ∈ tr
  goneEv : ∀ c, s.lc.gone c = true → Event.lc (.disconnect c) ∈ tr ∨ ∃ f, Event.fault c f ∈ tr
  connEv : ∀ r c, (s.lc.req r).conn = some c → Event.lc (.reqSent c r) ∈ tr
  deadWhy : ∀ c, s.lc.dead c = true → ∃ r, (s.lc.req r).conn = some c
  busyWhy : ∀ c r, s.lc.busy c = some r → (s.lc.req r).conn = some c

theorem finv_init : FInv [] init := by
  constructor <;> simp [init, Lifecycle.init]

theorem finv_step {m : Mode} {tr : List Event} {s s' : State} {e : Event}
    (hi : FInv tr s) (hs : step m s e = some s') : FInv (tr ++ [e]) s' := by
  obtain ⟨h1, h2, h3, h4, h5⟩ := hi
  cases e with
  | lc e =>
    simp only [step] at hs
    split at hs
    · rename_i l hl
      cases hs
      cases e <;>
        simp only [Lifecycle.step, Lifecycle.finish, Lifecycle.clearBusy] at hl <;>
        (repeat' split at hl) <;> (try (cases hl; done)) <;>
        (cases hl
         constructor <;> (try intro x) <;> (try simp) <;> grind)
    · cases hs
  | fault c f =>
    simp only [step] at hs
    split at hs
    · cases hs
      by_cases hf : f = .handlerPanic <;>
        (constructor <;> (try intro x) <;> (try simp [goneAfterFault, hf]) <;> grind)
    · cases hs
  | health ok =>
    simp only [step] at hs
    split at hs
    · cases hs
      constructor <;> (try intro x) <;> (try simp) <;> grind
    · cases hs

theorem finv_run {m : Mode} {tr0 tr : List Event} {s0 s : State}
    (hi : FInv tr0 s0) (hr : run m s0 tr = some s) : FInv (tr0 ++ tr) s := by
  induction tr generalizing tr0 s0 with
  | nil => simp only [run] at hr; cases hr; simpa using hi
  | cons e tr ih =>
    obtain ⟨s1, h1, h2⟩ := run_cons hr
    have := ih (finv_step hi h1) h2
    simpa using this

theorem finv_of_run {m : Mode} {tr : List Event} {s : State}
    (hr : run m init tr = some s) : FInv tr s := by
  simpa using finv_run finv_init hr

/-- The lifecycle view of a trace: a fault (other than the panicking handler,
whose client stays) is the client giving up its connection. -/
def lcView : List Event → List Lifecycle.Event
  | [] => []
  | .lc e :: tr => e :: lcView tr
  | .fault c f :: tr => if f = .handlerPanic then lcView tr else .disconnect c :: lcView tr
  | .health _ :: tr => lcView tr

theorem mem_lcView_reqSent (c r : Nat) (tr : List Event) :
    Lifecycle.Event.reqSent c r ∈ lcView tr ↔ Event.lc (.reqSent c r) ∈ tr := by
  induction tr with
  | nil => simp [lcView]
  | cons x tr ih =>
    cases x with
    | lc e => simp [lcView, ih]
    | fault c' f => by_cases hf : f = .handlerPanic <;> simp [lcView, hf, ih]
    | health ok => simp [lcView, ih]

theorem mem_lcView_disconnect (c : Nat) (tr : List Event) :
    Lifecycle.Event.disconnect c ∈ lcView tr →
      Event.lc (.disconnect c) ∈ tr ∨ ∃ f, Event.fault c f ∈ tr := by
  induction tr with
  | nil => simp [lcView]
  | cons x tr ih =>
    cases x with
    | lc e => simp only [lcView, List.mem_cons]; grind
    | fault c' f =>
      by_cases hf : f = .handlerPanic
      · simp only [lcView, hf, if_true, List.mem_cons]; grind
      · simp only [lcView, hf, if_false, List.mem_cons]
        rintro (h | h)
        · cases h; exact Or.inr ⟨f, Or.inl rfl⟩
        · rcases ih h with h | ⟨g, h⟩
          · exact Or.inl (Or.inr h)
          · exact Or.inr ⟨g, Or.inr h⟩
    | health ok => simp only [lcView, List.mem_cons]; grind

/-- The isolation LTS projects onto the lifecycle LTS. -/
theorem run_lc {m : Mode} {s s' : State} {tr : List Event} (h : run m s tr = some s') :
    Lifecycle.run m s.lc (lcView tr) = some s'.lc := by
  induction tr generalizing s with
  | nil => simp only [run] at h; cases h; rfl
  | cons e tr ih =>
    obtain ⟨s1, h1, h2⟩ := run_cons h
    have := ih h2
    cases e with
    | lc e =>
      simp only [step] at h1
      split at h1
      · rename_i l hl
        cases h1
        simp [lcView, Lifecycle.run, hl, this]
      · cases h1
    | fault c f =>
      simp only [step] at h1
      split at h1
      · rename_i hg
        cases h1
        by_cases hf : f = .handlerPanic
        · simpa [lcView, hf, goneAfterFault] using this
        · simp only [lcView, hf, if_false, Lifecycle.run, Lifecycle.step, hg.2, if_true]
          simpa [goneAfterFault, hf] using this
      · cases h1
    | health ok =>
      simp only [step] at h1
      split at h1
      · cases h1; simpa [lcView] using this
      · cases h1

end Dropshot.Isolation
