/-
Lemmas for structs with a `#[serde(flatten)]`-ed part (`Extract.mapDeFlat`):
when every member of the flattened part is read from a string (string, char,
unit-variant enum, or an `Option` of those), the two-phase decoding serde
performs (outer fields directly, the rest buffered and decoded afterwards) is
indistinguishable from decoding the struct with the members written inline.
-/
import DropshotModel.Extract
import DropshotProofs.Lemmas.Extract

namespace Dropshot.Extract

/-- Member types a buffered string can fill. -/
def STy.strLike : STy → Bool
  | .string => true
  | .char => true
  | .enum _ => true
  | _ => false

def FTy.strLike : FTy → Bool
  | .scalar t => t.strLike
  | .option t => t.strLike
  | _ => false

theorem deContentScalar_eq (t : STy) (h : t.strLike = true) (s : Bytes) :
    deContentScalar t s = deScalar t s := by
  cases t <;> simp_all [STy.strLike, deContentScalar, deScalar]

theorem deContentField_eq (ft : FTy) (h : ft.strLike = true) (s : Bytes) :
    deContentField ft s = deField ft (.str s) := by
  cases ft with
  | scalar t => simp [deContentField, deField, deContentScalar_eq t (by simpa [FTy.strLike] using h)]
  | option t => simp [deContentField, deField, deContentScalar_eq t (by simpa [FTy.strLike] using h)]
  | seq t => simp [FTy.strLike] at h
  | nested => simp [FTy.strLike] at h

/-- A string-like member is never filled from a `Components` value. -/
theorem deField_comps_strLike (ft : FTy) (h : ft.strLike = true) (cs : List Bytes) (fv : FVal) :
    deField ft (.comps cs) ≠ .ok fv := by
  cases ft <;> simp_all [FTy.strLike, deField]

theorem lookupField_append (a b : List (Bytes × FTy)) (k : Bytes) :
    lookupField (a ++ b) k =
      match lookupField a k with
      | some t => some t
      | none => lookupField b k := by
  unfold lookupField
  rw [List.find?_append]
  cases List.find? (fun f => decide (f.1 = k)) a <;> simp

theorem lookupGot_cons' (k : Bytes) (fv : FVal) (g : List (Bytes × FVal)) (k' : Bytes) :
    lookupGot ((k, fv) :: g) k' = if k = k' then some fv else lookupGot g k' := by
  unfold lookupGot
  by_cases h : k = k' <;> simp [List.find?_cons, h]

/-- `deFlatInner` over an appended buffer. -/
theorem deFlatInner_append (inner : List (Bytes × FTy)) (b1 b2 : List (Bytes × Bytes))
    (g : List (Bytes × FVal)) :
    deFlatInner inner (b1 ++ b2) g =
      match deFlatInner inner b1 g with
      | .error e => .error e
      | .ok g' => deFlatInner inner b2 g' := by
  induction b1 generalizing g with
  | nil => simp [deFlatInner]
  | cons x xs ih =>
    obtain ⟨k, s⟩ := x
    simp only [List.cons_append, deFlatInner]
    cases lookupField inner k with
    | none => exact ih g
    | some ft =>
      simp only
      split
      · rfl
      · cases deContentField ft s with
        | error e => rfl
        | ok fv => exact ih _

/-- What links the accumulator of the inline decoding to the two accumulators
of the flattened one. -/
structure FlatRel (outer : List (Bytes × FTy)) (gM gO gI : List (Bytes × FVal)) : Prop where
  outerKeys : ∀ k, (lookupField outer k).isSome = true → lookupGot gM k = lookupGot gO k
  otherKeys : ∀ k, lookupField outer k = none → lookupGot gM k = lookupGot gI k

theorem flat_simulation (outer inner : List (Bytes × FTy))
    (hstr : ∀ k ft, lookupField inner k = some ft → ft.strLike = true)
    (vars : VarSet) :
    ∀ (gM gO gI : List (Bytes × FVal)) (buf : List (Bytes × Bytes)) (gM' : List (Bytes × FVal)),
      FlatRel outer gM gO gI → deFlatInner inner buf [] = .ok gI →
      deEntries (outer ++ inner) vars gM = .ok gM' →
      ∃ gO' buf' gI', deFlatEntries outer vars gO buf = .ok (gO', buf') ∧
        deFlatInner inner buf' [] = .ok gI' ∧ FlatRel outer gM' gO' gI' := by
  induction vars with
  | nil =>
    intro gM gO gI buf gM' hrel hin h
    simp only [deEntries, Except.ok.injEq] at h
    subst h
    exact ⟨gO, buf, gI, by simp [deFlatEntries], hin, hrel⟩
  | cons x rest ih =>
    obtain ⟨k, val⟩ := x
    intro gM gO gI buf gM' hrel hin h
    simp only [deEntries, lookupField_append] at h
    simp only [deFlatEntries]
    cases ho : lookupField outer k with
    | some ft =>
      simp only [ho] at h ⊢
      have hdup : lookupGot gM k = lookupGot gO k := hrel.outerKeys k (by simp [ho])
      rw [← hdup]
      split at h
      · cases h
      · rename_i hnd
        simp only [hnd, Bool.false_eq_true, ↓reduceIte]
        cases hf : deField ft val with
        | error e => simp [hf] at h
        | ok fv =>
          simp only [hf] at h ⊢
          refine ih _ _ gI buf gM' ⟨?_, ?_⟩ hin h
          · intro k' hk'
            rw [lookupGot_cons', lookupGot_cons', hrel.outerKeys k' hk']
          · intro k' hk'
            have hne : k ≠ k' := by
              intro e; subst e; simp [ho] at hk'
            rw [lookupGot_cons', if_neg hne, hrel.otherKeys k' hk']
    | none =>
      simp only [ho] at h ⊢
      cases hi : lookupField inner k with
      | none =>
        simp only [hi] at h
        cases val with
        | comps cs => simp at h
        | str s =>
          simp only at h ⊢
          refine ih gM gO gI (buf ++ [(k, s)]) gM' hrel ?_ h
          rw [deFlatInner_append, hin]
          simp [deFlatInner, hi]
      | some ft =>
        simp only [hi] at h
        have hsl := hstr k ft hi
        split at h
        · cases h
        · rename_i hnd
          cases hf : deField ft val with
          | error e => simp [hf] at h
          | ok fv =>
            simp only [hf] at h
            cases val with
            | comps cs => exact absurd hf (deField_comps_strLike ft hsl cs fv)
            | str s =>
              simp only
              have hgI : lookupGot gI k = none := by
                rw [← hrel.otherKeys k ho]
                cases hh : lookupGot gM k with
                | none => rfl
                | some _ => simp [hh] at hnd
              refine ih _ gO ((k, fv) :: gI) (buf ++ [(k, s)]) gM' ⟨?_, ?_⟩ ?_ h
              · intro k' hk'
                have hne : k ≠ k' := by
                  intro e; subst e; simp [ho] at hk'
                rw [lookupGot_cons', if_neg hne, hrel.outerKeys k' hk']
              · intro k' hk'
                rw [lookupGot_cons', lookupGot_cons', hrel.otherKeys k' hk']
              · rw [deFlatInner_append, hin]
                simp [deFlatInner, hi, hgI, deContentField_eq ft hsl s, hf]

theorem finish_append (got : List (Bytes × FVal)) (a b : List (Bytes × FTy)) :
    finish got (a ++ b) =
      match finish got a with
      | .error e => .error e
      | .ok o =>
        match finish got b with
        | .error e => .error e
        | .ok i => .ok (o ++ i) := by
  induction a with
  | nil =>
    simp only [List.nil_append, finish]
    cases finish got b <;> rfl
  | cons x xs ih =>
    obtain ⟨name, ft⟩ := x
    simp only [List.cons_append, finish, ih]
    split
    · rfl
    · cases finish got xs with
      | error e => rfl
      | ok o => cases finish got b <;> rfl

theorem finish_congr (g g' : List (Bytes × FVal)) (fs : List (Bytes × FTy))
    (h : ∀ f ∈ fs, lookupGot g f.1 = lookupGot g' f.1) : finish g fs = finish g' fs := by
  induction fs with
  | nil => rfl
  | cons x xs ih =>
    obtain ⟨name, ft⟩ := x
    have h1 := h (name, ft) (by simp)
    simp only at h1
    simp only [finish, h1, ih (fun f hf => h f (by simp [hf]))]

theorem lookupField_isSome_of_mem (fs : List (Bytes × FTy)) (f : Bytes × FTy) (h : f ∈ fs) :
    (lookupField fs f.1).isSome = true := by
  unfold lookupField
  cases hh : List.find? (fun g => decide (g.1 = f.1)) fs with
  | some g => rfl
  | none =>
    have := List.find?_eq_none.1 hh f h
    simp at this

/-- **Flattening is transparent** for parts whose members are read from strings:
whenever the struct with the members written inline decodes to `v`, so does the
struct with the flattened part - the handler receives the same value. -/
theorem mapDeFlat_eq_inline (outer inner : List (Bytes × FTy)) (vars : VarSet) (v : Val)
    (hdisj : ∀ f ∈ inner, lookupField outer f.1 = none)
    (hstr : ∀ f ∈ inner, f.2.strLike = true)
    (h : mapDe (.struct (outer ++ inner)) vars = .ok v) :
    mapDeFlat outer inner vars = .ok v := by
  simp only [mapDe, deStruct] at h
  cases hE : deEntries (outer ++ inner) vars [] with
  | error e => simp [hE] at h
  | ok gM =>
    simp only [hE] at h
    have hstr' : ∀ k ft, lookupField inner k = some ft → ft.strLike = true := by
      intro k ft hk
      unfold lookupField at hk
      cases hh : List.find? (fun f => decide (f.1 = k)) inner with
      | none => simp [hh] at hk
      | some f =>
        simp only [hh, Option.some.injEq] at hk
        subst hk
        exact hstr f (List.mem_of_find?_eq_some hh)
    obtain ⟨gO, buf, gI, h1, h2, hrel⟩ :=
      flat_simulation outer inner hstr' vars [] [] [] [] gM ⟨fun _ _ => rfl, fun _ _ => rfl⟩
        (by simp [deFlatInner]) hE
    rw [finish_append] at h
    have eO : finish gM outer = finish gO outer :=
      finish_congr _ _ _ fun f hf => hrel.outerKeys f.1 (lookupField_isSome_of_mem outer f hf)
    have eI : finish gM inner = finish gI inner :=
      finish_congr _ _ _ fun f hf => hrel.otherKeys f.1 (hdisj f hf)
    rw [eO, eI] at h
    simp only [mapDeFlat, h1, h2]
    exact h

end Dropshot.Extract
