/-
Helper lemmas for C14/C15: printed JSON consists of bytes (< 256), a token
built from a JSON document reads back to that document, decimal spelling of
limits.
-/
import DropshotModel.Pagination
import DropshotProofs.Lemmas.Json
import DropshotProofs.Lemmas.Base64

namespace Dropshot.Json

def allBytes (bs : List Nat) : Prop := ∀ b ∈ bs, b < 256

theorem allBytes_append {a b : List Nat} (ha : allBytes a) (hb : allBytes b) : allBytes (a ++ b) := by
  intro x hx; rcases List.mem_append.1 hx with h | h
  · exact ha x h
  · exact hb x h

theorem allBytes_cons {a : Nat} {b : List Nat} (ha : a < 256) (hb : allBytes b) : allBytes (a :: b) := by
  intro x hx; rcases List.mem_cons.1 hx with h | h
  · omega
  · exact hb x h

theorem allBytes_nil : allBytes [] := by intro x hx; cases hx

theorem hexDigit_lt (k : Nat) (h : k < 16) : hexDigit k < 256 := by
  unfold hexDigit; split <;> omega

theorem escByte_bytes (b : Nat) (h : b < 256) : allBytes (escByte b) := by
  unfold escByte
  repeat' split
  all_goals intro x hx; simp at hx
  all_goals first
    | omega
    | (rcases hx with rfl | rfl | rfl | rfl | rfl | rfl
       all_goals first
         | omega
         | exact hexDigit_lt _ (by omega))

theorem ok3_range (b0 b1 : Nat) (h : ok3 b0 b1 = true) : 128 ≤ b1 ∧ b1 ≤ 191 := by
  simp only [ok3, decide_eq_true_eq] at h
  by_cases h1 : b0 = 224 <;> by_cases h2 : b0 = 237 <;> simp [h1, h2] at h <;> omega

theorem ok4_range (b0 b1 : Nat) (h : ok4 b0 b1 = true) : 128 ≤ b1 ∧ b1 ≤ 191 := by
  simp only [ok4, decide_eq_true_eq] at h
  by_cases h1 : b0 = 240 <;> by_cases h2 : b0 = 244 <;> simp [h1, h2] at h <;> omega

theorem utf8Ok_bytes (s : List Nat) (h : utf8Ok s = true) : allBytes s := by
  fun_induction utf8Ok s with
  | case1 => exact allBytes_nil
  | case2 b0 r hb ih => exact allBytes_cons (by omega) (ih h)
  | case3 b0 h1 h2 b1 r ih =>
    simp only [Bool.and_eq_true, isCont, decide_eq_true_eq] at h
    exact allBytes_cons (by omega) (allBytes_cons (by omega) (ih h.2))
  | case4 => simp_all
  | case5 b0 h1 h2 h3 b1 b2 r ih =>
    simp only [Bool.and_eq_true, isCont, decide_eq_true_eq] at h
    have := ok3_range b0 b1 h.1.1
    exact allBytes_cons (by omega) (allBytes_cons (by omega) (allBytes_cons (by omega) (ih h.2)))
  | case6 => simp_all
  | case7 b0 h1 h2 h3 h4 b1 b2 b3 r ih =>
    simp only [Bool.and_eq_true, isCont, decide_eq_true_eq] at h
    have := ok4_range b0 b1 h.1.1.1
    exact allBytes_cons (by omega) (allBytes_cons (by omega)
      (allBytes_cons (by omega) (allBytes_cons (by omega) (ih h.2))))
  | case8 => simp_all
  | case9 => simp_all

theorem printStrBody_bytes (s : List Nat) (h : allBytes s) : allBytes (printStrBody s) := by
  induction s with
  | nil => exact allBytes_cons (by omega) allBytes_nil
  | cons b r ih =>
    exact allBytes_append (escByte_bytes b (h b (by simp))) (ih fun x hx => h x (by simp [hx]))

theorem printStr_bytes (s : List Nat) (h : utf8Ok s = true) : allBytes (printStr s) :=
  allBytes_cons (by omega) (printStrBody_bytes s (utf8Ok_bytes s h))

theorem natDigits_bytes (f n : Nat) : allBytes (natDigits f n) := by
  induction f generalizing n with
  | zero => exact allBytes_nil
  | succ f ih =>
    unfold natDigits
    split
    · exact allBytes_cons (by omega) allBytes_nil
    · exact allBytes_append (ih _) (allBytes_cons (by omega) allBytes_nil)

theorem printInt_bytes (n : Int) : allBytes (printInt n) := by
  cases n with
  | ofNat k => exact natDigits_bytes _ _
  | negSucc k => exact allBytes_cons (by omega) (natDigits_bytes _ _)

mutual
theorem JVal.print_bytes (j : JVal) (hw : j.wf = true) : allBytes j.print := by
  match j with
  | .null => intro x hx; simp [JVal.print] at hx; omega
  | .bool true => intro x hx; simp [JVal.print] at hx; omega
  | .bool false => intro x hx; simp [JVal.print] at hx; omega
  | .num n => exact printInt_bytes n
  | .str s => exact printStr_bytes s hw
  | .arr .nil => intro x hx; simp [JVal.print] at hx; omega
  | .arr (.cons x xs) =>
    simp only [JVal.wf, JList.wf, Bool.and_eq_true] at hw
    exact allBytes_cons (by omega) (allBytes_append (x.print_bytes hw.1) (xs.printTail_bytes hw.2))
  | .obj .nil => intro x hx; simp [JVal.print] at hx; omega
  | .obj (.cons k v kvs) =>
    simp only [JVal.wf, JFields.wf, Bool.and_eq_true] at hw
    exact allBytes_cons (by omega) (allBytes_append (printStr_bytes k hw.1.1)
      (allBytes_cons (by omega) (allBytes_append (v.print_bytes hw.1.2) (kvs.printTail_bytes hw.2))))
theorem JList.printTail_bytes (xs : JList) (hw : xs.wf = true) : allBytes xs.printTail := by
  match xs with
  | .nil => exact allBytes_cons (by omega) allBytes_nil
  | .cons x xs =>
    simp only [JList.wf, Bool.and_eq_true] at hw
    exact allBytes_cons (by omega) (allBytes_append (x.print_bytes hw.1) (xs.printTail_bytes hw.2))
theorem JFields.printTail_bytes (kvs : JFields) (hw : kvs.wf = true) : allBytes kvs.printTail := by
  match kvs with
  | .nil => exact allBytes_cons (by omega) allBytes_nil
  | .cons k v kvs =>
    simp only [JFields.wf, Bool.and_eq_true] at hw
    exact allBytes_cons (by omega) (allBytes_append (printStr_bytes k hw.1.1)
      (allBytes_cons (by omega) (allBytes_append (v.print_bytes hw.1.2) (kvs.printTail_bytes hw.2))))
end

end Dropshot.Json

namespace Dropshot.Pagination
open Dropshot.Json

instance [DecidableEq ε] [DecidableEq α] : DecidableEq (Except ε α) := fun a b =>
  match a, b with
  | .ok x, .ok y => if h : x = y then isTrue (by rw [h]) else isFalse (by intro e; cases e; exact h rfl)
  | .error x, .error y => if h : x = y then isTrue (by rw [h]) else isFalse (by intro e; cases e; exact h rfl)
  | .ok _, .error _ => isFalse (by intro e; cases e)
  | .error _, .ok _ => isFalse (by intro e; cases e)

/-- A token made from any well-formed JSON document `j` (base64 of its compact
print) that passes the length gate is read back as exactly `j`: what happens
next depends on `j` alone. -/
theorem deserialize_b64_print (c : SelCodec σ) (j : JVal) (hw : j.wf = true)
    (hlen : (Base64.encode .urlSafe j.print).length ≤ maxTokenLength) :
    deserializeToken c (Base64.encode .urlSafe j.print) =
      match decEnvelope c j with
        | .ok s => .ok s
        | .error e => .error (.corrupted e) := by
  unfold deserializeToken
  rw [if_neg (by omega), Base64.decode_encode _ _ (j.print_bytes hw)]
  simp only [parse_print j hw]
  split <;> simp_all

theorem envelope_wf (j : JVal) (hw : j.wf = true) : (envelope j).wf = true := by
  have h1 : utf8Ok kV = true := by decide
  have h2 : utf8Ok kV1 = true := by decide
  have h3 : utf8Ok kPageStart = true := by decide
  simp [envelope, JVal.wf, JFields.wf, h1, h2, h3, hw]

theorem decEnvelope_envelope (c : SelCodec σ) (j : JVal) :
    decEnvelope c (envelope j) = decSel c j := by
  have h1 : kPageStart ≠ kV := by decide
  cases h : decSel c j <;>
    simp [envelope, decEnvelope, walkFields, decVersion, h1, h]

/-- Length of the envelope around a selector: 24 bytes. -/
theorem envelope_print_length (j : JVal) : (envelope j).print.length = j.print.length + 24 := by
  simp [envelope, JVal.print, JFields.printTail, printStr, printStrBody, escByte, kV, kV1, kPageStart]

theorem foldl_digits_append (a : List Nat) (d : Nat) :
    digitsValue (a ++ [d]) = digitsValue a * 10 + (d - 48) := by
  simp [digitsValue, List.foldl_append]

theorem digitsValue_natDigits (f n : Nat) (hf : n < f) : digitsValue (natDigits f n) = n := by
  induction f generalizing n with
  | zero => omega
  | succ f ih =>
    unfold natDigits
    split
    · simp [digitsValue]
    · rw [foldl_digits_append, ih (n / 10) (by omega)]; omega

theorem natDigits_all_digits (f n : Nat) : (natDigits f n).all isDigit = true := by
  induction f generalizing n with
  | zero => rfl
  | succ f ih =>
    unfold natDigits
    split
    · simp [isDigit]; omega
    · simp only [List.all_append, ih, Bool.true_and]; simp [isDigit]; omega

theorem parseU32_eq (s : Bytes) :
    parseU32 s =
      if stripPlus s = [] then none
      else if (stripPlus s).all isDigit then
        (if digitsValue (stripPlus s) < 4294967296 then some (digitsValue (stripPlus s)) else none)
      else none := by
  rfl

theorem stripPlus_plus (r : Bytes) : stripPlus (43 :: r) = r := rfl

theorem stripPlus_other (c : Nat) (r : Bytes) (h : c ≠ 43) : stripPlus (c :: r) = c :: r := by
  unfold stripPlus
  split
  · rename_i heq; injection heq with h1 _; exact absurd h1 h
  · rfl

end Dropshot.Pagination
