/-
Helper lemmas for the lifecycle LTS (C16, reused by C17/C18): prefix closure
of `run`, the trace/state invariant `Inv` (the state is a faithful summary of
the trace), absorption of the three terminal handler states.
-/
import DropshotModel.Lifecycle

namespace Dropshot.Lifecycle

theorem run_append (m : Mode) (s : State) (a b : List Event) :
    run m s (a ++ b) = (run m s a).bind fun s' => run m s' b := by
  induction a generalizing s with
  | nil => simp [run]
  | cons e a ih =>
    simp only [List.cons_append, run]
    cases step m s e with
    | none => simp
    | some s' => simpa using ih s'

theorem run_snoc (m : Mode) (s : State) (a : List Event) (e : Event) :
    run m s (a ++ [e]) = (run m s a).bind fun s' => step m s' e := by
  rw [run_append]
  congr 1
  funext s'
  simp only [run]
  cases step m s' e <;> rfl

/-- Prefixes of accepted traces are accepted. -/
theorem run_prefix {m : Mode} {s s' : State} {a b : List Event}
    (h : run m s (a ++ b) = some s') : ∃ s1, run m s a = some s1 ∧ run m s1 b = some s' := by
  rw [run_append] at h
  cases h1 : run m s a with
  | none => simp [h1] at h
  | some s1 => exact ⟨s1, rfl, by simpa [h1] using h⟩

/-- The state reached by a trace summarises the trace. -/
structure Inv (m : Mode) (tr : List Event) (s : State) : Prop where
  notStarted : ∀ r, (s.req r).h = .notStarted ↔ Event.start r ∉ tr
  completed : ∀ r, (s.req r).h = .completed ↔ Event.done r ∈ tr
  cancelled : ∀ r, (s.req r).h = .cancelled ↔ Event.drop r ∈ tr
  panicked : ∀ r, (s.req r).h = .panicked ↔ Event.panic r ∈ tr
  cStart : ∀ r, tr.count (Event.start r) ≤ 1
  cDone : ∀ r, tr.count (Event.done r) ≤ 1
  cDrop : ∀ r, tr.count (Event.drop r) ≤ 1
  cPanic : ∀ r, tr.count (Event.panic r) ≤ 1
  conn : ∀ r c, (s.req r).conn = some c ↔ Event.reqSent c r ∈ tr
  gone : ∀ c, s.gone c = true ↔ Event.disconnect c ∈ tr
  dropOwn : ∀ r, Event.drop r ∈ tr → m = .cancel ∧ ∃ c, (s.req r).conn = some c ∧ s.gone c = true
  delivered : ∀ r, (s.req r).delivered = true ↔ Event.respDelivered r ∈ tr
  deliveredDone : ∀ r, (s.req r).delivered = true → (s.req r).h = .completed
  startedSent : ∀ r, (s.req r).h ≠ .notStarted → (s.req r).conn ≠ none
  deadWhy : ∀ c, s.dead c = true → ∃ r, (s.req r).conn = some c ∧ (s.req r).h = .panicked
  busyWhy : ∀ c r, s.busy c = some r → (s.req r).conn = some c
  busyRunning : ∀ r c, (s.req r).h = .running → (s.req r).conn = some c → s.busy c = some r

theorem inv_init (m : Mode) : Inv m [] init := by
  constructor <;> simp [init]

/-- One step preserves the invariant (one case per event, each field by `grind`). -/
theorem inv_step {m : Mode} {tr : List Event} {s s' : State} {e : Event}
    (hi : Inv m tr s) (hs : step m s e = some s') : Inv m (tr ++ [e]) s' := by
  obtain ⟨h1, h2, h3, h4, h5, h6, h7, h8, h9, h10, h11, h12, h13, h14, h15, h16, h17⟩ := hi
  cases e <;> simp only [step, finish, clearBusy] at hs <;> (repeat' split at hs) <;>
    (try (cases hs; done)) <;>
    (cases hs
     constructor <;> intro x <;> (try simp [List.count_append]) <;> grind)

theorem inv_run {m : Mode} {tr0 tr : List Event} {s0 s : State}
    (hi : Inv m tr0 s0) (hr : run m s0 tr = some s) : Inv m (tr0 ++ tr) s := by
  induction tr generalizing tr0 s0 with
  | nil => simp only [run] at hr; cases hr; simpa using hi
  | cons e tr ih =>
    simp only [run] at hr
    cases hs : step m s0 e with
    | none => simp [hs] at hr
    | some s1 =>
      simp only [hs] at hr
      have := ih (inv_step hi hs) hr
      simpa using this

/-- Every accepted trace satisfies the invariant. -/
theorem inv_of_run {m : Mode} {tr : List Event} {s : State}
    (hr : run m init tr = some s) : Inv m tr s := by
  simpa using inv_run (inv_init m) hr

def HState.terminal : HState → Bool
  | .completed | .cancelled | .panicked => true
  | _ => false

/-- `completed`, `cancelled`, `panicked` are absorbing: once a handler has
ended, no later event of the trace is a `start`, `tick`, `done`, `drop` or
`panic` of that request, and its handler state never changes. -/
theorem terminal_absorbing {m : Mode} {tr : List Event} {s s' : State} {r : Nat}
    (ht : (s.req r).h.terminal = true) (hr : run m s tr = some s') :
    (s'.req r).h = (s.req r).h ∧ Event.start r ∉ tr ∧ Event.tick r ∉ tr ∧ Event.done r ∉ tr ∧
      Event.drop r ∉ tr ∧ Event.panic r ∉ tr := by
  induction tr generalizing s with
  | nil => simp only [run] at hr; cases hr; simp
  | cons e tr ih =>
    simp only [run] at hr
    cases hs : step m s e with
    | none => simp [hs] at hr
    | some s1 =>
      simp only [hs] at hr
      have key : (s1.req r).h = (s.req r).h ∧ e ≠ Event.start r ∧ e ≠ Event.tick r ∧
          e ≠ Event.done r ∧ e ≠ Event.drop r ∧ e ≠ Event.panic r := by
        cases e <;> simp only [step, finish, clearBusy] at hs <;> (repeat' split at hs) <;>
          (try (cases hs; done)) <;> (cases hs; simp [HState.terminal] at * <;> grind)
      have := ih (by rw [key.1]; exact ht) hr
      simp only [List.mem_cons, not_or]
      grind

end Dropshot.Lifecycle
