/-
After `RemoveRefSiblings` (`JS.rrs`) no object of a schema holds a reference
together with anything else (`JS.refsAlone`), so the converter's "a reference is
returned as it is" arm never discards anything.
-/
import DropshotModel.RefSiblings

namespace Dropshot.Schema

theorem newRef_refsAlone (r : String) : (JS.newRef r).refsAlone = true := by
  simp [JS.newRef, JS.refsAlone, JSSubs.refsAlone, JSArr.refsAlone, JSObjV.refsAlone, restIsDefault]

theorem snoc_refsAlone : ∀ (l : JSList) (x : JS), l.refsAlone = true → x.refsAlone = true →
    (l.snoc x).refsAlone = true
  | .nil, x, _, hx => by simp [JSList.snoc, JSList.refsAlone, hx]
  | .cons s rest, x, hl, hx => by
    simp only [JSList.refsAlone, Bool.and_eq_true] at hl
    simp [JSList.snoc, JSList.refsAlone, hl.1, snoc_refsAlone rest x hl.2 hx]

theorem pushAllOf_refsAlone (subs : JSSubs) (x : JS) (hs : subs.refsAlone = true)
    (hx : x.refsAlone = true) : (subs.pushAllOf x).refsAlone = true := by
  cases subs with
  | none => simp [JSSubs.pushAllOf, JSSubs.refsAlone, JSOptList.refsAlone, JSList.refsAlone, JSOpt.refsAlone, hx]
  | some a b c n i t e =>
    simp only [JSSubs.refsAlone, Bool.and_eq_true] at hs
    obtain ⟨⟨⟨⟨⟨⟨ha, hb⟩, hc⟩, hn⟩, hi⟩, ht⟩, he⟩ := hs
    cases a with
    | none => simp [JSSubs.pushAllOf, JSSubs.refsAlone, JSOptList.refsAlone, JSList.refsAlone, hx, hb, hc, hn, hi, ht, he]
    | some l =>
      simp only [JSOptList.refsAlone] at ha
      simp [JSSubs.pushAllOf, JSSubs.refsAlone, JSOptList.refsAlone, snoc_refsAlone l x ha hx, hb, hc, hn, hi, ht, he]

mutual
theorem JS.rrs_refsAlone : ∀ s : JS, s.rrs.refsAlone = true
  | .bool _ => by simp [JS.rrs, JS.refsAlone]
  | .obj md ty fmt en cv subs num str arr ob rf ext => by
    have h1 := JSSubs.rrs_refsAlone subs
    have h2 := JSArr.rrs_refsAlone arr
    have h3 := JSObjV.rrs_refsAlone ob
    cases rf with
    | none => simp [JS.rrs, JS.refsAlone, h1, h2, h3]
    | some r =>
      simp only [JS.rrs]
      split
      · rename_i hd
        simp [JS.refsAlone, h1, h2, h3, hd]
      · simp [JS.refsAlone, pushAllOf_refsAlone _ _ h1 (newRef_refsAlone r), h2, h3]
theorem JSOpt.rrs_refsAlone : ∀ s : JSOpt, s.rrs.refsAlone = true
  | .none => by simp [JSOpt.rrs, JSOpt.refsAlone]
  | .some s => by simp [JSOpt.rrs, JSOpt.refsAlone, JS.rrs_refsAlone s]
theorem JSList.rrs_refsAlone : ∀ s : JSList, s.rrs.refsAlone = true
  | .nil => by simp [JSList.rrs, JSList.refsAlone]
  | .cons s rest => by simp [JSList.rrs, JSList.refsAlone, JS.rrs_refsAlone s, JSList.rrs_refsAlone rest]
theorem JSOptList.rrs_refsAlone : ∀ s : JSOptList, s.rrs.refsAlone = true
  | .none => by simp [JSOptList.rrs, JSOptList.refsAlone]
  | .some l => by simp [JSOptList.rrs, JSOptList.refsAlone, JSList.rrs_refsAlone l]
theorem JSSubs.rrs_refsAlone : ∀ s : JSSubs, s.rrs.refsAlone = true
  | .none => by simp [JSSubs.rrs, JSSubs.refsAlone]
  | .some a b c n i t e => by
    simp [JSSubs.rrs, JSSubs.refsAlone, JSOptList.rrs_refsAlone a, JSOptList.rrs_refsAlone b,
      JSOptList.rrs_refsAlone c, JSOpt.rrs_refsAlone n, JSOpt.rrs_refsAlone i, JSOpt.rrs_refsAlone t,
      JSOpt.rrs_refsAlone e]
theorem JSItems.rrs_refsAlone : ∀ s : JSItems, s.rrs.refsAlone = true
  | .none => by simp [JSItems.rrs, JSItems.refsAlone]
  | .single s => by simp [JSItems.rrs, JSItems.refsAlone, JS.rrs_refsAlone s]
  | .vec l => by simp [JSItems.rrs, JSItems.refsAlone, JSList.rrs_refsAlone l]
theorem JSArr.rrs_refsAlone : ∀ s : JSArr, s.rrs.refsAlone = true
  | .none => by simp [JSArr.rrs, JSArr.refsAlone]
  | .some items addl _ _ _ c => by
    simp [JSArr.rrs, JSArr.refsAlone, JSItems.rrs_refsAlone items, JSOpt.rrs_refsAlone addl, JSOpt.rrs_refsAlone c]
theorem JSProps.rrs_refsAlone : ∀ s : JSProps, s.rrs.refsAlone = true
  | .nil => by simp [JSProps.rrs, JSProps.refsAlone]
  | .cons _ s rest => by simp [JSProps.rrs, JSProps.refsAlone, JS.rrs_refsAlone s, JSProps.rrs_refsAlone rest]
theorem JSObjV.rrs_refsAlone : ∀ s : JSObjV, s.rrs.refsAlone = true
  | .none => by simp [JSObjV.rrs, JSObjV.refsAlone]
  | .some _ _ _ props pprops addl pn => by
    simp [JSObjV.rrs, JSObjV.refsAlone, JSProps.rrs_refsAlone props, JSProps.rrs_refsAlone pprops,
      JSOpt.rrs_refsAlone addl, JSOpt.rrs_refsAlone pn]
end

end Dropshot.Schema
