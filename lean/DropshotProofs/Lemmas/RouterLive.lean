/-
Helper lemmas for C02: the liveness invariant (every edge leads to a stored
endpoint) and the converse direction of the conflict characterisation: an
insert that meets no declared conflict takes no error branch.
-/
import DropshotProofs.Lemmas.RouterConflict

namespace Dropshot.C02
open Dropshot
variable {V : Type} [LinearOrder V]


/-! ### Liveness: every edge leads to a stored endpoint -/

mutual
  /-- Every child subtree holds at least one endpoint (a successful `insert`
  always ends by pushing one). -/
  def Node.Live : Node V → Prop
    | .mk _ es => Edges.Live es
  def Edges.Live : Edges V → Prop
    | .none => True
    | .lits cs => Children.Live cs ∧ cs ≠ .nil
    | .single _ c => Node.Live c ∧ Node.all c [] ≠ []
    | .rest _ c => Node.Live c ∧ Node.all c [] ≠ []
  def Children.Live : Children V → Prop
    | .nil => True
    | .cons _ c tl => Node.Live c ∧ Node.all c [] ≠ [] ∧ Children.Live tl
end

theorem Node.chain_live : ∀ (segs : List Seg) (seen : List String) (e : Endpoint V) (c : Node V),
    Node.chain segs seen e = .ok c → Node.Live c ∧ Node.all c [] ≠ [] := by
  intro segs seen e c h
  have hall := Node.chain_all segs seen e c [] h
  refine ⟨?_, by rw [hall]; simp⟩
  induction segs generalizing seen c with
  | nil =>
    simp only [Node.chain, Except.ok.injEq] at h; subst h
    simp [Node.Live, Edges.Live]
  | cons s rest ih =>
    cases s with
    | lit k =>
      simp only [Node.chain] at h
      split at h
      · cases h
      · rename_i c' hc
        simp only [Except.ok.injEq] at h; subst h
        have h1 := ih seen c' hc (Node.chain_all rest seen e c' [] hc)
        have h2 : Node.all c' [] ≠ [] := by rw [Node.chain_all rest seen e c' [] hc]; simp
        simp [Node.Live, Edges.Live, Children.Live, h1, h2]
    | var n =>
      simp only [Node.chain] at h
      split at h
      · cases h
      · split at h
        · cases h
        · rename_i c' hc
          simp only [Except.ok.injEq] at h; subst h
          have h1 := ih (n :: seen) c' hc (Node.chain_all rest (n :: seen) e c' [] hc)
          have h2 : Node.all c' [] ≠ [] := by rw [Node.chain_all rest (n :: seen) e c' [] hc]; simp
          simp [Node.Live, Edges.Live, h1, h2]
    | wild n =>
      simp only [Node.chain] at h
      split at h
      · cases h
      · split at h
        · cases h
        · split at h
          · cases h
          · rename_i c' hc
            simp only [Except.ok.injEq] at h; subst h
            have h1 := ih (n :: seen) c' hc (Node.chain_all rest (n :: seen) e c' [] hc)
            have h2 : Node.all c' [] ≠ [] := by rw [Node.chain_all rest (n :: seen) e c' [] hc]; simp
            simp [Node.Live, Edges.Live, h1, h2]

theorem all_ne_nil_of_insert (n n' : Node V) (segs : List Seg) (seen : List String) (e : Endpoint V)
    (h : Node.insertAt n segs seen e = .ok n') : Node.all n' [] ≠ [] := by
  intro hnil
  have := (Node.insertAt_all n segs seen e n' [] ([] ++ segs, e) h).2 (Or.inl rfl)
  rw [hnil] at this; cases this

mutual
  theorem Node.insertAt_live : ∀ (n : Node V) (segs : List Seg) (seen : List String)
      (e : Endpoint V) (n' : Node V), Node.Live n → Node.insertAt n segs seen e = .ok n' → Node.Live n'
    | .mk ms es, [], _, e, n', hl, h => by
      simp only [Node.insertAt] at h
      split at h
      · cases h
      · simp only [Except.ok.injEq] at h; subst h
        simpa [Node.Live] using hl
    | .mk ms es, seg :: rest, seen, e, n', hl, h => by
      simp only [Node.insertAt] at h
      split at h
      · cases h
      · rename_i es' hes
        simp only [Except.ok.injEq] at h; subst h
        simp only [Node.Live] at hl ⊢
        exact Edges.insertAt_live es seg rest seen e es' hl hes
  theorem Edges.insertAt_live : ∀ (es : Edges V) (seg : Seg) (rest : List Seg) (seen : List String)
      (e : Endpoint V) (es' : Edges V), Edges.Live es → Edges.insertAt es seg rest seen e = .ok es' →
      Edges.Live es'
    | .none, seg, rest, seen, e, es', _, h => by
      simp only [Edges.insertAt] at h
      split at h
      · cases h
      · rename_i ms es0 hc
        simp only [Except.ok.injEq] at h; subst h
        have := (Node.chain_live (seg :: rest) seen e _ hc).1
        simpa [Node.Live] using this
    | .lits cs, .lit s, rest, seen, e, es', hl, h => by
      simp only [Edges.insertAt] at h
      split at h
      · cases h
      · rename_i cs' hcs
        simp only [Except.ok.injEq] at h; subst h
        simp only [Edges.Live] at hl ⊢
        exact Children.insertAt_live cs s rest seen e cs' hl.1 hcs
    | .lits _, .var n, _, seen, _, _, _, h => by
      simp only [Edges.insertAt] at h; split at h <;> cases h
    | .lits _, .wild n, rest, seen, _, _, _, h => by
      simp only [Edges.insertAt] at h; (repeat' split at h) <;> cases h
    | .single _ _, .lit _, _, _, _, _, _, h => by simp [Edges.insertAt] at h
    | .single n' c, .var n, rest, seen, e, es', hl, h => by
      simp only [Edges.insertAt] at h
      split at h
      · cases h
      · split at h
        · cases h
        · split at h
          · cases h
          · rename_i c' hc
            simp only [Except.ok.injEq] at h; subst h
            simp only [Edges.Live] at hl ⊢
            exact ⟨Node.insertAt_live c rest (n :: seen) e c' hl.1 hc, all_ne_nil_of_insert c c' _ _ e hc⟩
    | .single _ _, .wild n, rest, seen, _, _, _, h => by
      simp only [Edges.insertAt] at h; (repeat' split at h) <;> cases h
    | .rest _ _, .lit _, _, _, _, _, _, h => by simp [Edges.insertAt] at h
    | .rest _ _, .var n, _, seen, _, _, _, h => by
      simp only [Edges.insertAt] at h; split at h <;> cases h
    | .rest n' c, .wild n, rest, seen, e, es', hl, h => by
      simp only [Edges.insertAt] at h
      split at h
      · cases h
      · split at h
        · cases h
        · split at h
          · cases h
          · split at h
            · cases h
            · rename_i c' hc
              simp only [Except.ok.injEq] at h; subst h
              simp only [Edges.Live] at hl ⊢
              exact ⟨Node.insertAt_live c rest (n :: seen) e c' hl.1 hc, all_ne_nil_of_insert c c' _ _ e hc⟩
  theorem Children.insertAt_live : ∀ (cs : Children V) (k : String) (rest : List Seg)
      (seen : List String) (e : Endpoint V) (cs' : Children V), Children.Live cs →
      Children.insertAt cs k rest seen e = .ok cs' → Children.Live cs' ∧ cs' ≠ .nil
    | .nil, k, rest, seen, e, cs', _, h => by
      simp only [Children.insertAt] at h
      split at h
      · cases h
      · rename_i c hc
        simp only [Except.ok.injEq] at h; subst h
        have := Node.chain_live rest seen e c hc
        simp [Children.Live, this.1, this.2]
    | .cons k' c tl, k, rest, seen, e, cs', hl, h => by
      simp only [Children.Live] at hl
      simp only [Children.insertAt] at h
      split at h
      · split at h
        · cases h
        · rename_i c' hc
          simp only [Except.ok.injEq] at h; subst h
          simp only [Children.Live, ne_eq, reduceCtorEq, not_false_eq_true, and_true]
          exact ⟨Node.insertAt_live c rest seen e c' hl.1 hc, all_ne_nil_of_insert c c' _ _ e hc, hl.2.2⟩
      · split at h
        · split at h
          · cases h
          · rename_i cn hc
            simp only [Except.ok.injEq] at h; subst h
            have := Node.chain_live rest seen e cn hc
            simp only [Children.Live, ne_eq, reduceCtorEq, not_false_eq_true, and_true]
            exact ⟨this.1, this.2, hl.1, hl.2.1, hl.2.2⟩
        · split at h
          · cases h
          · rename_i tl' htl
            simp only [Except.ok.injEq] at h; subst h
            have := Children.insertAt_live tl k rest seen e tl' hl.2.2 htl
            simp only [Children.Live, ne_eq, reduceCtorEq, not_false_eq_true, and_true]
            exact ⟨hl.1, hl.2.1, this.1⟩
end



/-! ### No declared conflict ⇒ accepted -/

theorem wildLast_tail (s : Seg) (rest : List Seg) (h : WildLast (s :: rest)) : WildLast rest := by
  cases rest with
  | nil => trivial
  | cons r rs => cases s <;> simp_all [WildLast]

theorem wildLast_wild (n : String) (rest : List Seg) (h : WildLast (.wild n :: rest)) : rest = [] := by
  cases rest with
  | nil => rfl
  | cons r rs => simp [WildLast] at h

theorem Node.chain_ok : ∀ (segs : List Seg) (seen : List String) (e : Endpoint V),
    WildLast segs → (varNames segs).Nodup → (∀ x ∈ varNames segs, x ∉ seen) →
    ∃ c, Node.chain segs seen e = .ok c
  | [], _, e, _, _, _ => ⟨_, rfl⟩
  | .lit s :: rest, seen, e, hw, hn, hs => by
    obtain ⟨c, hc⟩ := Node.chain_ok rest seen e (wildLast_tail _ _ hw) (by simpa [varNames] using hn)
      (by simpa [varNames] using hs)
    exact ⟨.mk [] (.lits (.cons s c .nil)), by simp [Node.chain, hc]⟩
  | .var n :: rest, seen, e, hw, hn, hs => by
    simp only [varNames, List.filterMap_cons, List.nodup_cons, List.mem_cons, forall_eq_or_imp] at hn hs
    obtain ⟨c, hc⟩ := Node.chain_ok rest (n :: seen) e (wildLast_tail _ _ hw) hn.2
      (fun x hx hmem => by
        rcases List.mem_cons.1 hmem with rfl | h'
        · exact hn.1 hx
        · exact hs.2 x hx h')
    exact ⟨.mk [] (.single n c), by simp [Node.chain, hs.1, hc]⟩
  | .wild n :: rest, seen, e, hw, hn, hs => by
    have hr := wildLast_wild n rest hw
    subst hr
    simp only [varNames, List.filterMap_cons, List.filterMap_nil, List.mem_singleton, forall_eq] at hs
    exact ⟨.mk [] (.rest n (.mk [(normMethod e.method, [e])] .none)), by simp [Node.chain, hs]⟩

theorem conflictWith_eq_none (e : Endpoint V) : ∀ (hs : List (Endpoint V)),
    (∀ a ∈ hs, Range.overlaps a.versions e.versions = false) → conflictWith e hs = none
  | [], _ => rfl
  | x :: xs, h => by
    simp only [conflictWith, h x (by simp)]
    exact conflictWith_eq_none e xs (fun a ha => h a (by simp [ha]))

theorem pathClash_differ (a b : Seg) (r r' : List Seg) (hne : a ≠ b)
    (hk : ¬ ∃ k k', a = .lit k ∧ b = .lit k') : pathClash (a :: r) (b :: r') = true := by
  simp only [pathClash, hne, if_false]
  cases a <;> cases b <;> simp_all

/-- The hypotheses about what is stored, relative to the node reached so far. -/
structure NoConflictAt (stored : List (List Seg × Endpoint V)) (segs : List Seg) (e : Endpoint V) : Prop where
  noClash : ∀ x ∈ stored, pathClash x.1 segs = false
  noOverlap : ∀ e', (segs, e') ∈ stored → normMethod e'.method = normMethod e.method →
    Range.overlaps e'.versions e.versions = false

theorem NoConflictAt.under (s : Seg) (rest : List Seg) (e : Endpoint V) (c : Node V)
    (stored : List (List Seg × Endpoint V))
    (hsub : ∀ r e', (r, e') ∈ Node.all c [] → (s :: r, e') ∈ stored)
    (h : NoConflictAt stored (s :: rest) e) : NoConflictAt (Node.all c []) rest e := by
  refine ⟨fun x hx => ?_, fun e' he' hm => ?_⟩
  · have := h.noClash _ (hsub x.1 x.2 hx)
    simpa using this
  · exact h.noOverlap e' (hsub rest e' he') hm

mutual
  theorem Node.insertAt_ok : ∀ (n : Node V) (segs : List Seg) (seen : List String) (e : Endpoint V),
      Node.Sorted n → Node.MethodsWF n → Node.Live n → WildLast segs → (varNames segs).Nodup →
      (∀ x ∈ varNames segs, x ∉ seen) → NoConflictAt (Node.all n []) segs e →
      ∃ n', Node.insertAt n segs seen e = .ok n'
    | .mk ms es, [], seen, e, _, hm, _, _, _, _, hc => by
      simp only [Node.MethodsWF] at hm
      have hnone : conflictWith e (handlersFor ms (normMethod e.method)) = none := by
        refine conflictWith_eq_none e _ (fun a ha => ?_)
        obtain ⟨q, hq, hq1, hq2⟩ := handlersFor_mem_stored _ _ _ ha
        have hst : a ∈ (Node.mk ms es).stored := by
          simp only [Node.stored, Node.methods, List.mem_flatMap]; exact ⟨q, hq, hq2⟩
        refine hc.noOverlap a (Node.stored_mem_all _ [] a hst) ?_
        rw [(hm.1.2 q hq).1 a hq2, hq1]
      simp [Node.insertAt, addHandler, hnone]
    | .mk ms es, seg :: rest, seen, e, hs, hm, hl, hw, hn, hsn, hc => by
      simp only [Node.Sorted] at hs
      simp only [Node.MethodsWF] at hm
      simp only [Node.Live] at hl
      have hc' : NoConflictAt (Edges.all es []) (seg :: rest) e :=
        ⟨fun x hx => hc.noClash x ((Node.all_mk ms es [] x).2 (Or.inr hx)),
         fun e' he' hmm => hc.noOverlap e' ((Node.all_mk ms es [] _).2 (Or.inr he')) hmm⟩
      obtain ⟨es', hes⟩ := Edges.insertAt_ok es seg rest seen e hs hm.2 hl hw hn hsn hc'
      simp [Node.insertAt, hes]

  theorem Edges.insertAt_ok : ∀ (es : Edges V) (seg : Seg) (rest : List Seg) (seen : List String)
      (e : Endpoint V), Edges.Sorted es → Edges.MethodsWF es → Edges.Live es →
      WildLast (seg :: rest) → (varNames (seg :: rest)).Nodup →
      (∀ x ∈ varNames (seg :: rest), x ∉ seen) → NoConflictAt (Edges.all es []) (seg :: rest) e →
      ∃ es', Edges.insertAt es seg rest seen e = .ok es'
    | .none, seg, rest, seen, e, _, _, _, hw, hn, hsn, _ => by
      obtain ⟨c, hc⟩ := Node.chain_ok (seg :: rest) seen e hw hn hsn
      cases c with
      | mk ms es0 => simp [Edges.insertAt, hc]
    | .lits cs, .lit s, rest, seen, e, hs, hm, hl, hw, hn, hsn, hc => by
      simp only [Edges.Sorted] at hs
      simp only [Edges.MethodsWF] at hm
      simp only [Edges.Live] at hl
      simp only [Edges.all] at hc
      obtain ⟨cs', hcs⟩ := Children.insertAt_ok cs s rest seen e hs.1 hs.2 hm hl.1
        (wildLast_tail _ _ hw) (by simpa [varNames] using hn) (by simpa [varNames] using hsn) hc
      simp [Edges.insertAt, hcs]
    | .lits cs, .var n, rest, _, _, _, _, hl, _, _, _, hc => by
      exfalso
      simp only [Edges.Live] at hl
      cases cs with
      | nil => exact hl.2 rfl
      | cons k c tl =>
        simp only [Children.Live] at hl
        obtain ⟨x, hx⟩ := List.exists_mem_of_ne_nil _ hl.1.2.1
        have hmem : (Seg.lit k :: x.1, x.2) ∈ Edges.all (.lits (.cons k c tl)) [] := by
          simp only [Edges.all, Children.all, List.nil_append, List.mem_append]
          exact Or.inl ((Node.mem_all_cons c _ _ _).2 ⟨x.1, rfl, hx⟩)
        have := hc.noClash _ hmem
        rw [pathClash_differ _ _ _ _ (by simp) (by simp)] at this
        cases this
    | .lits cs, .wild n, rest, _, _, _, _, hl, _, _, _, hc => by
      exfalso
      simp only [Edges.Live] at hl
      cases cs with
      | nil => exact hl.2 rfl
      | cons k c tl =>
        simp only [Children.Live] at hl
        obtain ⟨x, hx⟩ := List.exists_mem_of_ne_nil _ hl.1.2.1
        have hmem : (Seg.lit k :: x.1, x.2) ∈ Edges.all (.lits (.cons k c tl)) [] := by
          simp only [Edges.all, Children.all, List.nil_append, List.mem_append]
          exact Or.inl ((Node.mem_all_cons c _ _ _).2 ⟨x.1, rfl, hx⟩)
        have := hc.noClash _ hmem
        rw [pathClash_differ _ _ _ _ (by simp) (by simp)] at this
        cases this
    | .single n' c, seg, rest, seen, e, hs, hm, hl, hw, hn, hsn, hc => by
      simp only [Edges.Sorted] at hs
      simp only [Edges.MethodsWF] at hm
      simp only [Edges.Live] at hl
      obtain ⟨x, hx⟩ := List.exists_mem_of_ne_nil _ hl.2
      have hmem : (Seg.var n' :: x.1, x.2) ∈ Edges.all (.single n' c) [] := by
        simp only [Edges.all, List.nil_append]
        exact (Node.mem_all_cons c _ _ _).2 ⟨x.1, rfl, hx⟩
      have hcl := hc.noClash _ hmem
      by_cases hseg : seg = .var n'
      · subst hseg
        simp only [varNames, List.filterMap_cons, List.nodup_cons, List.mem_cons, forall_eq_or_imp] at hn hsn
        have hcc : NoConflictAt (Node.all c []) rest e :=
          NoConflictAt.under (.var n') rest e c _ (fun r e' hr => by
            simp only [Edges.all, List.nil_append]
            exact (Node.mem_all_cons c _ _ _).2 ⟨r, rfl, hr⟩) hc
        obtain ⟨c', hc'⟩ := Node.insertAt_ok c rest (n' :: seen) e hs hm hl.1 (wildLast_tail _ _ hw) hn.2
          (fun y hy hmem' => by
            rcases List.mem_cons.1 hmem' with rfl | h'
            · exact hn.1 hy
            · exact hsn.2 y hy h') hcc
        simp [Edges.insertAt, hsn.1, hc']
      · exfalso
        simp only at hcl
        rw [pathClash_differ _ _ _ _ (fun h => hseg h.symm) (by simp)] at hcl
        cases hcl
    | .rest n' c, seg, rest, seen, e, hs, hm, hl, hw, hn, hsn, hc => by
      simp only [Edges.Sorted] at hs
      simp only [Edges.MethodsWF] at hm
      simp only [Edges.Live] at hl
      obtain ⟨x, hx⟩ := List.exists_mem_of_ne_nil _ hl.2
      have hmem : (Seg.wild n' :: x.1, x.2) ∈ Edges.all (.rest n' c) [] := by
        simp only [Edges.all, List.nil_append]
        exact (Node.mem_all_cons c _ _ _).2 ⟨x.1, rfl, hx⟩
      have hcl := hc.noClash _ hmem
      by_cases hseg : seg = .wild n'
      · subst hseg
        have hr := wildLast_wild n' rest hw
        subst hr
        simp only [varNames, List.filterMap_cons, List.filterMap_nil, List.mem_singleton, forall_eq] at hsn
        have hcc : NoConflictAt (Node.all c []) [] e :=
          NoConflictAt.under (.wild n') [] e c _ (fun r e' hr => by
            simp only [Edges.all, List.nil_append]
            exact (Node.mem_all_cons c _ _ _).2 ⟨r, rfl, hr⟩) hc
        obtain ⟨c', hc'⟩ := Node.insertAt_ok c [] (n' :: seen) e hs hm hl.1 trivial (by simp [varNames])
          (by simp [varNames]) hcc
        simp [Edges.insertAt, hsn, hc']
      · exfalso
        simp only at hcl
        rw [pathClash_differ _ _ _ _ (fun h => hseg h.symm) (by simp)] at hcl
        cases hcl

  theorem Children.insertAt_ok : ∀ (cs : Children V) (k : String) (rest : List Seg)
      (seen : List String) (e : Endpoint V), (Children.keys cs).Pairwise (· < ·) →
      Children.Sorted cs → Children.MethodsWF cs → Children.Live cs →
      WildLast rest → (varNames rest).Nodup → (∀ x ∈ varNames rest, x ∉ seen) →
      NoConflictAt (Children.all cs []) (.lit k :: rest) e →
      ∃ cs', Children.insertAt cs k rest seen e = .ok cs'
    | .nil, k, rest, seen, e, _, _, _, _, hw, hn, hsn, _ => by
      obtain ⟨c, hc⟩ := Node.chain_ok rest seen e hw hn hsn
      simp [Children.insertAt, hc]
    | .cons k' c tl, k, rest, seen, e, hp, hs, hm, hl, hw, hn, hsn, hc => by
      simp only [Children.keys, List.pairwise_cons] at hp
      simp only [Children.Sorted] at hs
      simp only [Children.MethodsWF] at hm
      simp only [Children.Live] at hl
      by_cases hk : k = k'
      · subst hk
        have hcc : NoConflictAt (Node.all c []) rest e :=
          NoConflictAt.under (.lit k) rest e c _ (fun r e' hr => by
            simp only [Children.all, List.nil_append, List.mem_append]
            exact Or.inl ((Node.mem_all_cons c _ _ _).2 ⟨r, rfl, hr⟩)) hc
        obtain ⟨c', hc'⟩ := Node.insertAt_ok c rest seen e hs.1 hm.1 hl.1 hw hn hsn hcc
        simp [Children.insertAt, hc']
      · by_cases hlt : k < k'
        · obtain ⟨cn, hcn⟩ := Node.chain_ok rest seen e hw hn hsn
          simp [Children.insertAt, hk, hlt, hcn]
        · have hcc : NoConflictAt (Children.all tl []) (.lit k :: rest) e :=
            ⟨fun x hx => hc.noClash x (by
               simp only [Children.all, List.mem_append]; exact Or.inr hx),
             fun e' he' hmm => hc.noOverlap e' (by
               simp only [Children.all, List.mem_append]; exact Or.inr he') hmm⟩
          obtain ⟨tl', htl⟩ := Children.insertAt_ok tl k rest seen e hp.2 hs.2 hm.2 hl.2.2 hw hn hsn hcc
          simp [Children.insertAt, hk, hlt, htl]
end



theorem live_empty : Node.Live (Node.empty : Node V) := by simp [Node.empty, Node.Live, Edges.Live]

theorem insertAll_live : ∀ (es : List (Endpoint V)) (t t' : Node V), Node.Live t →
    insertAll t es = .ok t' → Node.Live t'
  | [], t, t', hl, h => by simp only [insertAll, Except.ok.injEq] at h; subst h; exact hl
  | e :: es, t, t', hl, h => by
    simp only [insertAll] at h
    split at h
    · cases h
    · rename_i t1 h1
      exact insertAll_live es t1 t' (Node.insertAt_live t e.path [] e t1 hl h1) h


end Dropshot.C02
