/-
Lemmas about the percent-decoding model (DropshotModel/Percent.lean).
-/
import DropshotModel.Percent

namespace Dropshot.Percent

theorem hexVal_hexDigit : ∀ up : Bool, ∀ n, n < 16 → hexVal (hexDigit up n) = some n := by
  decide

theorem hexDigit_ge (up : Bool) (n : Nat) : 48 ≤ hexDigit up n := by
  unfold hexDigit; split
  · omega
  · split <;> omega

@[simp] theorem pctDecode_nil : pctDecode [] = [] := rfl

theorem pctDecode_raw (b : Nat) (rest : Bytes) (h : b ≠ 37) :
    pctDecode (b :: rest) = b :: pctDecode rest := by
  rw [pctDecode.eq_def]; simp [h]

theorem pctDecode_hex (h l x y : Nat) (rest : Bytes) (hx : hexVal h = some x) (hy : hexVal l = some y) :
    pctDecode (37 :: h :: l :: rest) = (16 * x + y) :: pctDecode rest := by
  rw [pctDecode.eq_def]; simp [hx, hy]

theorem pctDecode_enc (b : Nat) (hi lo : Bool) (rest : Bytes) (hb : b < 256) :
    pctDecode (37 :: hexDigit hi (b / 16) :: hexDigit lo (b % 16) :: rest) = b :: pctDecode rest := by
  rw [pctDecode_hex _ _ (b / 16) (b % 16) _ (hexVal_hexDigit hi _ (by omega)) (hexVal_hexDigit lo _ (by omega))]
  congr 1; omega

theorem pctDecode_spell (cs : List PctByte) (rest : Bytes) (h : ∀ c ∈ cs, c.ok = true) :
    pctDecode (spell cs ++ rest) = meant cs ++ pctDecode rest := by
  induction cs with
  | nil => rfl
  | cons c cs ih =>
    have hc := h c (by simp)
    have ih := ih (fun c hc => h c (by simp [hc]))
    cases c with
    | raw b =>
      simp [PctByte.ok] at hc
      simp [spell, meant, PctByte.wire, PctByte.byte] at *
      rw [pctDecode_raw _ _ hc, ih]
    | enc b hi lo =>
      simp [PctByte.ok] at hc
      simp [spell, meant, PctByte.wire, PctByte.byte] at *
      rw [pctDecode_enc _ _ _ _ hc, ih]

theorem pctEncodeAll_eq_spell (bs : Bytes) :
    pctEncodeAll bs = spell (bs.map fun b => .enc b true true) := by
  simp [pctEncodeAll, spell, List.flatMap_map, PctByte.wire]

theorem pctDecode_pctEncodeAll (bs : Bytes) (h : ∀ b ∈ bs, b < 256) :
    pctDecode (pctEncodeAll bs) = bs := by
  have := pctDecode_spell (bs.map fun b => .enc b true true) [] (by simpa [PctByte.ok] using h)
  have hm : meant (bs.map fun b => .enc b true true) = bs := by
    simp [meant, Function.comp_def, PctByte.byte]
  rw [← pctEncodeAll_eq_spell, hm] at this
  simpa using this

theorem pctDecode_eq_nil (r : Bytes) : pctDecode r = [] ↔ r = [] := by
  constructor
  · intro h
    cases r with
    | nil => rfl
    | cons b rest =>
      exfalso
      rw [pctDecode.eq_def] at h; dsimp only at h
      split at h
      · split at h
        · split at h <;> simp at h
        · simp at h
        · simp at h
      · simp at h
  · rintro rfl; rfl

/-- Every byte the decoder produces is a byte. -/
theorem pctDecode_lt (r : Bytes) (h : ∀ b ∈ r, b < 256) : ∀ b ∈ pctDecode r, b < 256 := by
  fun_induction pctDecode r <;> simp_all [hexVal] <;> grind

theorem spell_no_slash (cs : List PctByte) (h : ∀ c ∈ cs, c ≠ .raw 47) : 47 ∉ spell cs := by
  induction cs with
  | nil => simp [spell]
  | cons c cs ih =>
    have hc := h c (by simp)
    have ih := ih (fun c hc => h c (by simp [hc]))
    simp only [spell, List.flatMap_cons, List.mem_append, not_or] at *
    refine ⟨?_, ih⟩
    cases c with
    | raw b => simp [PctByte.wire]; intro h; exact hc (by rw [h])
    | enc b hi lo =>
      have := hexDigit_ge hi (b / 16); have := hexDigit_ge lo (b % 16)
      simp [PctByte.wire]; omega

end Dropshot.Percent
