/-
Helper lemmas for C02: what a successful `HttpRouter::insert` rules out
(segment after a wildcard, repeated variable, kind/name clash with a stored
template, overlap with a stored handler of the same method at the same node).
-/
import DropshotProofs.Lemmas.RouterInv

namespace Dropshot.C02
open Dropshot
variable {V : Type} [LinearOrder V]

/-- A template whose wildcard, if any, is its last segment. -/
def WildLast : List Seg → Prop
  | [] => True
  | [_] => True
  | .wild _ :: _ :: _ => False
  | _ :: rest => WildLast rest

theorem wildLast_cons (s : Seg) (rest : List Seg) (h1 : ∀ n, s = .wild n → rest = [])
    (h2 : WildLast rest) : WildLast (s :: rest) := by
  cases rest with
  | nil => trivial
  | cons r rs =>
    cases s with
    | wild n => exact absurd (h1 n rfl) (by simp)
    | lit _ => exact h2
    | var _ => exact h2

theorem Node.chain_wildLast : ∀ (segs : List Seg) (seen : List String) (e : Endpoint V) (c : Node V),
    Node.chain segs seen e = .ok c → WildLast segs
  | [], _, _, _, _ => trivial
  | .lit s :: rest, seen, e, c, h => by
    simp only [Node.chain] at h
    split at h
    · cases h
    · rename_i c' hc
      exact wildLast_cons _ _ (by simp) (Node.chain_wildLast rest seen e c' hc)
  | .var n :: rest, seen, e, c, h => by
    simp only [Node.chain] at h
    split at h
    · cases h
    · split at h
      · cases h
      · rename_i c' hc
        exact wildLast_cons _ _ (by simp) (Node.chain_wildLast rest (n :: seen) e c' hc)
  | .wild n :: rest, seen, e, c, h => by
    simp only [Node.chain] at h
    split at h
    · cases h
    · rename_i hr
      have : rest = [] := by simpa using hr
      subst this; trivial

mutual
  theorem Node.insertAt_wildLast : ∀ (n : Node V) (segs : List Seg) (seen : List String)
      (e : Endpoint V) (n' : Node V), Node.insertAt n segs seen e = .ok n' → WildLast segs
    | .mk ms es, [], _, _, _, _ => trivial
    | .mk ms es, seg :: rest, seen, e, n', h => by
      simp only [Node.insertAt] at h
      split at h
      · cases h
      · rename_i es' hes
        exact Edges.insertAt_wildLast es seg rest seen e es' hes
  theorem Edges.insertAt_wildLast : ∀ (es : Edges V) (seg : Seg) (rest : List Seg)
      (seen : List String) (e : Endpoint V) (es' : Edges V),
      Edges.insertAt es seg rest seen e = .ok es' → WildLast (seg :: rest)
    | .none, seg, rest, seen, e, es', h => by
      simp only [Edges.insertAt] at h
      split at h
      · cases h
      · rename_i ms es0 hc
        exact Node.chain_wildLast (seg :: rest) seen e _ hc
    | .lits cs, .lit s, rest, seen, e, es', h => by
      simp only [Edges.insertAt] at h
      split at h
      · cases h
      · rename_i cs' hcs
        exact wildLast_cons _ _ (by simp) (Children.insertAt_wildLast cs s rest seen e cs' hcs)
    | .lits _, .var n, _, seen, _, _, h => by
      simp only [Edges.insertAt] at h; split at h <;> cases h
    | .lits _, .wild n, rest, seen, _, _, h => by
      simp only [Edges.insertAt] at h; (repeat' split at h) <;> cases h
    | .single _ _, .lit _, _, _, _, _, h => by simp [Edges.insertAt] at h
    | .single n' c, .var n, rest, seen, e, es', h => by
      simp only [Edges.insertAt] at h
      split at h
      · cases h
      · split at h
        · cases h
        · split at h
          · cases h
          · rename_i c' hc
            exact wildLast_cons _ _ (by simp) (Node.insertAt_wildLast c rest (n :: seen) e c' hc)
    | .single _ _, .wild n, rest, seen, _, _, h => by
      simp only [Edges.insertAt] at h; (repeat' split at h) <;> cases h
    | .rest _ _, .lit _, _, _, _, _, h => by simp [Edges.insertAt] at h
    | .rest _ _, .var n, _, seen, _, _, h => by
      simp only [Edges.insertAt] at h; split at h <;> cases h
    | .rest n' c, .wild n, rest, seen, e, es', h => by
      simp only [Edges.insertAt] at h
      split at h
      · cases h
      · rename_i hr
        have : rest = [] := by simpa using hr
        subst this; trivial
  theorem Children.insertAt_wildLast : ∀ (cs : Children V) (k : String) (rest : List Seg)
      (seen : List String) (e : Endpoint V) (cs' : Children V),
      Children.insertAt cs k rest seen e = .ok cs' → WildLast rest
    | .nil, k, rest, seen, e, cs', h => by
      simp only [Children.insertAt] at h
      split at h
      · cases h
      · rename_i c hc; exact Node.chain_wildLast rest seen e c hc
    | .cons k' c tl, k, rest, seen, e, cs', h => by
      simp only [Children.insertAt] at h
      split at h
      · split at h
        · cases h
        · rename_i c' hc; exact Node.insertAt_wildLast c rest seen e c' hc
      · split at h
        · split at h
          · cases h
          · rename_i cn hc; exact Node.chain_wildLast rest seen e cn hc
        · split at h
          · cases h
          · rename_i tl' htl; exact Children.insertAt_wildLast tl k rest seen e tl' htl
end


/-- Variable names a template binds, in order. -/
def varNames (p : List Seg) : List String :=
  p.filterMap fun s => match s with | .lit _ => none | .var n => some n | .wild n => some n

/-- Two templates disagree at the first position where they differ, unless both
segments there are literals (different literals simply are different routes). -/
def pathClash : List Seg → List Seg → Bool
  | a :: as, b :: bs =>
    if a = b then pathClash as bs
    else match a, b with
      | .lit _, .lit _ => false
      | _, _ => true
  | _, _ => false

@[simp] theorem pathClash_nil_right (a : List Seg) : pathClash a [] = false := by
  cases a <;> rfl
@[simp] theorem pathClash_nil_left (b : List Seg) : pathClash [] b = false := by
  cases b <;> rfl
@[simp] theorem pathClash_cons_same (s : Seg) (a b : List Seg) :
    pathClash (s :: a) (s :: b) = pathClash a b := by simp [pathClash]
theorem pathClash_lit_ne (k k' : String) (a b : List Seg) (h : k ≠ k') :
    pathClash (.lit k :: a) (.lit k' :: b) = false := by
  simp [pathClash, h]

/-! #### (b) a repeated variable name is refused -/

theorem Node.chain_vars : ∀ (segs : List Seg) (seen : List String) (e : Endpoint V) (c : Node V),
    Node.chain segs seen e = .ok c → (varNames segs).Nodup ∧ ∀ x ∈ varNames segs, x ∉ seen
  | [], _, _, _, _ => by simp [varNames]
  | .lit s :: rest, seen, e, c, h => by
    simp only [Node.chain] at h
    split at h
    · cases h
    · rename_i c' hc
      simpa [varNames] using Node.chain_vars rest seen e c' hc
  | .var n :: rest, seen, e, c, h => by
    simp only [Node.chain] at h
    split at h
    · cases h
    · rename_i hn
      split at h
      · cases h
      · rename_i c' hc
        obtain ⟨h1, h2⟩ := Node.chain_vars rest (n :: seen) e c' hc
        simp only [varNames, List.filterMap_cons, List.nodup_cons, List.mem_cons, forall_eq_or_imp] at *
        refine ⟨⟨fun hm => (h2 n hm) (Or.inl rfl), h1⟩, hn, fun x hx hs => h2 x hx (Or.inr hs)⟩
  | .wild n :: rest, seen, e, c, h => by
    simp only [Node.chain] at h
    split at h
    · cases h
    · rename_i hr
      have : rest = [] := by simpa using hr
      subst this
      split at h
      · cases h
      · rename_i hn
        simp [varNames, hn]

mutual
  theorem Node.insertAt_vars : ∀ (n : Node V) (segs : List Seg) (seen : List String)
      (e : Endpoint V) (n' : Node V), Node.insertAt n segs seen e = .ok n' →
      (varNames segs).Nodup ∧ ∀ x ∈ varNames segs, x ∉ seen
    | .mk ms es, [], _, _, _, _ => by simp [varNames]
    | .mk ms es, seg :: rest, seen, e, n', h => by
      simp only [Node.insertAt] at h
      split at h
      · cases h
      · rename_i es' hes
        exact Edges.insertAt_vars es seg rest seen e es' hes
  theorem Edges.insertAt_vars : ∀ (es : Edges V) (seg : Seg) (rest : List Seg)
      (seen : List String) (e : Endpoint V) (es' : Edges V),
      Edges.insertAt es seg rest seen e = .ok es' →
      (varNames (seg :: rest)).Nodup ∧ ∀ x ∈ varNames (seg :: rest), x ∉ seen
    | .none, seg, rest, seen, e, es', h => by
      simp only [Edges.insertAt] at h
      split at h
      · cases h
      · rename_i ms es0 hc
        exact Node.chain_vars (seg :: rest) seen e _ hc
    | .lits cs, .lit s, rest, seen, e, es', h => by
      simp only [Edges.insertAt] at h
      split at h
      · cases h
      · rename_i cs' hcs
        simpa [varNames] using Children.insertAt_vars cs s rest seen e cs' hcs
    | .lits _, .var n, _, seen, _, _, h => by
      simp only [Edges.insertAt] at h; split at h <;> cases h
    | .lits _, .wild n, rest, seen, _, _, h => by
      simp only [Edges.insertAt] at h; (repeat' split at h) <;> cases h
    | .single _ _, .lit _, _, _, _, _, h => by simp [Edges.insertAt] at h
    | .single n' c, .var n, rest, seen, e, es', h => by
      simp only [Edges.insertAt] at h
      split at h
      · cases h
      · rename_i hn
        split at h
        · cases h
        · split at h
          · cases h
          · rename_i c' hc
            obtain ⟨h1, h2⟩ := Node.insertAt_vars c rest (n :: seen) e c' hc
            simp only [varNames, List.filterMap_cons, List.nodup_cons, List.mem_cons, forall_eq_or_imp] at *
            refine ⟨⟨fun hm => (h2 n hm) (Or.inl rfl), h1⟩, hn, fun x hx hs => h2 x hx (Or.inr hs)⟩
    | .single _ _, .wild n, rest, seen, _, _, h => by
      simp only [Edges.insertAt] at h; (repeat' split at h) <;> cases h
    | .rest _ _, .lit _, _, _, _, _, h => by simp [Edges.insertAt] at h
    | .rest _ _, .var n, _, seen, _, _, h => by
      simp only [Edges.insertAt] at h; split at h <;> cases h
    | .rest n' c, .wild n, rest, seen, e, es', h => by
      simp only [Edges.insertAt] at h
      split at h
      · cases h
      · rename_i hr
        have : rest = [] := by simpa using hr
        subst this
        split at h
        · cases h
        · rename_i hn
          simp [varNames, hn]
  theorem Children.insertAt_vars : ∀ (cs : Children V) (k : String) (rest : List Seg)
      (seen : List String) (e : Endpoint V) (cs' : Children V),
      Children.insertAt cs k rest seen e = .ok cs' →
      (varNames rest).Nodup ∧ ∀ x ∈ varNames rest, x ∉ seen
    | .nil, k, rest, seen, e, cs', h => by
      simp only [Children.insertAt] at h
      split at h
      · cases h
      · rename_i c hc; exact Node.chain_vars rest seen e c hc
    | .cons k' c tl, k, rest, seen, e, cs', h => by
      simp only [Children.insertAt] at h
      split at h
      · split at h
        · cases h
        · rename_i c' hc; exact Node.insertAt_vars c rest seen e c' hc
      · split at h
        · split at h
          · cases h
          · rename_i cn hc; exact Node.chain_vars rest seen e cn hc
        · split at h
          · cases h
          · rename_i tl' htl; exact Children.insertAt_vars tl k rest seen e tl' htl
end



/-! #### (c) a kind or name mismatch at the first differing position is refused -/

theorem Children.all_key_ne (cs : Children V) (k : String) (rest : List Seg)
    (hk : ∀ k' ∈ Children.keys cs, k' ≠ k) (x : List Seg × Endpoint V)
    (hx : x ∈ Children.all cs []) : pathClash x.1 (.lit k :: rest) = false := by
  obtain ⟨a, e⟩ := x
  obtain ⟨k', r, rfl, hk'⟩ := Children.mem_all_lit cs a e hx
  exact pathClash_lit_ne k' k r rest (hk k' hk')

mutual
  theorem Node.insertAt_noClash : ∀ (n : Node V) (segs : List Seg) (seen : List String)
      (e : Endpoint V) (n' : Node V), Node.Sorted n → Node.insertAt n segs seen e = .ok n' →
      ∀ x ∈ Node.all n [], pathClash x.1 segs = false
    | .mk ms es, [], _, _, _, _, _, x, _ => by simp
    | .mk ms es, seg :: rest, seen, e, n', hs, h, x, hx => by
      simp only [Node.insertAt] at h
      split at h
      · cases h
      · rename_i es' hes
        rw [Node.all_mk] at hx
        rcases hx with ⟨h1, -⟩ | hx
        · rw [h1]; simp
        · simp only [Node.Sorted] at hs
          exact Edges.insertAt_noClash es seg rest seen e es' hs hes x hx
  theorem Edges.insertAt_noClash : ∀ (es : Edges V) (seg : Seg) (rest : List Seg)
      (seen : List String) (e : Endpoint V) (es' : Edges V), Edges.Sorted es →
      Edges.insertAt es seg rest seen e = .ok es' →
      ∀ x ∈ Edges.all es [], pathClash x.1 (seg :: rest) = false
    | .none, _, _, _, _, _, _, _, x, hx => by simp [Edges.all] at hx
    | .lits cs, .lit s, rest, seen, e, es', hs, h, x, hx => by
      simp only [Edges.insertAt] at h
      split at h
      · cases h
      · rename_i cs' hcs
        simp only [Edges.Sorted] at hs
        simp only [Edges.all] at hx
        exact Children.insertAt_noClash cs s rest seen e cs' hs.1 hs.2 hcs x hx
    | .lits _, .var n, _, seen, _, _, _, h, _, _ => by
      simp only [Edges.insertAt] at h; split at h <;> cases h
    | .lits _, .wild n, rest, seen, _, _, _, h, _, _ => by
      simp only [Edges.insertAt] at h; (repeat' split at h) <;> cases h
    | .single _ _, .lit _, _, _, _, _, _, h, _, _ => by simp [Edges.insertAt] at h
    | .single n' c, .var n, rest, seen, e, es', hs, h, x, hx => by
      simp only [Edges.insertAt] at h
      split at h
      · cases h
      · split at h
        · cases h
        · rename_i hn
          split at h
          · cases h
          · rename_i c' hc
            have hn' : n = n' := by simpa using hn
            subst hn'
            obtain ⟨a, e'⟩ := x
            simp only [Edges.all, List.nil_append, Node.mem_all_cons] at hx
            obtain ⟨r, rfl, hr⟩ := hx
            simp only [Edges.Sorted] at hs
            simpa using Node.insertAt_noClash c rest (n :: seen) e c' hs hc (r, e') hr
    | .single _ _, .wild n, rest, seen, _, _, _, h, _, _ => by
      simp only [Edges.insertAt] at h; (repeat' split at h) <;> cases h
    | .rest _ _, .lit _, _, _, _, _, _, h, _, _ => by simp [Edges.insertAt] at h
    | .rest _ _, .var n, _, seen, _, _, _, h, _, _ => by
      simp only [Edges.insertAt] at h; split at h <;> cases h
    | .rest n' c, .wild n, rest, seen, e, es', hs, h, x, hx => by
      simp only [Edges.insertAt] at h
      split at h
      · cases h
      · rename_i hr
        have : rest = [] := by simpa using hr
        subst this
        split at h
        · cases h
        · split at h
          · cases h
          · rename_i hn
            have hn' : n = n' := by simpa using hn
            subst hn'
            obtain ⟨a, e'⟩ := x
            simp only [Edges.all, List.nil_append, Node.mem_all_cons] at hx
            obtain ⟨r, rfl, -⟩ := hx
            simp
  theorem Children.insertAt_noClash : ∀ (cs : Children V) (k : String) (rest : List Seg)
      (seen : List String) (e : Endpoint V) (cs' : Children V),
      (Children.keys cs).Pairwise (· < ·) → Children.Sorted cs →
      Children.insertAt cs k rest seen e = .ok cs' →
      ∀ x ∈ Children.all cs [], pathClash x.1 (.lit k :: rest) = false
    | .nil, _, _, _, _, _, _, _, _, x, hx => by simp [Children.all] at hx
    | .cons k' c tl, k, rest, seen, e, cs', hp, hs, h, x, hx => by
      simp only [Children.keys, List.pairwise_cons] at hp
      simp only [Children.Sorted] at hs
      simp only [Children.all, List.nil_append, List.mem_append] at hx
      simp only [Children.insertAt] at h
      split at h
      · rename_i hk; subst hk
        split at h
        · cases h
        · rename_i c' hc
          rcases hx with hx | hx
          · obtain ⟨a, e'⟩ := x
            rw [Node.mem_all_cons] at hx
            obtain ⟨r, rfl, hr⟩ := hx
            simpa using Node.insertAt_noClash c rest seen e c' hs.1 hc (r, e') hr
          · refine Children.all_key_ne tl k rest (fun k'' hk'' heq => ?_) x hx
            subst heq
            exact String.lt_irrefl _ (hp.1 _ hk'')
      · rename_i hne
        split at h
        · rename_i hlt
          -- every existing key is ≥ k' > k
          rcases hx with hx | hx
          · obtain ⟨a, e'⟩ := x
            rw [Node.mem_all_cons] at hx
            obtain ⟨r, rfl, -⟩ := hx
            exact pathClash_lit_ne k' k r rest (fun h => hne h.symm)
          · refine Children.all_key_ne tl k rest (fun k'' hk'' heq => ?_) x hx
            subst heq
            exact String.lt_asymm hlt (hp.1 _ hk'')
        · split at h
          · cases h
          · rename_i tl' htl
            rcases hx with hx | hx
            · obtain ⟨a, e'⟩ := x
              rw [Node.mem_all_cons] at hx
              obtain ⟨r, rfl, -⟩ := hx
              exact pathClash_lit_ne k' k r rest (fun h => hne h.symm)
            · exact Children.insertAt_noClash tl k rest seen e tl' hp.2 hs.2 htl x hx
end



/-! #### (d) same path, same method, overlapping versions is refused -/

theorem addHandler_noOverlap (ms ms' : List (String × List (Endpoint V))) (e e' : Endpoint V)
    (hok : MethodsOK ms) (h : addHandler ms e = .ok ms') (he' : e' ∈ storedOf ms)
    (hm : normMethod e'.method = normMethod e.method) :
    Range.overlaps e'.versions e.versions = false := by
  unfold addHandler at h
  simp only at h
  split at h
  · cases h
  · rename_i hc
    have hno := conflictWith_none e _ hc
    simp only [storedOf, List.mem_flatMap] at he'
    obtain ⟨q, hq, heq⟩ := he'
    have hq1 : q.1 = normMethod e.method := by rw [← (hok.2 q hq).1 e' heq, hm]
    have : handlersFor ms (normMethod e.method) = q.2 := by
      rw [← hq1]; exact handlersFor_of_mem ms q hok.1 hq
    rw [this] at hno
    exact hno e' heq

mutual
  theorem Node.insertAt_noOverlap : ∀ (n : Node V) (segs : List Seg) (seen : List String)
      (e : Endpoint V) (n' : Node V), Node.Sorted n → Node.MethodsWF n →
      Node.insertAt n segs seen e = .ok n' →
      ∀ e', (segs, e') ∈ Node.all n [] → normMethod e'.method = normMethod e.method →
        Range.overlaps e'.versions e.versions = false
    | .mk ms es, [], seen, e, n', _, hm, h, e', hx, hmeth => by
      simp only [Node.insertAt] at h
      split at h
      · cases h
      · rename_i ms' hms
        simp only [Node.MethodsWF] at hm
        have hst := Node.nil_mem_all _ e' hx
        simp only [Node.stored, Node.methods] at hst
        exact addHandler_noOverlap ms ms' e e' hm.1 hms hst hmeth
    | .mk ms es, seg :: rest, seen, e, n', hs, hm, h, e', hx, hmeth => by
      simp only [Node.insertAt] at h
      split at h
      · cases h
      · rename_i es' hes
        rw [Node.all_mk] at hx
        rcases hx with ⟨h1, -⟩ | hx
        · simp at h1
        · simp only [Node.Sorted] at hs
          simp only [Node.MethodsWF] at hm
          exact Edges.insertAt_noOverlap es seg rest seen e es' hs hm.2 hes e' hx hmeth
  theorem Edges.insertAt_noOverlap : ∀ (es : Edges V) (seg : Seg) (rest : List Seg)
      (seen : List String) (e : Endpoint V) (es' : Edges V), Edges.Sorted es → Edges.MethodsWF es →
      Edges.insertAt es seg rest seen e = .ok es' →
      ∀ e', (seg :: rest, e') ∈ Edges.all es [] → normMethod e'.method = normMethod e.method →
        Range.overlaps e'.versions e.versions = false
    | .none, _, _, _, _, _, _, _, _, _, hx, _ => by simp [Edges.all] at hx
    | .lits cs, .lit s, rest, seen, e, es', hs, hm, h, e', hx, hmeth => by
      simp only [Edges.insertAt] at h
      split at h
      · cases h
      · rename_i cs' hcs
        simp only [Edges.Sorted] at hs
        simp only [Edges.MethodsWF] at hm
        simp only [Edges.all] at hx
        exact Children.insertAt_noOverlap cs s rest seen e cs' hs.1 hs.2 hm hcs e' hx hmeth
    | .lits _, .var n, _, seen, _, _, _, _, h, _, _, _ => by
      simp only [Edges.insertAt] at h; split at h <;> cases h
    | .lits _, .wild n, rest, seen, _, _, _, _, h, _, _, _ => by
      simp only [Edges.insertAt] at h; (repeat' split at h) <;> cases h
    | .single _ _, .lit _, _, _, _, _, _, _, h, _, _, _ => by simp [Edges.insertAt] at h
    | .single n' c, .var n, rest, seen, e, es', hs, hm, h, e', hx, hmeth => by
      simp only [Edges.insertAt] at h
      split at h
      · cases h
      · split at h
        · cases h
        · split at h
          · cases h
          · rename_i c' hc
            simp only [Edges.all, List.nil_append, Node.mem_all_cons] at hx
            obtain ⟨r, hr1, hr⟩ := hx
            simp only [List.cons.injEq] at hr1
            obtain ⟨-, rfl⟩ := hr1
            simp only [Edges.Sorted] at hs
            simp only [Edges.MethodsWF] at hm
            exact Node.insertAt_noOverlap c rest (n :: seen) e c' hs hm hc e' hr hmeth
    | .single _ _, .wild n, rest, seen, _, _, _, _, h, _, _, _ => by
      simp only [Edges.insertAt] at h; (repeat' split at h) <;> cases h
    | .rest _ _, .lit _, _, _, _, _, _, _, h, _, _, _ => by simp [Edges.insertAt] at h
    | .rest _ _, .var n, _, seen, _, _, _, _, h, _, _, _ => by
      simp only [Edges.insertAt] at h; split at h <;> cases h
    | .rest n' c, .wild n, rest, seen, e, es', hs, hm, h, e', hx, hmeth => by
      simp only [Edges.insertAt] at h
      split at h
      · cases h
      · split at h
        · cases h
        · split at h
          · cases h
          · split at h
            · cases h
            · rename_i c' hc
              simp only [Edges.all, List.nil_append, Node.mem_all_cons] at hx
              obtain ⟨r, hr1, hr⟩ := hx
              simp only [List.cons.injEq] at hr1
              obtain ⟨-, rfl⟩ := hr1
              simp only [Edges.Sorted] at hs
              simp only [Edges.MethodsWF] at hm
              exact Node.insertAt_noOverlap c rest (n :: seen) e c' hs hm hc e' hr hmeth
  theorem Children.insertAt_noOverlap : ∀ (cs : Children V) (k : String) (rest : List Seg)
      (seen : List String) (e : Endpoint V) (cs' : Children V),
      (Children.keys cs).Pairwise (· < ·) → Children.Sorted cs → Children.MethodsWF cs →
      Children.insertAt cs k rest seen e = .ok cs' →
      ∀ e', (Seg.lit k :: rest, e') ∈ Children.all cs [] → normMethod e'.method = normMethod e.method →
        Range.overlaps e'.versions e.versions = false
    | .nil, _, _, _, _, _, _, _, _, _, _, hx, _ => by simp [Children.all] at hx
    | .cons k' c tl, k, rest, seen, e, cs', hp, hs, hm, h, e', hx, hmeth => by
      simp only [Children.keys, List.pairwise_cons] at hp
      simp only [Children.Sorted] at hs
      simp only [Children.MethodsWF] at hm
      simp only [Children.all, List.nil_append, List.mem_append] at hx
      simp only [Children.insertAt] at h
      split at h
      · rename_i hk; subst hk
        split at h
        · cases h
        · rename_i c' hc
          rcases hx with hx | hx
          · rw [Node.mem_all_cons] at hx
            obtain ⟨r, hr1, hr⟩ := hx
            simp only [List.cons.injEq] at hr1
            obtain ⟨-, rfl⟩ := hr1
            exact Node.insertAt_noOverlap c rest seen e c' hs.1 hm.1 hc e' hr hmeth
          · exfalso
            obtain ⟨k'', r, h1, hk''⟩ := Children.mem_all_lit tl _ e' hx
            simp only [List.cons.injEq, Seg.lit.injEq] at h1
            obtain ⟨rfl, -⟩ := h1
            exact String.lt_irrefl _ (hp.1 _ hk'')
      · rename_i hne
        split at h
        · rename_i hlt
          exfalso
          rcases hx with hx | hx
          · rw [Node.mem_all_cons] at hx
            obtain ⟨r, hr1, -⟩ := hx
            simp only [List.cons.injEq, Seg.lit.injEq] at hr1
            exact hne hr1.1
          · obtain ⟨k'', r, h1, hk''⟩ := Children.mem_all_lit tl _ e' hx
            simp only [List.cons.injEq, Seg.lit.injEq] at h1
            obtain ⟨rfl, -⟩ := h1
            exact String.lt_asymm hlt (hp.1 _ hk'')
        · split at h
          · cases h
          · rename_i tl' htl
            rcases hx with hx | hx
            · exfalso
              rw [Node.mem_all_cons] at hx
              obtain ⟨r, hr1, -⟩ := hx
              simp only [List.cons.injEq, Seg.lit.injEq] at hr1
              exact hne hr1.1
            · exact Children.insertAt_noOverlap tl k rest seen e tl' hp.2 hs.2 hm.2 htl e' hx hmeth
end


end Dropshot.C02
