/-
Helper lemmas for C06: the iterator's entries are sorted by (node address,
method key); at one version the matching entries are strictly sorted, so the
sequence is determined by the set of registered endpoints.
-/
import DropshotProofs.C01

namespace Dropshot.C06
open Dropshot
variable {V : Type} [LinearOrder V]


/-- The iterator's order on node addresses: a node before its descendants,
literal siblings by key (variable and wildcard edges have no siblings). -/
def addrLt : List Seg → List Seg → Prop
  | [], [] => False
  | [], _ :: _ => True
  | _ :: _, [] => False
  | a :: as, b :: bs =>
    if a = b then addrLt as bs
    else match a, b with
      | .lit k, .lit k' => k < k'
      | _, _ => False

theorem addrLt_irrefl : ∀ a : List Seg, ¬ addrLt a a
  | [] => by simp [addrLt]
  | s :: r => by simp [addrLt, addrLt_irrefl r]

theorem addrLt_asymm : ∀ a b : List Seg, addrLt a b → ¬ addrLt b a
  | [], [], h => by simp [addrLt] at h
  | [], _ :: _, _ => by simp [addrLt]
  | _ :: _, [], h => by simp [addrLt] at h
  | a :: as, b :: bs, h => by
    simp only [addrLt] at h ⊢
    by_cases hab : a = b
    · subst hab
      simp only [if_true] at h ⊢
      exact addrLt_asymm as bs h
    · have hba : ¬ b = a := fun h' => hab h'.symm
      simp only [hab, hba, if_false] at h ⊢
      cases a <;> cases b <;> simp_all
      exact String.lt_asymm h

theorem addrLt_append_left : ∀ (pre a b : List Seg), addrLt (pre ++ a) (pre ++ b) ↔ addrLt a b
  | [], a, b => by simp
  | s :: pre, a, b => by simp [addrLt, addrLt_append_left pre a b]

theorem addrLt_prefix (pre : List Seg) (s : Seg) (r : List Seg) : addrLt pre (pre ++ s :: r) := by
  have := (addrLt_append_left pre [] (s :: r)).2 (by simp [addrLt])
  simpa using this

theorem addrLt_lit (pre : List Seg) (k k' : String) (r r' : List Seg) (h : k < k') :
    addrLt (pre ++ .lit k :: r) (pre ++ .lit k' :: r') := by
  rw [addrLt_append_left]
  have hne : ¬ (Seg.lit k = Seg.lit k') := by
    intro he; simp only [Seg.lit.injEq] at he; subst he; exact String.lt_irrefl _ h
  simp [addrLt, hne, h]

/-- Position of an entry in the iteration: address, then method key. -/
def keyLt (x y : List Seg × Endpoint V) : Prop :=
  addrLt x.1 y.1 ∨ (x.1 = y.1 ∧ normMethod x.2.method < normMethod y.2.method)

theorem keyLt_irrefl (x : List Seg × Endpoint V) : ¬ keyLt x x := by
  rintro (h | ⟨-, h⟩)
  · exact addrLt_irrefl _ h
  · exact String.lt_irrefl _ h

theorem keyLt_asymm (x y : List Seg × Endpoint V) (h : keyLt x y) : ¬ keyLt y x := by
  rintro (h' | ⟨e', h'⟩)
  · rcases h with h | ⟨e, -⟩
    · exact addrLt_asymm _ _ h h'
    · rw [e] at h'; exact addrLt_irrefl _ h'
  · rcases h with h | ⟨-, h⟩
    · rw [e'] at h; exact addrLt_irrefl _ h
    · exact String.lt_asymm h h'

/-- Two lists strictly sorted by an irreflexive, asymmetric relation with the
same members are equal. -/
theorem eq_of_sorted_same_members {α : Type} (lt : α → α → Prop)
    (hirr : ∀ a, ¬ lt a a) (hasym : ∀ a b, lt a b → ¬ lt b a) :
    ∀ (l₁ l₂ : List α), l₁.Pairwise lt → l₂.Pairwise lt → (∀ x, x ∈ l₁ ↔ x ∈ l₂) → l₁ = l₂
  | [], [], _, _, _ => rfl
  | [], b :: _, _, _, h => by have := (h b).2 (by simp); simp at this
  | a :: _, [], _, _, h => by have := (h a).1 (by simp); simp at this
  | a :: t₁, b :: t₂, h₁, h₂, h => by
    simp only [List.pairwise_cons] at h₁ h₂
    have hab : a = b := by
      by_contra hne
      have ha : a ∈ t₂ := by
        rcases List.mem_cons.1 ((h a).1 (by simp)) with h' | h'
        · exact absurd h' hne
        · exact h'
      have hb : b ∈ t₁ := by
        rcases List.mem_cons.1 ((h b).2 (by simp)) with h' | h'
        · exact absurd h'.symm hne
        · exact h'
      exact hasym _ _ (h₁.1 b hb) (h₂.1 a ha)
    subst hab
    congr 1
    refine eq_of_sorted_same_members lt hirr hasym t₁ t₂ h₁.2 h₂.2 (fun x => ?_)
    constructor
    · intro hx
      rcases List.mem_cons.1 ((h x).1 (List.mem_cons_of_mem _ hx)) with h' | h'
      · subst h'; exact absurd (h₁.1 x hx) (hirr x)
      · exact h'
    · intro hx
      rcases List.mem_cons.1 ((h x).2 (List.mem_cons_of_mem _ hx)) with h' | h'
      · subst h'; exact absurd (h₂.1 x hx) (hirr x)
      · exact h'



/-- Consecutive-or-not, any two entries of the iteration are in key order, or
share their node and method and have non-overlapping version ranges. -/
def IterRel (x y : List Seg × Endpoint V) : Prop :=
  keyLt x y ∨ (x.1 = y.1 ∧ normMethod x.2.method = normMethod y.2.method ∧
    Range.overlaps x.2.versions y.2.versions = false)

theorem own_pairwise (pre : List Seg) : ∀ (ms : List (String × List (Endpoint V))), MethodsOK ms →
    (ms.flatMap fun p => p.2.map fun e => (pre, e)).Pairwise IterRel
  | [], _ => by simp
  | p :: tl, hok => by
    have hk := hok.1
    simp only [List.map_cons, List.pairwise_cons] at hk
    have hp := hok.2 p (by simp)
    have htl : MethodsOK tl := ⟨hk.2, fun q hq => hok.2 q (by simp [hq])⟩
    simp only [List.flatMap_cons, List.pairwise_append]
    refine ⟨?_, own_pairwise pre tl htl, ?_⟩
    · rw [List.pairwise_map]
      refine hp.2.imp_of_mem ?_
      intro a b ha hb hab
      exact Or.inr ⟨rfl, by rw [hp.1 a ha, hp.1 b hb], hab⟩
    · intro x hx y hy
      simp only [List.mem_map] at hx
      obtain ⟨a, ha, rfl⟩ := hx
      simp only [List.mem_flatMap, List.mem_map] at hy
      obtain ⟨q, hq, b, hb, rfl⟩ := hy
      refine Or.inl (Or.inr ⟨rfl, ?_⟩)
      have hq' := hok.2 q (by simp [hq])
      rw [hp.1 a ha, hq'.1 b hb]
      exact hk.1 q.1 (List.mem_map.2 ⟨q, hq, rfl⟩)

theorem Children.mem_all_key (cs : Children V) (pre : List Seg) (x : List Seg × Endpoint V)
    (hx : x ∈ Children.all cs pre) : ∃ k r, x.1 = pre ++ Seg.lit k :: r ∧ k ∈ Children.keys cs := by
  rw [Children.all_reloc] at hx
  simp only [List.mem_map, reloc] at hx
  obtain ⟨⟨a, e⟩, ha, rfl⟩ := hx
  obtain ⟨k, r, rfl, hk⟩ := Children.mem_all_lit cs a e ha
  exact ⟨k, r, rfl, hk⟩

theorem Node.all_addr_ext (c : Node V) (q : List Seg) (x : List Seg × Endpoint V)
    (hx : x ∈ Node.all c q) : ∃ r, x.1 = q ++ r := by
  rw [Node.all_reloc] at hx
  simp only [List.mem_map, reloc] at hx
  obtain ⟨y, -, rfl⟩ := hx
  exact ⟨y.1, rfl⟩

theorem Edges.all_addr_ext (es : Edges V) (pre : List Seg) (x : List Seg × Endpoint V)
    (hx : x ∈ Edges.all es pre) : ∃ s r, x.1 = pre ++ s :: r := by
  cases es with
  | none => simp [Edges.all] at hx
  | lits cs =>
    simp only [Edges.all] at hx
    obtain ⟨k, r, h, -⟩ := Children.mem_all_key cs pre x hx
    exact ⟨_, _, h⟩
  | single n c =>
    simp only [Edges.all] at hx
    obtain ⟨r, h⟩ := Node.all_addr_ext c _ x hx
    exact ⟨.var n, r, by simpa using h⟩
  | rest n c =>
    simp only [Edges.all] at hx
    obtain ⟨r, h⟩ := Node.all_addr_ext c _ x hx
    exact ⟨.wild n, r, by simpa using h⟩

mutual
  theorem Node.all_pairwise : ∀ (n : Node V) (pre : List Seg), Node.Sorted n → Node.MethodsWF n →
      (Node.all n pre).Pairwise IterRel
    | .mk ms es, pre, hs, hm => by
      simp only [Node.Sorted] at hs
      simp only [Node.MethodsWF] at hm
      simp only [Node.all, List.pairwise_append]
      refine ⟨own_pairwise pre ms hm.1, Edges.all_pairwise es pre hs hm.2, ?_⟩
      intro x hx y hy
      simp only [List.mem_flatMap, List.mem_map] at hx
      obtain ⟨p, -, a, -, rfl⟩ := hx
      obtain ⟨s, r, h⟩ := Edges.all_addr_ext es pre y hy
      exact Or.inl (Or.inl (by simp only; rw [h]; exact addrLt_prefix pre s r))
  theorem Edges.all_pairwise : ∀ (es : Edges V) (pre : List Seg), Edges.Sorted es → Edges.MethodsWF es →
      (Edges.all es pre).Pairwise IterRel
    | .none, _, _, _ => by simp [Edges.all]
    | .lits cs, pre, hs, hm => by
      simp only [Edges.Sorted] at hs
      simp only [Edges.MethodsWF] at hm
      simp only [Edges.all]
      exact Children.all_pairwise cs pre hs.1 hs.2 hm
    | .single n c, pre, hs, hm => by
      simp only [Edges.Sorted] at hs
      simp only [Edges.MethodsWF] at hm
      simp only [Edges.all]
      exact Node.all_pairwise c _ hs hm
    | .rest n c, pre, hs, hm => by
      simp only [Edges.Sorted] at hs
      simp only [Edges.MethodsWF] at hm
      simp only [Edges.all]
      exact Node.all_pairwise c _ hs hm
  theorem Children.all_pairwise : ∀ (cs : Children V) (pre : List Seg),
      (Children.keys cs).Pairwise (· < ·) → Children.Sorted cs → Children.MethodsWF cs →
      (Children.all cs pre).Pairwise IterRel
    | .nil, _, _, _, _ => by simp [Children.all]
    | .cons k c tl, pre, hp, hs, hm => by
      simp only [Children.keys, List.pairwise_cons] at hp
      simp only [Children.Sorted] at hs
      simp only [Children.MethodsWF] at hm
      simp only [Children.all, List.pairwise_append]
      refine ⟨Node.all_pairwise c _ hs.1 hm.1, Children.all_pairwise tl pre hp.2 hs.2 hm.2, ?_⟩
      intro x hx y hy
      obtain ⟨r, hxr⟩ := Node.all_addr_ext c _ x hx
      obtain ⟨k', r', hyr, hk'⟩ := Children.mem_all_key tl pre y hy
      refine Or.inl (Or.inl ?_)
      rw [hxr, hyr, List.append_assoc]
      exact addrLt_lit pre k k' r r' (hp.1 k' hk')
end

/-- At one version, the entries that match are in strict key order. -/
theorem filtered_sorted (t : Node V) (hw : C01.WF t) (v : V) :
    ((Node.all t []).filter fun p => p.2.versions.matches (some v)).Pairwise keyLt := by
  have hp := (Node.all_pairwise t [] hw.sorted hw.methods).filter
    (fun p => p.2.versions.matches (some v))
  refine hp.imp_of_mem ?_
  intro x y hx hy hxy
  rcases hxy with h | ⟨-, -, hno⟩
  · exact h
  · exfalso
    simp only [List.mem_filter] at hx hy
    have hx' : x.2 ∈ t.abs := (C01.mem_abs_iff t x.2).2 ⟨x.1, hx.1⟩
    have hy' : y.2 ∈ t.abs := (C01.mem_abs_iff t y.2).2 ⟨y.1, hy.1⟩
    have := C05.overlaps_of_shared x.2.versions y.2.versions (hw.ranges _ hx') (hw.ranges _ hy')
      ⟨v, (C05.matches_iff_mem _ _).1 hx.2, (C05.matches_iff_mem _ _).1 hy.2⟩
    rw [hno] at this; cases this


end Dropshot.C06
