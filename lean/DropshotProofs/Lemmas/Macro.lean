import DropshotModel.Macro
namespace Dropshot.Macro

theorem nonWs_append (a b : Str) : nonWs (a ++ b) = nonWs a ++ nonWs b := by
  simp [nonWs]

theorem nonWs_dropWhile (s : Str) : nonWs (s.dropWhile isWs) = nonWs s := by
  induction s with
  | nil => rfl
  | cons c cs ih =>
    by_cases h : isWs c <;> simp [List.dropWhile, nonWs, h] at * 
    exact ih

theorem nonWs_reverse (s : Str) : nonWs s.reverse = (nonWs s).reverse := by
  simp [nonWs]

theorem nonWs_trimStart (s : Str) : nonWs (trimStart s) = nonWs s := nonWs_dropWhile s

theorem nonWs_trimEnd (s : Str) : nonWs (trimEnd s) = nonWs s := by
  unfold trimEnd
  rw [nonWs_reverse, nonWs_dropWhile, nonWs_reverse, List.reverse_reverse]

theorem nonWs_trim (s : Str) : nonWs (trim s) = nonWs s := by
  unfold trim; rw [nonWs_trimEnd, nonWs_trimStart]

theorem nonWs_descStep (acc c : Str) : nonWs (descStep acc c) = nonWs acc ++ nonWs c := by
  unfold descStep
  split
  · exact nonWs_append _ _
  · split
    · rename_i h; simp at h; subst h; simp [nonWs, isWs]
    · rw [nonWs_append]; simp [nonWs, isWs]

theorem nonWs_foldDesc (acc : Str) (cs : List Str) :
    nonWs (foldDesc acc cs) = nonWs acc ++ nonWs cs.flatten := by
  induction cs generalizing acc with
  | nil => simp [foldDesc, nonWs]
  | cons c cs ih => simp [foldDesc, ih, nonWs_descStep, nonWs_append]

theorem flatten_dropBlank (ls : List Str) : (dropBlank ls).flatten = ls.flatten := by
  induction ls with
  | nil => rfl
  | cons l ls ih =>
    unfold dropBlank at *
    by_cases h : l.isEmpty
    · simp [List.dropWhile, h]; simp at h; subst h; simpa using ih
    · simp [List.dropWhile, h]


def optStr : Option Str → Str
  | none => []
  | some s => s

theorem nonWs_descOf (rest : List Str) : nonWs (optStr (descOf rest)) = nonWs rest.flatten := by
  unfold descOf
  have h2 := flatten_dropBlank rest
  cases h' : dropBlank rest with
  | nil => rw [h'] at h2; simp [optStr, ← h2, nonWs]
  | cons f more =>
    rw [h'] at h2
    simp at h2
    simp [optStr, ← h2, nonWs_append, nonWs_trimEnd, nonWs_foldDesc]

theorem nonWs_extractDoc (attrs : List Str) :
    nonWs (optStr (extractDoc attrs).1 ++ optStr (extractDoc attrs).2) = nonWs (normLines attrs).flatten := by
  unfold extractDoc
  generalize normLines attrs = ls
  have h1 := flatten_dropBlank ls
  cases h : dropBlank ls with
  | nil => rw [h] at h1; simp [optStr, ← h1, nonWs]
  | cons s rest =>
    rw [h] at h1
    simp at h1
    simp [optStr, ← h1, nonWs_append]
    exact nonWs_descOf rest

theorem dropWhile_head_not {α} (p : α → Bool) (l : List α) (x : α) (t : List α)
    (h : l.dropWhile p = x :: t) : p x = false := by
  induction l with
  | nil => simp at h
  | cons a l ih =>
    by_cases ha : p a
    · simp [List.dropWhile, ha] at h; exact ih h
    · simp [List.dropWhile, ha] at h; obtain ⟨rfl, -⟩ := h; simpa using ha

theorem find_of_dropWhile {α} (p : α → Bool) (l : List α) :
    l.find? (fun a => !p a) = (l.dropWhile p).head? := by
  induction l with
  | nil => rfl
  | cons a l ih =>
    by_cases ha : p a <;> simp [List.dropWhile, List.find?, ha, ih]

theorem filter_dropWhile {α} (p : α → Bool) (l : List α) :
    (l.dropWhile p).filter (fun a => !p a) = l.filter (fun a => !p a) := by
  induction l with
  | nil => rfl
  | cons a l ih =>
    by_cases ha : p a <;> simp [List.dropWhile, ha, ih]

/-- The summary is the first non-blank normalised line. -/
theorem summary_eq (attrs : List Str) :
    (extractDoc attrs).1 = (normLines attrs).find? (fun l => !l.isEmpty) := by
  rw [find_of_dropWhile]
  unfold extractDoc dropBlank
  cases (normLines attrs).dropWhile (fun l => l.isEmpty) <;> rfl

theorem descOf_none_iff (rest : List Str) :
    descOf rest = none ↔ (rest.filter (fun l => !l.isEmpty)).length = 0 := by
  rw [← filter_dropWhile]
  unfold descOf dropBlank
  cases h' : List.dropWhile (fun l => l.isEmpty) rest with
  | nil => simp
  | cons f more =>
    have hf := dropWhile_head_not _ _ _ _ h'
    rw [List.filter_cons, if_pos (by simpa using hf)]
    simp

/-- There is a description iff at least two normalised lines are non-blank. -/
theorem description_none_iff (attrs : List Str) :
    (extractDoc attrs).2 = none ↔ ((normLines attrs).filter (fun l => !l.isEmpty)).length ≤ 1 := by
  rw [← filter_dropWhile]
  unfold extractDoc dropBlank
  cases h : (normLines attrs).dropWhile (fun l => l.isEmpty) with
  | nil => simp
  | cons s rest =>
    have hs := dropWhile_head_not _ _ _ _ h
    rw [List.filter_cons, if_pos (by simpa using hs)]
    simp only [descOf_none_iff, List.length_cons]
    omega


theorem trimEnd_prefix (x : Str) : trimEnd x <+: x := by
  unfold trimEnd
  have := List.dropWhile_suffix (l := x.reverse) isWs
  rw [← List.reverse_prefix] at this
  simpa using this

theorem trim_head_not_ws (l : Str) (c : Char) (t : Str) (h : trim l = c :: t) : isWs c = false := by
  unfold trim at h
  have hp := trimEnd_prefix (trimStart l)
  rw [h] at hp
  obtain ⟨r, hr⟩ := hp
  exact dropWhile_head_not isWs l c (t ++ r) (by unfold trimStart at hr; simpa using hr.symm)

theorem nonWs_cons_not (c : Char) (s : Str) (h : isWs c = false) : nonWs (c :: s) = c :: nonWs s := by
  simp [nonWs, h]

theorem nonWs_cons_ws (c : Char) (s : Str) (h : isWs c = true) : nonWs (c :: s) = nonWs s := by
  simp [nonWs, h]

theorem nonWs_stripStar (t : Str) (h : ∀ c r, t = c :: r → isWs c = false) :
    nonWs (stripStar t) = dropStar (nonWs t) := by
  unfold stripStar
  split
  · rw [nonWs_cons_not _ _ (by decide), nonWs_cons_ws _ _ (by decide)]; rfl
  · rw [nonWs_cons_not _ _ (by decide)]; rfl
  · rename_i h1 h2
    cases t with
    | nil => rfl
    | cons c r =>
      rw [nonWs_cons_not _ _ (h c r rfl)]
      unfold dropStar
      split
      · rename_i heq; injection heq with hc; subst hc; exact absurd rfl (h2 r)
      · rfl

theorem nonWs_normalizeAttr (s : Str) :
    nonWs (normalizeAttr s).flatten =
      specAttr s := by
  unfold normalizeAttr specAttr
  cases splitNl s with
  | nil => rfl
  | cons f rest =>
    simp only [List.flatten_cons, nonWs_append, nonWs_trim]
    congr 1
    induction rest with
    | nil => rfl
    | cons l ls ih =>
      simp only [List.map_cons, List.flatten_cons, nonWs_append, List.flatMap_cons, ih]
      congr 1
      rw [nonWs_stripStar _ (fun c r h => trim_head_not_ws l c r h), nonWs_trim]

/-- The model's normalised text equals the independent specification-side account. -/
theorem nonWs_normLines (attrs : List Str) : nonWs (normLines attrs).flatten = specNonWs attrs := by
  unfold normLines specNonWs
  induction attrs with
  | nil => rfl
  | cons a as ih =>
    simp only [List.flatMap_cons, List.flatten_append, nonWs_append, ih, nonWs_normalizeAttr]


/-! ### The builder chain in closed form -/

theorem foldl_summary (e : EndpointRec) (a : Option Str) :
    (optCall .summary a).foldl applyCall e = { e with summary := a.orElse fun _ => e.summary } := by
  cases a <;> rfl

theorem foldl_description (e : EndpointRec) (a : Option Str) :
    (optCall .description a).foldl applyCall e = { e with description := a.orElse fun _ => e.description } := by
  cases a <;> rfl

theorem foldl_maxBytes (e : EndpointRec) (a : Option Nat) :
    (optCall .requestBodyMaxBytes a).foldl applyCall e =
      { e with requestBodyMaxBytes := a.orElse fun _ => e.requestBodyMaxBytes } := by
  cases a <;> rfl

theorem foldl_tags (e : EndpointRec) (ts : List Str) :
    (ts.map Call.tag).foldl applyCall e = { e with tags := e.tags ++ ts } := by
  induction ts generalizing e with
  | nil => simp
  | cons t ts ih => simp [List.foldl_cons, ih, applyCall]

/-- `toEndpoint` field by field. -/
theorem toEndpoint_eq (s : Style) (d : VDecl) :
    toEndpoint s d =
      { operationId := d.operationId.getD d.name
        handler := handlerOf s d (d.operationId.getD d.name)
        method := d.method
        path := d.path
        bodyContentType := d.contentType.body
        requestBodyMaxBytes := d.requestBodyMaxBytes
        summary := (extractDoc d.doc).1
        description := (extractDoc d.doc).2
        tags := d.tags
        visible := !d.unpublished
        deprecated := d.deprecated
        versions := d.versions } := by
  unfold toEndpoint toChain
  simp only [List.foldl_append, foldl_summary, foldl_description, foldl_tags, foldl_maxBytes]
  cases d.unpublished <;> cases d.deprecated <;>
    cases (extractDoc d.doc).1 <;> cases (extractDoc d.doc).2 <;> cases d.requestBodyMaxBytes <;>
    simp [evalCtor, applyCall, Option.orElse]

theorem fromMime_mime (c : ContentType) : BodyCT.fromMime c.mime = some c.body := by
  cases c <;> decide

/-! ### Validation, characterised -/

theorem deserEndpoint_ok_iff (d : Decl) (m : Method) (p : Str) (vr : VRange) :
    deserEndpoint d = .ok (m, p, vr) ↔
      d.protocol = none ∧ d.method.bind Method.ofIdent = some m ∧
      parseVersionsOpt d.versions = .ok vr ∧ d.path = some p := by
  unfold deserEndpoint
  cases hpr : d.protocol with
  | some _ => simp
  | none =>
    cases hv : parseVersionsOpt d.versions with
    | error e => cases hm : d.method with
      | none => simp
      | some ms => cases hmo : Method.ofIdent ms <;> simp [hmo]
    | ok vr' =>
      cases hm : d.method with
      | none => simp
      | some ms =>
        cases hmo : Method.ofIdent ms with
        | none => simp [hmo]
        | some m' =>
          cases hp : d.path with
          | none => simp [hmo]
          | some p' => simp [hmo]; grind

theorem deserChannel_ok_iff (d : Decl) (p : Str) (vr : VRange) :
    deserChannel d = .ok (p, vr) ↔
      d.method = none ∧ d.contentType = none ∧ d.requestBodyMaxBytes = none ∧
      d.protocol = some WEBSOCKETS ∧
      parseVersionsOpt d.versions = .ok vr ∧ d.path = some p := by
  unfold deserChannel
  cases hm : d.method <;> cases hc : d.contentType <;> cases hb : d.requestBodyMaxBytes <;> simp
  cases hpr : d.protocol with
  | none => cases hv : parseVersionsOpt d.versions <;> simp
  | some pr =>
    by_cases hne : pr = WEBSOCKETS
    · cases hv : parseVersionsOpt d.versions with
      | error e => simp [hne]
      | ok vr' =>
        cases hp : d.path with
        | none => simp [hne]
        | some p' => simp [hne]; grind
    · simp [hne]


def endpointV (d : Decl) (m : Method) (p : Str) (vr : VRange) (ct : ContentType) : VDecl :=
  { kind := .endpoint, operationId := d.operationId, method := m, path := p, tags := d.tags,
    unpublished := d.unpublished, deprecated := d.deprecated,
    requestBodyMaxBytes := d.requestBodyMaxBytes, contentType := ct, versions := vr,
    doc := d.doc, name := d.name }

def channelV (d : Decl) (p : Str) (vr : VRange) : VDecl :=
  { kind := .channel, operationId := d.operationId, method := .GET, path := p, tags := d.tags,
    unpublished := d.unpublished, deprecated := d.deprecated,
    requestBodyMaxBytes := none, contentType := .json, versions := vr,
    doc := d.doc, name := d.name }

theorem validate_endpoint_ok_iff (mk : MacroKind) (d : Decl) (hk : d.kind = .endpoint) (v : VDecl) :
    validate mk d = .ok v ↔
      ∃ m p vr ct, deserEndpoint d = .ok (m, p, vr) ∧ checkContentType d.contentType = some ct ∧
        (mk = .trait → d.dropshotCrate = none) ∧ (isWildcardPath p = true → d.unpublished = true) ∧
        v = endpointV d m p vr ct := by
  unfold validate
  simp only [hk]
  cases hde : deserEndpoint d with
  | error e => simp
  | ok t =>
    obtain ⟨m, p, vr⟩ := t
    cases hct : checkContentType d.contentType with
    | none => simp
    | some ct =>
      cases mk <;> cases hcr : d.dropshotCrate <;> cases hw : isWildcardPath p <;>
        cases hu : d.unpublished <;> (simp [endpointV, hu, hw] <;> grind)

theorem validate_channel_ok_iff (mk : MacroKind) (d : Decl) (hk : d.kind = .channel) (v : VDecl) :
    validate mk d = .ok v ↔
      ∃ p vr, deserChannel d = .ok (p, vr) ∧
        (mk = .trait → d.dropshotCrate = none) ∧ isWildcardPath p = false ∧
        v = channelV d p vr := by
  unfold validate
  simp only [hk]
  cases hde : deserChannel d with
  | error e => simp
  | ok t =>
    obtain ⟨p, vr⟩ := t
    cases mk <;> cases hcr : d.dropshotCrate <;> cases hw : isWildcardPath p <;>
      (simp [channelV, hw] <;> grind)

/-! ### `versions = …` syntax -/

theorem parseSemverLit_ok_iff (s : Str) (v : SemVer) :
    parseSemverLit s = .ok v ↔
      SemVer.parseChars s = some v ∧ v.pre = [] ∧ v.build = [] ∧ semOf v.major v.minor v.patch = v := by
  unfold parseSemverLit
  cases h : SemVer.parseChars s with
  | none => simp
  | some w =>
    by_cases hp : w.pre = [] <;> by_cases hb : w.build = [] <;> simp [hp, hb]
    · rintro rfl; exact ⟨hp, hb, by cases w; simp_all [semOf]⟩
    all_goals (rintro rfl; simp_all)

theorem VSpec_parse_lit (s : Str) (x : VExpr) :
    (VSpec.lit s).parse = .ok x ↔ ∃ v, parseSemverLit s = .ok v ∧ x = .lit v.major v.minor v.patch := by
  simp only [VSpec.parse]
  cases h : parseSemverLit s <;> simp [eq_comm]

theorem parseVersions_until (b : VSpec) (r : VRange) :
    parseVersions (.until b) = .ok r ↔ ∃ x, b.parse = .ok x ∧ r = .until x := by
  simp only [parseVersions]
  cases h : b.parse <;> simp [eq_comm]

theorem parseVersions_from (a : VSpec) (r : VRange) :
    parseVersions (.from a) = .ok r ↔ ∃ x, a.parse = .ok x ∧ r = .from x := by
  simp only [parseVersions]
  cases h : a.parse <;> simp [eq_comm]

theorem parseVersions_fromUntil (a b : VSpec) (r : VRange) :
    parseVersions (.fromUntil a b) = .ok r ↔
      ∃ x y, a.parse = .ok x ∧ b.peekable = true ∧ b.parse = .ok y ∧ r = .fromUntil x y ∧
        ∀ va vb, x.litSem = some va → y.litSem = some vb → ¬ vb < va := by
  simp only [parseVersions]
  cases ha : a.parse with
  | error e => simp
  | ok x =>
    cases hpk : b.peekable with
    | false => simp
    | true =>
    simp only [Bool.not_true, Bool.false_eq_true, if_false]
    cases hb : b.parse with
    | error e => simp
    | ok y =>
      cases hx : x.litSem with
      | none => simp [hx]; grind
      | some va =>
        cases hy : y.litSem with
        | none => simp [hy]; grind
        | some vb =>
          by_cases hlt : vb < va <;> simp [hx, hy, hlt] <;> grind

end Dropshot.Macro
