/-
Helper lemmas for C08: the conversion `j2oas` preserves validity on the
supported fragment.  Leaf lemmas (enumeration conversion, numeric bounds,
string keywords, vacuity of keywords that do not apply to the declared type),
then one step lemma per constructor with the induction hypotheses as explicit
arguments, then the mutual structural recursion that ties the knot.
-/
import DropshotModel.J2Oas

namespace Dropshot.Schema

theorem beq_null (j : J) : J.beq j .null = j.isNull := by cases j <;> simp [J.beq, J.isNull]
theorem null_beq (j : J) : J.beq .null j = j.isNull := by cases j <;> simp [J.beq, J.isNull]

theorem convEnum_spec {α} [BEq α] [LawfulBEq α] (f : J → Except Panic α) (mk : α → J)
    (hf : ∀ v a, f v = .ok a → v = mk a) (hmk : ∀ a, (mk a).isNull = false)
    (hbeq : ∀ a b, J.beq (mk a) (mk b) = (a == b))
    (vs : List J) (e : List (Option α)) (h : convEnum f vs = .ok e) :
    (∀ a, vs.any (J.beq (mk a)) = e.contains (some a)) ∧ (vs.any (J.beq .null) = e.contains none)
    ∧ (e.isEmpty = vs.isEmpty) := by
  induction vs generalizing e with
  | nil => simp [convEnum] at h; subst h; simp
  | cons v vs ih =>
    have key : ∀ (b : α) (r : List (Option α)), v = mk b → convEnum f vs = .ok r → e = some b :: r →
        (∀ a, (v :: vs).any (J.beq (mk a)) = e.contains (some a)) ∧
        ((v :: vs).any (J.beq .null) = e.contains none) ∧ (e.isEmpty = (v :: vs).isEmpty) := by
      intro b r hv hr he
      obtain ⟨h1, h2, _⟩ := ih r hr
      subst hv he
      refine ⟨fun a => ?_, ?_, by simp⟩
      · simp [h1, hbeq, Bool.beq_comm]
      · simp [h2, null_beq, hmk]
    have keyNull : ∀ (r : List (Option α)), v = .null → convEnum f vs = .ok r → e = none :: r →
        (∀ a, (v :: vs).any (J.beq (mk a)) = e.contains (some a)) ∧
        ((v :: vs).any (J.beq .null) = e.contains none) ∧ (e.isEmpty = (v :: vs).isEmpty) := by
      intro r hv hr he
      obtain ⟨h1, h2, _⟩ := ih r hr
      subst hv he
      refine ⟨fun a => ?_, ?_, by simp⟩
      · simp [h1, beq_null, hmk]
      · simp [J.beq]
    cases v
    case null =>
      simp only [convEnum] at h
      split at h <;> simp at h
      exact keyNull _ rfl ‹_› h.symm
    all_goals
      simp only [convEnum] at h
      split at h
      · simp at h
      · rename_i a hfa
        split at h <;> simp at h
        exact key a _ (hf _ _ hfa) ‹_› h.symm

theorem enum_conv {α} [BEq α] [LawfulBEq α] (f : J → Except Panic α) (mk : α → J)
    (hf : ∀ v a, f v = .ok a → v = mk a) (hmk : ∀ a, (mk a).isNull = false)
    (hbeq : ∀ a b, J.beq (mk a) (mk b) = (a == b))
    (en : Option (List J)) (e : List (Option α)) (h : convEnumOpt f en = .ok e)
    (hne : enumNonEmpty en = true) :
    (∀ a, enumOk en (mk a) = enumHas e (some a)) ∧ (enumOk en .null = enumHas e none) := by
  cases en with
  | none => simp [convEnumOpt] at h; subst h; simp [enumOk, enumHas]
  | some vs =>
    obtain ⟨h1, h2, h3⟩ := convEnum_spec f mk hf hmk hbeq vs e h
    cases vs with
    | nil => simp [enumNonEmpty] at hne
    | cons v vs =>
      have : e.isEmpty = false := by simpa using h3
      simp [enumOk, enumHas, h1, h2, this]

theorem asStr_spec : ∀ v a, asStr v = .ok a → v = .str a := by
  intro v a h; cases v <;> simp_all [asStr]
theorem asBool_spec : ∀ v a, asBool v = .ok a → v = .bool a := by
  intro v a h; cases v <;> simp_all [asBool]
theorem asNum_spec : ∀ v a, asNum v = .ok a → v = .num a := by
  intro v a h; cases v <;> simp_all [asNum]
theorem asI64_spec : ∀ v a, asI64 v = .ok a → v = .num a := by
  intro v a h; cases v <;> simp_all [asI64]
  split at h <;> simp_all

theorem presString (ρ : Env) (fmt : Option String) (str : Option StrV) (en : Option (List J)) (k : OKind)
    (h : j2oasString fmt str en = .ok k) (hne : enumNonEmpty en = true) (nullable : Bool) (j : J) :
    k.valid ρ nullable j =
      ((IType.string.admits j && enumOk en j && strOk ρ str j) || (nullable && j.isNull && enumOk en j)) := by
  unfold j2oasString at h
  split at h
  · simp at h
  · rename_i e he
    obtain ⟨h1, h2⟩ := enum_conv asStr .str asStr_spec (by simp [J.isNull]) (by simp [J.beq]) en e he hne
    simp at h; subst h
    cases j <;> cases str <;>
      simp [OKind.valid, StringType.ok, IType.admits, J.isNull, strOk, StrV.ok, optAll, h1, h2, Bool.and_comm, Bool.and_assoc]


theorem presBoolean (ρ : Env) (en : Option (List J)) (k : OKind)
    (h : j2oasBoolean en = .ok k) (hne : enumNonEmpty en = true) (nullable : Bool) (j : J) :
    k.valid ρ nullable j =
      ((IType.boolean.admits j && enumOk en j) || (nullable && j.isNull && enumOk en j)) := by
  unfold j2oasBoolean at h
  split at h
  · rename_i e he
    obtain ⟨h1, h2⟩ := enum_conv asBool .bool asBool_spec (by simp [J.isNull]) (by simp [J.beq]) en e he hne
    simp at h; subst h
    cases j <;> simp [OKind.valid, IType.admits, J.isNull, h1, h2]
  · simp at h

theorem castI64_id (n : Int) (h : inI64 n = true) : castI64 n = n := by
  simp [inI64] at h; unfold castI64; split
  · omega
  · split
    · omega
    · rfl

/-- every bound present in `num` is fixed by `cast`. -/
def castFixes (cast : Int → Int) : Option NumV → Prop
  | none => True
  | some v => (∀ m, v.multipleOf = some m → cast m = m) ∧ (∀ m, v.maximum = some m → cast m = m)
      ∧ (∀ m, v.exclusiveMaximum = some m → cast m = m) ∧ (∀ m, v.minimum = some m → cast m = m)
      ∧ (∀ m, v.exclusiveMinimum = some m → cast m = m)

theorem presNumeric (cast : Int → Int) (conv : J → Except Panic Int)
    (hconv : ∀ v a, conv v = .ok a → v = .num a)
    (fmt : Fmt) (num : Option NumV) (en : Option (List J)) (t : NumType)
    (h : j2oasNumeric cast conv fmt num en = .ok t) (hne : enumNonEmpty en = true)
    (hc : castFixes cast num) :
    (∀ n, t.ok n = (enumOk en (.num n) && numOk num (.num n))) ∧ (enumHas t.enumeration none = enumOk en .null) := by
  unfold j2oasNumeric at h
  cases num with
  | none =>
    simp only at h
    split at h
    · simp at h
    · rename_i e he
      obtain ⟨h1, h2⟩ := enum_conv conv .num hconv (by simp [J.isNull]) (by simp [J.beq]) en e he hne
      simp at h; subst h
      simp [NumType.ok, numOk, optAll, h1, h2]
  | some v =>
    obtain ⟨mo, mx, emx, mn, emn⟩ := v
    simp only [castFixes] at hc
    obtain ⟨c1, c2, c3, c4, c5⟩ := hc
    cases mo <;> cases mx <;> cases emx <;> cases mn <;> cases emn <;> simp only [bound] at h
    all_goals first
      | (simp at h; done)
      | (split at h
         · simp at h
         · rename_i e he
           obtain ⟨h1, h2⟩ := enum_conv conv .num hconv (by simp [J.isNull]) (by simp [J.beq]) en e he hne
           simp at h; subst h
           simp_all [NumType.ok, numOk, NumV.ok, optAll, Bool.and_comm, Bool.and_assoc, Bool.and_left_comm])


theorem castFixes_of_inI64 (num : Option NumV) (h : numInI64 num = true) : castFixes castI64 num := by
  cases num with
  | none => trivial
  | some v =>
    obtain ⟨a, b, c, d, e⟩ := v
    simp only [numInI64, Bool.and_eq_true] at h
    obtain ⟨⟨⟨⟨h1, h2⟩, h3⟩, h4⟩, h5⟩ := h
    refine ⟨?_, ?_, ?_, ?_, ?_⟩ <;> intro m hm <;> simp at hm <;> subst hm <;>
      apply castI64_id <;> simpa [optAll] using ‹_›

theorem castFixes_id (num : Option NumV) : castFixes id num := by
  cases num <;> simp [castFixes]

theorem presInteger (ρ : Env) (fmt : Option String) (num : Option NumV) (en : Option (List J)) (k : OKind)
    (h : j2oasInteger fmt num en = .ok k) (hne : enumNonEmpty en = true) (hi : numInI64 num = true)
    (nullable : Bool) (j : J) :
    k.valid ρ nullable j =
      ((IType.integer.admits j && enumOk en j && numOk num j) || (nullable && j.isNull && enumOk en j)) := by
  unfold j2oasInteger at h
  split at h
  · rename_i t ht
    obtain ⟨h1, h2⟩ := presNumeric castI64 asI64 asI64_spec _ num en t ht hne (castFixes_of_inI64 num hi)
    simp at h; subst h
    cases j <;> simp [OKind.valid, IType.admits, J.isNull, h1, h2]
  · simp at h

theorem presNumber (ρ : Env) (fmt : Option String) (num : Option NumV) (en : Option (List J)) (k : OKind)
    (h : j2oasNumber fmt num en = .ok k) (hne : enumNonEmpty en = true)
    (nullable : Bool) (j : J) :
    k.valid ρ nullable j =
      ((IType.number.admits j && enumOk en j && numOk num j) || (nullable && j.isNull && enumOk en j)) := by
  unfold j2oasNumber at h
  split at h
  · rename_i t ht
    obtain ⟨h1, h2⟩ := presNumeric id asNum asNum_spec _ num en t ht hne (castFixes_id num)
    simp at h; subst h
    cases j <;> simp [OKind.valid, IType.admits, J.isNull, h1, h2]
  · simp at h

variable (ρ : Env)

@[simp] theorem numOk_null (o) : numOk o .null = true := by cases o <;> simp [numOk, optAll, NumV.ok]
@[simp] theorem numOk_bool (o b) : numOk o (.bool b) = true := by cases o <;> simp [numOk, optAll, NumV.ok]
@[simp] theorem numOk_str (o s) : numOk o (.str s) = true := by cases o <;> simp [numOk, optAll, NumV.ok]
@[simp] theorem numOk_arr (o s) : numOk o (.arr s) = true := by cases o <;> simp [numOk, optAll, NumV.ok]
@[simp] theorem numOk_obj (o s) : numOk o (.obj s) = true := by cases o <;> simp [numOk, optAll, NumV.ok]
@[simp] theorem strOk_null (o) : strOk ρ o .null = true := by cases o <;> simp [strOk, optAll, StrV.ok]
@[simp] theorem strOk_bool (o b) : strOk ρ o (.bool b) = true := by cases o <;> simp [strOk, optAll, StrV.ok]
@[simp] theorem strOk_num (o s) : strOk ρ o (.num s) = true := by cases o <;> simp [strOk, optAll, StrV.ok]
@[simp] theorem strOk_arr (o s) : strOk ρ o (.arr s) = true := by cases o <;> simp [strOk, optAll, StrV.ok]
@[simp] theorem strOk_obj (o s) : strOk ρ o (.obj s) = true := by cases o <;> simp [strOk, optAll, StrV.ok]
@[simp] theorem arr_null (a : JSArr) : a.valid ρ .null = true := by cases a <;> simp [JSArr.valid]
@[simp] theorem arr_bool (a : JSArr) (b) : a.valid ρ (.bool b) = true := by cases a <;> simp [JSArr.valid]
@[simp] theorem arr_num (a : JSArr) (b) : a.valid ρ (.num b) = true := by cases a <;> simp [JSArr.valid]
@[simp] theorem arr_str (a : JSArr) (b) : a.valid ρ (.str b) = true := by cases a <;> simp [JSArr.valid]
@[simp] theorem arr_obj (a : JSArr) (b) : a.valid ρ (.obj b) = true := by cases a <;> simp [JSArr.valid]
@[simp] theorem obj_null (a : JSObjV) : a.valid ρ .null = true := by cases a <;> simp [JSObjV.valid]
@[simp] theorem obj_bool (a : JSObjV) (b) : a.valid ρ (.bool b) = true := by cases a <;> simp [JSObjV.valid]
@[simp] theorem obj_num (a : JSObjV) (b) : a.valid ρ (.num b) = true := by cases a <;> simp [JSObjV.valid]
@[simp] theorem obj_str (a : JSObjV) (b) : a.valid ρ (.str b) = true := by cases a <;> simp [JSObjV.valid]
@[simp] theorem obj_arr (a : JSObjV) (b) : a.valid ρ (.arr b) = true := by cases a <;> simp [JSObjV.valid]

theorem numOk_trivial (o j) (h : numTrivial o = true) : numOk o j = true := by
  cases o with
  | none => simp [numOk, optAll]
  | some v =>
    obtain ⟨a, b, c, d, e⟩ := v
    simp [numTrivial] at h
    obtain ⟨⟨⟨⟨rfl, rfl⟩, rfl⟩, rfl⟩, rfl⟩ := h
    cases j <;> simp [numOk, optAll, NumV.ok]
theorem strOk_trivial (o j) (h : strTrivial o = true) : strOk ρ o j = true := by
  cases o with
  | none => simp [strOk, optAll]
  | some v =>
    obtain ⟨a, b, c⟩ := v
    simp [strTrivial] at h
    obtain ⟨⟨rfl, rfl⟩, rfl⟩ := h
    cases j <;> simp [strOk, optAll, StrV.ok]
theorem arr_trivial (a : JSArr) (j) (h : a.trivial = true) : a.valid ρ j = true := by
  unfold JSArr.trivial at h
  split at h
  · simp [JSArr.valid]
  · cases j <;> simp [JSArr.valid, optAll]
    rename_i uniq _; cases uniq with
    | none => rfl
    | some b => cases b <;> simp_all
  · simp at h
theorem obj_trivial (a : JSObjV) (j) (h : a.trivial = true) : a.valid ρ j = true := by
  unfold JSObjV.trivial at h
  split at h
  · simp [JSObjV.valid]
  · cases j <;> simp [JSObjV.valid, optAll, JSProps.valid, JSProps.patValid, JSProps.keys, JSOpt.valid]
  · simp at h



/-! ### Induction hypotheses, one per mutual type -/

def Pres (ρ : Env) (s : JS) : Prop :=
  ∀ n o, j2oas n s = .ok o → s.supported = true → ∀ j, o.valid ρ j = s.valid ρ j
def OptPres (ρ : Env) : JSOpt → Prop
  | .none => True
  | .some s => Pres ρ s
def PresList (ρ : Env) (l : JSList) : Prop :=
  ∀ ol, j2oasList l = .ok ol → l.supported = true → ∀ j, ol.vals ρ j = l.vals ρ j
def OptListPres (ρ : Env) : JSOptList → Prop
  | .none => True
  | .some l => PresList ρ l
def PresSubs (ρ : Env) (subs : JSSubs) : Prop :=
  ∀ k, j2oasSubschemas subs = .ok k → subs.supported = true →
    ∀ nullable j, k.valid ρ nullable j = (subs.valid ρ j || (nullable && j.isNull))
def ItemsPres (ρ : Env) : JSItems → Prop
  | .single s => Pres ρ s
  | _ => True
def PresArr (ρ : Env) (arr : JSArr) : Prop :=
  ∀ k, j2oasArray arr = .ok k → arr.supported = true →
    ∀ nullable j, k.valid ρ nullable j = ((IType.array.admits j && arr.valid ρ j) || (nullable && j.isNull))
def PresProps (ρ : Env) (p : JSProps) : Prop :=
  ∀ op, j2oasProps p = .ok op → p.supported = true →
    (∀ kvs, op.valid ρ kvs = p.valid ρ kvs) ∧ op.keys = p.keys
def PresObj (ρ : Env) (ob : JSObjV) : Prop :=
  ∀ k, j2oasObject ob = .ok k → ob.supported = true →
    ∀ nullable j, k.valid ρ nullable j = ((IType.object.admits j && ob.valid ρ j) || (nullable && j.isNull))

@[simp] theorem mkData_nullable (n md ext) : (mkData n md ext).nullable = extNullable ext := by
  unfold mkData; cases md <;> cases n <;> simp <;> split <;> simp

/-! ### Step lemmas -/

theorem pres_bool (b : Bool) : Pres ρ (.bool b) := by
  intro n o h _ j
  cases b
  · simp [j2oas] at h
  · simp [j2oas] at h; subst h; simp [RefOr.valid, OAS.valid, OKind.valid, JS.valid]

theorem pres_obj (md ty fmt en cv subs num str arr ob rf ext)
    (ihSubs : PresSubs ρ subs) (ihArr : PresArr ρ arr) (ihObj : PresObj ρ ob) :
    Pres ρ (.obj md ty fmt en cv subs num str arr ob rf ext) := by
  intro n o h hs j
  cases rf with
  | some r =>
    simp [j2oas] at h; subst h
    simp only [JS.supported, Bool.and_eq_true] at hs
    obtain ⟨⟨⟨⟨⟨⟨⟨h1, h2⟩, h3⟩, h4⟩, h5⟩, h6⟩, h7⟩, h8⟩ := hs
    cases ty <;> cases en <;> cases cv <;> cases subs <;> simp [JSSubs.isSome] at h1 h2 h3 h4
    simp [RefOr.valid, JS.valid, typeOk, enumOk, constOk, JSSubs.valid, numOk_trivial _ _ h5,
      strOk_trivial ρ _ _ h6, arr_trivial ρ _ _ h7, obj_trivial ρ _ _ h8, optAll, JSSubs.isSome]
  | none =>
    simp only [JS.supported, Bool.and_eq_true] at hs
    obtain ⟨hcv, hs⟩ := hs
    cases cv with
    | some _ => simp at hcv
    | none =>
    rcases ty with _ | ⟨t⟩ | ⟨ts⟩
    · -- no `type`
      simp only [tyArm, Bool.and_eq_true] at hs
      obtain ⟨⟨⟨⟨⟨hen, hnum⟩, hstr⟩, harr⟩, hob⟩, hsub⟩ := hs
      cases en with
      | some _ => simp at hen
      | none =>
      cases subs with
      | none =>
        simp [j2oas, tyArm] at h; subst h
        simp [RefOr.valid, OAS.valid, OKind.valid, JS.valid, typeOk, enumOk, constOk, JSSubs.valid,
          numOk_trivial _ _ hnum, strOk_trivial ρ _ _ hstr, arr_trivial ρ _ _ harr,
          obj_trivial ρ _ _ hob, optAll]
      | some a b c d e f g =>
        simp only [j2oas, tyArm] at h
        split at h
        · simp at h
        · rename_i k hk
          simp at h; subst h
          simp [RefOr.valid, OAS.valid, ihSubs k hk hsub, JS.valid, typeOk,
            enumOk, constOk, numOk_trivial _ _ hnum, strOk_trivial ρ _ _ hstr, arr_trivial ρ _ _ harr,
            obj_trivial ρ _ _ hob, optAll, JSSubs.isSome]
    · -- a single `type`
      cases subs with
      | some a b c d e f g => cases t <;> simp [j2oas, tyArm] at h
      | none =>
      cases t
      case null => simp [tyArm] at hs
      case boolean =>
        simp only [tyArm] at hs
        simp only [j2oas, tyArm] at h
        split at h
        · simp at h
        · rename_i k hk
          simp at h; subst h
          simp [RefOr.valid, OAS.valid, presBoolean ρ en k hk hs, JS.valid, typeOk, constOk,
            JSSubs.valid, optAll, JSSubs.isSome]
          cases j <;> simp [IType.admits, J.isNull]
      case number =>
        simp only [tyArm] at hs
        simp only [j2oas, tyArm] at h
        split at h
        · simp at h
        · rename_i k hk
          simp at h; subst h
          simp [RefOr.valid, OAS.valid, presNumber ρ fmt num en k hk hs, JS.valid, typeOk, constOk,
            JSSubs.valid, optAll, JSSubs.isSome]
          cases j <;> simp [IType.admits, J.isNull]
      case string =>
        simp only [tyArm] at hs
        simp only [j2oas, tyArm] at h
        split at h
        · simp at h
        · rename_i k hk
          simp at h; subst h
          simp [RefOr.valid, OAS.valid, presString ρ fmt str en k hk hs, JS.valid, typeOk, constOk,
            JSSubs.valid, optAll, JSSubs.isSome]
          cases j <;> simp [IType.admits, J.isNull]
      case integer =>
        simp only [tyArm, Bool.and_eq_true] at hs
        simp only [j2oas, tyArm] at h
        split at h
        · simp at h
        · rename_i k hk
          simp at h; subst h
          simp [RefOr.valid, OAS.valid, presInteger ρ fmt num en k hk hs.1 hs.2, JS.valid, typeOk, constOk,
            JSSubs.valid, optAll, JSSubs.isSome]
          cases j <;> simp [IType.admits, J.isNull]
      case object =>
        simp only [tyArm, Bool.and_eq_true] at hs
        cases en with
        | some _ => simp at hs
        | none =>
        simp only [j2oas, tyArm] at h
        split at h
        · simp at h
        · rename_i k hk
          simp at h; subst h
          simp [RefOr.valid, OAS.valid, ihObj k hk hs.2, JS.valid, typeOk, constOk, enumOk,
            JSSubs.valid, optAll, JSSubs.isSome]
          cases j <;> simp [IType.admits, J.isNull]
      case array =>
        simp only [tyArm, Bool.and_eq_true] at hs
        cases en with
        | some _ => simp at hs
        | none =>
        simp only [j2oas, tyArm] at h
        split at h
        · simp at h
        · rename_i k hk
          simp at h; subst h
          simp [RefOr.valid, OAS.valid, ihArr k hk hs.2, JS.valid, typeOk, constOk, enumOk,
            JSSubs.valid, optAll, JSSubs.isSome]
          cases j <;> simp [IType.admits, J.isNull]
    · -- a type array
      simp [j2oas, tyArm] at h

theorem presList_nil : PresList ρ .nil := by
  intro ol h _ j
  simp [j2oasList] at h; subst h; simp [ORList.vals, JSList.vals]

theorem presList_cons (s rest) (ih1 : Pres ρ s) (ih2 : PresList ρ rest) : PresList ρ (.cons s rest) := by
  intro ol h hs j
  simp only [j2oasList] at h
  split at h
  · simp at h
  · rename_i r hr
    split at h
    · simp at h
    · rename_i rs hrs
      simp at h; subst h
      simp only [JSList.supported, Bool.and_eq_true] at hs
      simp [ORList.vals, JSList.vals, ih1 none r hr hs.1 j, ih2 rs hrs hs.2 j]

theorem presSubs_none : PresSubs ρ .none := by
  intro k h; simp [j2oasSubschemas] at h

theorem presSubs_some (allOf anyOf oneOf nt ifS thenS elseS)
    (ih1 : OptListPres ρ allOf) (ih2 : OptListPres ρ anyOf) (ih3 : OptListPres ρ oneOf)
    (ih4 : OptPres ρ nt) : PresSubs ρ (.some allOf anyOf oneOf nt ifS thenS elseS) := by
  intro k h hs nullable j
  simp only [JSSubs.supported, Bool.and_eq_true] at hs
  obtain ⟨⟨⟨⟨hif, h1⟩, h2⟩, h3⟩, h4⟩ := hs
  cases ifS with
  | some _ => simp at hif
  | none =>
  rcases allOf with _ | l1 <;> rcases anyOf with _ | l2 <;> rcases oneOf with _ | l3 <;>
    rcases nt with _ | s4 <;> simp only [j2oasSubschemas] at h <;> try (simp at h; done)
  · -- not
    split at h
    · rename_i r hr
      simp at h; subst h
      simp [OKind.valid, JSSubs.valid, JSOptList.allOk, JSOptList.anyOk, JSOptList.oneOk,
        ih4 none r hr h4 j]
    · simp at h
  · -- oneOf
    split at h
    · rename_i rs hrs
      simp at h; subst h
      simp [OKind.valid, JSSubs.valid, JSOptList.allOk, JSOptList.anyOk, JSOptList.oneOk,
        ih3 rs hrs h3 j]
    · simp at h
  · -- anyOf
    split at h
    · rename_i rs hrs
      simp at h; subst h
      simp [OKind.valid, JSSubs.valid, JSOptList.allOk, JSOptList.anyOk, JSOptList.oneOk,
        ih2 rs hrs h2 j]
    · simp at h
  · -- allOf
    split at h
    · rename_i rs hrs
      simp at h; subst h
      simp [OKind.valid, JSSubs.valid, JSOptList.allOk, JSOptList.anyOk, JSOptList.oneOk,
        ih1 rs hrs h1 j]
    · simp at h

theorem presArr_none : PresArr ρ .none := by
  intro k h; simp [j2oasArray] at h

theorem presArr_some (items addl maxI minI uniq cont) (ih : ItemsPres ρ items) :
    PresArr ρ (.some items addl maxI minI uniq cont) := by
  intro k h hs nullable j
  simp only [JSArr.supported, Bool.and_eq_true] at hs
  obtain ⟨hc, hi⟩ := hs
  cases cont with
  | some _ => simp [JSOpt.isNone] at hc
  | none =>
  cases items with
  | vec _ => simp [JSItems.supported] at hi
  | none =>
    simp [j2oasArray, j2oasItems] at h; subst h
    cases j <;> simp [OKind.valid, IType.admits, JSArr.valid, J.isNull]
    rcases uniq with _ | _ | _ <;> simp
  | single s =>
    simp only [j2oasArray, j2oasItems] at h
    split at h
    · simp at h
    · rename_i it hit
      split at hit
      · rename_i r hr
        simp at hit; subst hit
        simp at h; subst h
        cases j <;> simp [OKind.valid, IType.admits, JSArr.valid, J.isNull]
        rename_i xs
        have : ∀ x, r.valid ρ x = s.valid ρ x := fun x => ih none r hr (by simpa [JSItems.supported] using hi) x
        simp [this]
        rcases uniq with _ | _ | _ <;> simp
      · simp at hit

theorem presProps_nil : PresProps ρ .nil := by
  intro op h _
  simp [j2oasProps] at h; subst h; simp [ORProps.valid, JSProps.valid, ORProps.keys, JSProps.keys]

theorem presProps_cons (k s rest) (ih1 : Pres ρ s) (ih2 : PresProps ρ rest) :
    PresProps ρ (.cons k s rest) := by
  intro op h hs
  simp only [j2oasProps] at h
  split at h
  · simp at h
  · rename_i r hr
    split at h
    · simp at h
    · rename_i rs hrs
      simp at h; subst h
      simp only [JSProps.supported, Bool.and_eq_true] at hs
      have : ∀ x, r.valid ρ x = s.valid ρ x := fun x => ih1 none r hr hs.1 x
      obtain ⟨h1, h2⟩ := ih2 rs hrs hs.2
      simp [ORProps.valid, JSProps.valid, this, h1, h2, ORProps.keys, JSProps.keys]

theorem presAddl (a : JSOpt) (ih : OptPres ρ a) (oa : OAddl) (h : j2oasAddl a = .ok oa)
    (hs : a.supported = true) (j : J) : oa.valid ρ j = a.valid ρ j := by
  match a with
  | .none => simp [j2oasAddl] at h; subst h; simp [OAddl.valid, JSOpt.valid]
  | .some (.bool b) => simp [j2oasAddl] at h; subst h; simp [OAddl.valid, JSOpt.valid, JS.valid]
  | .some (.obj md ty fmt en cv subs num str arr ob rf ext) =>
    simp only [j2oasAddl] at h
    split at h
    · rename_i r hr
      simp at h; subst h
      simp only [JSOpt.supported] at hs
      simp [OAddl.valid, JSOpt.valid, ih none r hr hs j]
    · simp at h

theorem presObj_none : PresObj ρ .none := by
  intro k h _ nullable j
  simp [j2oasObject] at h; subst h
  cases j <;> simp [OKind.valid, IType.admits, JSObjV.valid, J.isNull, optAll, ORProps.valid,
    ORProps.keys, OAddl.valid]

theorem presObj_some (maxP minP req props pprops addl pnames)
    (ih1 : PresProps ρ props) (ih2 : OptPres ρ addl) :
    PresObj ρ (.some maxP minP req props pprops addl pnames) := by
  intro k h hs nullable j
  simp only [JSObjV.supported, Bool.and_eq_true] at hs
  obtain ⟨⟨⟨hpp, hpn⟩, hps⟩, had⟩ := hs
  cases pprops with
  | cons _ _ _ => simp at hpp
  | nil =>
  cases pnames with
  | some _ => simp at hpn
  | none =>
  simp only [j2oasObject] at h
  split at h
  · simp at h
  · rename_i ps hps'
    split at h
    · simp at h
    · rename_i oa hoa
      simp at h; subst h
      cases j <;> simp [OKind.valid, IType.admits, JSObjV.valid, J.isNull]
      rename_i kvs
      have h1 : ∀ x, oa.valid ρ x = addl.valid ρ x := fun x => presAddl ρ addl ih2 oa hoa had x
      obtain ⟨h2, h3⟩ := ih1 ps hps' hps
      simp [h2, h3, h1, JSProps.patValid, JSProps.keys, JSOpt.valid]

/-! ### The knot: mutual structural recursion over the nine schema types -/

mutual
theorem pres : (s : JS) → Pres ρ s
  | .bool b => pres_bool ρ b
  | .obj md ty fmt en cv subs num str arr ob rf ext =>
    pres_obj ρ md ty fmt en cv subs num str arr ob rf ext (presSubs subs) (presArr arr) (presObj ob)
theorem presOpt : (o : JSOpt) → OptPres ρ o
  | .none => trivial
  | .some s => pres s
theorem presList : (l : JSList) → PresList ρ l
  | .nil => presList_nil ρ
  | .cons s rest => presList_cons ρ s rest (pres s) (presList rest)
theorem presOptList : (l : JSOptList) → OptListPres ρ l
  | .none => trivial
  | .some l => presList l
theorem presSubs : (s : JSSubs) → PresSubs ρ s
  | .none => presSubs_none ρ
  | .some allOf anyOf oneOf nt ifS thenS elseS =>
    presSubs_some ρ allOf anyOf oneOf nt ifS thenS elseS (presOptList allOf) (presOptList anyOf)
      (presOptList oneOf) (presOpt nt)
theorem presItems : (i : JSItems) → ItemsPres ρ i
  | .none => trivial
  | .single s => pres s
  | .vec _ => trivial
theorem presArr : (a : JSArr) → PresArr ρ a
  | .none => presArr_none ρ
  | .some items addl maxI minI uniq cont => presArr_some ρ items addl maxI minI uniq cont (presItems items)
theorem presProps : (p : JSProps) → PresProps ρ p
  | .nil => presProps_nil ρ
  | .cons k s rest => presProps_cons ρ k s rest (pres s) (presProps rest)
theorem presObj : (o : JSObjV) → PresObj ρ o
  | .none => presObj_none ρ
  | .some maxP minP req props pprops addl pnames =>
    presObj_some ρ maxP minP req props pprops addl pnames (presProps props) (presOpt addl)
end

/-- the numeric arms keep `format`. -/
theorem numericFormat {cast conv f num en t} (h : j2oasNumeric cast conv f num en = .ok t) :
    t.format = f := by
  unfold j2oasNumeric at h
  cases num with
  | none =>
    simp only at h
    split at h
    · simp at h
    · simp at h; subst h; rfl
  | some v =>
    obtain ⟨mo, mx, emx, mn, emn⟩ := v
    cases mx <;> cases emx <;> cases mn <;> cases emn <;> simp only [bound] at h
    all_goals first
      | (simp at h; done)
      | (split at h
         · simp at h
         · simp at h; subst h; rfl)

end Dropshot.Schema
