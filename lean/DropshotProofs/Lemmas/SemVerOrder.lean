/-
The comparison of DropshotModel/SemVer.lean (`SemVer.cmp`, modelling the
`semver` crate's `Ord for Version`) is a linear order.

* On *all* values of the structure `SemVer`, `SemVer.cmp` is a total preorder:
  `SemVer.cmp b a = (SemVer.cmp a b).swap`, `<` and `≤` are transitive, any two versions are
  comparable, and `SemVer.cmp a b = .eq` iff the comparison keys agree.
* On well-formed versions (`SemVer.WF`: identifiers non-empty, numeric
  pre-release identifiers without leading zeros — what `parseChars` produces,
  `parseChars_WF`), `SemVer.cmp a b = .eq ↔ a = b`; so `WfSemVer` is a `LinearOrder`
  and the C05 theorems instantiate at `V := WfSemVer`.
* The raw structure is *not* antisymmetric: build metadata `[]` and `[[]]`
  compare equal (`cmp_eq_not_eq_raw`), so there is no lawful
  `LinearOrder SemVer` on the existing `≤`.
* `SemVer.bot` (`0.0.0-0`) is the least well-formed version.
-/
import DropshotModel.SemVer
import DropshotModel.Version
import Mathlib.Order.Defs.LinearOrder

namespace Dropshot.SemVerOrder

/-- A comparator that is a linear order: `eq` is equality, antisymmetric via
`swap`, `lt` transitive. -/
structure LinCmp {α : Type} (f : α → α → Ordering) : Prop where
  eq_iff : ∀ a b, f a b = .eq ↔ a = b
  swap : ∀ a b, f b a = (f a b).swap
  trans : ∀ a b c, f a b = .lt → f b c = .lt → f a c = .lt

theorem then_eq_eq (o p : Ordering) : o.then p = .eq ↔ o = .eq ∧ p = .eq := by
  cases o <;> cases p <;> simp [Ordering.then]

theorem then_eq_lt (o p : Ordering) : o.then p = .lt ↔ o = .lt ∨ (o = .eq ∧ p = .lt) := by
  cases o <;> cases p <;> simp [Ordering.then]

theorem then_swap (o p : Ordering) : (o.then p).swap = o.swap.then p.swap := by
  cases o <;> cases p <;> rfl

theorem natCmp : LinCmp (fun a b : Nat => compare a b) where
  eq_iff a b := Nat.compare_eq_eq
  swap a b := by simp only [Nat.compare_swap]
  trans a b c := by simp only [Nat.compare_eq_lt]; omega

/-- Lexicographic product. -/
def lexCmp {α β : Type} (f : α → α → Ordering) (g : β → β → Ordering) (x y : α × β) : Ordering :=
  (f x.1 y.1).then (g x.2 y.2)

theorem LinCmp.lex {α β : Type} {f : α → α → Ordering} {g : β → β → Ordering}
    (hf : LinCmp f) (hg : LinCmp g) : LinCmp (lexCmp f g) where
  eq_iff x y := by
    obtain ⟨a, b⟩ := x; obtain ⟨c, d⟩ := y
    simp [lexCmp, hf.eq_iff, hg.eq_iff]
  swap x y := by
    simp only [lexCmp, then_swap, hf.swap x.1 y.1, hg.swap x.2 y.2]
  trans x y z := by
    obtain ⟨a, b⟩ := x; obtain ⟨c, d⟩ := y; obtain ⟨e, f'⟩ := z
    simp only [lexCmp, then_eq_lt]
    rintro (h1 | ⟨h1, h2⟩) (h3 | ⟨h3, h4⟩)
    · exact Or.inl (hf.trans _ _ _ h1 h3)
    · rw [(hf.eq_iff _ _).1 h3] at h1; exact Or.inl h1
    · rw [← (hf.eq_iff _ _).1 h1] at h3; exact Or.inl h3
    · rw [(hf.eq_iff _ _).1 h1, (hf.eq_iff _ _).1 h3]
      exact Or.inr ⟨(hf.eq_iff _ _).2 rfl, hg.trans _ _ _ h2 h4⟩

/-- Pull a linear comparator back along an injective key. -/
theorem LinCmp.pullback {α β : Type} {g : β → β → Ordering} (hg : LinCmp g) (k : α → β)
    (hk : ∀ a b, k a = k b → a = b) : LinCmp (fun a b => g (k a) (k b)) where
  eq_iff a b := by
    rw [hg.eq_iff]; exact ⟨hk a b, fun h => by rw [h]⟩
  swap a b := hg.swap _ _
  trans a b c := hg.trans _ _ _

theorem LinCmp.congr {α : Type} {f g : α → α → Ordering} (hf : LinCmp f) (h : ∀ a b, g a b = f a b) :
    LinCmp g := by
  have : g = f := by funext a b; exact h a b
  rw [this]; exact hf

/-- Lexicographic order on lists, a proper prefix being smaller. -/
def cmpList {α : Type} (f : α → α → Ordering) : List α → List α → Ordering
  | [], [] => .eq
  | [], _ :: _ => .lt
  | _ :: _, [] => .gt
  | a :: as, b :: bs => (f a b).then (cmpList f as bs)

theorem LinCmp.list {α : Type} {f : α → α → Ordering} (hf : LinCmp f) : LinCmp (cmpList f) where
  eq_iff a b := by
    induction a generalizing b with
    | nil => cases b <;> simp [cmpList]
    | cons x xs ih => cases b with
      | nil => simp [cmpList]
      | cons y ys => simp [cmpList, hf.eq_iff, ih]
  swap a b := by
    induction a generalizing b with
    | nil => cases b <;> simp [cmpList]
    | cons x xs ih => cases b with
      | nil => simp [cmpList]
      | cons y ys => simp only [cmpList, then_swap, hf.swap x y, ih]
  trans a b c := by
    induction a generalizing b c with
    | nil => cases b <;> cases c <;> simp [cmpList]
    | cons x xs ih =>
      cases b with
      | nil => simp [cmpList]
      | cons y ys =>
        cases c with
        | nil => simp [cmpList]
        | cons z zs =>
          simp only [cmpList, then_eq_lt]
          rintro (h1 | ⟨h1, h2⟩) (h3 | ⟨h3, h4⟩)
          · exact Or.inl (hf.trans _ _ _ h1 h3)
          · rw [(hf.eq_iff _ _).1 h3] at h1; exact Or.inl h1
          · rw [← (hf.eq_iff _ _).1 h1] at h3; exact Or.inl h3
          · rw [(hf.eq_iff _ _).1 h1, (hf.eq_iff _ _).1 h3]
            exact Or.inr ⟨(hf.eq_iff _ _).2 rfl, ih _ _ h2 h4⟩


open SemVer

/-! ### The pieces of `SemVer.cmp` -/

def charCmp (a b : Char) : Ordering := compare a.toNat b.toNat

theorem charCmp_lin : LinCmp charCmp :=
  natCmp.pullback Char.toNat (fun _ _ h => Char.toNat_inj.1 h)

theorem cmpStr_eq (a b : Ident) : cmpStr a b = cmpList charCmp a b := by
  fun_induction cmpStr a b <;> simp_all [cmpList, charCmp]

theorem cmpStr_lin : LinCmp cmpStr := charCmp_lin.list.congr cmpStr_eq

theorem cmpIds_eq (f : Ident → Ident → Ordering) (a b : List Ident) : cmpIds f a b = cmpList f a b := by
  fun_induction cmpIds f a b <;> simp_all [cmpList]

theorem cmpIds_lin {f : Ident → Ident → Ordering} (hf : LinCmp f) : LinCmp (cmpIds f) :=
  hf.list.congr (cmpIds_eq f)

/-- Key of a pre-release identifier: numeric ones first, by length, then bytewise. -/
def preIdKey (a : Ident) : Nat × Nat × Ident :=
  if a.all isDigit then (0, a.length, a) else (1, 0, a)

theorem cmpPreId_eq (a b : Ident) :
    cmpPreId a b = lexCmp (fun x y : Nat => compare x y) (lexCmp (fun x y : Nat => compare x y) cmpStr)
      (preIdKey a) (preIdKey b) := by
  unfold cmpPreId preIdKey lexCmp
  cases a.all isDigit <;> cases b.all isDigit <;> simp [Ordering.then] <;> decide

theorem cmpPreId_lin : LinCmp cmpPreId :=
  ((natCmp.lex (natCmp.lex cmpStr_lin)).pullback preIdKey (by
    intro a b h
    unfold preIdKey at h
    split at h <;> split at h <;> simp_all)).congr cmpPreId_eq


/-! Build identifiers -/

theorem dropZeros_length_le (a : Ident) : (dropZeros a).length ≤ a.length := by
  fun_induction dropZeros a
  · simp_all; omega
  · simp_all

/-- An identifier is its leading zeros followed by `dropZeros`. -/
theorem dropZeros_spec (a : Ident) :
    a = List.replicate (a.length - (dropZeros a).length) '0' ++ dropZeros a := by
  fun_induction dropZeros a
  · rename_i cs ih
    have := dropZeros_length_le cs
    have e : (('0' :: cs).length - (dropZeros cs).length) = (cs.length - (dropZeros cs).length) + 1 := by
      simp; omega
    rw [e, List.replicate_succ, List.cons_append, ← ih]
  · simp

theorem dropZeros_inj (a b : Ident) (h1 : dropZeros a = dropZeros b) (h2 : a.length = b.length) :
    a = b := by
  rw [dropZeros_spec a, dropZeros_spec b, h1, h2]

/-- Key of a build identifier. -/
def buildIdKey (a : Ident) : Nat × Nat × Ident × Nat :=
  if a.all isDigit then (0, (dropZeros a).length, dropZeros a, a.length) else (1, 0, a, 0)

abbrev natC : Nat → Nat → Ordering := fun x y => compare x y

theorem then_assoc (o p q : Ordering) : (o.then p).then q = o.then (p.then q) := by
  cases o <;> rfl

theorem cmpBuildId_eq (a b : Ident) :
    cmpBuildId a b = lexCmp natC (lexCmp natC (lexCmp cmpStr natC)) (buildIdKey a) (buildIdKey b) := by
  unfold cmpBuildId buildIdKey lexCmp
  cases a.all isDigit <;> cases b.all isDigit <;> simp [Ordering.then] <;> try decide
  · cases cmpStr a b <;> rfl
  · simp only [natC]
    cases compare (dropZeros a).length (dropZeros b).length <;>
      cases cmpStr (dropZeros a) (dropZeros b) <;> rfl

theorem cmpBuildId_lin : LinCmp cmpBuildId :=
  ((natCmp.lex (natCmp.lex (cmpStr_lin.lex natCmp))).pullback buildIdKey (by
    intro a b h
    unfold buildIdKey at h
    split at h <;> split at h <;> simp_all
    exact dropZeros_inj a b h.2.1 h.2.2)).congr cmpBuildId_eq


/-! Pre-release and build lists, whole versions -/

/-- Key of a pre-release list: a real release (`[]`) sorts after every pre-release. -/
def preKey (a : List Ident) : Nat × List Ident := (if a.isEmpty then 1 else 0, a)

theorem cmpPre_eq (a b : List Ident) :
    cmpPre a b = lexCmp natC (cmpIds cmpPreId) (preKey a) (preKey b) := by
  cases a <;> cases b <;> simp [cmpPre, preKey, lexCmp, cmpIds, Ordering.then] <;> try decide

theorem cmpPre_lin : LinCmp cmpPre :=
  ((natCmp.lex (cmpIds_lin cmpPreId_lin)).pullback preKey (by
    intro a b h; exact (Prod.mk.inj h).2)).congr cmpPre_eq

/-- The comparison key of a version; `SemVer.cmp` is the lexicographic order on keys. -/
def key (v : SemVer) : Nat × Nat × Nat × List Ident × List Ident :=
  (v.major, v.minor, v.patch, v.pre, buildSegs v.build)

/-- The linear comparator on keys. -/
def keyCmp : (Nat × Nat × Nat × List Ident × List Ident) →
    (Nat × Nat × Nat × List Ident × List Ident) → Ordering :=
  lexCmp natC (lexCmp natC (lexCmp natC (lexCmp cmpPre (cmpIds cmpBuildId))))

theorem keyCmp_lin : LinCmp keyCmp :=
  natCmp.lex (natCmp.lex (natCmp.lex (cmpPre_lin.lex (cmpIds_lin cmpBuildId_lin))))

theorem cmp_eq_keyCmp (a b : SemVer) : SemVer.cmp a b = keyCmp (key a) (key b) := rfl


/-! ### Consequences for any linear comparator -/

theorem LinCmp.refl {α : Type} {f : α → α → Ordering} (hf : LinCmp f) (a : α) : f a a = .eq :=
  (hf.eq_iff a a).2 rfl

theorem LinCmp.le_trans {α : Type} {f : α → α → Ordering} (hf : LinCmp f) (a b c : α)
    (h1 : f a b ≠ .gt) (h2 : f b c ≠ .gt) : f a c ≠ .gt := by
  cases h3 : f a b with
  | gt => exact absurd h3 h1
  | eq => rw [(hf.eq_iff _ _).1 h3]; exact h2
  | lt =>
    cases h4 : f b c with
    | gt => exact absurd h4 h2
    | eq => rw [← (hf.eq_iff _ _).1 h4, h3]; simp
    | lt => rw [hf.trans _ _ _ h3 h4]; simp

end Dropshot.SemVerOrder

namespace Dropshot.SemVer
open Dropshot.SemVerOrder

/-! ### `SemVer.cmp` on all values: a total preorder whose `eq` is equality of keys -/

theorem cmp_swap (a b : SemVer) : SemVer.cmp b a = (SemVer.cmp a b).swap :=
  keyCmp_lin.swap (key a) (key b)

theorem cmp_refl (a : SemVer) : SemVer.cmp a a = .eq := keyCmp_lin.refl (key a)

theorem cmp_eq_iff_key (a b : SemVer) : SemVer.cmp a b = .eq ↔ key a = key b :=
  keyCmp_lin.eq_iff (key a) (key b)

theorem le_def (a b : SemVer) : a ≤ b ↔ SemVer.cmp a b ≠ .gt := Iff.rfl
theorem lt_def (a b : SemVer) : a < b ↔ SemVer.cmp a b = .lt := Iff.rfl

theorem lt_trans' (a b c : SemVer) (h1 : a < b) (h2 : b < c) : a < c :=
  keyCmp_lin.trans (key a) (key b) (key c) h1 h2

theorem le_refl' (a : SemVer) : a ≤ a := by rw [le_def, cmp_refl]; simp

theorem le_trans' (a b c : SemVer) (h1 : a ≤ b) (h2 : b ≤ c) : a ≤ c :=
  keyCmp_lin.le_trans (key a) (key b) (key c) h1 h2

theorem le_total' (a b : SemVer) : a ≤ b ∨ b ≤ a := by
  rw [le_def, le_def, cmp_swap a b]; cases SemVer.cmp a b <;> simp [Ordering.swap]

theorem lt_iff_le_not_ge' (a b : SemVer) : a < b ↔ a ≤ b ∧ ¬ b ≤ a := by
  rw [le_def, le_def, lt_def, cmp_swap a b]; cases SemVer.cmp a b <;> simp [Ordering.swap]

/-- Trichotomy. -/
theorem lt_or_key_eq_or_gt (a b : SemVer) : a < b ∨ key a = key b ∨ b < a := by
  rw [lt_def, lt_def, cmp_swap a b, ← cmp_eq_iff_key]; cases SemVer.cmp a b <;> simp [Ordering.swap]

/-! ### Well-formed versions: `eq` is equality -/

/-- What the `semver` crate guarantees of a parsed version: every identifier
is non-empty and a numeric pre-release identifier has no leading zero
(`segOk`). -/
def WF (v : SemVer) : Prop :=
  (∀ i ∈ v.pre, segOk true i = true) ∧ (∀ i ∈ v.build, segOk false i = true)

instance (v : SemVer) : Decidable (WF v) := by unfold WF; infer_instance

theorem segOk_ne_nil (isPre : Bool) (i : Ident) (h : segOk isPre i = true) : i ≠ [] := by
  rintro rfl; simp [segOk] at h

theorem buildSegs_inj (a b : List Ident) (ha : ∀ i ∈ a, i ≠ []) (hb : ∀ i ∈ b, i ≠ [])
    (h : buildSegs a = buildSegs b) : a = b := by
  unfold buildSegs at h
  cases a with
  | nil => cases b with
    | nil => rfl
    | cons y ys =>
      simp at h
      exact absurd h.1 (hb y (by simp))
  | cons x xs => cases b with
    | nil =>
      simp at h
      exact absurd h.1 (ha x (by simp))
    | cons y ys => simpa using h

theorem key_inj (a b : SemVer) (ha : WF a) (hb : WF b) (h : key a = key b) : a = b := by
  obtain ⟨a1, a2, a3, a4, a5⟩ := a
  obtain ⟨b1, b2, b3, b4, b5⟩ := b
  simp only [key, Prod.mk.injEq] at h
  obtain ⟨h1, h2, h3, h4, h5⟩ := h
  have := buildSegs_inj a5 b5 (fun i hi => segOk_ne_nil _ i (ha.2 i hi))
    (fun i hi => segOk_ne_nil _ i (hb.2 i hi)) h5
  simp [*]

theorem cmp_eq_iff (a b : SemVer) (ha : WF a) (hb : WF b) : SemVer.cmp a b = .eq ↔ a = b := by
  rw [cmp_eq_iff_key]
  exact ⟨key_inj a b ha hb, fun h => by rw [h]⟩

theorem le_antisymm' (a b : SemVer) (ha : WF a) (hb : WF b) (h1 : a ≤ b) (h2 : b ≤ a) : a = b := by
  apply (cmp_eq_iff a b ha hb).1
  rw [le_def] at h1 h2
  rw [cmp_swap a b] at h2
  cases h : SemVer.cmp a b <;> simp_all [Ordering.swap]

/-- Without well-formedness `SemVer.cmp … = eq` is not equality: the build metadata
`[]` ("none") and `[[]]` (one empty identifier, which the crate cannot produce)
compare equal.  This is why the `LinearOrder` instance lives on `WfSemVer`. -/
theorem cmp_eq_not_eq_raw :
    SemVer.cmp { major := 1, minor := 0, patch := 0, pre := [], build := [] }
        { major := 1, minor := 0, patch := 0, pre := [], build := [[]] } = .eq := by
  decide

theorem then_ne_gt (o p : Ordering) : o.then p ≠ .gt ↔ o ≠ .gt ∧ (o = .eq → p ≠ .gt) := by
  cases o <;> cases p <;> simp [Ordering.then]

theorem cmpIds_nil_ne_gt (f : Ident → Ident → Ordering) (b : List Ident) : cmpIds f [] b ≠ .gt := by
  cases b <;> simp [cmpIds]

theorem cmpBuild_nil_ne_gt (b : List Ident) : cmpBuild [] b ≠ .gt := by
  unfold cmpBuild buildSegs
  cases b with
  | nil => decide
  | cons x xs =>
    simp only [List.isEmpty_nil, ↓reduceIte, List.isEmpty_cons, Bool.false_eq_true, cmpIds]
    rw [then_ne_gt]
    refine ⟨?_, fun _ => cmpIds_nil_ne_gt _ _⟩
    unfold cmpBuildId
    cases hx : x.all isDigit
    · simp
    · simp only [List.all_nil, dropZeros, List.length_nil]
      rw [then_ne_gt, then_ne_gt]
      refine ⟨⟨?_, ?_⟩, ?_⟩
      · simp [Nat.compare_eq_gt]
      · intro _; cases dropZeros x <;> simp [cmpStr]
      · intro _; simp [Nat.compare_eq_gt]

theorem cmpPreId_zero_ne_gt (i : Ident) (hi : i ≠ []) : cmpPreId ['0'] i ≠ .gt := by
  unfold cmpPreId
  have h0 : (['0'] : Ident).all isDigit = true := by decide
  rw [h0]
  cases hx : i.all isDigit
  · simp
  · simp only
    rw [then_ne_gt]
    constructor
    · cases i with
      | nil => exact absurd rfl hi
      | cons c cs => simp [Nat.compare_eq_gt]
    · intro hlen
      have hlen' : i.length = 1 := by
        have := Nat.compare_eq_eq.1 hlen
        simpa using this.symm
      match i, hlen' with
      | [c], _ =>
        simp only [cmpStr]
        rw [then_ne_gt]
        refine ⟨?_, fun _ => by simp⟩
        simp only [List.all_cons, List.all_nil, Bool.and_true] at hx
        simp only [isDigit, Bool.and_eq_true, decide_eq_true_eq] at hx
        have : '0'.toNat ≤ c.toNat := hx.1
        simp [Nat.compare_eq_gt]; exact this

theorem cmpPre_bot_ne_gt (p : List Ident) (h : ∀ i ∈ p, i ≠ []) : cmpPre [['0']] p ≠ .gt := by
  cases p with
  | nil => simp [cmpPre]
  | cons i ps =>
    simp only [cmpPre, cmpIds]
    rw [then_ne_gt]
    exact ⟨cmpPreId_zero_ne_gt i (h i (by simp)), fun _ => cmpIds_nil_ne_gt _ _⟩

/-- `0.0.0-0` is the least version (among versions whose pre-release
identifiers are non-empty; in particular among well-formed ones). -/
theorem bot_le_of_pre (v : SemVer) (h : ∀ i ∈ v.pre, i ≠ []) : bot ≤ v := by
  show SemVer.cmp bot v ≠ .gt
  unfold SemVer.cmp bot
  simp only
  rw [then_ne_gt, then_ne_gt, then_ne_gt, then_ne_gt]
  refine ⟨by simp [Nat.compare_eq_gt], fun _ => ⟨by simp [Nat.compare_eq_gt], fun _ =>
    ⟨by simp [Nat.compare_eq_gt], fun _ => ⟨cmpPre_bot_ne_gt _ h, fun _ => cmpBuild_nil_ne_gt _⟩⟩⟩⟩

/-! ### Parsed versions are well-formed -/

theorem identGo_segOk (isPre : Bool) (s : List Char) (cur : Ident) (acc : List Ident)
    (hacc : ∀ i ∈ acc, segOk isPre i = true) (r : List Ident) (rest : List Char)
    (h : identGo isPre s cur acc = some (r, rest)) : ∀ i ∈ r, segOk isPre i = true := by
  fun_induction identGo isPre s cur acc <;> simp_all <;> grind

theorem identSegs_segOk (isPre : Bool) (s : List Char) (r : List Ident) (rest : List Char)
    (h : identSegs isPre s = some (r, rest)) : ∀ i ∈ r, segOk isPre i = true :=
  identGo_segOk isPre s [] [] (by simp) r rest h

theorem parseChars_WF (s : List Char) (v : SemVer) (h : parseChars s = some v) : WF v := by
  unfold parseChars at h
  split at h; · contradiction
  split at h; · contradiction
  split at h; · contradiction
  split at h; · contradiction
  split at h; · contradiction
  dsimp only at h
  -- the build part, once the pre-release part `(pre, t)` is known
  have build_part : ∀ (pre : List Ident) (t : List Char) (mj mn pt : Nat),
      (∀ i ∈ pre, segOk true i = true) →
      (match (match t with
          | '+' :: t' => identSegs false t'
          | _ => some ([], t)) with
        | none => none
        | some (build, t) =>
          if t.isEmpty = true then
            some ({ major := mj, minor := mn, patch := pt, pre := pre, build := build } : SemVer)
          else none) = some v → WF v := by
    intro pre t mj mn pt hp h
    split at h
    · contradiction
    · rename_i build t2 hb
      split at h
      · simp only [Option.some.injEq] at h
        subst h
        refine ⟨hp, ?_⟩
        simp only
        split at hb
        · exact identSegs_segOk _ _ _ _ hb
        · simp only [Option.some.injEq, Prod.mk.injEq] at hb
          rw [← hb.1]; simp
      · contradiction
  split at h
  · contradiction
  · rename_i pre t hpre
    refine build_part pre t _ _ _ ?_ h
    split at hpre
    · exact identSegs_segOk _ _ _ _ hpre
    · simp only [Option.some.injEq, Prod.mk.injEq] at hpre
      rw [← hpre.1]; simp

theorem bot_WF : WF bot := by decide

/-- `0.0.0-0` is the least well-formed version. -/
theorem bot_le (v : SemVer) (hv : WF v) : bot ≤ v :=
  bot_le_of_pre v (fun i hi => segOk_ne_nil _ i (hv.1 i hi))

/-- …in particular it is below everything the parser produces. -/
theorem bot_le_parsed (s : List Char) (v : SemVer) (h : parseChars s = some v) : bot ≤ v :=
  bot_le v (parseChars_WF s v h)

end Dropshot.SemVer

namespace Dropshot
open SemVer

/-- Well-formed versions: the values the `semver` crate can produce. -/
def WfSemVer : Type := { v : SemVer // SemVer.WF v }

namespace WfSemVer

instance : DecidableEq WfSemVer := fun a b =>
  decidable_of_iff (a.1 = b.1) ⟨Subtype.ext, fun h => by rw [h]⟩

instance : LinearOrder WfSemVer where
  le a b := a.1 ≤ b.1
  lt a b := a.1 < b.1
  le_refl a := SemVer.le_refl' a.1
  le_trans a b c := SemVer.le_trans' a.1 b.1 c.1
  le_antisymm a b h1 h2 := Subtype.ext (SemVer.le_antisymm' a.1 b.1 a.2 b.2 h1 h2)
  le_total a b := SemVer.le_total' a.1 b.1
  lt_iff_le_not_ge a b := SemVer.lt_iff_le_not_ge' a.1 b.1
  toDecidableLE := fun a b => inferInstanceAs (Decidable (a.1 ≤ b.1))
  toDecidableLT := fun a b => inferInstanceAs (Decidable (a.1 < b.1))
  toDecidableEq := inferInstance

/-- The least element. -/
def bot : WfSemVer := ⟨SemVer.bot, SemVer.bot_WF⟩

theorem bot_le (v : WfSemVer) : bot ≤ v := SemVer.bot_le v.1 v.2

/-- A parsed version as a well-formed one. -/
def ofParse (s : List Char) : Option WfSemVer :=
  match h : SemVer.parseChars s with
  | some v => some ⟨v, SemVer.parseChars_WF s v h⟩
  | none => none

theorem ext_iff (a b : WfSemVer) : a = b ↔ a.1 = b.1 := ⟨fun h => by rw [h], Subtype.ext⟩
theorem le_iff (a b : WfSemVer) : a ≤ b ↔ a.1 ≤ b.1 := Iff.rfl
theorem lt_iff (a b : WfSemVer) : a < b ↔ a.1 < b.1 := Iff.rfl

end WfSemVer

/-! ### Transfer: the version logic on raw `SemVer` values that happen to be
well-formed is the version logic on `WfSemVer` -/

namespace Range

/-- Forget well-formedness. -/
def forget (r : Range WfSemVer) : Range SemVer := r.map Subtype.val

theorem matches_forget (r : Range WfSemVer) (v : WfSemVer) :
    (forget r).matches (some v.1) = r.matches (some v) := by
  rcases r with _ | a | ⟨a, b⟩ | b
  · rfl
  · rfl
  · simp only [forget, Range.map, Range.matches]
    rw [Bool.eq_iff_iff]
    simp only [Bool.and_eq_true, Bool.or_eq_true, decide_eq_true_eq, WfSemVer.le_iff,
      WfSemVer.lt_iff, WfSemVer.ext_iff]
  · rfl

theorem overlaps_forget (r s : Range WfSemVer) :
    overlaps (forget r) (forget s) = overlaps r s := by
  rcases r with _ | a | ⟨a, b⟩ | b <;> rcases s with _ | a' | ⟨a', b'⟩ | b' <;>
    simp only [forget, Range.map, overlaps] <;>
    first
    | rfl
    | exact matches_forget (.until _) _
    | exact matches_forget (.fromUntil _ _) _
    | skip
  · have h1 := matches_forget (.fromUntil a' b') a
    simp only [forget, Range.map] at h1
    rw [h1]; rfl
  · have h1 := matches_forget (.fromUntil a b) a'
    simp only [forget, Range.map] at h1
    rw [h1]; rfl
  · have h1 := matches_forget (.fromUntil a b) a'
    have h2 := matches_forget (.fromUntil a' b') a
    simp only [forget, Range.map] at h1 h2
    rw [h1, h2]

/-- Membership is the same statement on both sides. -/
theorem mem_forget (r : Range WfSemVer) (v : WfSemVer) : Mem v.1 (forget r) ↔ Mem v r := by
  rcases r with _ | a | ⟨a, b⟩ | b <;>
    simp only [forget, Range.map, Mem, WfSemVer.le_iff, WfSemVer.lt_iff, WfSemVer.ext_iff]

end Range
end Dropshot
