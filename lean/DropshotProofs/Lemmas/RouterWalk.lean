/-
Helper lemmas: the trie walk of `lookup_route` refines the flat template
matcher `matchT` (soundness needs no invariant; completeness needs sorted
children keys and the absence of an exact route beside a wildcard child).
-/
import DropshotModel.Router

namespace Dropshot
variable {V : Type}

/-- Endpoints stored directly at a node. -/
def Node.stored (n : Node V) : List (Endpoint V) := n.methods.flatMap (·.2)

def Children.keys : Children V → List String
  | .nil => []
  | .cons k _ tl => k :: Children.keys tl

/-! ### Structural invariants -/

mutual
  /-- Children keys strictly increasing everywhere (`BTreeMap`). -/
  def Node.Sorted : Node V → Prop
    | .mk _ es => Edges.Sorted es
  def Edges.Sorted : Edges V → Prop
    | .none => True
    | .lits cs => (Children.keys cs).Pairwise (· < ·) ∧ Children.Sorted cs
    | .single _ c => Node.Sorted c
    | .rest _ c => Node.Sorted c
  def Children.Sorted : Children V → Prop
    | .nil => True
    | .cons _ c tl => Node.Sorted c ∧ Children.Sorted tl
end

mutual
  /-- Finding K1's excluded region: no node has both handlers of its own and a
  wildcard child. -/
  def Node.NoExactBesideWild : Node V → Prop
    | .mk ms es => (match es with
        | .rest _ _ => ∀ p ∈ ms, p.2 = []
        | _ => True) ∧ Edges.NoExactBesideWild es
  def Edges.NoExactBesideWild : Edges V → Prop
    | .none => True
    | .lits cs => Children.NoExactBesideWild cs
    | .single _ c => Node.NoExactBesideWild c
    | .rest _ c => Node.NoExactBesideWild c
  def Children.NoExactBesideWild : Children V → Prop
    | .nil => True
    | .cons _ c tl => Node.NoExactBesideWild c ∧ Children.NoExactBesideWild tl
end

/-! ### `all` basics -/

theorem Node.stored_mem_all (n : Node V) (pre : List Seg) (e : Endpoint V)
    (h : e ∈ n.stored) : (pre, e) ∈ Node.all n pre := by
  cases n with
  | mk ms es =>
    simp only [Node.stored, Node.methods, List.mem_flatMap] at h
    obtain ⟨p, hp, he⟩ := h
    simp only [Node.all, List.mem_append, List.mem_flatMap, List.mem_map]
    exact Or.inl ⟨p, hp, e, he, rfl⟩

/-- Template matching with the wildcard not in last position never succeeds. -/
theorem matchT_wild_cons (n : String) (s : Seg) (rest : List Seg) (p : List String) :
    matchT (.wild n :: s :: rest) p = none := by
  cases p <;> simp [matchT]

theorem matchT_lit_cons (k : String) (ps : List Seg) (x : String) (xs : List String) :
    matchT (.lit k :: ps) (x :: xs) = if k = x then matchT ps xs else none := by
  simp [matchT]

theorem matchT_var_cons (n : String) (ps : List Seg) (x : String) (xs : List String) :
    matchT (.var n :: ps) (x :: xs) = (matchT ps xs).map ((n, VarVal.str x) :: ·) := by
  simp [matchT]

theorem matchT_wild_last (n : String) (p : List String) :
    matchT [.wild n] p = some [(n, .comps p)] := by
  cases p <;> simp [matchT]

theorem matchT_nil_left (p : List String) : matchT [] p = (if p = [] then some [] else none) := by
  cases p <;> simp [matchT]

theorem matchT_cons_nil (s : Seg) (ps : List Seg) :
    matchT (s :: ps) [] = (match s, ps with | .wild n, [] => some [(n, .comps [])] | _, _ => none) := by
  cases s <;> cases ps <;> simp [matchT]


/-! ### Soundness of the walk -/


mutual
  theorem Node.walk_sound : ∀ (n : Node V) (pre : List Seg) (p : List String) (vars : Vars)
      (n' : Node V) (vars' : Vars), Node.walk n p vars = some (n', vars') →
      ∃ sfx bs, matchT sfx p = some bs ∧ vars' = vars ++ bs ∧
        ∀ e ∈ n'.stored, (pre ++ sfx, e) ∈ Node.all n pre
    | .mk ms es, pre, [], vars, n', vars', h => by
      cases es with
      | rest n c =>
        simp only [Node.walk, Option.some.injEq, Prod.mk.injEq] at h
        obtain ⟨rfl, rfl⟩ := h
        refine ⟨[.wild n], [(n, .comps [])], matchT_wild_last n [], rfl, ?_⟩
        intro e he
        simp only [Node.all, Edges.all, List.mem_append]
        exact Or.inr (Node.stored_mem_all _ _ e he)
      | none | lits _ | single _ _ =>
        simp only [Node.walk, Option.some.injEq, Prod.mk.injEq] at h
        obtain ⟨rfl, rfl⟩ := h
        refine ⟨[], [], by simp [matchT], by simp, ?_⟩
        intro e he
        simpa using Node.stored_mem_all _ pre e he
    | .mk ms es, pre, s :: ss, vars, n', vars', h => by
      simp only [Node.walk] at h
      obtain ⟨sfx, bs, h1, h2, h3⟩ := Edges.walk_sound es pre s ss vars n' vars' h
      refine ⟨sfx, bs, h1, h2, fun e he => ?_⟩
      simp only [Node.all, List.mem_append]
      exact Or.inr (h3 e he)

  theorem Edges.walk_sound : ∀ (es : Edges V) (pre : List Seg) (s : String) (ss : List String)
      (vars : Vars) (n' : Node V) (vars' : Vars), Edges.walk es s ss vars = some (n', vars') →
      ∃ sfx bs, matchT sfx (s :: ss) = some bs ∧ vars' = vars ++ bs ∧
        ∀ e ∈ n'.stored, (pre ++ sfx, e) ∈ Edges.all es pre
    | .none, _, _, _, _, _, _, h => by simp [Edges.walk] at h
    | .lits cs, pre, s, ss, vars, n', vars', h => by
      simp only [Edges.walk] at h
      simpa [Edges.all] using Children.walk_sound cs pre s ss vars n' vars' h
    | .single n c, pre, s, ss, vars, n', vars', h => by
      simp only [Edges.walk] at h
      obtain ⟨sfx, bs, h1, h2, h3⟩ := Node.walk_sound c (pre ++ [.var n]) ss _ n' vars' h
      refine ⟨.var n :: sfx, (n, .str s) :: bs, by simp [matchT_var_cons, h1], by simp [h2], ?_⟩
      intro e he
      simpa [Edges.all] using h3 e he
    | .rest n c, pre, s, ss, vars, n', vars', h => by
      simp only [Edges.walk, Option.some.injEq, Prod.mk.injEq] at h
      obtain ⟨rfl, rfl⟩ := h
      refine ⟨[.wild n], [(n, .comps (s :: ss))], matchT_wild_last n _, rfl, ?_⟩
      intro e he
      simpa [Edges.all] using Node.stored_mem_all _ (pre ++ [.wild n]) e he

  theorem Children.walk_sound : ∀ (cs : Children V) (pre : List Seg) (s : String) (ss : List String)
      (vars : Vars) (n' : Node V) (vars' : Vars), Children.walk cs s ss vars = some (n', vars') →
      ∃ sfx bs, matchT sfx (s :: ss) = some bs ∧ vars' = vars ++ bs ∧
        ∀ e ∈ n'.stored, (pre ++ sfx, e) ∈ Children.all cs pre
    | .nil, _, _, _, _, _, _, h => by simp [Children.walk] at h
    | .cons k c tl, pre, s, ss, vars, n', vars', h => by
      simp only [Children.walk] at h
      split at h
      · rename_i hk
        obtain ⟨sfx, bs, h1, h2, h3⟩ := Node.walk_sound c (pre ++ [.lit k]) ss vars n' vars' h
        refine ⟨.lit k :: sfx, bs, by simp [matchT_lit_cons, hk, h1], h2, ?_⟩
        intro e he
        simp only [Children.all, List.mem_append]
        left
        simpa using h3 e he
      · obtain ⟨sfx, bs, h1, h2, h3⟩ := Children.walk_sound tl pre s ss vars n' vars' h
        refine ⟨sfx, bs, h1, h2, fun e he => ?_⟩
        simp only [Children.all, List.mem_append]
        exact Or.inr (h3 e he)
end


/-! ### Re-rooting -/


/-- Re-rooting: addresses below `pre` are `pre ++` the relative addresses. -/
def reloc (pre : List Seg) (x : List Seg × Endpoint V) : List Seg × Endpoint V := (pre ++ x.1, x.2)

mutual
  theorem Node.all_reloc : ∀ (n : Node V) (pre : List Seg),
      Node.all n pre = (Node.all n []).map (reloc pre)
    | .mk ms es, pre => by
      simp only [Node.all, List.map_append, Edges.all_reloc es pre]
      congr 1
      simp [List.map_flatMap, reloc, Function.comp_def]
  theorem Edges.all_reloc : ∀ (es : Edges V) (pre : List Seg),
      Edges.all es pre = (Edges.all es []).map (reloc pre)
    | .none, _ => by simp [Edges.all]
    | .lits cs, pre => by simpa [Edges.all] using Children.all_reloc cs pre
    | .single n c, pre => by
      simp only [Edges.all, List.nil_append]
      rw [Node.all_reloc c (pre ++ [Seg.var n]), Node.all_reloc c [Seg.var n]]
      simp [reloc, List.map_map, Function.comp_def]
    | .rest n c, pre => by
      simp only [Edges.all, List.nil_append]
      rw [Node.all_reloc c (pre ++ [Seg.wild n]), Node.all_reloc c [Seg.wild n]]
      simp [reloc, List.map_map, Function.comp_def]
  theorem Children.all_reloc : ∀ (cs : Children V) (pre : List Seg),
      Children.all cs pre = (Children.all cs []).map (reloc pre)
    | .nil, _ => by simp [Children.all]
    | .cons k c tl, pre => by
      simp only [Children.all, List.nil_append, List.map_append]
      rw [Node.all_reloc c (pre ++ [Seg.lit k]), Node.all_reloc c [Seg.lit k], Children.all_reloc tl pre]
      simp [reloc, List.map_map, Function.comp_def]
end

theorem Node.mem_all_cons (c : Node V) (s : Seg) (a : List Seg) (e : Endpoint V) :
    (a, e) ∈ Node.all c [s] ↔ ∃ r, a = s :: r ∧ (r, e) ∈ Node.all c [] := by
  rw [Node.all_reloc c [s]]
  simp only [List.mem_map, reloc, Prod.mk.injEq, Prod.exists]
  constructor
  · rintro ⟨r, e', h, rfl, rfl⟩; exact ⟨r, rfl, h⟩
  · rintro ⟨r, rfl, h⟩; exact ⟨r, e, h, rfl, rfl⟩

theorem Children.nil_not_mem_all : ∀ (cs : Children V) (e : Endpoint V),
    ¬ (([] : List Seg), e) ∈ Children.all cs []
  | .nil, _ => by simp [Children.all]
  | .cons k c tl, e => by
    simp only [Children.all, List.nil_append, List.mem_append, not_or]
    exact ⟨by simp [Node.mem_all_cons], Children.nil_not_mem_all tl e⟩

/-- Edge addresses are never empty. -/
theorem Edges.nil_not_mem_all (es : Edges V) (e : Endpoint V) : ¬ (([] : List Seg), e) ∈ Edges.all es [] := by
  cases es with
  | none => simp [Edges.all]
  | single n c => simp [Edges.all, Node.mem_all_cons]
  | rest n c => simp [Edges.all, Node.mem_all_cons]
  | lits cs => simpa [Edges.all] using Children.nil_not_mem_all cs e

theorem Node.nil_mem_all (n : Node V) (e : Endpoint V) (h : (([] : List Seg), e) ∈ Node.all n []) :
    e ∈ n.stored := by
  cases n with
  | mk ms es =>
    simp only [Node.all, List.mem_append] at h
    rcases h with h | h
    · simp only [List.mem_flatMap, List.mem_map, Prod.mk.injEq, true_and, exists_eq_right] at h
      simpa [Node.stored, Node.methods, List.mem_flatMap] using h
    · exact absurd h (Edges.nil_not_mem_all es e)



/-! ### Completeness of the walk -/


theorem Children.keys_lt_of_pairwise (k : String) (tl : Children V)
    (h : (Children.keys (.cons k (Node.empty : Node V) tl)).Pairwise (· < ·)) : ∀ k' ∈ Children.keys tl, k < k' := by
  simp only [Children.keys, List.pairwise_cons] at h
  exact h.1

theorem Children.mem_all_lit : ∀ (cs : Children V) (sfx : List Seg) (e : Endpoint V),
    (sfx, e) ∈ Children.all cs [] → ∃ k r, sfx = Seg.lit k :: r ∧ k ∈ Children.keys cs
  | .nil, _, _, h => by simp [Children.all] at h
  | .cons k c tl, sfx, e, h => by
    simp only [Children.all, List.nil_append, List.mem_append] at h
    rcases h with h | h
    · rw [Node.mem_all_cons] at h
      obtain ⟨r, rfl, -⟩ := h
      exact ⟨k, r, rfl, by simp [Children.keys]⟩
    · obtain ⟨k', r, h1, h2⟩ := Children.mem_all_lit tl sfx e h
      exact ⟨k', r, h1, by simp [Children.keys, h2]⟩

mutual
  theorem Node.walk_complete : ∀ (n : Node V) (sfx : List Seg) (p : List String) (vars bs : Vars)
      (e : Endpoint V), Node.Sorted n → Node.NoExactBesideWild n →
      (sfx, e) ∈ Node.all n [] → matchT sfx p = some bs →
      ∃ n', Node.walk n p vars = some (n', vars ++ bs) ∧ e ∈ n'.stored
    | .mk ms es, sfx, p, vars, bs, e, hs, hk, hmem, hm => by
      simp only [Node.all, List.mem_append] at hmem
      rcases hmem with hmem | hmem
      · -- stored at this very node
        simp only [List.mem_flatMap, List.mem_map, Prod.mk.injEq] at hmem
        obtain ⟨q, hq, e', he', rfl, rfl⟩ := hmem
        rw [matchT_nil_left] at hm
        split at hm
        · rename_i hp; subst hp
          simp only [Option.some.injEq] at hm; subst hm
          have hst : e' ∈ (Node.mk ms es).stored := by
            simp only [Node.stored, Node.methods, List.mem_flatMap]; exact ⟨q, hq, he'⟩
          cases es with
          | rest n c =>
            simp only [Node.NoExactBesideWild] at hk
            have := hk.1 q hq
            rw [this] at he'; cases he'
          | none => exact ⟨_, by simp [Node.walk], hst⟩
          | lits cs => exact ⟨_, by simp [Node.walk], hst⟩
          | single n c => exact ⟨_, by simp [Node.walk], hst⟩
        · cases hm
      · cases p with
        | nil =>
          -- the only way to match the empty remainder below this node is a wildcard child
          cases es with
          | none => simp [Edges.all] at hmem
          | lits cs =>
            simp only [Edges.all] at hmem
            obtain ⟨k, r, rfl, -⟩ := Children.mem_all_lit cs sfx e hmem
            simp [matchT] at hm
          | single n c =>
            simp only [Edges.all, List.nil_append, Node.mem_all_cons] at hmem
            obtain ⟨r, rfl, -⟩ := hmem
            simp [matchT] at hm
          | rest n c =>
            simp only [Edges.all, List.nil_append, Node.mem_all_cons] at hmem
            obtain ⟨r, rfl, hr⟩ := hmem
            cases r with
            | cons s r' => rw [matchT_wild_cons] at hm; cases hm
            | nil =>
              rw [matchT_wild_last] at hm
              simp only [Option.some.injEq] at hm; subst hm
              exact ⟨c, by simp [Node.walk], Node.nil_mem_all c e hr⟩
        | cons s ss =>
          simp only [Node.walk]
          simp only [Node.Sorted] at hs
          exact Edges.walk_complete es sfx s ss vars bs e hs hk.2 hmem hm

  theorem Edges.walk_complete : ∀ (es : Edges V) (sfx : List Seg) (s : String) (ss : List String)
      (vars bs : Vars) (e : Endpoint V), Edges.Sorted es → Edges.NoExactBesideWild es →
      (sfx, e) ∈ Edges.all es [] → matchT sfx (s :: ss) = some bs →
      ∃ n', Edges.walk es s ss vars = some (n', vars ++ bs) ∧ e ∈ n'.stored
    | .none, _, _, _, _, _, _, _, _, hmem, _ => by simp [Edges.all] at hmem
    | .lits cs, sfx, s, ss, vars, bs, e, hs, hk, hmem, hm => by
      simp only [Edges.walk]
      simp only [Edges.Sorted] at hs
      simp only [Edges.NoExactBesideWild] at hk
      simp only [Edges.all] at hmem
      exact Children.walk_complete cs sfx s ss vars bs e hs.1 hs.2 hk hmem hm
    | .single n c, sfx, s, ss, vars, bs, e, hs, hk, hmem, hm => by
      simp only [Edges.all, List.nil_append, Node.mem_all_cons] at hmem
      obtain ⟨r, rfl, hr⟩ := hmem
      rw [matchT_var_cons] at hm
      simp only [Option.map_eq_some_iff] at hm
      obtain ⟨bs', hb, rfl⟩ := hm
      simp only [Edges.Sorted] at hs
      simp only [Edges.NoExactBesideWild] at hk
      obtain ⟨n', h1, h2⟩ := Node.walk_complete c r ss (vars ++ [(n, .str s)]) bs' e hs hk hr hb
      exact ⟨n', by simp [Edges.walk, h1], h2⟩
    | .rest n c, sfx, s, ss, vars, bs, e, _, _, hmem, hm => by
      simp only [Edges.all, List.nil_append, Node.mem_all_cons] at hmem
      obtain ⟨r, rfl, hr⟩ := hmem
      cases r with
      | cons s' r' => rw [matchT_wild_cons] at hm; cases hm
      | nil =>
        rw [matchT_wild_last] at hm
        simp only [Option.some.injEq] at hm; subst hm
        exact ⟨c, by simp [Edges.walk], Node.nil_mem_all c e hr⟩

  theorem Children.walk_complete : ∀ (cs : Children V) (sfx : List Seg) (s : String)
      (ss : List String) (vars bs : Vars) (e : Endpoint V),
      (Children.keys cs).Pairwise (· < ·) → Children.Sorted cs → Children.NoExactBesideWild cs →
      (sfx, e) ∈ Children.all cs [] → matchT sfx (s :: ss) = some bs →
      ∃ n', Children.walk cs s ss vars = some (n', vars ++ bs) ∧ e ∈ n'.stored
    | .nil, _, _, _, _, _, _, _, _, _, hmem, _ => by simp [Children.all] at hmem
    | .cons k c tl, sfx, s, ss, vars, bs, e, hp, hs, hk, hmem, hm => by
      simp only [Children.all, List.nil_append, List.mem_append] at hmem
      simp only [Children.keys, List.pairwise_cons] at hp
      simp only [Children.Sorted] at hs
      simp only [Children.NoExactBesideWild] at hk
      rcases hmem with hmem | hmem
      · rw [Node.mem_all_cons] at hmem
        obtain ⟨r, rfl, hr⟩ := hmem
        rw [matchT_lit_cons] at hm
        split at hm
        · rename_i hks; subst hks
          obtain ⟨n', h1, h2⟩ := Node.walk_complete c r ss vars bs e hs.1 hk.1 hr hm
          exact ⟨n', by simp [Children.walk, h1], h2⟩
        · cases hm
      · -- the endpoint lives under a later key; that key is the request segment, so `k ≠ s`
        obtain ⟨n', h1, h2⟩ := Children.walk_complete tl sfx s ss vars bs e hp.2 hs.2 hk.2 hmem hm
        have hne : ¬ s = k := by
          obtain ⟨k', r, rfl, hk'⟩ := Children.mem_all_lit tl sfx e hmem
          rw [matchT_lit_cons] at hm
          split at hm
          · rename_i hks; subst hks
            intro heq; subst heq
            exact absurd (hp.1 _ hk') (String.lt_irrefl _)
          · cases hm
        exact ⟨n', by simp [Children.walk, hne, h1], h2⟩
end


end Dropshot
