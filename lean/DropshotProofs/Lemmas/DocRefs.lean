/-
Lemmas for the reference bookkeeping model (`DropshotModel/DocRefs.lean`).
-/
import DropshotModel.DocRefs
namespace Dropshot.DocRefs

theorem insertDef_names (acc : List Def) (d : Def) (n : String) :
    n ∈ (insertDef acc d).map (·.name) ↔ n ∈ acc.map (·.name) ∨ n = d.name := by
  unfold insertDef
  split
  · rename_i h
    simp only [List.any_eq_true, beq_iff_eq] at h
    obtain ⟨x, hx, hxn⟩ := h
    simp only [List.map_map, List.mem_map, Function.comp]
    constructor
    · rintro ⟨y, hy, rfl⟩
      by_cases hyd : y.name = d.name
      · simp [hyd]
      · simp only [hyd, beq_iff_eq, if_false]
        exact .inl ⟨y, hy, rfl⟩
    · rintro (⟨y, hy, rfl⟩ | rfl)
      · refine ⟨y, hy, ?_⟩
        by_cases hyd : y.name = d.name <;> simp [hyd]
      · exact ⟨x, hx, by simp [hxn]⟩
  · simp [List.mem_append]

/-- Each stored definition is one that some contribution supplied. -/
theorem insertDef_mem (acc : List Def) (d x : Def) (h : x ∈ insertDef acc d) : x ∈ acc ∨ x = d := by
  unfold insertDef at h
  split at h
  · simp only [List.mem_map] at h
    obtain ⟨y, hy, rfl⟩ := h
    by_cases hyd : y.name = d.name <;> simp [hyd, hy]
  · simp only [List.mem_append, List.mem_singleton] at h
    exact h

theorem foldl_insertDef_names (ds : List Def) (acc : List Def) (n : String) :
    n ∈ (ds.foldl insertDef acc).map (·.name) ↔ n ∈ acc.map (·.name) ∨ n ∈ ds.map (·.name) := by
  induction ds generalizing acc with
  | nil => simp
  | cons d ds ih =>
    simp only [List.foldl_cons, ih, insertDef_names, List.map_cons, List.mem_cons]
    constructor
    · rintro ((h | h) | h) <;> simp [h]
    · rintro (h | h | h) <;> simp [h]

theorem foldl_insertDef_mem (ds : List Def) (acc : List Def) (x : Def)
    (h : x ∈ ds.foldl insertDef acc) : x ∈ acc ∨ x ∈ ds := by
  induction ds generalizing acc with
  | nil => exact .inl h
  | cons d ds ih =>
    simp only [List.foldl_cons] at h
    rcases ih _ h with h1 | h1
    · rcases insertDef_mem acc d x h1 with h2 | h2
      · exact .inl h2
      · exact .inr (by simp [h2])
    · exact .inr (by simp [h1])

theorem components_names_aux (cs : List Contribution) (acc : List Def) (n : String) :
    n ∈ (cs.foldl (fun acc c => c.defs.foldl insertDef acc) acc).map (·.name) ↔
      n ∈ acc.map (·.name) ∨ ∃ c ∈ cs, n ∈ c.names := by
  induction cs generalizing acc with
  | nil => simp
  | cons c cs ih =>
    simp only [List.foldl_cons, ih, foldl_insertDef_names, List.mem_cons, Contribution.names]
    constructor
    · rintro ((h | h) | ⟨c', hc', h⟩)
      · exact .inl h
      · exact .inr ⟨c, .inl rfl, h⟩
      · exact .inr ⟨c', .inr hc', h⟩
    · rintro (h | ⟨c', rfl | hc', h⟩)
      · exact .inl (.inl h)
      · exact .inl (.inr h)
      · exact .inr ⟨c', hc', h⟩

theorem components_mem_aux (cs : List Contribution) (acc : List Def) (x : Def)
    (h : x ∈ cs.foldl (fun acc c => c.defs.foldl insertDef acc) acc) :
    x ∈ acc ∨ ∃ c ∈ cs, x ∈ c.defs := by
  induction cs generalizing acc with
  | nil => exact .inl h
  | cons c cs ih =>
    simp only [List.foldl_cons] at h
    rcases ih _ h with h1 | ⟨c', hc', h1⟩
    · rcases foldl_insertDef_mem c.defs acc x h1 with h2 | h2
      · exact .inl h2
      · exact .inr ⟨c, by simp, h2⟩
    · exact .inr ⟨c', by simp [hc'], h1⟩

/-- The names in `components.schemas` are exactly the names some endpoint contributed. -/
theorem components_names (cs : List Contribution) (n : String) :
    n ∈ (components cs).map (·.name) ↔ ∃ c ∈ cs, n ∈ c.names := by
  have := components_names_aux cs [] n
  simpa [components] using this

/-- **Reference closure.**  If every endpoint's contribution is closed, every reference in
the assembled document resolves inside it - whatever the order of the contributions and
even when two contributions define the same name. -/
theorem refs_closed (cs : List Contribution) (h : ∀ c ∈ cs, c.closed) :
    ∀ r ∈ docRefs cs, r ∈ (components cs).map (·.name) := by
  intro r hr
  rw [components_names]
  simp only [docRefs, List.mem_append, List.mem_flatMap] at hr
  rcases hr with ⟨c, hc, hrc⟩ | ⟨d, hd, hrd⟩
  · exact ⟨c, hc, (h c hc).1 r hrc⟩
  · rcases components_mem_aux cs [] d hd with h0 | ⟨c, hc, hdc⟩
    · simp at h0
    · exact ⟨c, hc, (h c hc).2 d hdc r hrd⟩

end Dropshot.DocRefs
