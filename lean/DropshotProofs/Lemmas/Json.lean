/-
Round trip of the JSON model: for every value whose strings are well-formed
UTF-8, the strict parser reads the compact printer's output back to the same
value (`parse_print`).  This is the `codec` obligation of C14's token
round-trip, discharged for all `JVal` (no hypothesis left over).
-/
import DropshotModel.Json

namespace Dropshot.Json


theorem hexVal_hexDigit : ∀ k, k < 16 → hexVal (hexDigit k) = some k := by decide

theorem hex4_ctrl (b : Nat) (h : b < 32) : hex4 48 48 (hexDigit (b / 16)) (hexDigit (b % 16)) = some b := by
  have h1 : hexVal (hexDigit (b / 16)) = some (b / 16) := hexVal_hexDigit _ (by omega)
  have h2 : hexVal (hexDigit (b % 16)) = some (b % 16) := hexVal_hexDigit _ (by omega)
  have h0 : hexVal 48 = some 0 := by decide
  simp only [hex4, h0, h1, h2]
  congr 1; omega

theorem parseStr_esc (b : Nat) (hb : b < 128) (s rest : List Nat) (t : List Nat)
    (ih : parseStr t = some (s, rest)) :
    parseStr (escByte b ++ t) = some (b :: s, rest) := by
  unfold escByte
  split
  · subst_vars; rw [parseStr.eq_def]; simp [ih, pushTo]
  split
  · subst_vars; rw [parseStr.eq_def]; simp [ih, pushTo]
  split
  · subst_vars; rw [parseStr.eq_def]; simp [ih, pushTo]
  split
  · subst_vars; rw [parseStr.eq_def]; simp [ih, pushTo]
  split
  · subst_vars; rw [parseStr.eq_def]; simp [ih, pushTo]
  split
  · subst_vars; rw [parseStr.eq_def]; simp [ih, pushTo]
  split
  · subst_vars; rw [parseStr.eq_def]; simp [ih, pushTo]
  split
  · rename_i h
    have := hex4_ctrl b h
    rw [parseStr.eq_def]
    have e : utf8Enc b = [b] := by simp [utf8Enc]; omega
    have n1 : ¬ (55296 ≤ b ∧ b ≤ 56319) := by omega
    have n2 : ¬ (56320 ≤ b ∧ b ≤ 57343) := by omega
    simp [this, ih, pushTo, e, n1, n2]
  · rw [parseStr.eq_def]
    simp [*, pushTo]



theorem escByte_hi (b : Nat) (h : 128 ≤ b) : escByte b = [b] := by
  unfold escByte; repeat' split
  all_goals first | omega | rfl

theorem parseStr_print (s : List Nat) (h : utf8Ok s = true) (rest : List Nat) :
    parseStr (printStrBody s ++ rest) = some (s, rest) := by
  fun_induction utf8Ok s with
  | case1 => rw [parseStr.eq_def]; simp [printStrBody]
  | case2 b0 r hb ih =>
    simp only [printStrBody, List.append_assoc]
    exact parseStr_esc b0 hb r rest _ (ih h)
  | case3 b0 h1 h2 b1 r ih =>
    simp only [Bool.and_eq_true] at h
    simp only [printStrBody, List.append_assoc, escByte_hi b0 (by omega), escByte_hi b1 (by simp [isCont] at h; omega)]
    rw [parseStr.eq_def]
    simp [ih h.2, pushTo, h.1, h2, show b0 ≠ 34 by omega, show b0 ≠ 92 by omega, show ¬ b0 < 32 by omega, h1]
  | case4 => simp_all
  | case5 b0 h1 h2 h3 b1 b2 r ih =>
    simp only [Bool.and_eq_true] at h
    obtain ⟨⟨ha, hb⟩, hc⟩ := h
    simp only [printStrBody, List.append_assoc, escByte_hi b0 (by omega),
      escByte_hi b1 (by simp [ok3] at ha; split at ha <;> omega), escByte_hi b2 (by simp [isCont] at hb; omega)]
    rw [parseStr.eq_def]
    simp [ih hc, pushTo, ha, hb, h3, h2, show b0 ≠ 34 by omega, show b0 ≠ 92 by omega, show ¬ b0 < 32 by omega, h1]
  | case6 => simp_all
  | case7 b0 h1 h2 h3 h4 b1 b2 b3 r ih =>
    simp only [Bool.and_eq_true] at h
    obtain ⟨⟨⟨ha, hb⟩, hc⟩, hd⟩ := h
    simp only [printStrBody, List.append_assoc, escByte_hi b0 (by omega),
      escByte_hi b1 (by simp [ok4] at ha; split at ha <;> omega), escByte_hi b2 (by simp [isCont] at hb; omega),
      escByte_hi b3 (by simp [isCont] at hc; omega)]
    rw [parseStr.eq_def]
    simp [ih hd, pushTo, ha, hb, hc, h4, h3, h2, show b0 ≠ 34 by omega, show b0 ≠ 92 by omega, show ¬ b0 < 32 by omega, h1]
  | case8 => simp_all
  | case9 => simp_all


theorem numEnd_not_digit (r : List Nat) (h : numEnd r = true) : readDigits n r = (n, r) := by
  cases r with
  | nil => rfl
  | cons c t =>
    simp only [numEnd, Bool.not_eq_true', Bool.or_eq_false_iff] at h
    simp [readDigits, h.1.1.1]

theorem readDigits_natDigits (f n : Nat) (hf : n < f) (tl : List Nat) :
    readDigits 0 (natDigits f n ++ tl) = readDigits n tl := by
  induction f generalizing n tl with
  | zero => omega
  | succ f ih =>
    unfold natDigits
    split
    · simp [readDigits, isDigit]; omega
    · rw [List.append_assoc, ih (n / 10) (by omega)]
      simp only [List.cons_append, List.nil_append, readDigits]
      have : isDigit (48 + n % 10) = true := by simp [isDigit]; omega
      simp only [this, if_true]
      congr 1; omega

theorem natDigits_head (f n : Nat) (hf : n < f) (hn : 0 < n) :
    ∃ c t, natDigits f n = c :: t ∧ 49 ≤ c ∧ c ≤ 57 := by
  induction f generalizing n with
  | zero => omega
  | succ f ih =>
    unfold natDigits
    split
    · exact ⟨48 + n, [], rfl, by omega, by omega⟩
    · obtain ⟨c, t, h, hc⟩ := ih (n / 10) (by omega) (by omega)
      exact ⟨c, t ++ [48 + n % 10], by simp [h], hc⟩

theorem parseNat_natDec (n : Nat) (rest : List Nat) (h : numEnd rest = true) :
    parseNat (natDec n ++ rest) = some (n, rest) := by
  by_cases hn : n = 0
  · subst hn
    simp [natDec, natDigits, parseNat, isDigit, h]
  · obtain ⟨c, t, hct, hc⟩ := natDigits_head (n + 1) n (by omega) (by omega)
    have hr := readDigits_natDigits (n + 1) n (by omega) rest
    rw [numEnd_not_digit rest h] at hr
    unfold natDec at *
    rw [hct] at hr ⊢
    simp only [List.cons_append, parseNat]
    have : isDigit c = true := by simp [isDigit]; omega
    simp only [this, Bool.not_true, show c ≠ 48 by omega, if_false]
    simp only [List.cons_append] at hr
    simp [hr, h]

theorem parseNum_printInt (n : Int) (rest : List Nat) (h : numEnd rest = true) :
    parseNum (printInt n ++ rest) = some (.num n, rest) := by
  cases n with
  | ofNat k =>
    have := parseNat_natDec k rest h
    simp only [printInt]
    obtain ⟨c, t, hct⟩ : ∃ c t, natDec k = c :: t := by
      by_cases hk : k = 0
      · subst hk; exact ⟨48, [], rfl⟩
      · obtain ⟨c, t, h, _⟩ := natDigits_head (k + 1) k (by omega) (by omega); exact ⟨c, t, h⟩
    rw [hct] at this ⊢
    have hc : c ≠ 45 := by
      intro hc; subst hc
      simp [parseNat, isDigit] at this
    simp only [List.cons_append] at this ⊢
    simp [parseNum, hc, this]
  | negSucc k =>
    have := parseNat_natDec (k + 1) rest h
    simp [printInt, parseNum, this]






theorem numEnd_elems (xs : JList) (rest : List Nat) : numEnd (xs.printTail ++ rest) = true := by
  cases xs <;> simp [JList.printTail, numEnd, isDigit]

theorem numEnd_members (kvs : JFields) (rest : List Nat) : numEnd (kvs.printTail ++ rest) = true := by
  cases kvs <;> simp [JFields.printTail, numEnd, isDigit]

theorem natDec_head (k : Nat) : ∃ c t, natDec k = c :: t ∧ isDigit c = true := by
  by_cases hk : k = 0
  · subst hk; exact ⟨48, [], rfl, by decide⟩
  · obtain ⟨c, t, h, h1, h2⟩ := natDigits_head (k + 1) k (by omega) (by omega)
    exact ⟨c, t, h, by simp [isDigit]; omega⟩

theorem printInt_head (n : Int) : ∃ c t, printInt n = c :: t ∧ (c = 45 ∨ isDigit c = true) := by
  cases n with
  | ofNat k => obtain ⟨c, t, h, hc⟩ := natDec_head k; exact ⟨c, t, h, .inr hc⟩
  | negSucc k => exact ⟨45, _, rfl, .inl rfl⟩

theorem print_head (j : JVal) : ∃ c t, j.print = c :: t ∧ isWs c = false ∧ c ≠ 93 ∧ c ≠ 125 := by
  match j with
  | .null => exact ⟨_, _, rfl, by decide⟩
  | .bool true => exact ⟨_, _, rfl, by decide⟩
  | .bool false => exact ⟨_, _, rfl, by decide⟩
  | .num n =>
    obtain ⟨c, t, h, hc⟩ := printInt_head n
    refine ⟨c, t, h, ?_⟩
    rcases hc with rfl | hc
    · decide
    · simp [isDigit] at hc; simp [isWs]; omega
  | .str s => exact ⟨_, _, rfl, by decide⟩
  | .arr .nil => exact ⟨_, _, rfl, by decide⟩
  | .arr (.cons x xs) => exact ⟨_, _, rfl, by decide⟩
  | .obj .nil => exact ⟨_, _, rfl, by decide⟩
  | .obj (.cons k v kvs) => exact ⟨_, _, rfl, by decide⟩

theorem JVal.cost_pos (j : JVal) : 1 ≤ j.cost := by
  cases j with
  | arr xs => cases xs <;> simp [JVal.cost] <;> omega
  | obj kvs => cases kvs <;> simp [JVal.cost] <;> omega
  | _ => simp [JVal.cost]

mutual
theorem parseValue_print (j : JVal) (hw : j.wf = true) (f : Nat) (hf : j.cost ≤ f) (rest : List Nat)
    (hr : numEnd rest = true) : parseValue f (j.print ++ rest) = some (j, rest) := by
  obtain ⟨f, rfl⟩ : ∃ f', f = f' + 1 := ⟨f - 1, by have := j.cost_pos; omega⟩
  match j with
  | .null => simp [JVal.print, parseValue, skipWs, isWs, dropPrefix]
  | .bool true => simp [JVal.print, parseValue, skipWs, isWs, dropPrefix]
  | .bool false => simp [JVal.print, parseValue, skipWs, isWs, dropPrefix]
  | .num n =>
    obtain ⟨c, t, hct, hc⟩ := printInt_head n
    have := parseNum_printInt n rest hr
    simp only [JVal.print]
    rw [hct] at this ⊢
    have hws : isWs c = false := by
      rcases hc with rfl | hc
      · rfl
      · simp [isDigit] at hc; simp [isWs]; omega
    have hne : c ≠ 110 ∧ c ≠ 116 ∧ c ≠ 102 ∧ c ≠ 34 ∧ c ≠ 91 ∧ c ≠ 123 := by
      rcases hc with rfl | hc
      · decide
      · simp [isDigit] at hc; omega
    simp only [List.cons_append] at this ⊢
    simp [parseValue, skipWs, hws, hne, this]
  | .str s =>
    simp only [JVal.wf] at hw
    simp [JVal.print, printStr, parseValue, skipWs, isWs, parseStr_print s hw rest]
  | .arr .nil => simp [JVal.print, parseValue, skipWs, isWs]
  | .arr (.cons x xs) =>
    simp only [JVal.wf, JList.wf, Bool.and_eq_true] at hw
    simp only [JVal.cost] at hf
    have h1 := parseValue_print x hw.1 f (by omega) (xs.printTail ++ rest) (numEnd_elems xs rest)
    have h2 := parseElems_print xs hw.2 f (by omega) rest
    obtain ⟨c, t, hct, hws, h93, _⟩ := print_head x
    simp only [JVal.print, List.cons_append, List.append_assoc]
    rw [hct] at h1 ⊢
    simp only [List.cons_append] at h1 ⊢
    simp [parseValue, skipWs, show isWs 91 = false by decide, hws, h93, h1, h2]
  | .obj .nil => simp [JVal.print, parseValue, skipWs, isWs]
  | .obj (.cons k v kvs) =>
    simp only [JVal.wf, JFields.wf, Bool.and_eq_true] at hw
    simp only [JVal.cost] at hf
    have h1 := parseValue_print v hw.1.2 f (by omega) (kvs.printTail ++ rest) (numEnd_members kvs rest)
    have h2 := parseMembers_print kvs hw.2 f (by omega) rest
    have hk := parseStr_print k hw.1.1 (58 :: (v.print ++ (kvs.printTail ++ rest)))
    simp only [JVal.print, printStr, List.cons_append, List.append_assoc]
    simp [parseValue, skipWs, isWs, hk, h1, h2]
theorem parseElems_print (xs : JList) (hw : xs.wf = true) (f : Nat) (hf : xs.cost ≤ f) (rest : List Nat) :
    parseElems f (xs.printTail ++ rest) = some (xs, rest) := by
  obtain ⟨f, rfl⟩ : ∃ f', f = f' + 1 := ⟨f - 1, by cases xs <;> simp [JList.cost] at hf <;> omega⟩
  match xs with
  | .nil => simp [JList.printTail, parseElems, skipWs, isWs]
  | .cons x xs =>
    simp only [JList.wf, Bool.and_eq_true] at hw
    simp only [JList.cost] at hf
    have h1 := parseValue_print x hw.1 f (by omega) (xs.printTail ++ rest) (numEnd_elems xs rest)
    have h2 := parseElems_print xs hw.2 f (by omega) rest
    simp only [JList.printTail, List.cons_append, List.append_assoc]
    simp [parseElems, skipWs, isWs, h1, h2]
theorem parseMembers_print (kvs : JFields) (hw : kvs.wf = true) (f : Nat) (hf : kvs.cost ≤ f) (rest : List Nat) :
    parseMembers f (kvs.printTail ++ rest) = some (kvs, rest) := by
  obtain ⟨f, rfl⟩ : ∃ f', f = f' + 1 := ⟨f - 1, by cases kvs <;> simp [JFields.cost] at hf <;> omega⟩
  match kvs with
  | .nil => simp [JFields.printTail, parseMembers, skipWs, isWs]
  | .cons k v kvs =>
    simp only [JFields.wf, Bool.and_eq_true] at hw
    simp only [JFields.cost] at hf
    have h1 := parseValue_print v hw.1.2 f (by omega) (kvs.printTail ++ rest) (numEnd_members kvs rest)
    have h2 := parseMembers_print kvs hw.2 f (by omega) rest
    have hk := parseStr_print k hw.1.1 (58 :: (v.print ++ (kvs.printTail ++ rest)))
    simp only [JFields.printTail, printStr, List.cons_append, List.append_assoc]
    simp [parseMembers, skipWs, isWs, hk, h1, h2]
end


mutual
theorem JVal.cost_le (j : JVal) : j.cost ≤ j.print.length := by
  match j with
  | .null => simp [JVal.cost, JVal.print]
  | .bool true => simp [JVal.cost, JVal.print]
  | .bool false => simp [JVal.cost, JVal.print]
  | .num n =>
    obtain ⟨c, t, h, _⟩ := printInt_head n
    simp [JVal.cost, JVal.print, h]
  | .str s => simp [JVal.cost, JVal.print, printStr]
  | .arr .nil => simp [JVal.cost, JVal.print]
  | .arr (.cons x xs) =>
    have := x.cost_le; have := xs.cost_le
    simp [JVal.cost, JVal.print]; omega
  | .obj .nil => simp [JVal.cost, JVal.print]
  | .obj (.cons k v kvs) =>
    have := v.cost_le; have := kvs.cost_le
    simp [JVal.cost, JVal.print]; omega
theorem JList.cost_le (xs : JList) : xs.cost ≤ xs.printTail.length := by
  match xs with
  | .nil => simp [JList.cost, JList.printTail]
  | .cons x xs =>
    have := x.cost_le; have := xs.cost_le
    simp [JList.cost, JList.printTail]; omega
theorem JFields.cost_le (kvs : JFields) : kvs.cost ≤ kvs.printTail.length := by
  match kvs with
  | .nil => simp [JFields.cost, JFields.printTail]
  | .cons k v kvs =>
    have := v.cost_le; have := kvs.cost_le
    simp [JFields.cost, JFields.printTail]; omega
end

/-- **JSON round trip.**  Printing then parsing any well-formed value gives the
value back (no fuel or size side condition). -/
theorem parse_print (j : JVal) (hw : j.wf = true) : parse j.print = some j := by
  have h := parseValue_print j hw (j.print.length + 1) (by have := j.cost_le; omega) [] rfl
  simp only [List.append_nil] at h
  simp [parse, h, skipWs]

end Dropshot.Json
