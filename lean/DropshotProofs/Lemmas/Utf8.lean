/-
Lemmas about the UTF-8 well-formedness model (DropshotModel/Utf8.lean):
the validator accepts exactly the encodings of strings of Unicode scalar values.
-/
import DropshotModel.Utf8

namespace Dropshot.Utf8

theorem utf8Valid_encode_append (c : Nat) (rest : Bytes) (h : isScalar c = true) :
    utf8Valid (utf8Encode c ++ rest) = utf8Valid rest := by
  simp only [isScalar, decide_eq_true_eq] at h
  unfold utf8Encode
  split
  · rw [List.singleton_append, utf8Valid.eq_def]; simp [*]
  · split
    · simp only [List.cons_append, List.nil_append]
      rw [utf8Valid.eq_def]
      have h1 : ¬ (192 + c / 64 < 128) := by omega
      have h2 : 194 ≤ 192 + c / 64 ∧ 192 + c / 64 ≤ 223 := by omega
      simp [h1, h2, isCont]; omega
    · split
      · simp only [List.cons_append, List.nil_append]
        rw [utf8Valid.eq_def]
        have h1 : ¬ (224 + c / 4096 < 128) := by omega
        have h2 : ¬ (194 ≤ 224 + c / 4096 ∧ 224 + c / 4096 ≤ 223) := by omega
        have h3 : 224 ≤ 224 + c / 4096 ∧ 224 + c / 4096 ≤ 239 := by omega
        simp only [h1, h2, h3, and_self, ↓reduceIte]
        simp [isCont, inRange]
        intro _
        and_intros <;> (repeat' split) <;> omega
      · simp only [List.cons_append, List.nil_append]
        rw [utf8Valid.eq_def]
        have h1 : ¬ (240 + c / 262144 < 128) := by omega
        have h2 : ¬ (194 ≤ 240 + c / 262144 ∧ 240 + c / 262144 ≤ 223) := by omega
        have h3 : ¬ (224 ≤ 240 + c / 262144 ∧ 240 + c / 262144 ≤ 239) := by omega
        have h4 : 240 ≤ 240 + c / 262144 ∧ 240 + c / 262144 ≤ 244 := by omega
        simp only [h1, h2, h3, h4, and_self, ↓reduceIte]
        simp [isCont, inRange]
        intro _
        and_intros <;> (repeat' split) <;> omega

theorem utf8Valid_eq_decode_isSome (bs : Bytes) : utf8Valid bs = (utf8Decode bs).isSome := by
  fun_induction utf8Valid bs <;> rw [utf8Decode.eq_def] <;> simp [*] <;> grind

theorem two_byte (b0 b1 : Nat) (h0 : 194 ≤ b0 ∧ b0 ≤ 223) (h1 : isCont b1 = true) :
    isScalar ((b0 - 192) * 64 + (b1 - 128)) = true ∧
    utf8Encode ((b0 - 192) * 64 + (b1 - 128)) = [b0, b1] := by
  simp only [isCont, isScalar, decide_eq_true_eq] at *
  refine ⟨by omega, ?_⟩
  unfold utf8Encode
  rw [if_neg (by omega), if_pos (by omega)]
  have e1 : 192 + ((b0 - 192) * 64 + (b1 - 128)) / 64 = b0 := by omega
  have e2 : 128 + ((b0 - 192) * 64 + (b1 - 128)) % 64 = b1 := by omega
  rw [e1, e2]

theorem three_byte (b0 b1 b2 : Nat) (h0 : 224 ≤ b0 ∧ b0 ≤ 239)
    (h1 : inRange (if b0 = 224 then 160 else 128) (if b0 = 237 then 159 else 191) b1 = true)
    (h2 : isCont b2 = true) :
    isScalar ((b0 - 224) * 4096 + (b1 - 128) * 64 + (b2 - 128)) = true ∧
    utf8Encode ((b0 - 224) * 4096 + (b1 - 128) * 64 + (b2 - 128)) = [b0, b1, b2] := by
  simp only [isCont, inRange, isScalar, decide_eq_true_eq] at *
  have h1' : (if b0 = 224 then 160 else 128) ≤ b1 := h1.1
  have h1'' : b1 ≤ (if b0 = 237 then 159 else 191) := h1.2
  have hlo : 128 ≤ b1 ∧ (b0 = 224 → 160 ≤ b1) := by split at h1' <;> omega
  have hhi : b1 ≤ 191 ∧ (b0 = 237 → b1 ≤ 159) := by split at h1'' <;> omega
  refine ⟨by omega, ?_⟩
  unfold utf8Encode
  rw [if_neg (by omega), if_neg (by omega), if_pos (by omega)]
  have e1 : 224 + ((b0 - 224) * 4096 + (b1 - 128) * 64 + (b2 - 128)) / 4096 = b0 := by omega
  have e2 : 128 + ((b0 - 224) * 4096 + (b1 - 128) * 64 + (b2 - 128)) / 64 % 64 = b1 := by omega
  have e3 : 128 + ((b0 - 224) * 4096 + (b1 - 128) * 64 + (b2 - 128)) % 64 = b2 := by omega
  rw [e1, e2, e3]

theorem four_byte (b0 b1 b2 b3 : Nat) (h0 : 240 ≤ b0 ∧ b0 ≤ 244)
    (h1 : inRange (if b0 = 240 then 144 else 128) (if b0 = 244 then 143 else 191) b1 = true)
    (h2 : isCont b2 = true) (h3 : isCont b3 = true) :
    isScalar ((b0 - 240) * 262144 + (b1 - 128) * 4096 + (b2 - 128) * 64 + (b3 - 128)) = true ∧
    utf8Encode ((b0 - 240) * 262144 + (b1 - 128) * 4096 + (b2 - 128) * 64 + (b3 - 128)) =
      [b0, b1, b2, b3] := by
  simp only [isCont, inRange, isScalar, decide_eq_true_eq] at *
  have h1' : (if b0 = 240 then 144 else 128) ≤ b1 := h1.1
  have h1'' : b1 ≤ (if b0 = 244 then 143 else 191) := h1.2
  have hlo : 128 ≤ b1 ∧ (b0 = 240 → 144 ≤ b1) := by split at h1' <;> omega
  have hhi : b1 ≤ 191 ∧ (b0 = 244 → b1 ≤ 143) := by split at h1'' <;> omega
  refine ⟨by omega, ?_⟩
  unfold utf8Encode
  rw [if_neg (by omega), if_neg (by omega), if_neg (by omega)]
  have e1 : 240 + ((b0 - 240) * 262144 + (b1 - 128) * 4096 + (b2 - 128) * 64 + (b3 - 128)) / 262144 = b0 := by omega
  have e2 : 128 + ((b0 - 240) * 262144 + (b1 - 128) * 4096 + (b2 - 128) * 64 + (b3 - 128)) / 4096 % 64 = b1 := by omega
  have e3 : 128 + ((b0 - 240) * 262144 + (b1 - 128) * 4096 + (b2 - 128) * 64 + (b3 - 128)) / 64 % 64 = b2 := by omega
  have e4 : 128 + ((b0 - 240) * 262144 + (b1 - 128) * 4096 + (b2 - 128) * 64 + (b3 - 128)) % 64 = b3 := by omega
  rw [e1, e2, e3, e4]

theorem utf8EncodeAll_cons (c : Nat) (cs : List Nat) :
    utf8EncodeAll (c :: cs) = utf8Encode c ++ utf8EncodeAll cs := by
  simp [utf8EncodeAll]

theorem utf8Decode_sound (bs : Bytes) : ∀ cs, utf8Decode bs = some cs →
    (∀ c ∈ cs, isScalar c = true) ∧ utf8EncodeAll cs = bs := by
  fun_induction utf8Decode bs
  all_goals intro cs hcs
  all_goals simp only [Option.map_eq_some_iff, reduceCtorEq, Option.some.injEq] at hcs
  · subst hcs; simp [utf8EncodeAll]
  · obtain ⟨a, ha, rfl⟩ := hcs
    rename_i b0 rest hb ih
    obtain ⟨i1, i2⟩ := ih a ha
    refine ⟨?_, ?_⟩
    · intro c hc
      rcases List.mem_cons.1 hc with rfl | hc
      · simp [isScalar]; omega
      · exact i1 c hc
    · rw [utf8EncodeAll_cons, i2]; simp [utf8Encode, hb]
  · obtain ⟨a, ha, rfl⟩ := hcs
    rename_i b0 _ hb0 b1 r hb1 ih
    obtain ⟨i1, i2⟩ := ih a ha
    obtain ⟨s, e⟩ := two_byte b0 b1 hb0 hb1
    refine ⟨?_, ?_⟩
    · intro c hc
      rcases List.mem_cons.1 hc with h | hc
      · rw [h]; exact s
      · exact i1 c hc
    · rw [utf8EncodeAll_cons, i2, e]; rfl
  · rename_i b0 _ _ hb0 b1 b2 r hb ih
    obtain ⟨a, ha, rfl⟩ := hcs
    obtain ⟨i1, i2⟩ := ih a ha
    simp only [Bool.and_eq_true] at hb
    obtain ⟨s, e⟩ := three_byte b0 b1 b2 hb0 hb.1 hb.2
    refine ⟨?_, ?_⟩
    · intro c hc
      rcases List.mem_cons.1 hc with h | hc
      · rw [h]; exact s
      · exact i1 c hc
    · rw [utf8EncodeAll_cons, i2, e]; rfl
  · rename_i b0 _ _ _ hb0 b1 b2 b3 r hb ih
    obtain ⟨a, ha, rfl⟩ := hcs
    obtain ⟨i1, i2⟩ := ih a ha
    simp only [Bool.and_eq_true] at hb
    obtain ⟨s, e⟩ := four_byte b0 b1 b2 b3 hb0 hb.1.1 hb.1.2 hb.2
    refine ⟨?_, ?_⟩
    · intro c hc
      rcases List.mem_cons.1 hc with h | hc
      · rw [h]; exact s
      · exact i1 c hc
    · rw [utf8EncodeAll_cons, i2, e]; rfl


theorem utf8Valid_encodeAll (cs : List Nat) (h : ∀ c ∈ cs, isScalar c = true) :
    utf8Valid (utf8EncodeAll cs) = true := by
  induction cs with
  | nil => rfl
  | cons c cs ih =>
    rw [utf8EncodeAll_cons, utf8Valid_encode_append c _ (h c (by simp))]
    exact ih (fun c hc => h c (by simp [hc]))

/-- **Characterisation.**  `utf8Valid` accepts exactly the UTF-8 encodings of
strings of Unicode scalar values (so: no overlong forms, no surrogates, nothing
above U+10FFFF, no truncated or stray continuation bytes). -/
theorem utf8Valid_iff (bs : Bytes) :
    utf8Valid bs = true ↔ ∃ cs, (∀ c ∈ cs, isScalar c = true) ∧ bs = utf8EncodeAll cs := by
  constructor
  · intro h
    rw [utf8Valid_eq_decode_isSome, Option.isSome_iff_exists] at h
    obtain ⟨cs, hcs⟩ := h
    obtain ⟨h1, h2⟩ := utf8Decode_sound bs cs hcs
    exact ⟨cs, h1, h2.symm⟩
  · rintro ⟨cs, h1, rfl⟩
    exact utf8Valid_encodeAll cs h1

theorem utf8Decode_encode_append (c : Nat) (rest : Bytes) (h : isScalar c = true) :
    utf8Decode (utf8Encode c ++ rest) = (utf8Decode rest).map (c :: ·) := by
  simp only [isScalar, decide_eq_true_eq] at h
  unfold utf8Encode
  split
  · rw [List.singleton_append, utf8Decode.eq_def]; simp [*]
  · split
    · simp only [List.cons_append, List.nil_append]
      rw [utf8Decode.eq_def]
      have h1 : ¬ (192 + c / 64 < 128) := by omega
      have h2 : 194 ≤ 192 + c / 64 ∧ 192 + c / 64 ≤ 223 := by omega
      have h3 : isCont (128 + c % 64) = true := by simp [isCont]; omega
      have e : (192 + c / 64 - 192) * 64 + (128 + c % 64 - 128) = c := by omega
      simp only [h1, h2, h3, e, and_self, ↓reduceIte]
    · split
      · simp only [List.cons_append, List.nil_append]
        rw [utf8Decode.eq_def]
        have h1 : ¬ (224 + c / 4096 < 128) := by omega
        have h2 : ¬ (194 ≤ 224 + c / 4096 ∧ 224 + c / 4096 ≤ 223) := by omega
        have h3 : 224 ≤ 224 + c / 4096 ∧ 224 + c / 4096 ≤ 239 := by omega
        have h4 : isCont (128 + c % 64) = true := by simp [isCont]; omega
        have h5 : inRange (if 224 + c / 4096 = 224 then 160 else 128)
            (if 224 + c / 4096 = 237 then 159 else 191) (128 + c / 64 % 64) = true := by
          simp only [inRange, decide_eq_true_eq]
          constructor <;> split <;> omega
        have e : (224 + c / 4096 - 224) * 4096 + (128 + c / 64 % 64 - 128) * 64 + (128 + c % 64 - 128) = c := by
          omega
        simp only [h1, h2, h3, h4, h5, e, and_self, ↓reduceIte, Bool.and_self]
      · simp only [List.cons_append, List.nil_append]
        rw [utf8Decode.eq_def]
        have h1 : ¬ (240 + c / 262144 < 128) := by omega
        have h2 : ¬ (194 ≤ 240 + c / 262144 ∧ 240 + c / 262144 ≤ 223) := by omega
        have h3 : ¬ (224 ≤ 240 + c / 262144 ∧ 240 + c / 262144 ≤ 239) := by omega
        have h4 : 240 ≤ 240 + c / 262144 ∧ 240 + c / 262144 ≤ 244 := by omega
        have h5 : isCont (128 + c % 64) = true := by simp [isCont]; omega
        have h6 : isCont (128 + c / 64 % 64) = true := by simp [isCont]; omega
        have h7 : inRange (if 240 + c / 262144 = 240 then 144 else 128)
            (if 240 + c / 262144 = 244 then 143 else 191) (128 + c / 4096 % 64) = true := by
          simp only [inRange, decide_eq_true_eq]
          constructor <;> split <;> omega
        have e : (240 + c / 262144 - 240) * 262144 + (128 + c / 4096 % 64 - 128) * 4096
            + (128 + c / 64 % 64 - 128) * 64 + (128 + c % 64 - 128) = c := by omega
        simp only [h1, h2, h3, h4, h5, h6, h7, e, and_self, ↓reduceIte, Bool.and_self]

/-- decode ∘ encode = id on strings of scalar values. -/
theorem utf8Decode_encodeAll (cs : List Nat) (h : ∀ c ∈ cs, isScalar c = true) :
    utf8Decode (utf8EncodeAll cs) = some cs := by
  induction cs with
  | nil => rfl
  | cons c cs ih =>
    rw [utf8EncodeAll_cons, utf8Decode_encode_append c _ (h c (by simp)),
      ih (fun c hc => h c (by simp [hc]))]
    rfl

/-- A well-formed string consists of bytes. -/
theorem utf8Valid_lt (bs : Bytes) (h : utf8Valid bs = true) : ∀ b ∈ bs, b < 256 := by
  fun_induction utf8Valid bs <;> simp_all [isCont, inRange] <;> grind

end Dropshot.Utf8
