/-
Lemmas about the header multimap model (DropshotModel/HeaderMap.lean):
what `getAll` sees after `append`, `insert`, `extend`.
-/
import DropshotModel.HeaderMap

namespace Dropshot.HMap

variable {N V : Type} [DecidableEq N]

@[simp] theorem getAll_nil (k : N) : getAll k ([] : List (N × V)) = [] := rfl

theorem getAll_app (k : N) (a b : List (N × V)) :
    getAll k (a ++ b) = getAll k a ++ getAll k b := by
  simp [getAll]

theorem getAll_cons (k n : N) (v : V) (m : List (N × V)) :
    getAll k ((n, v) :: m) = if n = k then v :: getAll k m else getAll k m := by
  simp only [getAll, List.filter_cons]
  split <;> simp_all

theorem getAll_remove (k n : N) (m : List (N × V)) :
    getAll k (remove n m) = if k = n then [] else getAll k m := by
  induction m with
  | nil => simp [remove, getAll]
  | cons p m ih =>
    obtain ⟨a, v⟩ := p
    simp only [remove, getAll] at ih ⊢
    simp only [List.filter_cons]
    by_cases h1 : a = n <;> by_cases h2 : a = k <;> by_cases h3 : k = n <;>
      simp_all <;> grind

theorem getAll_append (k n : N) (v : V) (m : List (N × V)) :
    getAll k (append n v m) = if k = n then getAll k m ++ [v] else getAll k m := by
  simp only [append, getAll_app, getAll_cons, getAll_nil]
  by_cases h : k = n
  · subst h; simp
  · have : ¬ n = k := fun e => h e.symm
    simp [h, this]

theorem getAll_insert (k n : N) (v : V) (m : List (N × V)) :
    getAll k (insert n v m) = if k = n then [v] else getAll k m := by
  simp only [insert, getAll_app, getAll_cons, getAll_nil, getAll_remove]
  by_cases h : k = n
  · subst h; simp
  · have : ¬ n = k := fun e => h e.symm
    simp [h, this]

theorem contains_iff (k : N) (m : List (N × V)) : contains k m = true ↔ getAll k m ≠ [] := by
  induction m with
  | nil => simp [contains]
  | cons p m ih =>
    obtain ⟨a, v⟩ := p
    simp only [contains, List.any_cons] at ih ⊢
    rw [getAll_cons]
    by_cases h : a = k <;> simp_all

theorem getAll_eq_nil_of_not_contains (k : N) (m : List (N × V)) (h : contains k m = false) :
    getAll k m = [] := by
  by_cases h' : getAll k m = []
  · exact h'
  · have := (contains_iff k m).2 h'
    simp_all

theorem getAll_foldl_append (k n : N) (vs : List V) (m : List (N × V)) :
    getAll k (vs.foldl (fun acc w => append n w acc) m) =
      if k = n then getAll k m ++ vs else getAll k m := by
  induction vs generalizing m with
  | nil => simp
  | cons w ws ih =>
    simp only [List.foldl_cons, ih, getAll_append]
    by_cases h : k = n <;> simp [h]

theorem getAll_extendGroup (k n : N) (vs : List V) (m : List (N × V)) :
    getAll k (extendGroup m n vs) = if k = n ∧ vs ≠ [] then vs else getAll k m := by
  cases vs with
  | nil => simp [extendGroup]
  | cons v vs =>
    simp only [extendGroup, getAll_foldl_append, getAll_insert]
    by_cases h : k = n <;> simp [h]

theorem mem_firstNames (k : N) (seen : List N) (m : List (N × V)) :
    k ∈ firstNames seen m ↔ k ∉ seen ∧ contains k m = true := by
  induction m generalizing seen with
  | nil => simp [firstNames, contains]
  | cons p m ih =>
    obtain ⟨a, v⟩ := p
    simp only [firstNames, contains, List.any_cons] at ih ⊢
    split
    · rename_i hs
      rw [ih]
      constructor
      · rintro ⟨h1, h2⟩; exact ⟨h1, by simp [h2]⟩
      · rintro ⟨h1, h2⟩
        refine ⟨h1, ?_⟩
        simp only [Bool.or_eq_true, decide_eq_true_eq] at h2
        rcases h2 with h2 | h2
        · subst h2; exact absurd hs h1
        · exact h2
    · rename_i hs
      simp only [List.mem_cons, ih, not_or, Bool.or_eq_true, decide_eq_true_eq]
      constructor
      · rintro (h | ⟨⟨h1, h2⟩, h3⟩)
        · subst h; exact ⟨hs, Or.inl rfl⟩
        · exact ⟨h2, Or.inr h3⟩
      · rintro ⟨h1, h2 | h2⟩
        · exact Or.inl h2.symm
        · by_cases e : k = a
          · exact Or.inl e
          · exact Or.inr ⟨⟨e, h1⟩, h2⟩

theorem nodup_firstNames (seen : List N) (m : List (N × V)) : (firstNames seen m).Nodup := by
  induction m generalizing seen with
  | nil => simp [firstNames]
  | cons p m ih =>
    obtain ⟨a, v⟩ := p
    simp only [firstNames]
    split
    · exact ih seen
    · refine List.nodup_cons.2 ⟨?_, ih _⟩
      rw [mem_firstNames]
      simp

theorem getAll_foldl_groups (k : N) (f : N → List V) (ns : List N) (hnd : ns.Nodup)
    (m : List (N × V)) :
    getAll k (ns.foldl (fun acc n => extendGroup acc n (f n)) m) =
      if k ∈ ns ∧ f k ≠ [] then f k else getAll k m := by
  induction ns generalizing m with
  | nil => simp
  | cons n ns ih =>
    obtain ⟨hn, hnd'⟩ := List.nodup_cons.1 hnd
    simp only [List.foldl_cons, ih hnd', getAll_extendGroup, List.mem_cons]
    by_cases h1 : k = n
    · subst h1
      simp [hn]
    · simp [h1]

/-- **What `extend` leaves behind**: every name of `other` shows exactly
`other`'s values; every other name keeps its own. -/
theorem getAll_extend (k : N) (m other : List (N × V)) :
    getAll k (extend m other) =
      if contains k other = true then getAll k other else getAll k m := by
  unfold extend
  rw [getAll_foldl_groups k (fun n => getAll n other) _ (nodup_firstNames [] other)]
  by_cases h : contains k other = true
  · have h2 := (contains_iff k other).1 h
    have h3 : k ∈ firstNames [] other := (mem_firstNames k [] other).2 ⟨by simp, h⟩
    simp [h, h2, h3]
  · have h3 : k ∉ firstNames [] other := fun hm => h ((mem_firstNames k [] other).1 hm).2
    simp [h, h3]

end Dropshot.HMap
