/-
Helper lemmas for the shutdown LTS (C17): prefix closure, projection onto the
lifecycle LTS (so every C16 fact lifts), the trace/state invariant `SInv`,
absorption of `joined`.
-/
import DropshotModel.Shutdown
import DropshotProofs.Lemmas.Lifecycle

namespace Dropshot.Shutdown
open Dropshot.Lifecycle (Mode upd upd_apply)

theorem run_append (m : Mode) (s : State) (a b : List Event) :
    run m s (a ++ b) = (run m s a).bind fun s' => run m s' b := by
  induction a generalizing s with
  | nil => simp [run]
  | cons e a ih =>
    simp only [List.cons_append, run]
    cases step m s e with
    | none => simp
    | some s' => simpa using ih s'

theorem run_prefix {m : Mode} {s s' : State} {a b : List Event}
    (h : run m s (a ++ b) = some s') : ∃ s1, run m s a = some s1 ∧ run m s1 b = some s' := by
  rw [run_append] at h
  cases h1 : run m s a with
  | none => simp [h1] at h
  | some s1 => exact ⟨s1, rfl, by simpa [h1] using h⟩

theorem run_cons {m : Mode} {s s' : State} {e : Event} {tr : List Event}
    (h : run m s (e :: tr) = some s') : ∃ s1, step m s e = some s1 ∧ run m s1 tr = some s' := by
  simp only [run] at h
  cases hs : step m s e with
  | none => simp [hs] at h
  | some s1 => exact ⟨s1, rfl, by simpa [hs] using h⟩

theorem lcTrace_append (a b : List Event) : lcTrace (a ++ b) = lcTrace a ++ lcTrace b := by
  induction a with
  | nil => rfl
  | cons e a ih => cases e <;> simp [lcTrace, ih]

theorem mem_lcTrace (e : Lifecycle.Event) (tr : List Event) : e ∈ lcTrace tr ↔ Event.lc e ∈ tr := by
  induction tr with
  | nil => simp [lcTrace]
  | cons x tr ih => cases x <;> simp [lcTrace, ih]

/-- A step of the shutdown LTS is a step (or a stutter) of the lifecycle LTS. -/
theorem step_lc {m : Mode} {s s' : State} {e : Event} (h : step m s e = some s') :
    Lifecycle.run m s.lc (lcTrace [e]) = some s'.lc := by
  cases e <;> simp only [step] at h <;> (repeat' split at h) <;> (try (cases h; done)) <;>
    (cases h; simp_all [lcTrace, Lifecycle.run])

/-- The lifecycle projection of an accepted trace is accepted by the lifecycle
monitor, reaching the lifecycle component of the state. -/
theorem run_lc {m : Mode} {s s' : State} {tr : List Event} (h : run m s tr = some s') :
    Lifecycle.run m s.lc (lcTrace tr) = some s'.lc := by
  induction tr generalizing s with
  | nil => simp only [run] at h; cases h; rfl
  | cons e tr ih =>
    obtain ⟨s1, h1, h2⟩ := run_cons h
    have a := step_lc h1
    have b := ih h2
    have : lcTrace (e :: tr) = lcTrace [e] ++ lcTrace tr := by
      rw [← lcTrace_append]; rfl
    rw [this, Lifecycle.run_append, a]
    exact b

theorem lc_inv {m : Mode} {s : State} {tr : List Event} (h : run m init tr = some s) :
    Lifecycle.Inv m (lcTrace tr) s.lc :=
  Lifecycle.inv_of_run (run_lc h)

/-- The shutdown part of the state summarises the trace. -/
structure SInv (tr : List Event) (s : State) : Prop where
  activeRunning : ∀ r, r ∈ s.active ↔ (s.lc.req r).h = .running
  closeReq : s.phase ≠ .serving → Event.closeRequested ∈ tr
  acceptSt : s.phase ≠ .serving → s.phase ≠ .closeRequested → Event.acceptStopped ∈ tr
  drainedEv : s.phase.listenerClosed = true → Event.drained ∈ tr
  joinedEv : ∀ res, s.phase = .joined res ↔ Event.joinResolved res ∈ tr
  waiterEv : ∀ i x, Event.waiterReleased i x ∈ tr → s.waiter i = some x
  waiterJoined : ∀ i x, s.waiter i = some x → s.phase = .joined x
  closedEv : ∀ c, s.closed c = true ↔ Event.connClosed c ∈ tr

theorem sinv_init : SInv [] init := by
  constructor <;> simp [init, Lifecycle.init, Phase.listenerClosed]

theorem sinv_step {m : Mode} {tr : List Event} {s s' : State} {e : Event}
    (hi : SInv tr s) (hs : step m s e = some s') : SInv (tr ++ [e]) s' := by
  obtain ⟨h1, h2, h3, h3', h4, h5, h6, h7⟩ := hi
  cases e with
  | lc e =>
    simp only [step] at hs
    split at hs
    · cases hs
    · split at hs
      · cases hs
      · rename_i l hl
        cases hs
        cases e <;>
          simp only [Lifecycle.step, Lifecycle.finish, Lifecycle.clearBusy] at hl <;>
          (repeat' split at hl) <;> (try (cases hl; done)) <;>
          (cases hl
           constructor <;> (try intro x) <;> (try simp [activeAfter]) <;> grind)
  | _ =>
    simp only [step] at hs
    (repeat' split at hs) <;> (try (cases hs; done)) <;>
      (cases hs
       constructor <;> (try intro x) <;> (try simp) <;>
         grind [Phase.listenerClosed])

theorem sinv_run {m : Mode} {tr0 tr : List Event} {s0 s : State}
    (hi : SInv tr0 s0) (hr : run m s0 tr = some s) : SInv (tr0 ++ tr) s := by
  induction tr generalizing tr0 s0 with
  | nil => simp only [run] at hr; cases hr; simpa using hi
  | cons e tr ih =>
    obtain ⟨s1, h1, h2⟩ := run_cons hr
    have := ih (sinv_step hi h1) h2
    simpa using this

theorem sinv_of_run {m : Mode} {tr : List Event} {s : State}
    (hr : run m init tr = some s) : SInv tr s := by
  simpa using sinv_run sinv_init hr

/-- `joined res` is absorbing: the phase and its result never change again; no
handler starts, no connect is accepted, the join does not resolve a second time,
and every waiter released later gets `res`. -/
theorem joined_absorbing {m : Mode} {tr : List Event} {s s' : State} {res : Bool}
    (hp : s.phase = .joined res) (hr : run m s tr = some s') :
    s'.phase = .joined res ∧ (∀ r, Event.lc (.start r) ∉ tr) ∧ Event.connectAccepted ∉ tr ∧
    (∀ x, Event.joinResolved x ∉ tr) ∧ Event.closeRequested ∉ tr ∧ Event.acceptStopped ∉ tr ∧
    Event.drained ∉ tr ∧
    (∀ i x, Event.waiterReleased i x ∈ tr → x = res) := by
  induction tr generalizing s with
  | nil => simp only [run] at hr; cases hr; simp [hp]
  | cons e tr ih =>
    obtain ⟨s1, h1, h2⟩ := run_cons hr
    have key : s1.phase = .joined res ∧ (∀ r, e ≠ Event.lc (.start r)) ∧ e ≠ Event.connectAccepted ∧
        (∀ x, e ≠ Event.joinResolved x) ∧ e ≠ Event.closeRequested ∧ e ≠ Event.acceptStopped ∧
        e ≠ Event.drained ∧
        (∀ i x, e = Event.waiterReleased i x → x = res) := by
      cases e with
      | lc e =>
        simp only [step] at h1
        split at h1
        · cases h1
        · split at h1
          · cases h1
          · cases h1
            cases e <;> simp_all [startBlocked]
      | _ =>
        simp only [step] at h1
        (repeat' split at h1) <;> (try (cases h1; done)) <;>
          (cases h1; simp_all [Phase.listenerClosed])
    have := ih key.1 h2
    simp only [List.mem_cons, not_or]
    grind

/-- State reached just before the join resolves: no handler is running. -/
theorem at_join {m : Mode} {a b : List Event} {s : State} {res : Bool}
    (h : run m init (a ++ Event.joinResolved res :: b) = some s) :
    ∃ s1 s2, run m init a = some s1 ∧ s1.active = [] ∧ s1.phase = .drained ∧
      s2.phase = .joined res ∧ run m s2 b = some s := by
  obtain ⟨s1, h1, h2⟩ := run_prefix h
  obtain ⟨s2, h3, h4⟩ := run_cons h2
  simp only [step] at h3
  split at h3
  · rename_i hg
    cases h3
    exact ⟨s1, _, h1, hg.2, hg.1, rfl, h4⟩
  · cases h3

/-- `drained` and `joined` (listener closed) are never left: no connect is
accepted afterwards. -/
theorem listenerClosed_absorbing {m : Mode} {tr : List Event} {s s' : State}
    (hp : s.phase.listenerClosed = true) (hr : run m s tr = some s') :
    s'.phase.listenerClosed = true ∧ Event.connectAccepted ∉ tr ∧ Event.closeRequested ∉ tr ∧
      Event.acceptStopped ∉ tr ∧ Event.drained ∉ tr := by
  induction tr generalizing s with
  | nil => simp only [run] at hr; cases hr; simp [hp]
  | cons e tr ih =>
    obtain ⟨s1, h1, h2⟩ := run_cons hr
    have key : s1.phase.listenerClosed = true ∧ e ≠ Event.connectAccepted ∧
        e ≠ Event.closeRequested ∧ e ≠ Event.acceptStopped ∧ e ≠ Event.drained := by
      cases e with
      | lc e =>
        simp only [step] at h1
        split at h1
        · cases h1
        · split at h1
          · cases h1
          · cases h1; simp_all
      | _ =>
        simp only [step] at h1
        (repeat' split at h1) <;> (try (cases h1; done)) <;>
          (cases h1; simp_all [Phase.listenerClosed])
    have := ih key.1 h2
    simp only [List.mem_cons, not_or]
    grind

/-- State reached just before the server task is done. -/
theorem at_drain {m : Mode} {a b : List Event} {s : State}
    (h : run m init (a ++ Event.drained :: b) = some s) :
    ∃ s1 s2, run m init a = some s1 ∧ s1.phase = .acceptStopped ∧
      (∀ r ∈ s1.active, m = .detached ∧ clientGone s1.lc r = true) ∧
      s2.phase = .drained ∧ run m s2 b = some s := by
  obtain ⟨s1, h1, h2⟩ := run_prefix h
  obtain ⟨s2, h3, h4⟩ := run_cons h2
  simp only [step] at h3
  split at h3
  · rename_i hg
    cases h3
    refine ⟨s1, _, h1, hg.1, ?_, rfl, h4⟩
    intro r hr
    have := List.all_eq_true.1 hg.2 r hr
    simpa using this
  · cases h3

/-! ### The HTTPS arm -/

/-- Connect probes never change the state, in either arm. -/
theorem stepTls_connect {m : Mode} {s s' : State} {e : Event} (hc : isConnectEvent e = true)
    (h : stepTls m s e = some s') : s' = s := by
  cases e <;> simp [isConnectEvent] at hc <;> simp only [stepTls] at h <;> split at h <;> simp_all

theorem stepTls_other {m : Mode} {s : State} {e : Event} (hc : isConnectEvent e = false) :
    stepTls m s e = step m s e := by
  cases e <;> simp [isConnectEvent] at hc <;> rfl

/-- **Transfer.**  An HTTPS trace, with its connect probes erased, is a trace of the plain
protocol reaching the same state: everything proved about handlers, connections, the join
and the waiters holds for the HTTPS arm as well. -/
theorem runTls_erase {m : Mode} (tr : List Event) (s s' : State) (h : runTls m s tr = some s') :
    run m s (tr.filter fun e => !isConnectEvent e) = some s' := by
  induction tr generalizing s with
  | nil => simpa [runTls, run] using h
  | cons e tr ih =>
    simp only [runTls] at h
    cases hs : stepTls m s e with
    | none => simp [hs] at h
    | some s1 =>
      simp only [hs] at h
      by_cases hc : isConnectEvent e = true
      · have e1 := stepTls_connect hc hs
        rw [e1] at h
        simpa [List.filter, hc] using ih s h
      · have hc' : isConnectEvent e = false := by simpa using hc
        rw [stepTls_other hc'] at hs
        simp only [List.filter, hc', Bool.not_false, run, hs]
        exact ih s1 h

/-- Over HTTPS a connect is refused only after the accept loop has stopped … -/
theorem tls_refused_needs_accept_stopped {m : Mode} {s s' : State}
    (h : stepTls m s .connectRefused = some s') : s.phase ≠ .serving ∧ s.phase ≠ .closeRequested := by
  simp only [stepTls] at h
  split at h
  · rename_i hp
    constructor <;> intro e <;> simp [e, Phase.listenerClosedTls] at hp
  · cases h

/-- … and from then on none is accepted. -/
theorem tls_no_accept_after_stop {m : Mode} {s : State}
    (hp : s.phase ≠ .serving ∧ s.phase ≠ .closeRequested) : stepTls m s .connectAccepted = none := by
  simp only [stepTls]
  cases hph : s.phase <;> simp_all [Phase.listenerClosedTls]


end Dropshot.Shutdown
