/-
Helper lemmas for C12 (DropshotModel/Response.lean): the sorted map built by
`to_map`, and what the `insert` loop over it leaves in the header map.
-/
import DropshotModel.Response
import DropshotProofs.Lemmas.HeaderMap

namespace Dropshot.Response
open Dropshot.Error Dropshot.HMap

/-! ### `BTreeMap::insert` -/

theorem mem_btInsert_self (k v : Str) (m : List (Str × Str)) : (k, v) ∈ btInsert k v m := by
  induction m with
  | nil => simp [btInsert]
  | cons p m ih =>
    obtain ⟨k', v'⟩ := p
    simp only [btInsert]
    split
    · simp
    · split
      · simp
      · simp [ih]

theorem mem_btInsert_of_mem (k v : Str) (m : List (Str × Str)) (p : Str × Str)
    (hp : p ∈ m) (hk : p.1 ≠ k) : p ∈ btInsert k v m := by
  induction m with
  | nil => cases hp
  | cons q m ih =>
    obtain ⟨k', v'⟩ := q
    simp only [btInsert]
    rcases List.mem_cons.1 hp with rfl | hp'
    · split
      · rename_i h; exact absurd h.symm hk
      · split <;> simp
    · split
      · exact List.mem_cons_of_mem _ hp'
      · split
        · exact List.mem_cons_of_mem _ (List.mem_cons_of_mem _ hp')
        · exact List.mem_cons_of_mem _ (ih hp')

theorem mem_of_mem_btInsert (k v : Str) (m : List (Str × Str)) (p : Str × Str)
    (hp : p ∈ btInsert k v m) : p = (k, v) ∨ p ∈ m := by
  induction m with
  | nil => simpa [btInsert] using hp
  | cons q m ih =>
    obtain ⟨k', v'⟩ := q
    simp only [btInsert] at hp
    split at hp
    · rcases List.mem_cons.1 hp with h | h
      · exact Or.inl h
      · exact Or.inr (List.mem_cons_of_mem _ h)
    · split at hp
      · rcases List.mem_cons.1 hp with h | h
        · exact Or.inl h
        · exact Or.inr h
      · rcases List.mem_cons.1 hp with h | h
        · exact Or.inr (h ▸ List.mem_cons_self ..)
        · rcases ih h with h' | h'
          · exact Or.inl h'
          · exact Or.inr (List.mem_cons_of_mem _ h')

/-! ### `to_map` -/

theorem toMapAux_sound (fields : List (Str × Option Str)) (acc dm : List (Str × Str))
    (h : toMapAux acc fields = some dm) (k v : Str) (hm : (k, v) ∈ dm) :
    (k, v) ∈ acc ∨ (k, some v) ∈ fields := by
  induction fields generalizing acc with
  | nil =>
    simp only [toMapAux, Option.some.injEq] at h
    subst h; exact Or.inl hm
  | cons f fields ih =>
    obtain ⟨fk, fv⟩ := f
    cases fv with
    | none => simp [toMapAux] at h
    | some w =>
      simp only [toMapAux] at h
      rcases ih _ h with h1 | h1
      · rcases mem_of_mem_btInsert fk w acc (k, v) h1 with h2 | h2
        · cases h2; exact Or.inr (List.mem_cons_self ..)
        · exact Or.inl h2
      · exact Or.inr (List.mem_cons_of_mem _ h1)

theorem toMapAux_keeps (fields : List (Str × Option Str)) (acc dm : List (Str × Str))
    (h : toMapAux acc fields = some dm) (k v : Str) (hm : (k, v) ∈ acc)
    (hk : k ∉ fields.map (·.1)) : (k, v) ∈ dm := by
  induction fields generalizing acc with
  | nil =>
    simp only [toMapAux, Option.some.injEq] at h
    subst h; exact hm
  | cons f fields ih =>
    obtain ⟨fk, fv⟩ := f
    cases fv with
    | none => simp [toMapAux] at h
    | some w =>
      simp only [toMapAux] at h
      simp only [List.map_cons, List.mem_cons, not_or] at hk
      exact ih _ h (mem_btInsert_of_mem fk w acc (k, v) hm hk.1) hk.2

theorem toMapAux_complete (fields : List (Str × Option Str)) (acc dm : List (Str × Str))
    (h : toMapAux acc fields = some dm) (hnd : (fields.map (·.1)).Nodup)
    (k v : Str) (hm : (k, some v) ∈ fields) : (k, v) ∈ dm := by
  induction fields generalizing acc with
  | nil => cases hm
  | cons f fields ih =>
    obtain ⟨fk, fv⟩ := f
    simp only [List.map_cons, List.nodup_cons] at hnd
    cases fv with
    | none => simp [toMapAux] at h
    | some w =>
      simp only [toMapAux] at h
      rcases List.mem_cons.1 hm with h1 | h1
      · cases h1
        exact toMapAux_keeps fields _ dm h k v (mem_btInsert_self k v acc) hnd.1
      · exact ih _ h hnd.2 h1

theorem toMapAux_none_iff (fields : List (Str × Option Str)) (acc : List (Str × Str)) :
    toMapAux acc fields = none ↔ ∃ k, (k, none) ∈ fields := by
  induction fields generalizing acc with
  | nil => simp [toMapAux]
  | cons f fields ih =>
    obtain ⟨fk, fv⟩ := f
    cases fv with
    | none => simp [toMapAux]
    | some w =>
      simp only [toMapAux, ih, List.mem_cons, Prod.mk.injEq, reduceCtorEq, and_false, false_or]

/-! ### The `insert` loop -/

/-- The value of the last entry whose lower-cased name is `n`. -/
def lastMatch (n : Str) : List (Str × Str) → Option Str
  | [] => none
  | (k, v) :: rest =>
    match lastMatch n rest with
    | some w => some w
    | none => if lowerName k = n then some v else none

theorem lastMatch_some (n : Str) (dm : List (Str × Str)) (w : Str) (h : lastMatch n dm = some w) :
    ∃ k, (k, w) ∈ dm ∧ lowerName k = n := by
  induction dm with
  | nil => simp [lastMatch] at h
  | cons p dm ih =>
    obtain ⟨k, v⟩ := p
    simp only [lastMatch] at h
    split at h
    · rename_i w' hw
      cases h
      obtain ⟨k', h1, h2⟩ := ih hw
      exact ⟨k', List.mem_cons_of_mem _ h1, h2⟩
    · split at h
      · cases h; rename_i hk; exact ⟨k, List.mem_cons_self .., hk⟩
      · cases h

theorem lastMatch_ne_none (n : Str) (dm : List (Str × Str)) (k v : Str) (hm : (k, v) ∈ dm)
    (hk : lowerName k = n) : lastMatch n dm ≠ none := by
  induction dm with
  | nil => cases hm
  | cons p dm ih =>
    obtain ⟨k', v'⟩ := p
    simp only [lastMatch]
    rcases List.mem_cons.1 hm with h | h
    · cases h
      split
      · simp
      · simp [hk]
    · have := ih h
      split
      · simp
      · rename_i hn; exact absurd hn this

theorem applyDeclared_ok_iff (hs dm : List (Str × Str)) :
    (∃ hs', applyDeclared hs dm = .ok hs') ↔
      ∀ p ∈ dm, validHeaderName p.1 = true ∧ validHeaderValue p.2 = true := by
  induction dm generalizing hs with
  | nil => simp [applyDeclared]
  | cons p dm ih =>
    obtain ⟨k, v⟩ := p
    simp only [applyDeclared]
    split
    · rename_i hv
      simp only [Bool.and_eq_true] at hv
      rw [ih]
      simp [hv]
    · rename_i hv
      simp only [Bool.and_eq_true] at hv
      simp only [reduceCtorEq, exists_false, List.mem_cons, forall_eq_or_imp, false_iff, not_and]
      intro h; exact absurd h hv

theorem applyDeclared_error (hs dm : List (Str × Str)) (e : HttpError)
    (h : applyDeclared hs dm = .error e) : e = internalError := by
  induction dm generalizing hs with
  | nil => simp [applyDeclared] at h
  | cons p dm ih =>
    obtain ⟨k, v⟩ := p
    simp only [applyDeclared] at h
    split at h
    · exact ih _ h
    · cases h; rfl

theorem applyDeclared_error_bad (hs dm : List (Str × Str)) (e : HttpError)
    (h : applyDeclared hs dm = .error e) :
    ∃ p ∈ dm, ¬ (validHeaderName p.1 = true ∧ validHeaderValue p.2 = true) := by
  induction dm generalizing hs with
  | nil => simp [applyDeclared] at h
  | cons p dm ih =>
    obtain ⟨k, v⟩ := p
    simp only [applyDeclared] at h
    split at h
    · obtain ⟨q, hq, hbad⟩ := ih _ h
      exact ⟨q, List.mem_cons_of_mem _ hq, hbad⟩
    · rename_i hv
      simp only [Bool.and_eq_true] at hv
      exact ⟨(k, v), List.mem_cons_self .., hv⟩

theorem getAll_applyDeclared (n : Str) (hs dm hs' : List (Str × Str))
    (h : applyDeclared hs dm = .ok hs') :
    getAll n hs' = match lastMatch n dm with
      | some w => [w]
      | none => getAll n hs := by
  induction dm generalizing hs with
  | nil =>
    simp only [applyDeclared, Except.ok.injEq] at h
    subst h; simp [lastMatch]
  | cons p dm ih =>
    obtain ⟨k, v⟩ := p
    simp only [applyDeclared] at h
    split at h
    · rw [ih _ h]
      simp only [lastMatch]
      cases hl : lastMatch n dm with
      | some w => simp
      | none =>
        simp only [getAll_insert]
        by_cases hk : n = lowerName k
        · simp [hk]
        · have : ¬ lowerName k = n := fun e => hk e.symm
          simp [hk, this]
    · cases h

/-- Two elements of a list with the same image under `f` are equal when the
images are pairwise distinct. -/
theorem eq_of_nodup_map {α β : Type} (f : α → β) (l : List α) (hnd : (l.map f).Nodup)
    (a b : α) (ha : a ∈ l) (hb : b ∈ l) (hf : f a = f b) : a = b := by
  induction l with
  | nil => cases ha
  | cons x l ih =>
    simp only [List.map_cons, List.nodup_cons, List.mem_map, not_exists, not_and] at hnd
    rcases List.mem_cons.1 ha with rfl | ha' <;> rcases List.mem_cons.1 hb with rfl | hb'
    · rfl
    · exact absurd hf.symm (hnd.1 b hb')
    · exact absurd hf (hnd.1 a ha')
    · exact ih hnd.2 ha' hb'

theorem nodup_of_nodup_map {α β : Type} (f : α → β) (l : List α) (hnd : (l.map f).Nodup) :
    l.Nodup := by
  induction l with
  | nil => simp
  | cons x l ih =>
    simp only [List.map_cons, List.nodup_cons, List.mem_map, not_exists, not_and] at hnd ⊢
    exact ⟨fun hx => hnd.1 x hx rfl, ih hnd.2⟩

/-! ### Unfolding `to_result` -/

/-- When `to_result` succeeds it went through all three stages. -/
theorem toResult_ok (t : Typed) (r : Response) (h : toResult t = .ok r) :
    ∃ r0 dm hs, base t.kind t.body = .ok r0 ∧ toMap t.declared = some dm ∧
      applyDeclared r0.headers dm = .ok hs ∧
      r = { r0 with headers := HMap.extend hs t.explicit } := by
  unfold toResult at h
  split at h
  · cases h
  · rename_i r0 h0
    split at h
    · cases h
    · rename_i dm hdm
      split at h
      · cases h
      · rename_i hs hhs
        cases h
        exact ⟨r0, dm, hs, h0, hdm, hhs, rfl⟩

theorem base_ok (k : Kind) (body : Option Str) (r0 : Response) (h : base k body = .ok r0) :
    r0.status = k.status ∧
    (k.hasBody = true → ∃ b, body = some b ∧ r0.body = b ∧ r0.headers = [(hContentType, ctJson)]) ∧
    (k.hasBody = false → r0.body = [] ∧ r0.headers = []) := by
  unfold base at h
  split at h
  · rename_i hb
    split at h
    · cases h
    · rename_i b
      cases h
      exact ⟨rfl, fun _ => ⟨b, rfl, rfl, rfl⟩, fun h' => by simp [hb] at h'⟩
  · rename_i hb
    cases h
    exact ⟨rfl, fun h' => absurd h' hb, fun _ => ⟨rfl, rfl⟩⟩

end Dropshot.Response
