/-
Helper lemmas for C11 (DropshotModel/BodyCap.lean): the inductions over the
frame list with the running byte count `read` generalised.  The property
theorems in DropshotProofs/C11.lean are their `read = 0` instances.
-/
import DropshotModel.BodyCap

namespace Dropshot.BodyCap

theorem total_cons (c : Bytes) (cs : List Bytes) : total (c :: cs) = c.length + total cs := by
  simp [total]

theorem length_flatten (cs : List Bytes) : cs.flatten.length = total cs := by
  induction cs with
  | nil => rfl
  | cons c cs ih => simp [total_cons, ih]

theorem totalData_eq_length (fs : List Frame) : totalData fs = (content fs).length := by
  unfold totalData content
  rw [length_flatten]

theorem dump_of_noError (fs : List Frame) (h : noError fs = true) : dump fs = true := by
  induction fs with
  | nil => rfl
  | cons f fs ih => cases f <;> simp_all [noError, dump]

theorem delivered_le_cap_aux (cap : Nat) (fs : List Frame) (read : Nat) (h : read ≤ cap) :
    read + total (streamAux cap read fs).1 ≤ cap := by
  induction fs generalizing read with
  | nil => simpa [streamAux, total] using h
  | cons f fs ih =>
    cases f with
    | ioError => simpa [streamAux, total] using h
    | trailers => simpa [streamAux] using ih read h
    | data b =>
      simp only [streamAux]
      split
      · simpa [total] using h
      · rename_i hle
        have := ih (read + b.length) (by omega)
        simp only [total_cons]
        omega

theorem running_totals_le_cap_aux (cap : Nat) (fs : List Frame) (read : Nat) (h : read ≤ cap) :
    ∀ t ∈ runningTotals read (streamAux cap read fs).1, t ≤ cap := by
  induction fs generalizing read with
  | nil => simp [streamAux, runningTotals]
  | cons f fs ih =>
    cases f with
    | ioError => simp [streamAux, runningTotals]
    | trailers => simpa [streamAux] using ih read h
    | data b =>
      simp only [streamAux]
      split
      · simp [runningTotals]
      · rename_i hle
        intro t ht
        simp only [runningTotals, List.mem_cons] at ht
        rcases ht with rfl | ht
        · omega
        · exact ih (read + b.length) (by omega) t ht

theorem prefix_only_aux (cap : Nat) (fs : List Frame) (read : Nat) :
    (streamAux cap read fs).1 <+: dataOf fs := by
  induction fs generalizing read with
  | nil => simp [streamAux, dataOf]
  | cons f fs ih =>
    cases f with
    | ioError => simp [streamAux]
    | trailers => simpa [streamAux, dataOf] using ih read
    | data b =>
      simp only [streamAux, dataOf]
      split
      · simp
      · exact (List.prefix_cons_inj b).2 (ih _)

theorem ok_intact_aux (cap : Nat) (fs : List Frame) (read : Nat)
    (h : (streamAux cap read fs).2 = .ok) : (streamAux cap read fs).1 = dataOf fs := by
  induction fs generalizing read with
  | nil => simp [streamAux, dataOf]
  | cons f fs ih =>
    cases f with
    | ioError => simp [streamAux] at h
    | trailers => simpa [streamAux, dataOf] using ih read (by simpa [streamAux] using h)
    | data b =>
      simp only [streamAux, dataOf] at h ⊢
      split at h
      · split at h <;> cases h
      · rename_i hle
        simp only [hle, if_false]
        rw [ih _ h]

theorem ok_iff_aux (cap : Nat) (fs : List Frame) (read : Nat) (hr : read ≤ cap)
    (hn : noError fs = true) :
    (streamAux cap read fs).2 = .ok ↔ read + totalData fs ≤ cap := by
  induction fs generalizing read with
  | nil => simpa [streamAux, totalData, dataOf, total] using hr
  | cons f fs ih =>
    cases f with
    | ioError => simp [noError] at hn
    | trailers => simpa [streamAux, totalData, dataOf] using ih read hr (by simpa [noError] using hn)
    | data b =>
      have hn' : noError fs = true := by simpa [noError] using hn
      simp only [streamAux, totalData, dataOf, total_cons]
      split
      · rename_i hgt
        have : ¬ read + (b.length + total (dataOf fs)) ≤ cap := by omega
        simp only [this, iff_false]
        split <;> simp
      · rename_i hle
        have := ih (read + b.length) (by omega) hn'
        simp only [totalData] at this
        rw [this]
        omega

theorem over_cap_refused_aux (cap : Nat) (fs : List Frame) (read : Nat) (hr : read ≤ cap)
    (h : read + totalData fs > cap) : (streamAux cap read fs).2 ≠ .ok := by
  induction fs generalizing read with
  | nil => simp [totalData, dataOf, total] at h; omega
  | cons f fs ih =>
    cases f with
    | ioError => simp [streamAux]
    | trailers => simpa [streamAux] using ih read hr (by simpa [totalData, dataOf] using h)
    | data b =>
      simp only [streamAux]
      split
      · split <;> simp
      · apply ih
        · omega
        · simp only [totalData, dataOf, total_cons] at h ⊢
          omega

theorem tooLarge_aux (cap : Nat) (fs : List Frame) (read : Nat) (hr : read ≤ cap)
    (hn : noError fs = true) (h : read + totalData fs > cap) :
    (streamAux cap read fs).2 = .tooLarge := by
  induction fs generalizing read with
  | nil => simp [totalData, dataOf, total] at h; omega
  | cons f fs ih =>
    cases f with
    | ioError => simp [noError] at hn
    | trailers =>
      simpa [streamAux] using ih read hr (by simpa [noError] using hn) (by simpa [totalData, dataOf] using h)
    | data b =>
      have hn' : noError fs = true := by simpa [noError] using hn
      simp only [streamAux]
      split
      · simp [dump_of_noError fs hn']
      · apply ih _ (by omega) hn'
        simp only [totalData, dataOf, total_cons] at h ⊢
        omega

end Dropshot.BodyCap
