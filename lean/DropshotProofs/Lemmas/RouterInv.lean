/-
Helper lemmas: per-node method-table invariant and how lookups use it.
-/
import DropshotProofs.Lemmas.RouterInsert

namespace Dropshot
variable {V : Type} [LinearOrder V]


/-- Per-node method table invariant: keys strictly increasing; every endpoint
sits under its own upper-cased method; handlers of one method never overlap. -/
def MethodsOK (ms : List (String × List (Endpoint V))) : Prop :=
  (ms.map (·.1)).Pairwise (· < ·) ∧
  ∀ p ∈ ms, (∀ e ∈ p.2, normMethod e.method = p.1) ∧
    p.2.Pairwise (fun a b => Range.overlaps a.versions b.versions = false)

mutual
  def Node.MethodsWF : Node V → Prop
    | .mk ms es => MethodsOK ms ∧ Edges.MethodsWF es
  def Edges.MethodsWF : Edges V → Prop
    | .none => True
    | .lits cs => Children.MethodsWF cs
    | .single _ c => Node.MethodsWF c
    | .rest _ c => Node.MethodsWF c
  def Children.MethodsWF : Children V → Prop
    | .nil => True
    | .cons _ c tl => Node.MethodsWF c ∧ Children.MethodsWF tl
end

mutual
  theorem Node.walk_methodsOK : ∀ (n : Node V) (p : List String) (vars : Vars) (n' : Node V)
      (vars' : Vars), Node.MethodsWF n → Node.walk n p vars = some (n', vars') → MethodsOK n'.methods
    | .mk ms es, [], vars, n', vars', hw, h => by
      simp only [Node.MethodsWF] at hw
      cases es with
      | rest n c =>
        simp only [Node.walk, Option.some.injEq, Prod.mk.injEq] at h
        obtain ⟨rfl, -⟩ := h
        simp only [Edges.MethodsWF] at hw
        cases c with
        | mk ms' es' => simp only [Node.MethodsWF] at hw; exact hw.2.1
      | none | lits _ | single _ _ =>
        simp only [Node.walk, Option.some.injEq, Prod.mk.injEq] at h
        obtain ⟨rfl, -⟩ := h
        exact hw.1
    | .mk ms es, s :: ss, vars, n', vars', hw, h => by
      simp only [Node.MethodsWF] at hw
      simp only [Node.walk] at h
      exact Edges.walk_methodsOK es s ss vars n' vars' hw.2 h
  theorem Edges.walk_methodsOK : ∀ (es : Edges V) (s : String) (ss : List String) (vars : Vars)
      (n' : Node V) (vars' : Vars), Edges.MethodsWF es → Edges.walk es s ss vars = some (n', vars') →
      MethodsOK n'.methods
    | .none, _, _, _, _, _, _, h => by simp [Edges.walk] at h
    | .lits cs, s, ss, vars, n', vars', hw, h => by
      simp only [Edges.walk] at h
      simp only [Edges.MethodsWF] at hw
      exact Children.walk_methodsOK cs s ss vars n' vars' hw h
    | .single n c, s, ss, vars, n', vars', hw, h => by
      simp only [Edges.walk] at h
      simp only [Edges.MethodsWF] at hw
      exact Node.walk_methodsOK c ss _ n' vars' hw h
    | .rest n c, s, ss, vars, n', vars', hw, h => by
      simp only [Edges.walk, Option.some.injEq, Prod.mk.injEq] at h
      obtain ⟨rfl, -⟩ := h
      simp only [Edges.MethodsWF] at hw
      cases c with
      | mk ms' es' => simp only [Node.MethodsWF] at hw; exact hw.1
  theorem Children.walk_methodsOK : ∀ (cs : Children V) (s : String) (ss : List String)
      (vars : Vars) (n' : Node V) (vars' : Vars), Children.MethodsWF cs →
      Children.walk cs s ss vars = some (n', vars') → MethodsOK n'.methods
    | .nil, _, _, _, _, _, _, h => by simp [Children.walk] at h
    | .cons k c tl, s, ss, vars, n', vars', hw, h => by
      simp only [Children.walk] at h
      simp only [Children.MethodsWF] at hw
      split at h
      · exact Node.walk_methodsOK c ss vars n' vars' hw.1 h
      · exact Children.walk_methodsOK tl s ss vars n' vars' hw.2 h
end

/-- With distinct keys, the entry found for a key is the entry. -/
theorem handlersFor_of_mem (ms : List (String × List (Endpoint V))) (p : String × List (Endpoint V))
    (hk : (ms.map (·.1)).Pairwise (· < ·)) (hp : p ∈ ms) : handlersFor ms p.1 = p.2 := by
  induction ms with
  | nil => cases hp
  | cons q tl ih =>
    obtain ⟨k, v⟩ := q
    rw [handlersFor_cons]
    simp only [List.map_cons, List.pairwise_cons] at hk
    rcases List.mem_cons.1 hp with rfl | hp'
    · simp
    · have hne : ¬ k = p.1 := by
        intro h
        have := hk.1 p.1 (List.mem_map.2 ⟨p, hp', rfl⟩)
        rw [h] at this
        exact String.lt_irrefl _ this
      simp only [hne, if_false]
      exact ih hk.2 hp'

theorem handlersFor_mem_stored (ms : List (String × List (Endpoint V))) (m : String) (e : Endpoint V)
    (h : e ∈ handlersFor ms m) : ∃ p ∈ ms, p.1 = m ∧ e ∈ p.2 := by
  induction ms with
  | nil => simp [handlersFor] at h
  | cons q tl ih =>
    obtain ⟨k, v⟩ := q
    rw [handlersFor_cons] at h
    split at h
    · rename_i hk; exact ⟨(k, v), by simp, hk, h⟩
    · obtain ⟨p, hp, h1, h2⟩ := ih h
      exact ⟨p, by simp [hp], h1, h2⟩




theorem str_lt_of_not (a b : String) (h1 : ¬ a = b) (h2 : ¬ a < b) : b < a := by
  have h3 : b ≤ a := String.not_lt.1 h2
  by_contra h4
  have h5 : a ≤ b := String.not_lt.1 h4
  exact h1 (String.le_antisymm h5 h3)

/-! ### `setHandlers` keeps the method table well formed -/

theorem mem_setHandlers_entry (ms : List (String × List (Endpoint V))) (m : String)
    (hs : List (Endpoint V)) (p : String × List (Endpoint V)) (h : p ∈ setHandlers ms m hs) :
    p = (m, hs) ∨ p ∈ ms := by
  induction ms with
  | nil => simpa [setHandlers] using h
  | cons q tl ih =>
    obtain ⟨k, v⟩ := q
    simp only [setHandlers] at h
    split at h
    · rename_i hk; subst hk
      rcases List.mem_cons.1 h with h | h
      · exact Or.inl h
      · exact Or.inr (List.mem_cons_of_mem _ h)
    · split at h
      · rcases List.mem_cons.1 h with h | h
        · exact Or.inl h
        · exact Or.inr h
      · rcases List.mem_cons.1 h with h | h
        · exact Or.inr (by simp [h])
        · rcases ih h with h | h
          · exact Or.inl h
          · exact Or.inr (List.mem_cons_of_mem _ h)

theorem keys_setHandlers (ms : List (String × List (Endpoint V))) (m : String)
    (hs : List (Endpoint V)) (hk : (ms.map (·.1)).Pairwise (· < ·)) :
    ((setHandlers ms m hs).map (·.1)).Pairwise (· < ·) ∧
      ∀ x ∈ (setHandlers ms m hs).map (·.1), x = m ∨ x ∈ ms.map (·.1) := by
  induction ms with
  | nil => simp [setHandlers]
  | cons q tl ih =>
    obtain ⟨k, v⟩ := q
    simp only [List.map_cons, List.pairwise_cons] at hk
    simp only [setHandlers]
    split
    · rename_i h; subst h
      simp only [List.map_cons, List.pairwise_cons, List.mem_cons]
      exact ⟨⟨hk.1, hk.2⟩, fun x hx => by grind⟩
    · split
      · rename_i h1 h2
        simp only [List.map_cons, List.pairwise_cons, List.mem_cons]
        refine ⟨⟨?_, hk.1, hk.2⟩, fun x hx => by grind⟩
        intro a ha
        rcases ha with rfl | ha
        · exact h2
        · exact String.lt_trans h2 (hk.1 a ha)
      · rename_i h1 h2
        obtain ⟨ih1, ih2⟩ := ih hk.2
        simp only [List.map_cons, List.pairwise_cons, List.mem_cons]
        refine ⟨⟨?_, ih1⟩, fun x hx => ?_⟩
        · intro a ha
          rcases ih2 a ha with rfl | ha'
          · exact str_lt_of_not _ _ h1 h2
          · exact hk.1 a ha'
        · rcases hx with rfl | hx
          · exact Or.inr (Or.inl rfl)
          · rcases ih2 x hx with h | h
            · exact Or.inl h
            · exact Or.inr (Or.inr h)

theorem conflictWith_none (e : Endpoint V) (hs : List (Endpoint V)) (h : conflictWith e hs = none) :
    ∀ a ∈ hs, Range.overlaps a.versions e.versions = false := by
  induction hs with
  | nil => simp
  | cons x xs ih =>
    simp only [conflictWith] at h
    split at h
    · split at h <;> cases h
    · rename_i hx
      intro a ha
      rcases List.mem_cons.1 ha with rfl | ha
      · simpa using hx
      · exact ih h a ha

theorem handlersFor_entry (ms : List (String × List (Endpoint V))) (m : String) :
    handlersFor ms m = [] ∨ ∃ p ∈ ms, p.1 = m ∧ handlersFor ms m = p.2 := by
  induction ms with
  | nil => simp [handlersFor]
  | cons q tl ih =>
    obtain ⟨k, v⟩ := q
    rw [handlersFor_cons]
    split
    · rename_i h; exact Or.inr ⟨(k, v), by simp, h, rfl⟩
    · rcases ih with h | ⟨p, hp, h1, h2⟩
      · exact Or.inl h
      · exact Or.inr ⟨p, by simp [hp], h1, h2⟩

theorem addHandler_methodsOK (ms ms' : List (String × List (Endpoint V))) (e : Endpoint V)
    (hok : MethodsOK ms) (h : addHandler ms e = .ok ms') : MethodsOK ms' := by
  unfold addHandler at h
  simp only at h
  split at h
  · cases h
  · rename_i hc
    simp only [Except.ok.injEq] at h
    subst h
    have hno := conflictWith_none e _ hc
    obtain ⟨k1, k2⟩ := keys_setHandlers ms (normMethod e.method)
      (handlersFor ms (normMethod e.method) ++ [e]) hok.1
    refine ⟨k1, fun p hp => ?_⟩
    rcases mem_setHandlers_entry _ _ _ p hp with rfl | hp'
    · simp only
      rcases handlersFor_entry ms (normMethod e.method) with h0 | ⟨q, hq, hq1, hq2⟩
      · simp [h0]
      · rw [hq2] at hno ⊢
        have := hok.2 q hq
        refine ⟨fun x hx => ?_, ?_⟩
        · rcases List.mem_append.1 hx with hx | hx
          · rw [this.1 x hx, hq1]
          · simp only [List.mem_singleton] at hx; subst hx; rfl
        · rw [List.pairwise_append]
          refine ⟨this.2, by simp, fun a ha b hb => ?_⟩
          simp only [List.mem_singleton] at hb; subst hb
          exact hno a ha
    · exact hok.2 p hp'




theorem MethodsOK_nil : MethodsOK ([] : List (String × List (Endpoint V))) := by
  simp [MethodsOK]

/-! ### Fresh chains are well formed -/

theorem Node.chain_wf : ∀ (segs : List Seg) (seen : List String) (e : Endpoint V) (c : Node V),
    Node.chain segs seen e = .ok c → Node.Sorted c ∧ Node.MethodsWF c
  | [], seen, e, c, h => by
    simp only [Node.chain, Except.ok.injEq] at h
    subst h
    simp [Node.Sorted, Edges.Sorted, Node.MethodsWF, Edges.MethodsWF, MethodsOK]
  | .lit s :: rest, seen, e, c, h => by
    simp only [Node.chain] at h
    split at h
    · cases h
    · rename_i c' hc
      simp only [Except.ok.injEq] at h; subst h
      have := Node.chain_wf rest seen e c' hc
      simp [Node.Sorted, Edges.Sorted, Children.Sorted, Children.keys, Node.MethodsWF,
        Edges.MethodsWF, Children.MethodsWF, MethodsOK_nil, this.1, this.2]
  | .var n :: rest, seen, e, c, h => by
    simp only [Node.chain] at h
    split at h
    · cases h
    · split at h
      · cases h
      · rename_i c' hc
        simp only [Except.ok.injEq] at h; subst h
        have := Node.chain_wf rest (n :: seen) e c' hc
        simp [Node.Sorted, Edges.Sorted, Node.MethodsWF, Edges.MethodsWF, MethodsOK_nil, this.1, this.2]
  | .wild n :: rest, seen, e, c, h => by
    simp only [Node.chain] at h
    split at h
    · cases h
    · split at h
      · cases h
      · split at h
        · cases h
        · rename_i c' hc
          simp only [Except.ok.injEq] at h; subst h
          have := Node.chain_wf rest (n :: seen) e c' hc
          simp [Node.Sorted, Edges.Sorted, Node.MethodsWF, Edges.MethodsWF, MethodsOK_nil, this.1, this.2]

/-! ### `insert` preserves the invariants -/

mutual
  theorem Node.insertAt_wf : ∀ (n : Node V) (segs : List Seg) (seen : List String)
      (e : Endpoint V) (n' : Node V), Node.Sorted n → Node.MethodsWF n →
      Node.insertAt n segs seen e = .ok n' → Node.Sorted n' ∧ Node.MethodsWF n'
    | .mk ms es, [], seen, e, n', hs, hm, h => by
      simp only [Node.insertAt] at h
      split at h
      · cases h
      · rename_i ms' hms
        simp only [Except.ok.injEq] at h; subst h
        simp only [Node.Sorted, Node.MethodsWF] at hs hm ⊢
        exact ⟨hs, addHandler_methodsOK ms ms' e hm.1 hms, hm.2⟩
    | .mk ms es, seg :: rest, seen, e, n', hs, hm, h => by
      simp only [Node.insertAt] at h
      split at h
      · cases h
      · rename_i es' hes
        simp only [Except.ok.injEq] at h; subst h
        simp only [Node.Sorted, Node.MethodsWF] at hs hm ⊢
        have := Edges.insertAt_wf es seg rest seen e es' hs hm.2 hes
        exact ⟨this.1, hm.1, this.2⟩

  theorem Edges.insertAt_wf : ∀ (es : Edges V) (seg : Seg) (rest : List Seg) (seen : List String)
      (e : Endpoint V) (es' : Edges V), Edges.Sorted es → Edges.MethodsWF es →
      Edges.insertAt es seg rest seen e = .ok es' → Edges.Sorted es' ∧ Edges.MethodsWF es'
    | .none, seg, rest, seen, e, es', _, _, h => by
      simp only [Edges.insertAt] at h
      split at h
      · cases h
      · rename_i ms es0 hc
        simp only [Except.ok.injEq] at h; subst h
        have := Node.chain_wf (seg :: rest) seen e _ hc
        simp only [Node.Sorted, Node.MethodsWF] at this
        exact ⟨this.1, this.2.2⟩
    | .lits cs, .lit s, rest, seen, e, es', hs, hm, h => by
      simp only [Edges.insertAt] at h
      split at h
      · cases h
      · rename_i cs' hcs
        simp only [Except.ok.injEq] at h; subst h
        simp only [Edges.Sorted, Edges.MethodsWF] at hs hm ⊢
        have := Children.insertAt_wf cs s rest seen e cs' hs.1 hs.2 hm hcs
        exact ⟨⟨this.1, this.2.1⟩, this.2.2.1⟩
    | .lits _, .var n, _, seen, _, _, _, _, h => by
      simp only [Edges.insertAt] at h; split at h <;> cases h
    | .lits _, .wild n, rest, seen, _, _, _, _, h => by
      simp only [Edges.insertAt] at h; (repeat' split at h) <;> cases h
    | .single _ _, .lit _, _, _, _, _, _, _, h => by simp [Edges.insertAt] at h
    | .single n' c, .var n, rest, seen, e, es', hs, hm, h => by
      simp only [Edges.insertAt] at h
      split at h
      · cases h
      · split at h
        · cases h
        · split at h
          · cases h
          · rename_i c' hc
            simp only [Except.ok.injEq] at h; subst h
            simp only [Edges.Sorted, Edges.MethodsWF] at hs hm ⊢
            exact Node.insertAt_wf c rest (n :: seen) e c' hs hm hc
    | .single _ _, .wild n, rest, seen, _, _, _, _, h => by
      simp only [Edges.insertAt] at h; (repeat' split at h) <;> cases h
    | .rest _ _, .lit _, _, _, _, _, _, _, h => by simp [Edges.insertAt] at h
    | .rest _ _, .var n, _, seen, _, _, _, _, h => by
      simp only [Edges.insertAt] at h; split at h <;> cases h
    | .rest n' c, .wild n, rest, seen, e, es', hs, hm, h => by
      simp only [Edges.insertAt] at h
      split at h
      · cases h
      · split at h
        · cases h
        · split at h
          · cases h
          · split at h
            · cases h
            · rename_i c' hc
              simp only [Except.ok.injEq] at h; subst h
              simp only [Edges.Sorted, Edges.MethodsWF] at hs hm ⊢
              exact Node.insertAt_wf c rest (n :: seen) e c' hs hm hc

  theorem Children.insertAt_wf : ∀ (cs : Children V) (k : String) (rest : List Seg)
      (seen : List String) (e : Endpoint V) (cs' : Children V),
      (Children.keys cs).Pairwise (· < ·) → Children.Sorted cs → Children.MethodsWF cs →
      Children.insertAt cs k rest seen e = .ok cs' →
      (Children.keys cs').Pairwise (· < ·) ∧ Children.Sorted cs' ∧ Children.MethodsWF cs' ∧
        ∀ x ∈ Children.keys cs', x = k ∨ x ∈ Children.keys cs
    | .nil, k, rest, seen, e, cs', _, _, _, h => by
      simp only [Children.insertAt] at h
      split at h
      · cases h
      · rename_i c hc
        simp only [Except.ok.injEq] at h; subst h
        have := Node.chain_wf rest seen e c hc
        simp [Children.keys, Children.Sorted, Children.MethodsWF, this.1, this.2]
    | .cons k' c tl, k, rest, seen, e, cs', hp, hs, hm, h => by
      simp only [Children.keys, List.pairwise_cons] at hp
      simp only [Children.Sorted] at hs
      simp only [Children.MethodsWF] at hm
      simp only [Children.insertAt] at h
      split at h
      · rename_i hk; subst hk
        split at h
        · cases h
        · rename_i c' hc
          simp only [Except.ok.injEq] at h; subst h
          have := Node.insertAt_wf c rest seen e c' hs.1 hm.1 hc
          simp only [Children.keys, List.pairwise_cons, Children.Sorted, Children.MethodsWF,
            List.mem_cons]
          exact ⟨⟨hp.1, hp.2⟩, ⟨this.1, hs.2⟩, ⟨this.2, hm.2⟩, fun x hx => by grind⟩
      · rename_i hne
        split at h
        · rename_i hlt
          split at h
          · cases h
          · rename_i cn hc
            simp only [Except.ok.injEq] at h; subst h
            have := Node.chain_wf rest seen e cn hc
            simp only [Children.keys, List.pairwise_cons, Children.Sorted, Children.MethodsWF,
              List.mem_cons]
            refine ⟨⟨?_, hp.1, hp.2⟩, ⟨this.1, hs.1, hs.2⟩, ⟨this.2, hm.1, hm.2⟩, fun x hx => by grind⟩
            intro a ha
            rcases ha with rfl | ha
            · exact hlt
            · exact String.lt_trans hlt (hp.1 a ha)
        · rename_i hnlt
          split at h
          · cases h
          · rename_i tl' htl
            simp only [Except.ok.injEq] at h; subst h
            obtain ⟨i1, i2, i3, i4⟩ := Children.insertAt_wf tl k rest seen e tl' hp.2 hs.2 hm.2 htl
            simp only [Children.keys, List.pairwise_cons, Children.Sorted, Children.MethodsWF,
              List.mem_cons]
            refine ⟨⟨?_, i1⟩, ⟨hs.1, i2⟩, ⟨hm.1, i3⟩, fun x hx => ?_⟩
            · intro a ha
              rcases i4 a ha with rfl | ha'
              · exact str_lt_of_not _ _ hne hnlt
              · exact hp.1 a ha'
            · rcases hx with rfl | hx
              · exact Or.inr (Or.inl rfl)
              · rcases i4 x hx with h | h
                · exact Or.inl h
                · exact Or.inr (Or.inr h)
end


end Dropshot
