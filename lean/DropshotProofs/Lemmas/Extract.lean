/-
Helper lemmas for C09 / C10 about DropshotModel/Extract.lean (no Mathlib).
-/
import DropshotModel.Extract

namespace Dropshot.Extract
open Dropshot Dropshot.Percent Dropshot.Utf8

/-! ### Decimal rendering and Rust's integer `FromStr` -/

theorem digitVal_digit (d : Nat) (h : d < 10) : digitVal (48 + d) = some d := by
  unfold digitVal; split
  · simp
  · omega

theorem decAcc_renderAux (n : Nat) (tail : Bytes) :
    decAcc (renderAux n tail) 0 = decAcc tail n := by
  fun_induction renderAux n tail with
  | case1 n tail h => simp [decAcc, digitVal_digit n h]
  | case2 n tail h ih =>
    rw [ih]
    have : n % 10 < 10 := Nat.mod_lt _ (by omega)
    simp only [decAcc, digitVal_digit _ this]
    congr 1; omega

theorem renderAux_head (n : Nat) (tail : Bytes) :
    ∃ d r, renderAux n tail = d :: r ∧ 48 ≤ d ∧ d ≤ 57 := by
  fun_induction renderAux n tail with
  | case1 n tail h => exact ⟨48 + n, tail, rfl, by omega, by omega⟩
  | case2 n tail h ih => exact ih

theorem decAcc_renderNat (n : Nat) : decAcc (renderNat n) 0 = some n := by
  simp [renderNat, decAcc_renderAux, decAcc]

theorem parseUInt_render (w n : Nat) :
    parseUInt w (renderNat n) = if n < 2 ^ w then some n else none := by
  obtain ⟨d, r, h, h1, h2⟩ := renderAux_head n []
  have hd := decAcc_renderNat n
  unfold renderNat at *
  unfold parseUInt
  rw [h] at hd ⊢
  have : d ≠ 43 := by omega
  split
  · rename_i heq; simp at heq; omega
  · simp [hd]

theorem two_pow_cast (k : Nat) : ((2:Int) ^ k) = ((2 ^ k : Nat) : Int) := by
  simp [Int.natCast_pow]

theorem parseInt_render (w : Nat) (i : Int) :
    parseInt w (renderInt i) =
      if -(2 ^ (w - 1) : Int) ≤ i ∧ i < (2 ^ (w - 1) : Int) then some i else none := by
  rw [two_pow_cast]
  have hP : 0 < 2 ^ (w - 1) := Nat.two_pow_pos _
  unfold renderInt
  split
  · rename_i hneg
    obtain ⟨d, r, h, h1, h2⟩ := renderAux_head i.natAbs []
    have hd := decAcc_renderNat i.natAbs
    unfold renderNat at *
    rw [h] at hd ⊢
    simp only [parseInt, hd]
    generalize 2 ^ (w - 1) = P at *
    by_cases hb : i.natAbs ≤ P
    · have : -(P : Int) ≤ i ∧ i < (P : Int) := by omega
      simp only [hb, this, if_true, and_self]
      congr 1; omega
    · have : ¬ (-(P : Int) ≤ i ∧ i < (P : Int)) := by omega
      simp only [hb, this, if_false]
  · rename_i hpos
    obtain ⟨d, r, h, h1, h2⟩ := renderAux_head i.toNat []
    have hd := decAcc_renderNat i.toNat
    unfold renderNat at *
    rw [h] at hd ⊢
    unfold parseInt
    generalize 2 ^ (w - 1) = P at *
    split
    · rename_i heq; simp at heq
    · rename_i heq; simp at heq; omega
    · rename_i heq; simp at heq; omega
    · simp only [hd]
      by_cases hb : i.toNat < P
      · have : -(P : Int) ≤ i ∧ i < (P : Int) := by omega
        simp only [hb, this, if_true, and_self]
        congr 1; omega
      · have : ¬ (-(P : Int) ≤ i ∧ i < (P : Int)) := by omega
        simp only [hb, this, if_false]

/-! ### One `char` through UTF-8 -/

theorem utf8Decode_encode_one (c : Nat) (h : isScalar c = true) :
    utf8Decode (utf8Encode c) = some [c] := by
  simp only [isScalar, decide_eq_true_eq] at h
  unfold utf8Encode
  split
  · simp [utf8Decode, *]
  split
  · rename_i h1 h2
    have a : ¬ (192 + c / 64 < 128) := by omega
    have b : 194 ≤ 192 + c / 64 ∧ 192 + c / 64 ≤ 223 := by omega
    have e : isCont (128 + c % 64) = true := by simp [isCont]; omega
    simp only [utf8Decode, a, b, e, if_true, if_false, and_self, Option.map]
    simp only [Option.some.injEq, List.cons.injEq, and_true]; omega
  split
  · rename_i h1 h2 h3
    have a : ¬ (224 + c / 4096 < 128) := by omega
    have b : ¬ (194 ≤ 224 + c / 4096 ∧ 224 + c / 4096 ≤ 223) := by omega
    have b' : 224 ≤ 224 + c / 4096 ∧ 224 + c / 4096 ≤ 239 := by omega
    have e : isCont (128 + c % 64) = true := by simp [isCont]; omega
    have f : inRange (if 224 + c / 4096 = 224 then 160 else 128) (if 224 + c / 4096 = 237 then 159 else 191)
        (128 + c / 64 % 64) = true := by
      simp only [inRange, decide_eq_true_eq]; split <;> split <;> omega
    simp only [utf8Decode, a, b, b', e, f, if_true, if_false, and_self, Option.map, Bool.and_self]
    simp only [Option.some.injEq, List.cons.injEq, and_true]; omega
  · rename_i h1 h2 h3
    have a : ¬ (240 + c / 262144 < 128) := by omega
    have b : ¬ (194 ≤ 240 + c / 262144 ∧ 240 + c / 262144 ≤ 223) := by omega
    have b' : ¬ (224 ≤ 240 + c / 262144 ∧ 240 + c / 262144 ≤ 239) := by omega
    have b'' : 240 ≤ 240 + c / 262144 ∧ 240 + c / 262144 ≤ 244 := by omega
    have e : isCont (128 + c % 64) = true := by simp [isCont]; omega
    have e' : isCont (128 + c / 64 % 64) = true := by simp [isCont]; omega
    have f : inRange (if 240 + c / 262144 = 240 then 144 else 128) (if 240 + c / 262144 = 244 then 143 else 191)
        (128 + c / 4096 % 64) = true := by
      simp only [inRange, decide_eq_true_eq]; split <;> split <;> omega
    simp only [utf8Decode, a, b, b', b'', e, e', f, if_true, if_false, and_self, Option.map, Bool.and_self]
    simp only [Option.some.injEq, List.cons.injEq, and_true]; omega

theorem parseChar_encode (c : Nat) (h : isScalar c = true) : parseChar (utf8Encode c) = some c := by
  simp [parseChar, utf8Decode_encode_one c h]

/-! ### Percent-encoding and query spellings -/

theorem hexVal_hexDigit (up : Bool) (n : Nat) (h : n < 16) : hexVal (hexDigit up n) = some n := by
  unfold hexDigit
  by_cases h10 : n < 10
  · simp only [h10, if_true, hexVal]
    rw [if_pos (by omega)]; simp
  · cases up
    · simp only [h10, if_false, hexVal, Bool.false_eq_true]
      rw [if_neg (by omega), if_pos (by omega)]; simp only [Option.some.injEq]; omega
    · simp only [h10, if_false, hexVal, if_true]
      rw [if_neg (by omega), if_neg (by omega), if_pos (by omega)]; simp only [Option.some.injEq]; omega

theorem pctDecode_enc (b : Nat) (hi lo : Bool) (hb : b < 256) (rest : Bytes) :
    pctDecode (37 :: hexDigit hi (b / 16) :: hexDigit lo (b % 16) :: rest) = b :: pctDecode rest := by
  have h1 : b / 16 < 16 := by omega
  have h2 : b % 16 < 16 := by omega
  rw [pctDecode.eq_def]
  simp only [if_true, hexVal_hexDigit _ _ h1, hexVal_hexDigit _ _ h2]
  simp only [List.cons.injEq, and_true]; omega

theorem pctDecode_raw (b : Nat) (hb : b ≠ 37) (rest : Bytes) :
    pctDecode (b :: rest) = b :: pctDecode rest := by
  rw [pctDecode.eq_def]; simp [hb]
theorem hexDigit_range (up : Bool) (n : Nat) (h : n < 16) :
    (48 ≤ hexDigit up n ∧ hexDigit up n ≤ 57) ∨ (65 ≤ hexDigit up n ∧ hexDigit up n ≤ 70) ∨
      (97 ≤ hexDigit up n ∧ hexDigit up n ≤ 102) := by
  unfold hexDigit
  cases up <;> simp <;> split <;> omega

theorem plusToSpace_append (a b : Bytes) : plusToSpace (a ++ b) = plusToSpace a ++ plusToSpace b := by
  simp [plusToSpace]

theorem formDecodeRaw_spell (cs : List QByte) (h : ∀ c ∈ cs, c.okVal = true) :
    formDecodeRaw (qSpell cs) = qMeant cs := by
  induction cs with
  | nil => simp [formDecodeRaw, qSpell, qMeant, plusToSpace, pctDecode]
  | cons c cs ih =>
    have hc := h c (by simp)
    have ih' := ih (fun c hc => h c (by simp [hc]))
    simp only [formDecodeRaw, qSpell, qMeant, List.flatMap_cons, List.map_cons, plusToSpace_append] at *
    cases c with
    | raw b =>
      simp only [QByte.okVal, Bool.and_eq_true, bne_iff_ne, ne_eq] at hc
      have : plusToSpace [b] = [b] := by simp [plusToSpace]; omega
      simp only [QByte.wire, QByte.byte, this, List.singleton_append]
      rw [pctDecode_raw _ (by omega), ih']
    | enc b hi lo =>
      simp only [QByte.okVal, decide_eq_true_eq] at hc
      have r1 := hexDigit_range hi (b / 16) (by omega)
      have r2 := hexDigit_range lo (b % 16) (by omega)
      have : plusToSpace [37, hexDigit hi (b / 16), hexDigit lo (b % 16)] =
          [37, hexDigit hi (b / 16), hexDigit lo (b % 16)] := by
        simp only [plusToSpace, List.map_cons, List.map_nil]
        have a1 : hexDigit hi (b / 16) ≠ 43 := by omega
        have a2 : hexDigit lo (b % 16) ≠ 43 := by omega
        simp [a1, a2]
      simp only [QByte.wire, QByte.byte, this, List.cons_append, List.nil_append]
      rw [pctDecode_enc _ _ _ hc, ih']
    | plus =>
      have : plusToSpace [43] = [32] := by simp [plusToSpace]
      simp only [QByte.wire, QByte.byte, this, List.singleton_append]
      rw [pctDecode_raw _ (by omega), ih']

theorem okKey_okVal (c : QByte) (h : c.okKey = true) : c.okVal = true := by
  cases c <;> simp_all [QByte.okKey, QByte.okVal]

theorem splitOn_no (sep : Nat) (a : Bytes) (h : sep ∉ a) : splitOn sep a = [a] := by
  induction a with
  | nil => rfl
  | cons b a ih =>
    have hb : b ≠ sep := by intro e; exact h (by simp [e])
    have := ih (by intro e; exact h (by simp [e]))
    simp [splitOn, hb, this]

theorem splitOn_append (sep : Nat) (a rest : Bytes) (h : sep ∉ a) :
    splitOn sep (a ++ sep :: rest) = a :: splitOn sep rest := by
  induction a with
  | nil => simp [splitOn]
  | cons b a ih =>
    have hb : b ≠ sep := by intro e; exact h (by simp [e])
    have := ih (by intro e; exact h (by simp [e]))
    simp [splitOn, hb, this]

theorem splitFirst_append (sep : Nat) (k v : Bytes) (h : sep ∉ k) :
    splitFirst sep (k ++ sep :: v) = (k, v) := by
  induction k with
  | nil => simp [splitFirst]
  | cons b k ih =>
    have hb : b ≠ sep := by intro e; exact h (by simp [e])
    have := ih (by intro e; exact h (by simp [e]))
    simp [splitFirst, hb, this]

theorem wire_no (c : QByte) (x : Nat) (hx : x = 38 ∨ x = 61)
    (h : if x = 61 then c.okKey = true else c.okVal = true) : x ∉ c.wire := by
  cases c with
  | raw b =>
    rcases hx with rfl | rfl <;> simp_all [QByte.wire, QByte.okKey, QByte.okVal] <;> omega
  | enc b hi lo =>
    have hb : b < 256 := by rcases hx with rfl | rfl <;> simp_all [QByte.okKey, QByte.okVal]
    have r1 := hexDigit_range hi (b / 16) (by omega)
    have r2 := hexDigit_range lo (b % 16) (by omega)
    simp only [QByte.wire, List.mem_cons, List.not_mem_nil, or_false]
    omega
  | plus => simp only [QByte.wire, List.mem_cons, List.not_mem_nil, or_false]; omega

theorem spell_no_amp (cs : List QByte) (h : ∀ c ∈ cs, c.okVal = true) : 38 ∉ qSpell cs := by
  simp only [qSpell, List.mem_flatMap, not_exists, not_and]
  intro c hc
  exact wire_no c 38 (by simp) (by simpa using h c hc)

theorem spell_no_eq (cs : List QByte) (h : ∀ c ∈ cs, c.okKey = true) : 61 ∉ qSpell cs := by
  simp only [qSpell, List.mem_flatMap, not_exists, not_and]
  intro c hc
  exact wire_no c 61 (by simp) (by simpa using h c hc)

def OkPair (p : List QByte × List QByte) : Prop :=
  (∀ c ∈ p.1, c.okKey = true) ∧ (∀ c ∈ p.2, c.okVal = true)

theorem piece_ok (k v : List QByte) (h : OkPair (k, v)) :
    38 ∉ (qSpell k ++ 61 :: qSpell v) ∧
    splitFirst 61 (qSpell k ++ 61 :: qSpell v) = (qSpell k, qSpell v) ∧
    formDecodeRaw (qSpell k) = qMeant k ∧ formDecodeRaw (qSpell v) = qMeant v := by
  obtain ⟨hk, hv⟩ := h
  have hk' : ∀ c ∈ k, c.okVal = true := fun c hc => okKey_okVal c (hk c hc)
  refine ⟨?_, splitFirst_append 61 _ _ (spell_no_eq k hk), formDecodeRaw_spell k hk', formDecodeRaw_spell v hv⟩
  simp only [List.mem_append, List.mem_cons, not_or]
  exact ⟨spell_no_amp k hk', by omega, spell_no_amp v hv⟩

theorem parseQueryRaw_spell (ps : List (List QByte × List QByte)) (h : ∀ p ∈ ps, OkPair p) :
    parseQueryRaw (spellQuery ps) = ps.map fun p => (qMeant p.1, qMeant p.2) := by
  induction ps with
  | nil => simp [spellQuery, parseQueryRaw, splitOn]
  | cons p ps ih =>
    obtain ⟨k, v⟩ := p
    have hp := piece_ok k v (h (k, v) (by simp))
    obtain ⟨h1, h2, h3, h4⟩ := hp
    have ih' := ih (fun p hp => h p (by simp [hp]))
    cases ps with
    | nil =>
      simp only [spellQuery, parseQueryRaw, splitOn_no 38 _ h1]
      simp [h2, h3, h4]
    | cons p' ps' =>
      have e : spellQuery ((k, v) :: p' :: ps') =
          (qSpell k ++ 61 :: qSpell v) ++ 38 :: spellQuery (p' :: ps') := by
        simp [spellQuery]
      rw [e]
      simp only [parseQueryRaw] at ih' ⊢
      rw [splitOn_append 38 _ _ h1]
      simp only [List.filter_cons, List.map_cons]
      have ne : (qSpell k ++ 61 :: qSpell v) ≠ [] := by simp
      simp only [ne, ne_eq, not_false_eq_true, decide_true, if_true, List.map_cons, h2, h3, h4]
      rw [ih']
      simp

/-! ### Lossy UTF-8 -/

theorem utf8Lossy_valid (bs : Bytes) (h : utf8Valid bs = true) : utf8Lossy bs = bs := by
  fun_induction utf8Valid bs <;> (try simp only [Bool.and_eq_true, Bool.false_eq_true] at h) <;>
    rw [utf8Lossy.eq_def] <;> simp_all
  · intro; omega
  all_goals (repeat' split) <;> first | rfl | omega

/-! ### Encoded paths -/

/-- all bytes are bytes -/
def IsBytes (s : Bytes) : Prop := ∀ b ∈ s, b < 256

theorem pctDecode_encodeAll (s : Bytes) (h : IsBytes s) : pctDecode (pctEncodeAll s) = s := by
  induction s with
  | nil => simp [pctEncodeAll, pctDecode]
  | cons b s ih =>
    have hb : b < 256 := h b (by simp)
    have := ih (fun x hx => h x (by simp [hx]))
    simp only [pctEncodeAll, List.flatMap_cons, List.cons_append, List.nil_append] at *
    rw [pctDecode_enc b true true hb, this]

theorem encodeAll_no_slash (s : Bytes) (h : IsBytes s) : 47 ∉ pctEncodeAll s := by
  simp only [pctEncodeAll, List.mem_flatMap, not_exists, not_and]
  intro b hb
  have hb' := h b hb
  have r1 := hexDigit_range true (b / 16) (by omega)
  have r2 := hexDigit_range true (b % 16) (by omega)
  simp only [List.mem_cons, List.not_mem_nil, or_false]
  omega

theorem encodeAll_ne_nil (s : Bytes) (h : s ≠ []) : pctEncodeAll s ≠ [] := by
  cases s with
  | nil => exact absurd rfl h
  | cons b s => simp [pctEncodeAll]

theorem splitSlash_ne_nil (p : Bytes) : Path.splitSlash p ≠ [] := by
  induction p with
  | nil => simp [Path.splitSlash]
  | cons b p ih =>
    simp only [Path.splitSlash]
    split
    · simp
    · split <;> simp

/-- Splitting `a ++ p` where `a` has no slash: `a` is glued to the first piece of `p`. -/
theorem splitSlash_append (a p : Bytes) (h : 47 ∉ a) :
    Path.splitSlash (a ++ p) =
      match Path.splitSlash p with
      | s :: ss => (a ++ s) :: ss
      | [] => [a] := by
  induction a with
  | nil =>
    have := splitSlash_ne_nil p
    cases hp : Path.splitSlash p with
    | nil => exact absurd hp this
    | cons s ss => simpa using hp
  | cons b a ih =>
    have hb : b ≠ 47 := by intro e; exact h (by simp [e])
    have ih' := ih (by intro e; exact h (by simp [e]))
    simp only [List.cons_append, Path.splitSlash, hb, if_false, ih']
    have := splitSlash_ne_nil p
    cases hp : Path.splitSlash p with
    | nil => exact absurd hp this
    | cons s ss => simp

/-- An encoded path is empty or starts with a slash: its first piece is empty. -/
theorem encodedPath_head (segs : List Bytes) :
    ∃ ss, Path.splitSlash (segs.flatMap encodeSeg) = [] :: ss := by
  cases segs with
  | nil => exact ⟨[], by simp [Path.splitSlash]⟩
  | cons s segs =>
    simp only [List.flatMap_cons, encodeSeg, List.cons_append, Path.splitSlash, if_true]
    exact ⟨_, rfl⟩

theorem rawSegments_encoded (segs : List Bytes)
    (h : ∀ s ∈ segs, IsBytes s ∧ s ≠ []) :
    Path.rawSegments (segs.flatMap encodeSeg) = segs.map pctEncodeAll := by
  induction segs with
  | nil => simp [Path.rawSegments, Path.splitSlash]
  | cons s segs ih =>
    obtain ⟨hs1, hs2⟩ := h s (by simp)
    have ih' := ih (fun x hx => h x (by simp [hx]))
    obtain ⟨ss, hss⟩ := encodedPath_head segs
    simp only [Path.rawSegments] at ih' ⊢
    simp only [List.flatMap_cons, encodeSeg, List.cons_append, Path.splitSlash, if_true]
    rw [splitSlash_append _ _ (encodeAll_no_slash s hs1), hss]
    rw [hss] at ih'
    have ne := encodeAll_ne_nil s hs2
    simp only [List.append_nil, List.filter_cons, ne_eq, not_true_eq_false, decide_false,
      Bool.false_eq_true, if_false, ne, not_false_eq_true, decide_true, if_true, List.map_cons] at ih' ⊢
    rw [ih']

/-- a segment a handler may be given, made of bytes -/
def Safe (s : Bytes) : Prop := IsBytes s ∧ Path.SafeSeg s

theorem checkSeg_encoded (s : Bytes) (h : Safe s) : Path.checkSeg (pctEncodeAll s) = .ok s := by
  obtain ⟨hb, h1, h2, h3, h4⟩ := h
  simp [Path.checkSeg, pctDecode_encodeAll s hb, h4, h1, h2]

theorem collect_encoded (segs : List Bytes) (h : ∀ s ∈ segs, Safe s) :
    Path.collect Path.checkSeg (segs.map pctEncodeAll) = .ok segs := by
  induction segs with
  | nil => rfl
  | cons s segs ih =>
    simp [Path.collect, checkSeg_encoded s (h s (by simp)), ih (fun x hx => h x (by simp [hx]))]

theorem inputSegments_encoded (segs : List Bytes) (h : ∀ s ∈ segs, Safe s) :
    Path.inputSegments (segs.flatMap encodeSeg) = .ok segs := by
  unfold Path.inputSegments
  rw [rawSegments_encoded segs (fun s hs => ⟨(h s hs).1, (h s hs).2.2.2.1⟩)]
  exact collect_encoded segs h

theorem matchRoute_segsOf (route : List RSeg) (vals : Bytes → List Bytes) :
    matchRoute route (segsOf route vals) = some (varsOf route vals) := by
  induction route with
  | nil => rfl
  | cons r rs ih =>
    cases r with
    | lit s => simp [segsOf, matchRoute, varsOf, ih]
    | var n => simp [segsOf, matchRoute, varsOf, ih]
    | rest n => simp [segsOf, matchRoute, varsOf]

theorem lookupVars_encoded (route : List RSeg) (vals : Bytes → List Bytes)
    (h : ∀ s ∈ segsOf route vals, Safe s) :
    lookupVars route (encodePath route vals) = .ok (varsOf route vals) := by
  simp [lookupVars, encodePath, inputSegments_encoded _ h, matchRoute_segsOf]

/-! ### The derived struct visitor -/

theorem deScalar_render (t : STy) (sv : SVal) (h : sv.hasTy t = true) :
    deScalar t sv.render = .ok sv := by
  cases t <;> cases sv <;> simp [SVal.hasTy] at h
  · rename_i b; cases b <;> simp [deScalar, SVal.render, parseBool, sTrue, sFalse]
  · simp [deScalar, SVal.render, parseUInt_render, h]
  · simp [deScalar, SVal.render, parseInt_render, h]
  · simp [deScalar, SVal.render]
  · simp [deScalar, SVal.render, parseChar_encode _ h]
  · simp [deScalar, SVal.render, h]

theorem deSeq_render (t : STy) (svs : List SVal) (h : svs.all (·.hasTy t) = true) :
    deSeq t (svs.map SVal.render) = .ok svs := by
  induction svs with
  | nil => rfl
  | cons sv svs ih =>
    simp only [List.all_cons, Bool.and_eq_true] at h
    simp [deSeq, deScalar_render t sv h.1, ih h.2]

/-- what a field value looks like in a `VariableSet` -/
def FVal.asVar : FVal → VarVal
  | .scalar v => .str v.render
  | .some v => .str v.render
  | .none => .str []
  | .seq vs => .comps (vs.map SVal.render)

theorem deField_render (ft : FTy) (fv : FVal) (h : fv.hasTy ft = true) (hn : fv ≠ .none) :
    deField ft fv.asVar = .ok fv := by
  cases ft <;> cases fv <;> simp [FVal.hasTy] at h <;> try (exact absurd rfl hn)
  · simp [FVal.asVar, deField, deScalar_render _ _ h]
  · simp [FVal.asVar, deField, deScalar_render _ _ h]
  · simp [FVal.asVar, deField, deSeq_render _ _ (by simpa using h)]

theorem lookupGot_cons (k k' : Bytes) (fv : FVal) (got : List (Bytes × FVal)) :
    lookupGot ((k', fv) :: got) k = if k' = k then some fv else lookupGot got k := by
  simp only [lookupGot, List.find?_cons]
  by_cases h : k' = k <;> simp [h]

/-- The `visit_map` loop over entries with distinct keys, each a known field
whose value deserialises: it succeeds, and afterwards each of those keys holds
its value while every other key is untouched. -/
theorem deEntries_ok (fs : List (Bytes × FTy)) (want : Bytes → Option FVal) :
    ∀ (entries : VarSet) (got : List (Bytes × FVal)),
      (∀ e ∈ entries, ∃ ft fv, lookupField fs e.1 = some ft ∧ deField ft e.2 = .ok fv ∧
        want e.1 = some fv) →
      (entries.map Prod.fst).Nodup →
      (∀ e ∈ entries, lookupGot got e.1 = none) →
      ∃ got', deEntries fs entries got = .ok got' ∧
        ∀ k, lookupGot got' k = if k ∈ entries.map Prod.fst then want k else lookupGot got k := by
  intro entries
  induction entries with
  | nil => intro got _ _ _; exact ⟨got, rfl, by simp⟩
  | cons e entries ih =>
    intro got hall hnd hfresh
    obtain ⟨k, x⟩ := e
    obtain ⟨ft, fv, h1, h2, h3⟩ := hall (k, x) (by simp)
    simp only [List.map_cons, List.nodup_cons] at hnd
    have hk : lookupGot got k = none := hfresh (k, x) (by simp)
    obtain ⟨got', hg1, hg2⟩ := ih ((k, fv) :: got)
      (fun e he => hall e (by simp [he])) hnd.2
      (by
        intro e he
        rw [lookupGot_cons]
        have : k ≠ e.1 := by
          intro heq; apply hnd.1; rw [heq]; exact List.mem_map_of_mem he
        simp [this, hfresh e (by simp [he])])
    refine ⟨got', ?_, ?_⟩
    · simp only [deEntries] at h1 h2 ⊢
      simp [h1, hk, h2, hg1]
    · intro k'
      rw [hg2 k', lookupGot_cons]
      by_cases hk' : k' ∈ entries.map Prod.fst
      · simp [hk']
      · by_cases e : k = k'
        · subst e; simp [hk', h3]
        · have : ¬ k' = k := fun h => e h.symm
          simp [hk', e, this]

theorem finish_ok (got : List (Bytes × FVal)) :
    ∀ (fs : List (Bytes × FTy)) (v : Val),
      v.map Prod.fst = fs.map Prod.fst →
      (∀ f ∈ v, lookupGot got f.1 = some f.2) →
      finish got fs = .ok v := by
  intro fs
  induction fs with
  | nil => intro v h _; cases v <;> simp_all [finish]
  | cons f fs ih =>
    intro v h hall
    cases v with
    | nil => simp at h
    | cons x v =>
      obtain ⟨n, fv⟩ := x
      obtain ⟨m, ft⟩ := f
      simp only [List.map_cons, List.cons.injEq] at h
      obtain ⟨rfl, h'⟩ := h
      have hx := hall (n, fv) (by simp)
      simp only at hx
      simp [finish, hx, ih v h' (fun f hf => hall f (by simp [hf]))]

/-! ### Variable sets -/

def keys (vs : VarSet) : List Bytes := vs.map Prod.fst

theorem mem_varInsert (k : Bytes) (x : VarVal) (vs : VarSet) (e : Bytes × VarVal)
    (h : e ∈ varInsert k x vs) : e = (k, x) ∨ e ∈ vs := by
  induction vs with
  | nil => simp [varInsert] at h; exact Or.inl h
  | cons p vs ih =>
    obtain ⟨k', x'⟩ := p
    simp only [varInsert] at h
    split at h
    · simp at h; rcases h with h | h
      · exact Or.inl h
      · exact Or.inr (by simp [h])
    · split at h
      · simp at h; rcases h with h | h | h
        · exact Or.inl h
        · exact Or.inr (by simp [h])
        · exact Or.inr (by simp [h])
      · simp at h; rcases h with h | h
        · exact Or.inr (by simp [h])
        · rcases ih h with h | h
          · exact Or.inl h
          · exact Or.inr (by simp [h])

theorem keys_varInsert (k : Bytes) (x : VarVal) (vs : VarSet) (k' : Bytes) :
    k' ∈ keys (varInsert k x vs) ↔ k' = k ∨ k' ∈ keys vs := by
  induction vs with
  | nil => simp [varInsert, keys]
  | cons p vs ih =>
    obtain ⟨k1, x1⟩ := p
    simp only [varInsert]
    split
    · rename_i h; subst h; simp [keys]
    · split
      · simp [keys]
      · simp only [keys, List.map_cons, List.mem_cons] at ih ⊢
        rw [ih]; constructor <;> (intro h; rcases h with h | h | h <;> simp [h])

theorem nodup_varInsert (k : Bytes) (x : VarVal) (vs : VarSet)
    (hk : k ∉ keys vs) (h : (keys vs).Nodup) : (keys (varInsert k x vs)).Nodup := by
  induction vs with
  | nil => simp [varInsert, keys]
  | cons p vs ih =>
    obtain ⟨k1, x1⟩ := p
    simp only [keys, List.map_cons, List.mem_cons, not_or, List.nodup_cons] at hk h
    simp only [varInsert]
    split
    · rename_i e; exact absurd e hk.1
    · split
      · simp only [keys, List.map_cons, List.nodup_cons, List.mem_cons, not_or]
        exact ⟨⟨hk.1, hk.2⟩, h.1, h.2⟩
      · simp only [keys, List.map_cons, List.nodup_cons]
        refine ⟨?_, ih hk.2 h.2⟩
        intro hm
        have := (keys_varInsert k x vs k1).1 hm
        rcases this with e | e
        · exact hk.1 e.symm
        · exact h.1 e

theorem keys_varsOf (route : List RSeg) (vals : Bytes → List Bytes) (k : Bytes) :
    k ∈ keys (varsOf route vals) ↔ k ∈ routeVars route := by
  induction route with
  | nil => simp [varsOf, routeVars, keys]
  | cons r rs ih =>
    cases r with
    | lit s => simpa [varsOf, routeVars] using ih
    | var n => simp only [varsOf, routeVars, keys_varInsert, ih, List.mem_cons]
    | rest n => simp [varsOf, routeVars, keys]

theorem nodup_varsOf (route : List RSeg) (vals : Bytes → List Bytes)
    (h : (routeVars route).Nodup) : (keys (varsOf route vals)).Nodup := by
  induction route with
  | nil => simp [varsOf, keys]
  | cons r rs ih =>
    cases r with
    | lit s => exact ih h
    | var n =>
      simp only [routeVars, List.nodup_cons] at h
      exact nodup_varInsert _ _ _ (by rw [keys_varsOf]; exact h.1) (ih h.2)
    | rest n => simp [varsOf, keys]

theorem valHasTy_shape : ∀ (v : Val) (fs : List (Bytes × FTy)),
    valHasTy v fs = true → v.map Prod.fst = fs.map Prod.fst := by
  intro v
  induction v with
  | nil => intro fs h; cases fs <;> simp_all [valHasTy]
  | cons x v ih =>
    intro fs h
    cases fs with
    | nil => simp [valHasTy] at h
    | cons f fs =>
      obtain ⟨n, fv⟩ := x; obtain ⟨m, ft⟩ := f
      simp only [valHasTy, Bool.and_eq_true, beq_iff_eq] at h
      simp [h.1.1, ih fs h.2]

theorem valHasTy_lookup : ∀ (v : Val) (fs : List (Bytes × FTy)) (n : Bytes) (ft : FTy),
    valHasTy v fs = true → lookupField fs n = some ft →
    ∃ fv, lookupGot v n = some fv ∧ fv.hasTy ft = true := by
  intro v
  induction v with
  | nil => intro fs n ft h hl; cases fs <;> simp_all [valHasTy, lookupField]
  | cons x v ih =>
    intro fs n ft h hl
    cases fs with
    | nil => simp [valHasTy] at h
    | cons f fs =>
      obtain ⟨a, fv⟩ := x; obtain ⟨m, ft'⟩ := f
      simp only [valHasTy, Bool.and_eq_true, beq_iff_eq] at h
      obtain ⟨⟨rfl, h2⟩, h3⟩ := h
      by_cases e : a = n
      · subst e
        simp only [lookupField, List.find?_cons, decide_true] at hl
        simp only [Option.some.injEq] at hl
        subst hl
        exact ⟨fv, by simp [lookupGot], h2⟩
      · have hl' : lookupField fs n = some ft := by
          simpa [lookupField, List.find?_cons, e] using hl
        obtain ⟨fv', h4, h5⟩ := ih fs n ft h3 hl'
        exact ⟨fv', by simpa [lookupGot, List.find?_cons, e] using h4, h5⟩

theorem lookupGot_of_mem (v : Val) (h : (v.map Prod.fst).Nodup) (f : Bytes × FVal) (hf : f ∈ v) :
    lookupGot v f.1 = some f.2 := by
  induction v with
  | nil => simp at hf
  | cons x v ih =>
    simp only [List.map_cons, List.nodup_cons] at h
    simp only [List.mem_cons] at hf
    rcases hf with rfl | hf
    · simp [lookupGot]
    · have : x.1 ≠ f.1 := by
        intro e; apply h.1; rw [e]; exact List.mem_map_of_mem hf
      simpa [lookupGot, List.find?_cons, this] using ih h.2 hf

/-! ### `from_map` on the bindings of an encoded path -/

/-- Every binding `varsOf` produces is a known field whose string(s) deserialise
to the value's field. -/
theorem varsOf_entries (fs : List (Bytes × FTy)) (v : Val) (hty : valHasTy v fs = true) :
    ∀ (route : List RSeg), routeKinds fs route = true →
      (∀ s ∈ segsOf route (valsOf v), s ≠ []) →
      ∀ e ∈ varsOf route (valsOf v), ∃ ft fv, lookupField fs e.1 = some ft ∧
        deField ft e.2 = .ok fv ∧ lookupGot v e.1 = some fv := by
  intro route
  induction route with
  | nil => intro _ _ e he; simp [varsOf] at he
  | cons r rs ih =>
    intro hk hs e he
    cases r with
    | lit s =>
      exact ih (by simpa [routeKinds] using hk) (fun s hs' => hs s (by simp [segsOf, hs'])) e he
    | var n =>
      simp only [routeKinds, Bool.and_eq_true] at hk
      simp only [varsOf] at he
      rcases mem_varInsert _ _ _ _ he with rfl | he'
      · have hne : (valsOf v n).headD [] ≠ [] := hs _ (by simp [segsOf])
        cases hl : lookupField fs n with
        | none => simp [hl] at hk
        | some ft =>
          obtain ⟨fv, h1, h2⟩ := valHasTy_lookup v fs n ft hty hl
          have hv : valsOf v n = fv.segs := by simp [valsOf, lookupVal, lookupGot] at h1 ⊢; simp [h1]
          cases ft with
          | scalar t =>
            cases fv <;> simp [FVal.hasTy] at h2
            rename_i sv
            refine ⟨_, .scalar sv, rfl, ?_, h1⟩
            simp [hv, FVal.segs, deField, deScalar_render t sv h2]
          | option t =>
            cases fv <;> simp [FVal.hasTy] at h2
            · exact absurd (by simp [hv, FVal.segs]) hne
            · rename_i sv
              refine ⟨_, .some sv, rfl, ?_, h1⟩
              simp [hv, FVal.segs, deField, deScalar_render t sv h2]
          | seq t => simp [hl] at hk
          | nested => simp [hl] at hk
      · exact ih hk.2 (fun s hs' => hs s (by simp [segsOf, hs'])) e he'
    | rest n =>
      simp only [routeKinds] at hk
      simp only [varsOf, List.mem_singleton] at he
      subst he
      cases hl : lookupField fs n with
      | none => simp [hl] at hk
      | some ft =>
        obtain ⟨fv, h1, h2⟩ := valHasTy_lookup v fs n ft hty hl
        have hv : valsOf v n = fv.segs := by simp [valsOf, lookupVal, lookupGot] at h1 ⊢; simp [h1]
        cases ft with
        | seq t =>
          cases fv <;> simp [FVal.hasTy] at h2
          rename_i svs
          refine ⟨_, .seq svs, rfl, ?_, h1⟩
          simp [hv, FVal.segs, deField, deSeq_render t svs (by simpa using h2)]
        | scalar t => simp [hl] at hk
        | option t => simp [hl] at hk
        | nested => simp [hl] at hk

theorem mapDe_varsOf (route : List RSeg) (fs : List (Bytes × FTy)) (v : Val)
    (hfit : pathFits route fs = true) (hty : valHasTy v fs = true)
    (hs : ∀ s ∈ segsOf route (valsOf v), s ≠ []) :
    mapDe (.struct fs) (varsOf route (valsOf v)) = .ok v := by
  simp only [pathFits, Bool.and_eq_true, decide_eq_true_eq, List.all_eq_true,
    List.contains_iff_mem] at hfit
  obtain ⟨⟨⟨hnd, hrnd⟩, hcov⟩, hkinds⟩ := hfit
  have hshape := valHasTy_shape v fs hty
  obtain ⟨got', hg1, hg2⟩ := deEntries_ok fs (lookupGot v) (varsOf route (valsOf v)) []
    (varsOf_entries fs v hty route hkinds hs) (nodup_varsOf route _ hrnd)
    (by intro e _; simp [lookupGot])
  have hfin : finish got' fs = .ok v := by
    apply finish_ok got' fs v hshape
    intro f hf
    rw [hg2 f.1]
    have hin : f.1 ∈ (varsOf route (valsOf v)).map Prod.fst := by
      have : f.1 ∈ fs.map Prod.fst := by rw [← hshape]; exact List.mem_map_of_mem hf
      have := hcov f.1 this
      exact (keys_varsOf route _ f.1).2 this
    simp only [hin, if_true]
    exact lookupGot_of_mem v (by rw [hshape]; exact hnd) f hf
  simp [mapDe, deStruct, hg1, hfin]


/-! ### Chunked transfer coding -/

theorem hexAux_append (n : Nat) (t1 t2 : Bytes) : hexAux n (t1 ++ t2) = hexAux n t1 ++ t2 := by
  fun_induction hexAux n t1 with
  | case1 n t h => rw [hexAux]; simp [h]
  | case2 n t h ih => rw [hexAux]; simp only [h, if_false]; rw [← ih]; simp

theorem hexPrefix_hexAux (n : Nat) (tail : Bytes) :
    hexPrefix (hexAux n tail) 0 = hexPrefix tail n := by
  fun_induction hexAux n tail with
  | case1 n tail h =>
    simp only [hexPrefix, hexDigitLower, hexVal_hexDigit false n h]; simp
  | case2 n tail h ih =>
    rw [ih]
    have : n % 16 < 16 := Nat.mod_lt _ (by omega)
    simp only [hexPrefix, hexDigitLower, hexVal_hexDigit false _ this]
    congr 1; omega

theorem hexAux_head (n : Nat) (tail : Bytes) :
    ∃ d r, hexAux n tail = d :: r ∧ (hexVal d).isNone = false := by
  fun_induction hexAux n tail with
  | case1 n tail h => exact ⟨_, tail, rfl, by simp [hexDigitLower, hexVal_hexDigit false n h]⟩
  | case2 n tail h ih => exact ih

/-- A chunk extension as the model (and hyper) accept it: nothing, or `;` followed
by bytes other than CR and LF. -/
def OkExt (e : Bytes) : Prop := e = [] ∨ ∃ e', e = 59 :: e' ∧ 13 ∉ e' ∧ 10 ∉ e'

theorem skipLine_line (l rest : Bytes) (h1 : 13 ∉ l) (h2 : 10 ∉ l) :
    skipLine (l ++ 13 :: 10 :: rest) = some rest := by
  induction l with
  | nil => simp [skipLine]
  | cons b l ih =>
    have hb1 : b ≠ 13 := by intro e; exact h1 (by simp [e])
    have hb2 : b ≠ 10 := by intro e; exact h2 (by simp [e])
    have := ih (by intro e; exact h1 (by simp [e])) (by intro e; exact h2 (by simp [e]))
    rw [List.cons_append, skipLine.eq_def]
    split <;> simp_all

theorem afterSize_ext (e rest : Bytes) (h : OkExt e) :
    afterSize (e ++ 13 :: 10 :: rest) = some rest := by
  rcases h with rfl | ⟨e', rfl, h1, h2⟩
  · simp [afterSize]
  · simp [afterSize, skipLine_line e' rest h1 h2]

theorem ext_head_not_hex (e rest : Bytes) (h : OkExt e) :
    ∃ c r, e ++ 13 :: 10 :: rest = c :: r ∧ hexVal c = none := by
  rcases h with rfl | ⟨e', rfl, _, _⟩
  · exact ⟨13, 10 :: rest, rfl, by decide⟩
  · exact ⟨59, _, rfl, by decide⟩

theorem hexPrefix_size (n : Nat) (e rest : Bytes) (h : OkExt e) :
    hexPrefix (renderHex n ++ (e ++ 13 :: 10 :: rest)) 0 = (n, e ++ 13 :: 10 :: rest) := by
  obtain ⟨c, r, hc, hv⟩ := ext_head_not_hex e rest h
  rw [renderHex, ← hexAux_append, List.nil_append, hexPrefix_hexAux, hc]
  simp [hexPrefix, hv]

/-- One chunk is consumed by one round of the decoder. -/
theorem dechunkAux_chunkOne (fuel : Nat) (data ext T acc : Bytes) (hd : data ≠ []) (he : OkExt ext) :
    dechunkAux (fuel + 1) (chunkOne data ext ++ T) acc = dechunkAux fuel T (acc ++ data) := by
  have hw : chunkOne data ext ++ T =
      renderHex data.length ++ (ext ++ 13 :: 10 :: (data ++ 13 :: 10 :: T)) := by
    simp [chunkOne, crlf]
  obtain ⟨d, r, hr, hhex⟩ := hexAux_head data.length []
  have hp := hexPrefix_size data.length ext (data ++ 13 :: 10 :: T) he
  rw [hw] at *
  have hne : data.length ≠ 0 := by simpa using hd
  rw [dechunkAux.eq_def]
  rw [renderHex, hr] at hp ⊢
  simp only [List.cons_append, hhex] at hp ⊢
  simp only [Bool.false_eq_true, if_false, hp, afterSize_ext ext _ he, hne]
  have hlen : ¬ (data ++ 13 :: 10 :: T).length < data.length + 2 := by simp
  simp only [hlen, if_false, List.drop_left', List.take_left']

theorem skipTrailers_step (b : Bool) (c : Nat) (Y : Bytes) (h1 : c ≠ 13) (h2 : c ≠ 10) :
    skipTrailers b (c :: Y) = skipTrailers false Y := by
  rw [skipTrailers.eq_def]
  split <;> simp_all

theorem skipTrailers_false_line (l rest : Bytes) (h1 : 13 ∉ l) (h2 : 10 ∉ l) :
    skipTrailers false (l ++ 13 :: 10 :: rest) = skipTrailers true rest := by
  induction l with
  | nil => simp [skipTrailers]
  | cons b l ih =>
    have hb1 : b ≠ 13 := by intro e; exact h1 (by simp [e])
    have hb2 : b ≠ 10 := by intro e; exact h2 (by simp [e])
    have := ih (by intro e; exact h1 (by simp [e])) (by intro e; exact h2 (by simp [e]))
    rw [List.cons_append, skipTrailers_step _ _ _ hb1 hb2, this]

def OkTrailer (t : Bytes × Bytes) : Prop := 13 ∉ t.1 ∧ 10 ∉ t.1 ∧ 13 ∉ t.2 ∧ 10 ∉ t.2

theorem trailerLine_shape (t : Bytes × Bytes) (h : OkTrailer t) :
    ∃ c l, (∀ X, trailerLine t ++ X = c :: (l ++ 13 :: 10 :: X)) ∧ c ≠ 13 ∧ c ≠ 10 ∧ 13 ∉ l ∧ 10 ∉ l := by
  obtain ⟨n, v⟩ := t
  obtain ⟨h1, h2, h3, h4⟩ := h
  simp only at *
  cases n with
  | nil =>
    exact ⟨58, 32 :: v, by intro X; simp [trailerLine, crlf], by omega, by omega, by simp [h3], by simp [h4]⟩
  | cons c n =>
    simp only [List.mem_cons, not_or] at h1 h2
    refine ⟨c, n ++ 58 :: 32 :: v, by intro X; simp [trailerLine, crlf],
      fun e => h1.1 e.symm, fun e => h2.1 e.symm, ?_, ?_⟩
    · simp [h1.2, h3]
    · simp [h2.2, h4]

theorem skipTrailers_lines (ts : List (Bytes × Bytes)) (rest : Bytes) (h : ∀ t ∈ ts, OkTrailer t) :
    skipTrailers true (ts.flatMap trailerLine ++ 13 :: 10 :: rest) = some rest := by
  induction ts with
  | nil => simp [skipTrailers]
  | cons t ts ih =>
    obtain ⟨c, l, hl, hc1, hc2, hl1, hl2⟩ := trailerLine_shape t (h t (by simp))
    have ih' := ih (fun t ht => h t (by simp [ht]))
    rw [List.flatMap_cons, List.append_assoc, hl, skipTrailers_step _ _ _ hc1 hc2,
      skipTrailers_false_line _ _ hl1 hl2, ih']

/-- The last chunk and the trailer section end the body. -/
theorem dechunkAux_last (fuel : Nat) (lastExt rest acc : Bytes) (ts : List (Bytes × Bytes))
    (he : OkExt lastExt) (ht : ∀ t ∈ ts, OkTrailer t) :
    dechunkAux (fuel + 1) (48 :: lastExt ++ crlf ++ ts.flatMap trailerLine ++ crlf ++ rest) acc =
      some (acc, rest) := by
  have hw : 48 :: lastExt ++ crlf ++ ts.flatMap trailerLine ++ crlf ++ rest =
      48 :: (lastExt ++ 13 :: 10 :: (ts.flatMap trailerLine ++ 13 :: 10 :: rest)) := by
    simp [crlf]
  obtain ⟨c, r, hc, hv⟩ := ext_head_not_hex lastExt (ts.flatMap trailerLine ++ 13 :: 10 :: rest) he
  rw [hw, dechunkAux.eq_def]
  have h48 : hexVal 48 = some 0 := by decide
  have hp : hexPrefix (48 :: (lastExt ++ 13 :: 10 :: (ts.flatMap trailerLine ++ 13 :: 10 :: rest))) 0 =
      (0, lastExt ++ 13 :: 10 :: (ts.flatMap trailerLine ++ 13 :: 10 :: rest)) := by
    rw [hexPrefix, h48, hc]; simp [hexPrefix, hv]
  simp only [h48, Option.isNone_some, Bool.false_eq_true, if_false, hp, afterSize_ext lastExt _ he,
    if_true, skipTrailers_lines ts rest ht]

theorem chunkOne_length (data ext : Bytes) : data.length ≤ (chunkOne data ext).length := by
  simp [chunkOne, crlf]; omega

theorem chunkBody_length (bs : Bytes) (splits : List Nat) (exts : List Bytes) :
    bs.length ≤ (chunkBody bs splits exts).length := by
  fun_induction chunkBody bs splits exts with
  | case1 => simp
  | case2 b bs exts => exact chunkOne_length _ _
  | case3 b bs n ns exts ih =>
    have := chunkOne_length (b :: List.take (n - 1) bs) (exts.headD [])
    simp only [List.length_append, List.length_cons, List.length_take, List.length_drop] at *
    omega

theorem headD_ok (exts : List Bytes) (h : ∀ e ∈ exts, OkExt e) : OkExt (exts.headD []) := by
  cases exts with
  | nil => exact Or.inl rfl
  | cons e es => exact h e (by simp)

/-- All data chunks are consumed, whatever the split; fuel left is at least what
was there beyond the payload length. -/
theorem dechunkAux_chunkBody (bs : Bytes) (splits : List Nat) (exts : List Bytes) :
    (∀ e ∈ exts, OkExt e) → ∀ (k : Nat) (T acc : Bytes),
      ∃ j, k ≤ j ∧ dechunkAux (k + bs.length) (chunkBody bs splits exts ++ T) acc =
        dechunkAux j T (acc ++ bs) := by
  fun_induction chunkBody bs splits exts with
  | case1 => intro _ k T acc; exact ⟨k, Nat.le_refl _, by simp⟩
  | case2 b bs exts =>
    intro he k T acc
    refine ⟨k + bs.length, by omega, ?_⟩
    have : k + (b :: bs).length = (k + bs.length) + 1 := by simp; omega
    rw [this, dechunkAux_chunkOne _ _ _ _ _ (by simp) (headD_ok exts he)]
  | case3 b bs n ns exts ih =>
    intro he k T acc
    have he' : ∀ e ∈ exts.tail, OkExt e := fun e h => he e (List.mem_of_mem_tail h)
    have hl : (List.drop (n - 1) bs).length ≤ bs.length := by simp
    obtain ⟨j, hj, hd⟩ := ih he' (k + bs.length - (List.drop (n - 1) bs).length) T
      (acc ++ (b :: List.take (n - 1) bs))
    refine ⟨j, by omega, ?_⟩
    have : k + (b :: bs).length = (k + bs.length) + 1 := by simp; omega
    rw [this, List.append_assoc, dechunkAux_chunkOne _ _ _ _ _ (by simp) (headD_ok exts he)]
    have e2 : k + bs.length =
        (k + bs.length - (List.drop (n - 1) bs).length) + (List.drop (n - 1) bs).length := by omega
    rw [e2, hd]
    simp [List.append_assoc]


/-! ### The `mime` parser on legal spellings -/

theorem token_ne (c : Nat) (h : isToken c = true) : c ≠ 59 ∧ c ≠ 32 ∧ c ≠ 61 ∧ c ≠ 34 ∧ c ≠ 47 := by
  simp only [isToken, Bool.or_eq_true, Bool.and_eq_true, decide_eq_true_eq, beq_iff_eq] at h
  omega

theorem run_ty (xs : Bytes) (h : xs.all isToken = true) (acc : Bytes) (m : Mime) (rest : Bytes) :
    mimeRun (.ty acc) m (xs ++ rest) = mimeRun (.ty (acc ++ xs)) m rest := by
  induction xs generalizing acc with
  | nil => simp
  | cons c xs ih =>
    simp only [List.all_cons, Bool.and_eq_true] at h
    simp only [List.cons_append, mimeRun, h.1, if_true]
    rw [ih h.2]; simp

theorem run_sub (xs : Bytes) (h : xs.all isToken = true) (t acc : Bytes) (m : Mime) (rest : Bytes) :
    mimeRun (.sub t acc) m (xs ++ rest) = mimeRun (.sub t (acc ++ xs)) m rest := by
  induction xs generalizing acc with
  | nil => simp
  | cons c xs ih =>
    simp only [List.all_cons, Bool.and_eq_true] at h
    have := token_ne c h.1
    simp only [List.cons_append, mimeRun, h.1, if_true, this.1, false_and, if_false]
    rw [ih h.2]; simp

theorem run_pstart_spaces (n : Nat) (m : Mime) (rest : Bytes) :
    mimeRun .pstart m (List.replicate n 32 ++ rest) = mimeRun .pstart m rest := by
  induction n with
  | zero => simp
  | succ n ih => simp [List.replicate_succ, mimeRun, ih]

theorem run_pname (xs : Bytes) (h : xs.all isToken = true) (acc : Bytes) (m : Mime) (rest : Bytes) :
    mimeRun (.pname acc) m (xs ++ rest) = mimeRun (.pname (acc ++ xs)) m rest := by
  induction xs generalizing acc with
  | nil => simp
  | cons c xs ih =>
    simp only [List.all_cons, Bool.and_eq_true] at h
    simp only [List.cons_append, mimeRun, h.1, if_true]
    rw [ih h.2]; simp

theorem run_name (name : Bytes) (hne : name ≠ []) (h : name.all isToken = true) (m : Mime) (rest : Bytes) :
    mimeRun .pstart m (name ++ 61 :: rest) = mimeRun (.vstart name) m rest := by
  cases name with
  | nil => exact absurd rfl hne
  | cons c cs =>
    simp only [List.all_cons, Bool.and_eq_true] at h
    have := token_ne c h.1
    simp only [List.cons_append, mimeRun, this.2.1, if_false, h.1, if_true]
    rw [run_pname cs h.2]
    have : isToken 61 = false := by decide
    simp [mimeRun, this]

theorem run_vtok (xs : Bytes) (h : xs.all isToken = true) (n acc : Bytes) (m : Mime) (rest : Bytes) :
    mimeRun (.vtok n acc) m (xs ++ rest) = mimeRun (.vtok n (acc ++ xs)) m rest := by
  induction xs generalizing acc with
  | nil => simp
  | cons c xs ih =>
    simp only [List.all_cons, Bool.and_eq_true] at h
    simp only [List.cons_append, mimeRun, h.1, if_true]
    rw [ih h.2]; simp

theorem run_tokval (v : Bytes) (hne : v ≠ []) (h : v.all isToken = true) (n : Bytes) (m : Mime) (rest : Bytes) :
    mimeRun (.vstart n) m (v ++ rest) = mimeRun (.vtok n v) m rest := by
  cases v with
  | nil => exact absurd rfl hne
  | cons c cs =>
    simp only [List.all_cons, Bool.and_eq_true] at h
    have := token_ne c h.1
    simp only [List.cons_append, mimeRun, this.2.2.2.1, if_false, h.1, if_true]
    rw [run_vtok cs h.2]; simp

theorem run_q (xs : Bytes) (h : xs.all (fun c => isQuotable c && c != 34) = true) (n acc : Bytes)
    (m : Mime) (rest : Bytes) :
    mimeRun (.q n acc) m (xs ++ rest) = mimeRun (.q n (acc ++ xs)) m rest := by
  induction xs generalizing acc with
  | nil => simp
  | cons c xs ih =>
    simp only [List.all_cons, Bool.and_eq_true, bne_iff_ne, ne_eq] at h
    simp only [List.cons_append, mimeRun, h.1.2, if_false, h.1.1, if_true]
    rw [ih h.2]; simp

theorem run_aq_spaces (n : Nat) (m : Mime) (rest : Bytes) :
    mimeRun .aq m (List.replicate n 32 ++ rest) = mimeRun .aq m rest := by
  induction n with
  | zero => simp
  | succ n ih => simp [List.replicate_succ, mimeRun, ih]

theorem run_quotedval (v : Bytes) (hne : v ≠ []) (h : v.all (fun c => isQuotable c && c != 34) = true)
    (n : Bytes) (m : Mime) (sp : Nat) (rest : Bytes) :
    mimeRun (.vstart n) m (34 :: v ++ 34 :: List.replicate sp 32 ++ rest) =
      mimeRun .aq { m with params := m.params ++ [(n, v)] } rest := by
  cases v with
  | nil => exact absurd rfl hne
  | cons c cs =>
    simp only [List.all_cons, Bool.and_eq_true, bne_iff_ne, ne_eq] at h
    have e : 34 :: (c :: cs) ++ 34 :: List.replicate sp 32 ++ rest =
        34 :: c :: (cs ++ (34 :: (List.replicate sp 32 ++ rest))) := by simp
    rw [e]
    simp only [mimeRun, if_true, h.1.1]
    rw [run_q cs h.2]
    simp only [List.cons_append, List.nil_append, mimeRun, if_true, run_aq_spaces]

/-- The states in which a parameter (or the subtype) is complete and a `;` or
the end of input may follow. -/
def Closable : MSt → Bool
  | .sub _ acc => acc != []
  | .vtok _ _ => true
  | .aq => true
  | _ => false

/-- What has been parsed once the current item is closed. -/
def pending : MSt → Mime → Mime
  | .sub t acc, m => { m with ty := t, sub := acc }
  | .vtok n acc, m => { m with params := m.params ++ [(n, acc)] }
  | _, m => m

theorem run_close_semi (st : MSt) (h : Closable st = true) (m : Mime) (rest : Bytes) :
    mimeRun st m (59 :: rest) = mimeRun .pstart (pending st m) rest := by
  cases st <;> simp [Closable] at h
  · simp [mimeRun, pending, h]
  · have : isToken 59 = false := by decide
    simp [mimeRun, pending, this]
  · simp [mimeRun, pending]

theorem run_close_eof (st : MSt) (h : Closable st = true) (m : Mime) :
    mimeRun st m [] = some (pending st m) := by
  cases st <;> simp [Closable] at h <;> simp [mimeRun, pending]

def addParam (m : Mime) (p : ParamSpelling) : Mime :=
  { m with params := m.params ++ [(p.name, p.value)] }

/-- Running over one legally spelled parameter from a closable state ends in a
closable state with the parameter recorded. -/
theorem run_param (p : ParamSpelling) (hp : p.ok = true) (st : MSt) (hst : Closable st = true)
    (m : Mime) (rest : Bytes) :
    ∃ st' m', Closable st' = true ∧ pending st' m' = addParam (pending st m) p ∧
      mimeRun st m (p.wire ++ rest) = mimeRun st' m' rest := by
  simp only [ParamSpelling.ok, Bool.and_eq_true, bne_iff_ne, ne_eq] at hp
  obtain ⟨⟨⟨hn1, hn2⟩, hv1⟩, hv2⟩ := hp
  unfold ParamSpelling.wire
  cases hq : p.quoted with
  | false =>
    simp only [hq, Bool.false_eq_true, if_false] at hv2 ⊢
    refine ⟨.vtok p.name p.value, pending st m, rfl, rfl, ?_⟩
    simp only [List.cons_append, List.append_assoc]
    rw [run_close_semi st hst, run_pstart_spaces, run_name p.name hn1 hn2,
      run_tokval p.value hv1 hv2]
  | true =>
    simp only [hq, if_true] at hv2 ⊢
    refine ⟨.aq, addParam (pending st m) p, rfl, rfl, ?_⟩
    simp only [List.cons_append, List.append_assoc]
    rw [run_close_semi st hst, run_pstart_spaces, run_name p.name hn1 hn2]
    have := run_quotedval p.value hv1 hv2 p.name (pending st m) p.spAfter rest
    simp only [List.cons_append, List.append_assoc] at this ⊢
    rw [this]; rfl

theorem run_params (ps : List ParamSpelling) (hps : ∀ p ∈ ps, p.ok = true) :
    ∀ (st : MSt) (m : Mime), Closable st = true →
      mimeRun st m (ps.flatMap ParamSpelling.wire) =
        some { (pending st m) with
          params := (pending st m).params ++ ps.map fun p => (p.name, p.value) } := by
  induction ps with
  | nil => intro st m h; simp [run_close_eof st h]
  | cons p ps ih =>
    intro st m h
    obtain ⟨st', m', h1, h2, h3⟩ := run_param p (hps p (by simp)) st h m (ps.flatMap ParamSpelling.wire)
    rw [List.flatMap_cons, h3, ih (fun q hq => hps q (by simp [hq])) st' m' h1, h2]
    simp [addParam]

/-- The `mime` parser on a legally spelled content type. -/
theorem parseMime_spell (ty sub : Bytes) (ps : List ParamSpelling)
    (hty : ty ≠ [] ∧ ty.all isToken = true) (hsub : sub ≠ [] ∧ sub.all isToken = true)
    (hps : ∀ p ∈ ps, p.ok = true) :
    parseMime (spellContentType ty sub ps) =
      some ⟨ty, sub, ps.map fun p => (p.name, p.value)⟩ := by
  unfold parseMime spellContentType
  rw [List.append_assoc, run_ty ty hty.2]
  have h47 : isToken 47 = false := by decide
  simp only [List.nil_append, List.cons_append, mimeRun, h47, Bool.false_eq_true, if_false, hty.1,
    ne_eq, not_false_eq_true, and_self, if_true]
  rw [run_sub sub hsub.2, run_params ps hps _ _ (by simp [Closable, hsub.1])]
  simp [pending]

def isLowerOrDash (c : Nat) : Bool := (97 ≤ c && c ≤ 122) || c == 45

theorem token_of_lower (c : Nat) (h : isLowerOrDash (lowerByte c) = true) : isToken c = true := by
  unfold lowerByte at h
  by_cases hc : 65 ≤ c ∧ c ≤ 90
  · simp only [isToken, Bool.or_eq_true, Bool.and_eq_true, decide_eq_true_eq, beq_iff_eq]
    omega
  · simp only [hc, if_false, isLowerOrDash, Bool.or_eq_true, Bool.and_eq_true, decide_eq_true_eq,
      beq_iff_eq] at h
    simp only [isToken, Bool.or_eq_true, Bool.and_eq_true, decide_eq_true_eq, beq_iff_eq]
    omega

theorem tokens_of_lower (xs target : Bytes) (h : lower xs = target)
    (ht : target.all isLowerOrDash = true) : xs.all isToken = true := by
  subst h
  induction xs with
  | nil => rfl
  | cons c xs ih =>
    simp only [lower, List.map_cons, List.all_cons, Bool.and_eq_true] at ht ⊢
    exact ⟨token_of_lower c ht.1, ih ht.2⟩

theorem ne_nil_of_lower (xs target : Bytes) (h : lower xs = target) (ht : target ≠ []) : xs ≠ [] := by
  intro e; subst e; exact ht (by simpa [lower] using h.symm)

theorem cutLastPlus_none (cs : Bytes) (h : 43 ∉ cs) : cutLastPlus cs = none := by
  induction cs with
  | nil => rfl
  | cons c cs ih =>
    have hc : c ≠ 43 := by intro e; exact h (by simp [e])
    simp [cutLastPlus, ih (by intro e; exact h (by simp [e])), hc]

theorem subtypeName_no_plus (sub : Bytes) (h : 43 ∉ sub) : subtypeName sub = sub := by
  cases sub with
  | nil => rfl
  | cons c cs => simp [subtypeName, cutLastPlus_none cs (by intro e; exact h (by simp [e]))]

theorem no_plus_of_lower (xs target : Bytes) (h : lower xs = target) (ht : 43 ∉ target) : 43 ∉ xs := by
  intro hm
  apply ht
  rw [← h]
  have : lowerByte 43 = 43 := by decide
  rw [← this]
  exact List.mem_map_of_mem hm

/-- **`multer::parse_boundary` finds the boundary under every legal spelling.** -/
theorem boundaryOf_spell (ty sub : Bytes) (before after : List ParamSpelling) (bp : ParamSpelling)
    (hty : lower ty = sMultipart) (hsub : lower sub = sFormData)
    (hbefore : ∀ p ∈ before, p.ok = true ∧ lower p.name ≠ sBoundary)
    (hafter : ∀ p ∈ after, p.ok = true)
    (hbn : lower bp.name = sBoundary) (hb : bp.ok = true) :
    boundaryOf (spellContentType ty sub (before ++ bp :: after)) = some bp.value := by
  have t1 := tokens_of_lower ty _ hty (by decide)
  have t2 := tokens_of_lower sub _ hsub (by decide)
  have n1 := ne_nil_of_lower ty _ hty (by decide)
  have n2 := ne_nil_of_lower sub _ hsub (by decide)
  have hps : ∀ p ∈ before ++ bp :: after, p.ok = true := by
    intro p hp
    simp only [List.mem_append, List.mem_cons] at hp
    rcases hp with hp | rfl | hp
    · exact (hbefore p hp).1
    · exact hb
    · exact hafter p hp
  unfold boundaryOf
  rw [parseMime_spell ty sub _ ⟨n1, t1⟩ ⟨n2, t2⟩ hps]
  simp only [hty, subtypeName_no_plus sub (no_plus_of_lower sub _ hsub (by decide)), hsub, and_self,
    if_true, List.map_append, List.map_cons, List.find?_append]
  have hnone : List.find? (fun p => decide (lower p.1 = sBoundary))
      (before.map fun p => (p.name, p.value)) = none := by
    simp only [List.find?_eq_none, List.mem_map, decide_eq_true_eq]
    rintro x ⟨p, hp, rfl⟩
    exact (hbefore p hp).2
  simp [hnone, hbn]

/-! ### A struct value through its query pairs -/

theorem finish_ok' (got : List (Bytes × FVal)) :
    ∀ (fs : List (Bytes × FTy)) (v : Val), valHasTy v fs = true →
      (∀ f ∈ v, lookupGot got f.1 = some f.2 ∨ (lookupGot got f.1 = none ∧ f.2 = .none)) →
      finish got fs = .ok v := by
  intro fs
  induction fs with
  | nil => intro v h _; cases v <;> simp_all [finish, valHasTy]
  | cons f fs ih =>
    intro v h hall
    cases v with
    | nil => simp [valHasTy] at h
    | cons x v =>
      obtain ⟨n, fv⟩ := x
      obtain ⟨m, ft⟩ := f
      simp only [valHasTy, Bool.and_eq_true, beq_iff_eq] at h
      obtain ⟨⟨rfl, h2⟩, h3⟩ := h
      have ih' := ih v h3 (fun f hf => hall f (by simp [hf]))
      rcases hall (n, fv) (by simp) with hx | ⟨hx, hnone⟩
      · simp only at hx; simp [finish, hx, ih']
      · simp only at hx hnone
        subst hnone
        cases ft <;> simp [FVal.hasTy] at h2
        simp [finish, hx, ih']

theorem mem_queryPairs (v : Val) (kv : Bytes × Bytes) (h : kv ∈ queryPairs v) :
    ∃ fv, (kv.1, fv) ∈ v ∧ fv.asVar = .str kv.2 ∧ fv ≠ .none ∧ (∀ vs, fv ≠ .seq vs) := by
  induction v with
  | nil => simp [queryPairs] at h
  | cons x v ih =>
    obtain ⟨n, fv⟩ := x
    cases fv with
    | scalar sv =>
      simp only [queryPairs, List.mem_cons] at h
      rcases h with rfl | h
      · exact ⟨.scalar sv, by simp, rfl, by simp, by simp⟩
      · obtain ⟨fv, h1, h2⟩ := ih h; exact ⟨fv, by simp [h1], h2⟩
    | some sv =>
      simp only [queryPairs, List.mem_cons] at h
      rcases h with rfl | h
      · exact ⟨.some sv, by simp, rfl, by simp, by simp⟩
      · obtain ⟨fv, h1, h2⟩ := ih h; exact ⟨fv, by simp [h1], h2⟩
    | none => obtain ⟨fv, h1, h2⟩ := ih (by simpa [queryPairs] using h); exact ⟨fv, by simp [h1], h2⟩
    | seq vs => obtain ⟨fv, h1, h2⟩ := ih (by simpa [queryPairs] using h); exact ⟨fv, by simp [h1], h2⟩

theorem queryPairs_keys_sublist (v : Val) :
    ((queryPairs v).map Prod.fst).Sublist (v.map Prod.fst) := by
  induction v with
  | nil => simp [queryPairs]
  | cons x v ih =>
    obtain ⟨n, fv⟩ := x
    cases fv <;> simp only [queryPairs, List.map_cons]
    · exact List.Sublist.cons_cons _ ih
    · exact List.Sublist.cons _ ih
    · exact List.Sublist.cons_cons _ ih
    · exact List.Sublist.cons _ ih

theorem mem_keys_queryPairs (v : Val) (n : Bytes) (fv : FVal) (h : (n, fv) ∈ v)
    (h1 : fv ≠ .none) (h2 : ∀ vs, fv ≠ .seq vs) : n ∈ (queryPairs v).map Prod.fst := by
  induction v with
  | nil => simp at h
  | cons x v ih =>
    obtain ⟨m, fv'⟩ := x
    simp only [List.mem_cons, Prod.mk.injEq] at h
    rcases h with ⟨rfl, rfl⟩ | h
    · cases fv with
      | scalar sv => simp [queryPairs]
      | some sv => simp [queryPairs]
      | none => exact absurd rfl h1
      | seq vs => exact absurd rfl (h2 vs)
    · have := ih h
      cases fv' <;> simp [queryPairs, this]

theorem valHasTy_mem : ∀ (v : Val) (fs : List (Bytes × FTy)), valHasTy v fs = true →
    (fs.map Prod.fst).Nodup → ∀ f ∈ v, ∃ ft, lookupField fs f.1 = some ft ∧ f.2.hasTy ft = true := by
  intro v fs hty hnd f hf
  have hshape := valHasTy_shape v fs hty
  have hin : f.1 ∈ fs.map Prod.fst := by rw [← hshape]; exact List.mem_map_of_mem hf
  obtain ⟨g, hg, hg1⟩ := List.mem_map.1 hin
  cases hl : lookupField fs f.1 with
  | none =>
    simp only [lookupField] at hl
    split at hl
    · simp at hl
    · rename_i hnone
      have := List.find?_eq_none.1 hnone g hg
      simp [hg1] at this
  | some ft =>
    obtain ⟨fv, h1, h2⟩ := valHasTy_lookup v fs f.1 ft hty hl
    have := lookupGot_of_mem v (by rw [hshape]; exact hnd) f hf
    rw [this] at h1
    simp only [Option.some.injEq] at h1
    exact ⟨ft, rfl, by rw [h1]; exact h2⟩

theorem deStruct_queryPairs (fs : List (Bytes × FTy)) (v : Val)
    (hnd : (fs.map Prod.fst).Nodup) (hty : valHasTy v fs = true) (hq : queryable fs = true) :
    deStruct fs ((queryPairs v).map fun kv => (kv.1, VarVal.str kv.2)) = .ok v := by
  have hshape := valHasTy_shape v fs hty
  have hvnd : (v.map Prod.fst).Nodup := by rw [hshape]; exact hnd
  obtain ⟨got', hg1, hg2⟩ := deEntries_ok fs (lookupGot v)
    ((queryPairs v).map fun kv => (kv.1, VarVal.str kv.2)) []
    (by
      intro e he
      obtain ⟨kv, hkv, rfl⟩ := List.mem_map.1 he
      obtain ⟨fv, h1, h2, h3, _⟩ := mem_queryPairs v kv hkv
      obtain ⟨ft, h4, h5⟩ := valHasTy_mem v fs hty hnd (kv.1, fv) h1
      refine ⟨ft, fv, h4, ?_, lookupGot_of_mem v hvnd (kv.1, fv) h1⟩
      simp only at h5 ⊢
      rw [← h2]; exact deField_render ft fv h5 h3)
    (by
      have : (List.map Prod.fst (List.map (fun kv => (kv.1, VarVal.str kv.2)) (queryPairs v))) =
          (queryPairs v).map Prod.fst := by simp
      rw [this]
      exact List.Sublist.nodup (queryPairs_keys_sublist v) hvnd)
    (by intro e _; simp [lookupGot])
  have hkeys : (List.map Prod.fst (List.map (fun kv => (kv.1, VarVal.str kv.2)) (queryPairs v))) =
      (queryPairs v).map Prod.fst := by simp
  have hfin : finish got' fs = .ok v := by
    apply finish_ok' got' fs v hty
    intro f hf
    rw [hg2 f.1, hkeys]
    obtain ⟨ft, h4, h5⟩ := valHasTy_mem v fs hty hnd f hf
    by_cases hnone : f.2 = .none
    · right
      refine ⟨?_, hnone⟩
      have : f.1 ∉ (queryPairs v).map Prod.fst := by
        intro hin
        obtain ⟨kv, hkv, hk⟩ := List.mem_map.1 hin
        obtain ⟨fv, h1, _, h3, _⟩ := mem_queryPairs v kv hkv
        have a := lookupGot_of_mem v hvnd (kv.1, fv) h1
        have b := lookupGot_of_mem v hvnd f hf
        rw [hk] at a
        rw [a] at b
        simp only [Option.some.injEq] at b
        exact h3 (by rw [b]; exact hnone)
      simp [this, lookupGot]
    · left
      have hseq : ∀ vs, f.2 ≠ .seq vs := by
        intro vs e
        have hqf : ∀ g ∈ fs, g.2.single = true := by
          simpa [queryable] using hq
        simp only [lookupField] at h4
        split at h4
        · rename_i g hfind
          have hg := List.mem_of_find?_eq_some hfind
          have := hqf g hg
          simp only [Option.some.injEq] at h4
          rw [h4] at this
          rw [e] at h5
          cases ft <;> simp [FVal.hasTy, FTy.single] at h5 this
        · simp at h4
      have := mem_keys_queryPairs v f.1 f.2 hf hnone hseq
      simp only [this, if_true]
      exact lookupGot_of_mem v hvnd f hf
  simp [deStruct, hg1, hfin]

/-! ### Other spellings of an unsigned integer -/

theorem parseUInt_digits (w d : Nat) (r : Bytes) (hd : d ≠ 43) :
    parseUInt w (d :: r) = (decAcc (d :: r) 0).bind fun n => if n < 2 ^ w then some n else none := by
  unfold parseUInt
  split
  · rename_i heq; simp at heq; omega
  · cases h : decAcc (d :: r) 0 <;> simp [h]

theorem parseUInt_plus_digits (w d : Nat) (r : Bytes) :
    parseUInt w (43 :: d :: r) = (decAcc (d :: r) 0).bind fun n => if n < 2 ^ w then some n else none := by
  simp only [parseUInt]
  cases h : decAcc (d :: r) 0 <;> simp

/-! ### Canonical query spelling; boundary characters -/

theorem qCanon_ok (bs : Bytes) (h : IsBytes bs) : ∀ c ∈ qCanon bs, c.okKey = true := by
  intro c hc
  simp only [qCanon, List.mem_map] at hc
  obtain ⟨b, hb, rfl⟩ := hc
  split
  · rename_i hu
    simp only [unreserved, Bool.or_eq_true, Bool.and_eq_true, decide_eq_true_eq, beq_iff_eq] at hu
    simp only [QByte.okKey, Bool.and_eq_true, bne_iff_ne, ne_eq]
    omega
  · simp [QByte.okKey, h b hb]

theorem qMeant_qCanon (bs : Bytes) : qMeant (qCanon bs) = bs := by
  induction bs with
  | nil => rfl
  | cons b bs ih =>
    simp only [qCanon, qMeant, List.map_cons] at ih ⊢
    rw [ih]; split <;> rfl

theorem bchar_quotable (c : Nat) (h : isBChar c = true) : (isQuotable c && c != 34) = true := by
  simp only [isBChar, Bool.or_eq_true, Bool.and_eq_true, decide_eq_true_eq, beq_iff_eq] at h
  simp only [isQuotable, Bool.and_eq_true, decide_eq_true_eq, bne_iff_ne, ne_eq]
  omega

end Dropshot.Extract
