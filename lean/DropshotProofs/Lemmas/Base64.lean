/-
Base64 model lemmas: strict decoding inverts encoding for both alphabets, and
the length formula used for the 512-character token bound.
-/
import DropshotModel.Base64

namespace Dropshot.Base64

theorem val_sym (a : Alphabet) : ∀ v, v < 64 → val a (sym a v) = some v := by
  cases a <;> decide

theorem sym_ne_pad (a : Alphabet) : ∀ v, v < 64 → sym a v ≠ pad := by
  cases a <;> decide

/-- `(encode a bs).length = 4 * ⌈bs.length / 3⌉`. -/
theorem encode_length (a : Alphabet) (bs : List Nat) :
    (encode a bs).length = 4 * ((bs.length + 2) / 3) := by
  fun_induction encode a bs with
  | case1 => rfl
  | case2 => simp
  | case3 => simp
  | case4 x y z rest ih => simp only [List.length_cons, ih]; omega

theorem encode_cons_ne_nil (a : Alphabet) (b : Nat) (bs : List Nat) :
    ∃ c t, encode a (b :: bs) = c :: t := by
  match bs with
  | [] => exact ⟨_, _, rfl⟩
  | [y] => exact ⟨_, _, rfl⟩
  | y :: z :: r => exact ⟨_, _, rfl⟩

/-- **Base64 round trip**: strict decoding of an encoding gives the bytes back. -/
theorem decode_encode (a : Alphabet) (bs : List Nat) (hb : ∀ b ∈ bs, b < 256) :
    decode a (encode a bs) = some bs := by
  fun_induction encode a bs with
  | case1 => rfl
  | case2 x =>
    have hx : x < 256 := hb x (by simp)
    have h1 := val_sym a (x / 4) (by omega)
    have h2 := val_sym a (x % 4 * 16) (by omega)
    simp only [decode, pad, and_self, if_true, h1, h2]
    simp only [show x % 4 * 16 % 16 = 0 by omega, if_true]
    congr 2; omega
  | case3 x y =>
    have hx : x < 256 := hb x (by simp)
    have hy : y < 256 := hb y (by simp)
    have h1 := val_sym a (x / 4) (by omega)
    have h2 := val_sym a (x % 4 * 16 + y / 16) (by omega)
    have h3 := val_sym a (y % 16 * 4) (by omega)
    have n3 := sym_ne_pad a (y % 16 * 4) (by omega)
    simp only [pad] at n3
    simp only [decode, pad, n3, false_and, if_false, if_true, h1, h2, h3]
    simp only [show y % 16 * 4 % 4 = 0 by omega, if_true]
    congr 2
    · omega
    · congr 1; omega
  | case4 x y z rest ih =>
    have hx : x < 256 := hb x (by simp)
    have hy : y < 256 := hb y (by simp)
    have hz : z < 256 := hb z (by simp)
    have h1 := val_sym a (x / 4) (by omega)
    have h2 := val_sym a (x % 4 * 16 + y / 16) (by omega)
    have h3 := val_sym a (y % 16 * 4 + z / 64) (by omega)
    have h4 := val_sym a (z % 64) (by omega)
    have n3 := sym_ne_pad a (y % 16 * 4 + z / 64) (by omega)
    have n4 := sym_ne_pad a (z % 64) (by omega)
    simp only [pad] at n3 n4
    have e1 : (x / 4) * 4 + (x % 4 * 16 + y / 16) / 16 = x := by omega
    have e2 : (x % 4 * 16 + y / 16) % 16 * 16 + (y % 16 * 4 + z / 64) / 4 = y := by omega
    have e3 : (y % 16 * 4 + z / 64) % 4 * 64 + z % 64 = z := by omega
    have ih' := ih (fun b h => hb b (by simp [h]))
    match rest, ih' with
    | [], _ =>
      simp only [encode, decode, pad, n3, n4, and_false, if_false, h1, h2, h3, h4, e1, e2, e3]
    | r :: rs, ih' =>
      obtain ⟨c, t, hct⟩ := encode_cons_ne_nil a r rs
      rw [hct] at ih' ⊢
      simp only [decode, h1, h2, h3, h4, ih', e1, e2, e3]

end Dropshot.Base64
