/-
Helper lemmas for C07: the derived schema and serde's acceptance coincide up
to `format` (`sound_complete`), by mutual structural recursion on `Ty`/`Fields`
with one step lemma per constructor.
-/
import DropshotModel.OpenApiDoc07
namespace Dropshot.Doc07
open Dropshot.Schema

theorem mapM_isSome {α β} (f : α → Option β) (xs : List α) :
    (xs.mapM f).isSome = xs.all (fun x => (f x).isSome) := by
  induction xs with
  | nil => simp
  | cons x xs ih =>
    simp only [List.mapM_cons, List.all_cons]
    cases h : f x <;> simp [h, bind, Option.bind]
    rw [← ih]; cases xs.mapM f <;> simp

theorem lookup_none_hasKey (k : String) (kvs : List (String × J)) :
    (J.lookup k kvs = none) ↔ J.hasKey k kvs = false := by
  induction kvs with
  | nil => simp [J.lookup, J.hasKey]
  | cons kv rest ih =>
    obtain ⟨l, v⟩ := kv
    simp only [J.lookup, J.hasKey, List.any_cons] at *
    by_cases h : k = l
    · subst h; simp
    · have : (l == k) = false := by simp; exact fun h' => h h'.symm
      simp [h, this, ih]

theorem lookup_some_hasKey (k : String) (kvs : List (String × J)) (v : J) (h : J.lookup k kvs = some v) :
    J.hasKey k kvs = true := by
  cases hk : J.hasKey k kvs
  · rw [← lookup_none_hasKey] at hk; simp [hk] at h
  · rfl

variable (ρ : Env)

def P (t : Ty) : Prop := ∀ j, (decodeJson t j).isSome = ((schemaOf t).valid ρ j && formatOk t j)
def Q (fs : Fields) : Prop := ∀ kvs, (decodeFields fs kvs).isSome =
  ((requiredOf fs).all (fun r => J.hasKey r kvs) && (propsOf fs).valid ρ kvs && formatOkFields fs kvs)


theorem valid_typed (t fmt en num arr ob ext j) :
    (mkTyped t fmt en num arr ob ext).valid ρ j =
      ((t.admits j && enumOk en j && numOk num j && arr.valid ρ j && ob.valid ρ j)
        || (extNullable ext && j.isNull && enumOk en j)) := by
  simp [mkTyped, JS.valid, typeOk, constOk, JSSubs.valid, strOk, optAll, Bool.and_assoc]

theorem extNullable_nil : extNullable [] = false := by simp [extNullable, J.lookup]
theorem extNullable_nullableExt : extNullable nullableExt = true := by
  simp [extNullable, nullableExt, J.lookup]

theorem p_bool : P ρ .bool := by
  intro j; cases j <;> simp [decodeJson, schemaOf, valid_typed, IType.admits, enumOk, numOk, optAll,
    JSArr.valid, JSObjV.valid, formatOk, extNullable_nil]

theorem p_str : P ρ .str := by
  intro j; cases j <;> simp [decodeJson, schemaOf, valid_typed, IType.admits, enumOk, numOk, optAll,
    JSArr.valid, JSObjV.valid, formatOk, extNullable_nil]

theorem p_unit : P ρ .unit := by
  intro j; cases j <;> simp [decodeJson, schemaOf, valid_typed, IType.admits, enumOk, numOk, optAll,
    JSArr.valid, JSObjV.valid, formatOk, extNullable_nil]

theorem p_uuid : P ρ .uuid := by
  intro j; cases j <;> simp [decodeJson, schemaOf, valid_typed, IType.admits, enumOk, numOk, optAll,
    JSArr.valid, JSObjV.valid, formatOk, extNullable_nil]
  split <;> simp_all

theorem p_int (w s) : P ρ (.int w s) := by
  intro j; cases j <;> cases s <;> simp [decodeJson, schemaOf, valid_typed, IType.admits, enumOk, numOk, optAll,
    JSArr.valid, JSObjV.valid, formatOk, extNullable_nil, NumV.ok]
  all_goals (split <;> simp_all [inRange, intMin])


theorem p_nonzero (w) : P ρ (.nonzero w) := by
  intro j; cases j <;> simp [decodeJson, schemaOf, valid_typed, IType.admits, enumOk, numOk, optAll,
    JSArr.valid, JSObjV.valid, formatOk, extNullable_nil, NumV.ok]
  split <;> simp_all

theorem beq_str_str (a b : String) : J.beq (.str a) (.str b) = (a == b) := by simp [J.beq]

theorem any_beq_str (vs : List String) (s : String) :
    (vs.map J.str).any (J.beq (.str s)) = vs.contains s := by
  induction vs with
  | nil => simp
  | cons v vs ih =>
    simp only [List.map_cons, List.any_cons, beq_str_str, ih, List.contains_cons]

theorem p_enum (vs) : P ρ (.enumOf vs) := by
  intro j
  have h : ∀ s, enumOk (some (vs.map J.str)) (.str s) = vs.contains s := fun s => any_beq_str vs s
  cases j <;> simp [decodeJson, schemaOf, valid_typed, IType.admits, numOk, optAll,
    JSArr.valid, JSObjV.valid, formatOk, extNullable_nil, h]
  split <;> simp_all


/-- a schema on which adding `nullable: true` just adds `null`. -/
def Plain (s : JS) : Prop :=
  ∃ md ty fmt subs num str arr ob ext, s = .obj md ty fmt none none subs num str arr ob none ext
    ∧ (ty.isSome = true ∨ subs.isSome = true) ∧ (ext = [] ∨ ext = nullableExt)

theorem withNullable_valid (s : JS) (h : Plain s) (j : J) :
    (withNullable s).valid ρ j = (s.valid ρ j || j.isNull) := by
  obtain ⟨md, ty, fmt, subs, num, str, arr, ob, ext, rfl, h1, h2⟩ := h
  rcases h2 with rfl | rfl
  · simp only [withNullable, JS.valid, extNullable_nil, extNullable_nullableExt, enumOk, constOk, optAll]
    cases j <;> simp [J.isNull]
    rcases h1 with h1 | h1 <;> simp [h1]
  · simp only [withNullable, JS.valid, extNullable_nullableExt, enumOk, constOk, optAll]
    cases j <;> simp [J.isNull]
    rcases h1 with h1 | h1 <;> simp [h1]

theorem nullableWrap_valid (s : JS) (j : J) :
    (nullableWrap s).valid ρ j = (s.valid ρ j || j.isNull) := by
  simp [nullableWrap, JS.valid, typeOk, enumOk, constOk, JSSubs.valid, JSOptList.allOk, JSOptList.anyOk,
    JSOptList.oneOk, JSList.vals, numOk, strOk, optAll, JSArr.valid, JSObjV.valid,
    extNullable_nullableExt, JSSubs.isSome]

theorem plain_withNullable (s : JS) (h : Plain s) : Plain (withNullable s) := by
  obtain ⟨md, ty, fmt, subs, num, str, arr, ob, ext, rfl, h1, _⟩ := h
  exact ⟨md, ty, fmt, subs, num, str, arr, ob, nullableExt, rfl, h1, .inr rfl⟩

theorem plain_mkTyped (t fmt num arr ob) : Plain (mkTyped t fmt none num arr ob []) :=
  ⟨none, some (.single t), fmt, .none, num, none, arr, ob, [], rfl, .inl rfl, .inl rfl⟩

theorem plain_schemaOf : (t : Ty) → t.isRef = false → Plain (schemaOf t)
  | .bool, _ => by simp only [schemaOf]; exact plain_mkTyped _ _ _ _ _
  | .int _ _, _ => by simp only [schemaOf]; exact plain_mkTyped _ _ _ _ _
  | .nonzero _, _ => by simp only [schemaOf]; exact plain_mkTyped _ _ _ _ _
  | .str, _ => by simp only [schemaOf]; exact plain_mkTyped _ _ _ _ _
  | .uuid, _ => by simp only [schemaOf]; exact plain_mkTyped _ _ _ _ _
  | .vec _, _ => by simp only [schemaOf]; exact plain_mkTyped _ _ _ _ _
  | .map _, _ => by simp only [schemaOf]; exact plain_mkTyped _ _ _ _ _
  | .unit, _ => by simp only [schemaOf]; exact plain_mkTyped _ _ _ _ _
  | .opt t, _ => by
    simp only [schemaOf]
    split
    · exact ⟨_, _, _, _, _, _, _, _, _, rfl, .inr rfl, .inr rfl⟩
    · rename_i h; exact plain_withNullable _ (plain_schemaOf t (by simpa using h))
  | .enumOf _, h => by simp [Ty.isRef] at h
  | .struct _, h => by simp [Ty.isRef] at h

theorem schemaOf_opt_valid (t : Ty) (j : J) :
    (schemaOf (.opt t)).valid ρ j = ((schemaOf t).valid ρ j || j.isNull) := by
  simp only [schemaOf]
  split
  · exact nullableWrap_valid ρ _ j
  · rename_i h; exact withNullable_valid ρ _ (plain_schemaOf t (by simpa using h)) j

theorem p_opt (t) (ih : P ρ t) : P ρ (.opt t) := by
  intro j
  rw [schemaOf_opt_valid]
  simp only [decodeJson, formatOk]
  cases hj : j.isNull
  · simp [ih j]
  · simp

theorem p_vec (t) (ih : P ρ t) : P ρ (.vec t) := by
  intro j
  cases j <;> simp [decodeJson, schemaOf, valid_typed, IType.admits, enumOk, numOk, optAll,
    JSArr.valid, JSObjV.valid, formatOk, extNullable_nil]
  rename_i xs
  rw [mapM_isSome]
  have : ∀ x, (decodeJson t x).isSome = ((schemaOf t).valid ρ x && formatOk t x) := ih
  simp only [this]
  induction xs with
  | nil => simp
  | cons x xs ihx => simp [ihx]; cases (schemaOf t).valid ρ x <;> cases formatOk t x <;> simp

theorem p_map (t) (ih : P ρ t) : P ρ (.map t) := by
  intro j
  cases j <;> simp [decodeJson, schemaOf, valid_typed, IType.admits, enumOk, numOk, optAll,
    JSArr.valid, JSObjV.valid, formatOk, extNullable_nil, JSProps.valid, JSProps.patValid, JSProps.keys,
    JSOpt.valid]
  rename_i kvs
  rw [mapM_isSome]
  have : ∀ x, (decodeJson t x).isSome = ((schemaOf t).valid ρ x && formatOk t x) := ih
  simp only [Option.isSome_map, this]
  induction kvs with
  | nil => simp
  | cons x xs ihx => simp [ihx]; cases (schemaOf t).valid ρ x.2 <;> cases formatOk t x.2 <;> simp

theorem p_struct (fs) (ih : Q ρ fs) : P ρ (.struct fs) := by
  intro j
  cases j <;> simp [decodeJson, schemaOf, valid_typed, IType.admits, enumOk, numOk, optAll,
    JSArr.valid, JSObjV.valid, formatOk, extNullable_nil, JSProps.patValid, JSProps.keys, JSOpt.valid]
  rename_i kvs
  have := ih kvs
  simp [this, Bool.and_assoc]
  cases (requiredOf fs).all (fun r => J.hasKey r kvs) <;> cases JSProps.valid ρ (propsOf fs) kvs <;> simp

theorem q_nil : Q ρ .nil := by
  intro kvs; simp [decodeFields, requiredOf, propsOf, JSProps.valid, formatOkFields]

theorem q_cons (name ty dflt rest) (ih1 : P ρ ty) (ih2 : Q ρ rest) : Q ρ (.cons name ty dflt rest) := by
  intro kvs
  simp only [decodeFields, requiredOf, propsOf, JSProps.valid, formatOkFields]
  cases hl : J.lookup name kvs with
  | none =>
    have hk : J.hasKey name kvs = false := (lookup_none_hasKey name kvs).1 hl
    cases ho : (dflt || ty.isOpt)
    · simp [hk]
    · simp [ih2 kvs]
  | some v =>
    have hk : J.hasKey name kvs = true := lookup_some_hasKey name kvs v hl
    have h1 := ih1 v
    cases hd : decodeJson ty v with
    | none =>
      rw [hd] at h1
      have : ((schemaOf ty).valid ρ v && formatOk ty v) = false := by simpa using h1.symm
      cases ho : (dflt || ty.isOpt) <;> simp [hk] <;>
        (cases hv : (schemaOf ty).valid ρ v <;> cases hf : formatOk ty v <;> simp_all)
    | some x =>
      rw [hd] at h1
      have : ((schemaOf ty).valid ρ v && formatOk ty v) = true := by simpa using h1.symm
      simp only [Bool.and_eq_true] at this
      cases ho : (dflt || ty.isOpt) <;> simp [hk, hd, ih2 kvs, this.1, this.2, Bool.and_assoc, Bool.and_left_comm]

mutual
theorem sound_complete : (t : Ty) → P ρ t
  | .bool => p_bool ρ
  | .int w s => p_int ρ w s
  | .nonzero w => p_nonzero ρ w
  | .str => p_str ρ
  | .uuid => p_uuid ρ
  | .enumOf vs => p_enum ρ vs
  | .opt t => p_opt ρ t (sound_complete t)
  | .vec t => p_vec ρ t (sound_complete t)
  | .map t => p_map ρ t (sound_complete t)
  | .struct fs => p_struct ρ fs (sound_complete_fields fs)
  | .unit => p_unit ρ
theorem sound_complete_fields : (fs : Fields) → Q ρ fs
  | .nil => q_nil ρ
  | .cons name ty dflt rest => q_cons ρ name ty dflt rest (sound_complete ty) (sound_complete_fields rest)
end

end Dropshot.Doc07
