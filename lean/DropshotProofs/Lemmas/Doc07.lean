/-
Helper lemmas for C07: the derived schema and serde's acceptance coincide up
to `format` (`sound_complete`), by mutual structural recursion on `Ty`/`Fields`
with one step lemma per constructor.
-/
import DropshotModel.OpenApiDoc07
import DropshotProofs.Lemmas.J2Oas
namespace Dropshot.Doc07
open Dropshot.Schema

theorem mapM_isSome {α β} (f : α → Option β) (xs : List α) :
    (xs.mapM f).isSome = xs.all (fun x => (f x).isSome) := by
  induction xs with
  | nil => simp
  | cons x xs ih =>
    simp only [List.mapM_cons, List.all_cons]
    cases h : f x <;> simp [h, bind, Option.bind]
    rw [← ih]; cases xs.mapM f <;> simp

theorem lookup_none_hasKey (k : String) (kvs : List (String × J)) :
    (J.lookup k kvs = none) ↔ J.hasKey k kvs = false := by
  induction kvs with
  | nil => simp [J.lookup, J.hasKey]
  | cons kv rest ih =>
    obtain ⟨l, v⟩ := kv
    simp only [J.lookup, J.hasKey, List.any_cons] at *
    by_cases h : k = l
    · subst h; simp
    · have : (l == k) = false := by simp; exact fun h' => h h'.symm
      simp [h, this, ih]

theorem lookup_some_hasKey (k : String) (kvs : List (String × J)) (v : J) (h : J.lookup k kvs = some v) :
    J.hasKey k kvs = true := by
  cases hk : J.hasKey k kvs
  · rw [← lookup_none_hasKey] at hk; simp [hk] at h
  · rfl

variable (ρ : Env)

def P (t : Ty) : Prop := ∀ j, (decodeJson t j).isSome = ((schemaOf t).valid ρ j && formatOk t j)
def Q (fs : Fields) : Prop := ∀ kvs, (decodeFields fs kvs).isSome =
  ((requiredOf fs).all (fun r => J.hasKey r kvs) && (propsOf fs).valid ρ kvs && formatOkFields fs kvs)


theorem valid_typed (t fmt en num arr ob ext j) :
    (mkTyped t fmt en num arr ob ext).valid ρ j =
      ((t.admits j && enumOk en j && numOk num j && arr.valid ρ j && ob.valid ρ j)
        || (extNullable ext && j.isNull && enumOk en j)) := by
  simp [mkTyped, JS.valid, typeOk, constOk, JSSubs.valid, strOk, optAll, Bool.and_assoc]

theorem extNullable_nil : extNullable [] = false := by simp [extNullable, J.lookup]
theorem extNullable_nullableExt : extNullable nullableExt = true := by
  simp [extNullable, nullableExt, J.lookup]

theorem p_bool : P ρ .bool := by
  intro j; cases j <;> simp [decodeJson, schemaOf, valid_typed, IType.admits, enumOk, numOk, optAll,
    JSArr.valid, JSObjV.valid, formatOk, extNullable_nil]

theorem p_str : P ρ .str := by
  intro j; cases j <;> simp [decodeJson, schemaOf, valid_typed, IType.admits, enumOk, numOk, optAll,
    JSArr.valid, JSObjV.valid, formatOk, extNullable_nil]

theorem p_unit : P ρ .unit := by
  intro j; cases j <;> simp [decodeJson, schemaOf, valid_typed, IType.admits, enumOk, numOk, optAll,
    JSArr.valid, JSObjV.valid, formatOk, extNullable_nil]

theorem p_uuid : P ρ .uuid := by
  intro j; cases j <;> simp [decodeJson, schemaOf, valid_typed, IType.admits, enumOk, numOk, optAll,
    JSArr.valid, JSObjV.valid, formatOk, extNullable_nil]
  split <;> simp_all

theorem p_int (w s) : P ρ (.int w s) := by
  intro j; cases j <;> cases s <;> simp [decodeJson, schemaOf, valid_typed, IType.admits, enumOk, numOk, optAll,
    JSArr.valid, JSObjV.valid, formatOk, extNullable_nil, NumV.ok]
  all_goals (split <;> simp_all [inRange, intMin])


theorem p_nonzero (w) : P ρ (.nonzero w) := by
  intro j; cases j <;> simp [decodeJson, schemaOf, valid_typed, IType.admits, enumOk, numOk, optAll,
    JSArr.valid, JSObjV.valid, formatOk, extNullable_nil, NumV.ok]
  split <;> simp_all

theorem beq_str_str (a b : String) : J.beq (.str a) (.str b) = (a == b) := by simp [J.beq]

theorem any_beq_str (vs : List String) (s : String) :
    (vs.map J.str).any (J.beq (.str s)) = vs.contains s := by
  induction vs with
  | nil => simp
  | cons v vs ih =>
    simp only [List.map_cons, List.any_cons, beq_str_str, ih, List.contains_cons]

theorem p_enum (vs) : P ρ (.enumOf vs) := by
  intro j
  have h : ∀ s, enumOk (some (vs.map J.str)) (.str s) = vs.contains s := fun s => any_beq_str vs s
  cases j <;> simp [decodeJson, schemaOf, valid_typed, IType.admits, numOk, optAll,
    JSArr.valid, JSObjV.valid, formatOk, extNullable_nil, h]
  split <;> simp_all


/-- a schema on which adding `nullable: true` just adds `null`. -/
def Plain (s : JS) : Prop :=
  ∃ md ty fmt subs num str arr ob ext, s = .obj md ty fmt none none subs num str arr ob none ext
    ∧ (ty.isSome = true ∨ subs.isSome = true) ∧ (ext = [] ∨ ext = nullableExt)

theorem withNullable_valid (s : JS) (h : Plain s) (j : J) :
    (withNullable s).valid ρ j = (s.valid ρ j || j.isNull) := by
  obtain ⟨md, ty, fmt, subs, num, str, arr, ob, ext, rfl, h1, h2⟩ := h
  rcases h2 with rfl | rfl
  · simp only [withNullable, JS.valid, extNullable_nil, extNullable_nullableExt, enumOk, constOk, optAll]
    cases j <;> simp [J.isNull]
    rcases h1 with h1 | h1 <;> simp [h1]
  · simp only [withNullable, JS.valid, extNullable_nullableExt, enumOk, constOk, optAll]
    cases j <;> simp [J.isNull]
    rcases h1 with h1 | h1 <;> simp [h1]

theorem nullableWrap_valid (s : JS) (j : J) :
    (nullableWrap s).valid ρ j = (s.valid ρ j || j.isNull) := by
  simp [nullableWrap, JS.valid, typeOk, enumOk, constOk, JSSubs.valid, JSOptList.allOk, JSOptList.anyOk,
    JSOptList.oneOk, JSList.vals, numOk, strOk, optAll, JSArr.valid, JSObjV.valid,
    extNullable_nullableExt, JSSubs.isSome]

theorem plain_withNullable (s : JS) (h : Plain s) : Plain (withNullable s) := by
  obtain ⟨md, ty, fmt, subs, num, str, arr, ob, ext, rfl, h1, _⟩ := h
  exact ⟨md, ty, fmt, subs, num, str, arr, ob, nullableExt, rfl, h1, .inr rfl⟩

theorem plain_mkTyped (t fmt num arr ob) : Plain (mkTyped t fmt none num arr ob []) :=
  ⟨none, some (.single t), fmt, .none, num, none, arr, ob, [], rfl, .inl rfl, .inl rfl⟩

theorem plain_schemaOf : (t : Ty) → t.isRef = false → Plain (schemaOf t)
  | .bool, _ => by simp only [schemaOf]; exact plain_mkTyped _ _ _ _ _
  | .int _ _, _ => by simp only [schemaOf]; exact plain_mkTyped _ _ _ _ _
  | .nonzero _, _ => by simp only [schemaOf]; exact plain_mkTyped _ _ _ _ _
  | .str, _ => by simp only [schemaOf]; exact plain_mkTyped _ _ _ _ _
  | .uuid, _ => by simp only [schemaOf]; exact plain_mkTyped _ _ _ _ _
  | .vec _, _ => by simp only [schemaOf]; exact plain_mkTyped _ _ _ _ _
  | .map _, _ => by simp only [schemaOf]; exact plain_mkTyped _ _ _ _ _
  | .unit, _ => by simp only [schemaOf]; exact plain_mkTyped _ _ _ _ _
  | .opt t, _ => by
    simp only [schemaOf]
    split
    · exact ⟨_, _, _, _, _, _, _, _, _, rfl, .inr rfl, .inr rfl⟩
    · rename_i h; exact plain_withNullable _ (plain_schemaOf t (by simpa using h))
  | .enumOf _, h => by simp [Ty.isRef] at h
  | .struct _, h => by simp [Ty.isRef] at h
  | .untagged _, h => by simp [Ty.isRef] at h

theorem schemaOf_opt_valid (t : Ty) (j : J) :
    (schemaOf (.opt t)).valid ρ j = ((schemaOf t).valid ρ j || j.isNull) := by
  simp only [schemaOf]
  split
  · exact nullableWrap_valid ρ _ j
  · rename_i h; exact withNullable_valid ρ _ (plain_schemaOf t (by simpa using h)) j

theorem p_opt (t) (ih : P ρ t) : P ρ (.opt t) := by
  intro j
  rw [schemaOf_opt_valid]
  simp only [decodeJson, formatOk]
  cases hj : j.isNull
  · simp [ih j]
  · simp

theorem p_vec (t) (ih : P ρ t) : P ρ (.vec t) := by
  intro j
  cases j <;> simp [decodeJson, schemaOf, valid_typed, IType.admits, enumOk, numOk, optAll,
    JSArr.valid, JSObjV.valid, formatOk, extNullable_nil]
  rename_i xs
  rw [mapM_isSome]
  have : ∀ x, (decodeJson t x).isSome = ((schemaOf t).valid ρ x && formatOk t x) := ih
  simp only [this]
  induction xs with
  | nil => simp
  | cons x xs ihx => simp [ihx]; cases (schemaOf t).valid ρ x <;> cases formatOk t x <;> simp

theorem p_map (t) (ih : P ρ t) : P ρ (.map t) := by
  intro j
  cases j <;> simp [decodeJson, schemaOf, valid_typed, IType.admits, enumOk, numOk, optAll,
    JSArr.valid, JSObjV.valid, formatOk, extNullable_nil, JSProps.valid, JSProps.patValid, JSProps.keys,
    JSOpt.valid]
  rename_i kvs
  rw [mapM_isSome]
  have : ∀ x, (decodeJson t x).isSome = ((schemaOf t).valid ρ x && formatOk t x) := ih
  simp only [Option.isSome_map, this]
  induction kvs with
  | nil => simp
  | cons x xs ihx => simp [ihx]; cases (schemaOf t).valid ρ x.2 <;> cases formatOk t x.2 <;> simp

theorem p_struct (fs) (ih : Q ρ fs) : P ρ (.struct fs) := by
  intro j
  cases j <;> simp [decodeJson, schemaOf, valid_typed, IType.admits, enumOk, numOk, optAll,
    JSArr.valid, JSObjV.valid, formatOk, extNullable_nil, JSProps.patValid, JSProps.keys, JSOpt.valid]
  rename_i kvs
  have := ih kvs
  simp [this, Bool.and_assoc]
  cases (requiredOf fs).all (fun r => J.hasKey r kvs) <;> cases JSProps.valid ρ (propsOf fs) kvs <;> simp

theorem q_nil : Q ρ .nil := by
  intro kvs; simp [decodeFields, requiredOf, propsOf, JSProps.valid, formatOkFields]

theorem q_cons (name ty dflt rest) (ih1 : P ρ ty) (ih2 : Q ρ rest) : Q ρ (.cons name ty dflt rest) := by
  intro kvs
  simp only [decodeFields, requiredOf, propsOf, JSProps.valid, formatOkFields]
  cases hl : J.lookup name kvs with
  | none =>
    have hk : J.hasKey name kvs = false := (lookup_none_hasKey name kvs).1 hl
    cases ho : (dflt || ty.isOpt)
    · simp [hk]
    · simp [ih2 kvs]
  | some v =>
    have hk : J.hasKey name kvs = true := lookup_some_hasKey name kvs v hl
    have h1 := ih1 v
    cases hd : decodeJson ty v with
    | none =>
      rw [hd] at h1
      have : ((schemaOf ty).valid ρ v && formatOk ty v) = false := by simpa using h1.symm
      cases ho : (dflt || ty.isOpt) <;> simp [hk] <;>
        (cases hv : (schemaOf ty).valid ρ v <;> cases hf : formatOk ty v <;> simp_all)
    | some x =>
      rw [hd] at h1
      have : ((schemaOf ty).valid ρ v && formatOk ty v) = true := by simpa using h1.symm
      simp only [Bool.and_eq_true] at this
      cases ho : (dflt || ty.isOpt) <;> simp [hk, hd, ih2 kvs, this.1, this.2, Bool.and_assoc, Bool.and_left_comm]

/-- an alternative that decodes makes the `anyOf` valid. -/
def R (alts : TyList) : Prop :=
  ∀ j, (decodeAlts alts j).isSome = true → ((schemaListOf alts).vals ρ j).any id = true

theorem r_nil : R ρ .nil := by intro j h; simp [decodeAlts] at h

theorem r_cons (t rest) (ih1 : P ρ t) (ih2 : R ρ rest) : R ρ (.cons t rest) := by
  intro j h
  simp only [decodeAlts] at h
  simp only [schemaListOf, JSList.vals, List.any_cons, id]
  cases hd : decodeJson t j with
  | some v =>
    have := ih1 j
    rw [hd] at this
    have hv : ((schemaOf t).valid ρ j && formatOk t j) = true := by simpa using this.symm
    simp only [Bool.and_eq_true] at hv
    simp [hv.1]
  | none =>
    rw [hd] at h
    simp [ih2 j h]

theorem anyOfSchema_valid (l : JSList) (j : J) :
    (anyOfSchema l).valid ρ j = ((l.vals ρ j).any id) := by
  simp [anyOfSchema, JS.valid, typeOk, enumOk, constOk, JSSubs.valid, JSOptList.allOk, JSOptList.anyOk,
    JSOptList.oneOk, numOk, strOk, optAll, JSArr.valid, JSObjV.valid, extNullable_nil]

theorem p_untagged (alts) (ih : R ρ alts) : P ρ (.untagged alts) := by
  intro j
  simp only [decodeJson, schemaOf, formatOk, anyOfSchema_valid]
  cases h : (decodeAlts alts j).isSome
  · simp
  · simp [ih j h]

mutual
theorem sound_complete : (t : Ty) → P ρ t
  | .bool => p_bool ρ
  | .int w s => p_int ρ w s
  | .nonzero w => p_nonzero ρ w
  | .str => p_str ρ
  | .uuid => p_uuid ρ
  | .enumOf vs => p_enum ρ vs
  | .opt t => p_opt ρ t (sound_complete t)
  | .vec t => p_vec ρ t (sound_complete t)
  | .map t => p_map ρ t (sound_complete t)
  | .struct fs => p_struct ρ fs (sound_complete_fields fs)
  | .unit => p_unit ρ
  | .untagged alts => p_untagged ρ alts (sound_complete_alts alts)
theorem sound_complete_fields : (fs : Fields) → Q ρ fs
  | .nil => q_nil ρ
  | .cons name ty dflt rest => q_cons ρ name ty dflt rest (sound_complete ty) (sound_complete_fields rest)
theorem sound_complete_alts : (alts : TyList) → R ρ alts
  | .nil => r_nil ρ
  | .cons t rest => r_cons ρ t rest (sound_complete t) (sound_complete_alts rest)
end

/-! ### Parameter extraction -/

theorem extract_err_400 : (fs : Fields) → (q : List (String × String)) → (e : Nat) →
    extractParams fs q = .error e → e = 400
  | .nil, q, e, h => by simp [extractParams] at h
  | .cons name ty dflt rest, q, e, h => by
    simp only [extractParams] at h
    split at h
    · split at h
      · split at h
        · simp at h
        · rename_i e' he; simp at h; subst h; exact extract_err_400 rest q _ he
      · simp at h; exact h.symm
    · split at h
      · simp at h; exact h.symm
      · split at h
        · simp at h
        · rename_i e' he; simp at h; subst h; exact extract_err_400 rest q _ he

theorem extract_missing : (fs : Fields) → (q : List (String × String)) → (n : String) → (s : JS) →
    (n, true, s) ∈ paramList fs → lookupStr n q = none → ∀ r, extractParams fs q ≠ .ok r
  | .nil, q, n, s, hm, _, r => by simp [paramList] at hm
  | .cons name ty dflt rest, q, n, s, hm, hq, r => by
    simp only [paramList, List.mem_cons] at hm
    simp only [extractParams]
    rcases hm with hm | hm
    · simp at hm
      obtain ⟨rfl, ho, _⟩ := hm
      simp [hq, ho]
    · have ih := extract_missing rest q n s hm hq
      split
      · split
        · split
          · rename_i r' hr'; exact absurd hr' (ih r')
          · simp
        · simp
      · split
        · simp
        · split
          · rename_i r' hr'; exact absurd hr' (ih r')
          · simp


theorem extract_ok (ρ : Env) : (fs : Fields) → (q : List (String × String)) →
    (∀ n s, (n, true, s) ∈ paramList fs → (lookupStr n q).isSome = true) →
    (∀ n t d, (n, t, d) ∈ fs.toList → ∀ v, lookupStr n q = some v →
      ∃ j, readParam t v = some j ∧ (schemaOf t).valid ρ j = true ∧ formatOk t j = true) →
    ∃ r, extractParams fs q = .ok r
  | .nil, q, _, _ => ⟨[], rfl⟩
  | .cons name ty dflt rest, q, h1, h2 => by
    have ih := extract_ok ρ rest q
      (fun n s hm => h1 n s (by simp [paramList, hm]))
      (fun n t d hm => h2 n t d (by simp [Fields.toList, hm]))
    obtain ⟨r, hr⟩ := ih
    simp only [extractParams]
    cases hl : lookupStr name q with
    | none =>
      cases ho : (dflt || ty.isOpt)
      · have := h1 name (schemaOf ty) (by simp [paramList, ho])
        simp [hl] at this
      · simp [hr]
    | some v =>
      obtain ⟨j, hj1, hj2, hj3⟩ := h2 name ty dflt (by simp [Fields.toList]) v hl
      have hd : (decodeJson ty j).isSome = true := by rw [sound_complete ρ ty j]; simp [hj2, hj3]
      obtain ⟨x, hx⟩ := Option.isSome_iff_exists.1 hd
      simp [decodeStr, hj1, hx, hr]


/-! ### Derived schemas are convertible and supported -/

def isOk {ε α} : Except ε α → Bool
  | .ok _ => true
  | .error _ => false

theorem isOk_iff {ε α} (x : Except ε α) : isOk x = true ↔ ∃ a, x = .ok a := by
  cases x <;> simp [isOk]

theorem supported_withNullable (s : JS) : (withNullable s).supported = s.supported := by
  cases s <;> simp [withNullable, JS.supported]

theorem j2oas_withNullable (n : Option String) (s : JS) :
    isOk (j2oas n (withNullable s)) = isOk (j2oas n s) := by
  cases s with
  | bool b => rfl
  | obj md ty fmt en cv subs num str arr ob rf ext =>
    simp only [withNullable, j2oas]
    cases rf with
    | some r => rfl
    | none =>
      simp only
      split <;> simp [isOk]


theorem convEnum_strs (vs : List String) : convEnum asStr (vs.map J.str) = .ok (vs.map some) := by
  induction vs with
  | nil => rfl
  | cons v vs ih => simp [convEnum, asStr, ih]

theorem j2oasAddl_some (s : JS) (h : isOk (j2oas none s) = true) : isOk (j2oasAddl (.some s)) = true := by
  cases s with
  | bool b => rfl
  | obj md ty fmt en cv subs num str arr ob rf ext =>
    obtain ⟨r, hr⟩ := (isOk_iff _).1 h
    simp [j2oasAddl, hr, isOk]

def TotalT (t : Ty) : Prop := ∀ n, isOk (j2oas n (schemaOf t)) = true
def TotalF (fs : Fields) : Prop := isOk (j2oasProps (propsOf fs)) = true

theorem total_scalar (n : Option String) :
    isOk (j2oas n (schemaOf .bool)) = true ∧ isOk (j2oas n (schemaOf .str)) = true
    ∧ isOk (j2oas n (schemaOf .uuid)) = true ∧ isOk (j2oas n (schemaOf .unit)) = true := by
  refine ⟨?_, ?_, ?_, ?_⟩ <;>
    simp [schemaOf, mkTyped, j2oas, tyArm, j2oasBoolean, j2oasString, convEnumOpt, isOk]

theorem total_int (w s n) : isOk (j2oas n (schemaOf (.int w s))) = true := by
  cases s <;> simp [schemaOf, mkTyped, j2oas, tyArm, j2oasInteger, j2oasNumeric, bound, convEnumOpt, isOk]

theorem total_nonzero (w n) : isOk (j2oas n (schemaOf (.nonzero w))) = true := by
  simp [schemaOf, mkTyped, j2oas, tyArm, j2oasInteger, j2oasNumeric, bound, convEnumOpt, isOk]

theorem total_enum (vs n) : isOk (j2oas n (schemaOf (.enumOf vs))) = true := by
  simp [schemaOf, mkTyped, j2oas, tyArm, j2oasString, convEnumOpt, convEnum_strs, isOk]

theorem total_opt (t) (ih : TotalT t) : TotalT (.opt t) := by
  intro n
  simp only [schemaOf]
  split
  · obtain ⟨r, hr⟩ := (isOk_iff _).1 (ih none)
    simp [nullableWrap, j2oas, tyArm, j2oasSubschemas, j2oasList, hr, isOk]
  · rw [j2oas_withNullable]; exact ih n

theorem total_vec (t) (ih : TotalT t) : TotalT (.vec t) := by
  intro n
  obtain ⟨r, hr⟩ := (isOk_iff _).1 (ih none)
  simp [schemaOf, mkTyped, j2oas, tyArm, j2oasArray, j2oasItems, hr, isOk]

theorem total_map (t) (ih : TotalT t) : TotalT (.map t) := by
  intro n
  obtain ⟨a, ha⟩ := (isOk_iff _).1 (j2oasAddl_some _ (ih none))
  simp [schemaOf, mkTyped, j2oas, tyArm, j2oasObject, j2oasProps, ha, isOk]

theorem total_struct (fs) (ih : TotalF fs) : TotalT (.struct fs) := by
  intro n
  obtain ⟨ps, hps⟩ := (isOk_iff _).1 ih
  simp [schemaOf, mkTyped, j2oas, tyArm, j2oasObject, hps, j2oasAddl, isOk]

theorem total_cons (name ty d rest) (ih1 : TotalT ty) (ih2 : TotalF rest) : TotalF (.cons name ty d rest) := by
  obtain ⟨r, hr⟩ := (isOk_iff _).1 (ih1 none)
  obtain ⟨ps, hps⟩ := (isOk_iff _).1 ih2
  simp [TotalF, propsOf, j2oasProps, hr, hps, isOk]

def TotalL (alts : TyList) : Prop := isOk (j2oasList (schemaListOf alts)) = true

theorem total_untagged (alts) (ih : TotalL alts) : TotalT (.untagged alts) := by
  intro n
  obtain ⟨rs, hrs⟩ := (isOk_iff _).1 ih
  simp [schemaOf, anyOfSchema, j2oas, tyArm, j2oasSubschemas, hrs, isOk]

theorem totalL_cons (t rest) (ih1 : TotalT t) (ih2 : TotalL rest) : TotalL (.cons t rest) := by
  obtain ⟨r, hr⟩ := (isOk_iff _).1 (ih1 none)
  obtain ⟨rs, hrs⟩ := (isOk_iff _).1 ih2
  simp [TotalL, schemaListOf, j2oasList, hr, hrs, isOk]

mutual
theorem j2oas_total : (t : Ty) → TotalT t
  | .bool => fun n => (total_scalar n).1
  | .str => fun n => (total_scalar n).2.1
  | .uuid => fun n => (total_scalar n).2.2.1
  | .unit => fun n => (total_scalar n).2.2.2
  | .int w s => total_int w s
  | .nonzero w => total_nonzero w
  | .enumOf vs => total_enum vs
  | .opt t => total_opt t (j2oas_total t)
  | .vec t => total_vec t (j2oas_total t)
  | .map t => total_map t (j2oas_total t)
  | .struct fs => total_struct fs (j2oas_total_fields fs)
  | .untagged alts => total_untagged alts (j2oas_total_alts alts)
theorem j2oas_total_fields : (fs : Fields) → TotalF fs
  | .nil => rfl
  | .cons name ty d rest => total_cons name ty d rest (j2oas_total ty) (j2oas_total_fields rest)
theorem j2oas_total_alts : (alts : TyList) → TotalL alts
  | .nil => rfl
  | .cons t rest => totalL_cons t rest (j2oas_total t) (j2oas_total_alts rest)
end

def SupT (t : Ty) : Prop := t.wf = true → (schemaOf t).supported = true
def SupF (fs : Fields) : Prop := fs.wf = true → (propsOf fs).supported = true
def SupL (alts : TyList) : Prop := alts.wf = true → (schemaListOf alts).supported = true

theorem sup_opt (t) (ih : SupT t) : SupT (.opt t) := by
  intro h
  have := ih (by simpa [Ty.wf] using h)
  simp only [schemaOf]
  split
  · simp [nullableWrap, JS.supported, tyArm, numTrivial, strTrivial, JSArr.trivial, JSObjV.trivial,
      JSSubs.supported, JSOptList.supported, JSList.supported, JSOpt.supported, this]
  · rw [supported_withNullable]; exact this

mutual
theorem schemaOf_supported : (t : Ty) → SupT t
  | .bool => fun _ => by simp [schemaOf, mkTyped, JS.supported, tyArm, enumNonEmpty]
  | .str => fun _ => by simp [schemaOf, mkTyped, JS.supported, tyArm, enumNonEmpty]
  | .uuid => fun _ => by simp [schemaOf, mkTyped, JS.supported, tyArm, enumNonEmpty]
  | .unit => fun h => by simp [Ty.wf] at h
  | .int w s => fun _ => by
    cases s <;> simp [schemaOf, mkTyped, JS.supported, tyArm, enumNonEmpty, numInI64, optAll, inI64, i64Min, i64Max]
  | .nonzero w => fun _ => by
    simp [schemaOf, mkTyped, JS.supported, tyArm, enumNonEmpty, numInI64, optAll, inI64, i64Min, i64Max]
  | .enumOf vs => fun h => by
    cases vs with
    | nil => simp [Ty.wf] at h
    | cons v vs => simp [schemaOf, mkTyped, JS.supported, tyArm, enumNonEmpty]
  | .opt t => sup_opt t (schemaOf_supported t)
  | .vec t => fun h => by
    have := schemaOf_supported t (by simpa [Ty.wf] using h)
    simp [schemaOf, mkTyped, JS.supported, tyArm, JSArr.supported, JSItems.supported, JSOpt.isNone, this]
  | .map t => fun h => by
    have := schemaOf_supported t (by simpa [Ty.wf] using h)
    simp [schemaOf, mkTyped, JS.supported, tyArm, JSObjV.supported, JSProps.supported, JSOpt.supported, this]
  | .struct fs => fun h => by
    have := schemaOf_supported_fields fs (by simpa [Ty.wf] using h)
    simp [schemaOf, mkTyped, JS.supported, tyArm, JSObjV.supported, JSOpt.supported, this]
  | .untagged alts => fun h => by
    have := schemaOf_supported_alts alts (by simpa [Ty.wf] using h)
    simp [schemaOf, anyOfSchema, JS.supported, tyArm, numTrivial, strTrivial, JSArr.trivial, JSObjV.trivial,
      JSSubs.supported, JSOptList.supported, JSOpt.supported, this]
theorem schemaOf_supported_fields : (fs : Fields) → SupF fs
  | .nil => fun _ => rfl
  | .cons name ty d rest => fun h => by
    simp only [Fields.wf, Bool.and_eq_true] at h
    simp [propsOf, JSProps.supported, schemaOf_supported ty h.1, schemaOf_supported_fields rest h.2]
theorem schemaOf_supported_alts : (alts : TyList) → SupL alts
  | .nil => fun _ => rfl
  | .cons t rest => fun h => by
    simp only [TyList.wf, Bool.and_eq_true] at h
    simp [schemaListOf, JSList.supported, schemaOf_supported t h.1, schemaOf_supported_alts rest h.2]
end

end Dropshot.Doc07
