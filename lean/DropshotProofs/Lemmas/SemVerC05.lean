/-
The C05 theorems (generic in a linearly ordered version type) instantiated at
the `semver` model: `V := WfSemVer` (well-formed versions,
DropshotProofs/Lemmas/SemVerOrder.lean), and transferred to the raw `SemVer`
ranges the C05 driver computes with (`Range.forget`).
-/
import DropshotProofs.C05
import DropshotProofs.Lemmas.SemVerOrder

namespace Dropshot.C05.SemVerInst
open Dropshot Range

/-- `matches` decides documented membership, on raw values of well-formed versions. -/
theorem matches_iff_mem (r : Range WfSemVer) (v : WfSemVer) :
    (forget r).matches (some v.1) = true ↔ Mem v.1 (forget r) := by
  rw [matches_forget, mem_forget]; exact C05.matches_iff_mem r v

/-- The conflict clause of C05 for semver ranges: for well-formed, non-empty
ranges `overlaps_with` holds iff some (well-formed) version belongs to both. -/
theorem overlaps_iff_partial (r s : Range WfSemVer) (hr : WF r) (hs : WF s)
    (ner : ∃ v, Mem v r) (nes : ∃ v, Mem v s) :
    overlaps (forget r) (forget s) = true ↔ ∃ v : WfSemVer, Mem v.1 (forget r) ∧ Mem v.1 (forget s) := by
  rw [overlaps_forget, C05.overlaps_iff_partial r s hr hs ner nes]
  simp only [mem_forget]

/-- The only empty well-formed semver range is `until 0.0.0-0` (finding K2). -/
theorem empty_iff_until_bot (r : Range WfSemVer) (hr : WF r) :
    (¬ ∃ v, Mem v r) ↔ r = .until WfSemVer.bot := by
  have : Nonempty WfSemVer := ⟨WfSemVer.bot⟩
  rw [C05.empty_iff_until_bot r hr]
  constructor
  · rintro ⟨b, rfl, hb⟩
    have : b = WfSemVer.bot := le_antisymm (hb _) (WfSemVer.bot_le b)
    rw [this]
  · intro h; exact ⟨WfSemVer.bot, h, WfSemVer.bot_le⟩

/-- The driver's probe pool (least version plus the ranges' endpoints) is complete. -/
theorem shared_in_pool (r s : Range WfSemVer) (h : ∃ v, Mem v r ∧ Mem v s) :
    ∃ v ∈ WfSemVer.bot :: (r.endpoints ++ s.endpoints), Mem v r ∧ Mem v s :=
  C05.shared_in_pool WfSemVer.bot WfSemVer.bot_le r s h

/-- A literal `0.0.0` lower bound is a bound like any other: the pre-releases of `0.0.0`
precede it, so `from 0.0.0` is not "all versions" and `from 0.0.0 until b` is not `until b`
(what an endpoint macro that "simplifies" such ranges gets wrong). -/
theorem from_zero_is_a_bound :
    let z : WfSemVer := ⟨{ major := 0, minor := 0, patch := 0, pre := [], build := [] }, by decide⟩
    let p : WfSemVer := ⟨{ major := 0, minor := 0, patch := 0, pre := [['a','l','p','h','a']], build := [] }, by decide⟩
    p < z ∧ ¬ Mem p (.from z) ∧ Mem p (.all : Range WfSemVer) ∧ Mem p (.until z) := by
  intro z p
  have h : p < z := by simp only [WfSemVer.lt_iff]; decide
  exact ⟨h, by simp only [Mem]; exact not_le.2 h, trivial, h⟩

-- non-vacuity: 1.0.0-alpha < 1.0.0 < 1.0.0+b as well-formed versions
example :
    let a : WfSemVer := ⟨{ major := 1, minor := 0, patch := 0, pre := [['a','l','p','h','a']], build := [] }, by decide⟩
    let b : WfSemVer := ⟨{ major := 1, minor := 0, patch := 0, pre := [], build := [] }, by decide⟩
    let c : WfSemVer := ⟨{ major := 1, minor := 0, patch := 0, pre := [], build := [['b']] }, by decide⟩
    a < b ∧ b < c ∧ WfSemVer.bot < a := by
  intro a b c
  simp only [WfSemVer.lt_iff]
  decide

end Dropshot.C05.SemVerInst
