/-
C11 — request bodies larger than the limit are never delivered.

Property theorems only.  Model: DropshotModel/BodyCap.lean (`into_stream`
frame loop, `http_dump_body`, `into_bytes_mut`, `request_body_max_bytes`).
All statements are for every frame list (data frames of any sizes, empty
frames, trailers and I/O errors anywhere) and every cap, by induction.
Excluded region (not a hypothesis, a modelling choice): `usize` overflow of
`bytes_read + len`, i.e. bodies of ≥ 2^64 bytes.
-/
import DropshotModel.BodyCap
import DropshotProofs.Lemmas.BodyCap

namespace Dropshot.C11
open Dropshot.BodyCap

/-! ### No consumer ever observes more than the cap -/

/-- **C11 (never more than the limit).**  Whatever the frames and however
the stream ends, the chunks yielded to the consumer total at most `cap`. -/
theorem delivered_le_cap (cap : Nat) (fs : List Frame) : total (stream cap fs).1 ≤ cap := by
  have := delivered_le_cap_aux cap fs 0 (Nat.zero_le _)
  simpa [stream] using this

/-- A streaming consumer's running total is within the cap after every chunk. -/
theorem running_totals_le_cap (cap : Nat) (fs : List Frame) :
    ∀ t ∈ runningTotals 0 (stream cap fs).1, t ≤ cap :=
  running_totals_le_cap_aux cap fs 0 (Nat.zero_le _)

/-- The buffering extractors (`UntypedBody`, `TypedBody`) never hold more than the cap. -/
theorem buffered_le_cap (cap : Nat) (fs : List Frame) (b : Bytes) (h : buffered cap fs = .ok b) :
    b.length ≤ cap := by
  unfold buffered at h
  split at h
  · rename_i cs hs
    cases h
    have := delivered_le_cap cap fs
    rw [hs] at this
    rw [length_flatten]
    exact this
  · cases h

/-! ### What is delivered is a prefix of what was sent, chunk for chunk -/

/-- **C11 (prefix).**  The consumer sees a prefix of the body's data frames —
never reordered, altered or invented bytes. -/
theorem prefix_only (cap : Nat) (fs : List Frame) : (stream cap fs).1 <+: dataOf fs :=
  prefix_only_aux cap fs 0

/-- **C11 (accepted bodies are delivered intact).** -/
theorem ok_intact (cap : Nat) (fs : List Frame) (h : (stream cap fs).2 = .ok) :
    (stream cap fs).1 = dataOf fs ∧ (stream cap fs).1.flatten = content fs := by
  have := ok_intact_aux cap fs 0 h
  exact ⟨this, by simp [stream, content, this]⟩

/-! ### Accepted iff within the limit -/

/-- **C11 (the limit is exact).**  With no transport error, a body is accepted
iff its total length is at most the cap — `cap` bytes pass, `cap + 1` do not —
however it is split into frames. -/
theorem ok_iff (cap : Nat) (fs : List Frame) (hn : noError fs = true) :
    (stream cap fs).2 = .ok ↔ totalData fs ≤ cap := by
  simpa [stream] using ok_iff_aux cap fs 0 (Nat.zero_le _) hn

/-- **C11 (larger bodies are refused), with or without transport errors.** -/
theorem over_cap_refused (cap : Nat) (fs : List Frame) (h : totalData fs > cap) :
    (stream cap fs).2 ≠ .ok :=
  over_cap_refused_aux cap fs 0 (Nat.zero_le _) (by omega)

/-- Without transport errors the outcome is a function of the total length only. -/
theorem outcome_noError (cap : Nat) (fs : List Frame) (hn : noError fs = true) :
    (stream cap fs).2 = if totalData fs ≤ cap then .ok else .tooLarge := by
  split
  · rename_i h
    exact (ok_iff cap fs hn).2 h
  · rename_i h
    exact tooLarge_aux cap fs 0 (Nat.zero_le _) hn (by omega)

/-- **C11 (framing is irrelevant).**  Two error-free framings of the same
byte string — content-length or chunked, any chunk boundaries, empty chunks,
trailers — end the same way and give the buffering extractors the same bytes. -/
theorem chunking_irrelevant (cap : Nat) (fs fs' : List Frame)
    (hn : noError fs = true) (hn' : noError fs' = true) (hc : content fs = content fs') :
    (stream cap fs).2 = (stream cap fs').2 ∧ buffered cap fs = buffered cap fs' := by
  have ht : totalData fs = totalData fs' := by simp [totalData_eq_length, hc]
  have ho : (stream cap fs).2 = (stream cap fs').2 := by
    rw [outcome_noError cap fs hn, outcome_noError cap fs' hn', ht]
  refine ⟨ho, ?_⟩
  by_cases hk : (stream cap fs).2 = .ok
  · have hk' : (stream cap fs').2 = .ok := ho ▸ hk
    have h1 := (ok_intact cap fs hk).2
    have h2 := (ok_intact cap fs' hk').2
    unfold buffered
    rcases hs : stream cap fs with ⟨cs, o⟩
    rcases hs' : stream cap fs' with ⟨cs', o'⟩
    simp only [hs, hs'] at hk hk' h1 h2
    subst hk; subst hk'
    simp [h1, h2, hc]
  · have hk' : (stream cap fs').2 ≠ .ok := ho ▸ hk
    unfold buffered
    rcases hs : stream cap fs with ⟨cs, o⟩
    rcases hs' : stream cap fs' with ⟨cs', o'⟩
    simp only [hs, hs'] at hk hk' ho
    subst ho
    cases o <;> simp_all

/-- What the buffering extractors return, in one statement. -/
theorem buffered_ok_iff (cap : Nat) (fs : List Frame) (b : Bytes) :
    buffered cap fs = .ok b ↔ (stream cap fs).2 = .ok ∧ b = content fs := by
  unfold buffered
  rcases hs : stream cap fs with ⟨cs, o⟩
  cases o
  · have := (ok_intact cap fs (by simp [hs])).2
    simp only [hs] at this
    simp [this, eq_comm]
  · simp
  · simp

/-! ### Refusals are 400-class; the limit is the override or else the default -/

/-- Every refusal (too large, or a transport error) reaches the client as a
400-level error. -/
theorem refused_is_4xx (o : Outcome) (h : o ≠ .ok) :
    ∃ s, errStatus o = some s ∧ 400 ≤ s ∧ s ≤ 499 := by
  cases o
  · exact absurd rfl h
  · exact ⟨400, rfl, by omega, by omega⟩
  · exact ⟨400, rfl, by omega, by omega⟩

theorem tooLarge_is_400 : errStatus .tooLarge = some 400 := rfl

/-- **C11 (effective limit).**  The endpoint's own override when it has one,
else the server default. -/
theorem cap_selection (o d : Nat) :
    effectiveCap (some o) d = o ∧ effectiveCap none d = d := ⟨rfl, rfl⟩

/-- End to end for one endpoint: with no transport error, a body of at most the
effective limit is handed over intact and a longer one is refused with a 400,
whatever the framing. -/
theorem endpoint_contract (override : Option Nat) (dflt : Nat) (fs : List Frame)
    (hn : noError fs = true) :
    let cap := effectiveCap override dflt
    (totalData fs ≤ cap → buffered cap fs = .ok (content fs) ∧ (stream cap fs).1 = dataOf fs) ∧
    (totalData fs > cap → buffered cap fs = .error .tooLarge ∧ errStatus (stream cap fs).2 = some 400) := by
  intro cap
  constructor
  · intro h
    have hk := (ok_iff cap fs hn).2 h
    exact ⟨(buffered_ok_iff cap fs _).2 ⟨hk, rfl⟩, (ok_intact cap fs hk).1⟩
  · intro h
    have ho := outcome_noError cap fs hn
    have : ¬ totalData fs ≤ cap := by omega
    simp only [this, if_false] at ho
    unfold buffered
    rcases hs : stream cap fs with ⟨cs, o⟩
    simp only [hs] at ho
    subst ho
    exact ⟨rfl, rfl⟩

/-! ### Non-vacuity and the probe recorded in DESIGN.md section 11 -/

/-- Three 3-byte chunks at cap 8: the consumer sees `[3, 3]` and then the error. -/
example : stream 8 [.data [1, 2, 3], .data [4, 5, 6], .data [7, 8, 9]] =
    ([[1, 2, 3], [4, 5, 6]], .tooLarge) := by decide

example : (stream 3 [.data [1], .trailers, .data [], .data [2, 3]]).2 = .ok := by decide
example : (stream 3 [.data [1], .data [2, 3, 4]]).2 = .tooLarge := by decide
example : (stream 3 [.data [1], .data [2, 3, 4], .ioError]).2 = .transport := by decide
example : (stream 0 [.data []]) = ([[]], .ok) := by decide
example : noError [.data [1], .trailers, .data [2]] = true ∧
    content [.data [1], .trailers, .data [2]] = content [.data [1, 2]] := by decide

end Dropshot.C11
