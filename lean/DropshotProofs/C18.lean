/-
C18 — hostile or broken traffic cannot take the server down.

Property theorems only.  Model: DropshotModel/Isolation.lean —
(a) `handle`/`wrap`/`answer`: the error mapping of `http_request_handle` and
    `http_request_handle_wrap` (server.rs 733-989) arm for arm;
(b) the isolation LTS: lifecycle LTS + listener flag + one fault slot per
    connection;
(c) the recognisers used as run-time oracle (sanity examples only).
Helper lemmas: DropshotProofs/Lemmas/Isolation.lean.

Partial: most of this property is hyper / tokio / kernel behaviour (parsing,
per-connection tasks, TCP).  What is proved is the isolation *protocol* — a
fault is confined to its own connection, nothing ever takes the listener down,
a fresh connection is always served — and the totality of dropshot's own error
mapping.  That the real server follows the protocol is validated on the runs.
Memory / file-descriptor exhaustion is not modelled.
-/
import DropshotModel.Isolation
import DropshotProofs.Lemmas.Isolation
import DropshotProofs.C16

namespace Dropshot.C18
open Dropshot.Isolation
open Dropshot.Lifecycle (Mode)

variable {m : Mode} {tr : List Event} {s s' : State} {c c' r : Nat} {f : FaultKind}

/-! ### (a) the error mapping is total and only produces 4xx/5xx -/

/-- `ErrorStatusCode::from_u16` accepts exactly 400..599. -/
theorem errorStatus_ofNat (n : Nat) :
    (∃ e, ErrorStatusCode.ofNat? n = some e ∧ e.code = n) ↔ 400 ≤ n ∧ n ≤ 599 := by
  unfold ErrorStatusCode.ofNat?
  constructor
  · rintro ⟨e, h, -⟩
    split at h
    · assumption
    · cases h
  · intro h
    exact ⟨⟨n, h⟩, by simp [h], rfl⟩

/-- **`wrap_total`.**  Whatever makes `http_request_handle` return early —
version policy, router, an extractor, the handler's own error (whether or not
its body can be produced), a response that cannot be produced — the response
built by `http_request_handle_wrap` has a status in [400, 599]. -/
theorem wrap_total (o : Outcome) (herr : ∀ st, o ≠ .ok st) :
    400 ≤ (wrap (handle o)).status ∧ (wrap (handle o)).status ≤ 599 := by
  cases o with
  | versionErr e => exact e.status.isError
  | routeErr e => exact e.status.isError
  | extractorErr e => exact e.status.isError
  | handlerErr e =>
    simp only [handle, wrap, HandlerError.intoResponse, HandlerError.ofUser]
    cases h : e.toResponseFails with
    | none => exact e.status.isError
    | some he => exact he.status.isError
  | responseErr e => exact e.status.isError
  | ok st => exact absurd rfl (herr st)

/-- A successful handler's response is passed through untouched. -/
theorem wrap_ok (st : Nat) : (wrap (handle (.ok st))).status = st := rfl

/-- **`malformed_gets_4xx_5xx`.**  A request is answered with a non-error
status only if hyper accepted it *and* dropshot routed, extracted and handled
it successfully; every malformed request that is answered at all is answered
4xx/5xx. -/
theorem malformed_gets_4xx_5xx (q : Request) (h : ∀ st, q ≠ .wellFormed (.ok st)) :
    400 ≤ (answer q).status ∧ (answer q).status ≤ 599 := by
  cases q with
  | malformed st => exact st.isError
  | wellFormed o =>
    apply wrap_total
    intro st hst
    exact h st (by rw [hst])

/-! ### (b) isolation -/

/-- **`fault_frame`.**  A fault on connection `c` changes only connection `c`'s
own component: the listener, every other connection's fault slot, client flag,
task state and busy mark, and every request record are unchanged. -/
theorem fault_frame (h : step m s (.fault c f) = some s') :
    s'.listenerUp = s.listenerUp ∧ (∀ c', c' ≠ c → connView s' c' = connView s c') ∧
    (∀ r, s'.lc.req r = s.lc.req r) ∧ s'.lc.dead = s.lc.dead ∧ s'.lc.busy = s.lc.busy := by
  simp only [step] at h
  split at h
  · cases h
    refine ⟨rfl, ?_, fun _ => rfl, rfl, rfl⟩
    intro c' hne
    by_cases hf : f = .handlerPanic <;> simp [connView, goneAfterFault, hf, hne]
  · cases h

/-- Consequently a fault on `c` can neither enable nor disable anything for a
request on another connection: `Tick`, `Done`, `RespDelivered`, `Drop` are
enabled after it exactly when they were before. -/
theorem fault_others_enabled (h : step m s (.fault c f) = some s')
    (hc : (s.lc.req r).conn = some c') (hne : c' ≠ c) :
    (step m s' (.lc (.tick r))).isSome = (step m s (.lc (.tick r))).isSome ∧
    (step m s' (.lc (.done r))).isSome = (step m s (.lc (.done r))).isSome ∧
    (step m s' (.lc (.respDelivered r))).isSome = (step m s (.lc (.respDelivered r))).isSome ∧
    (step m s' (.lc (.drop r))).isSome = (step m s (.lc (.drop r))).isSome := by
  simp only [step] at h
  split at h
  · cases h
    by_cases hf : f = .handlerPanic <;>
      (refine ⟨?_, ?_, ?_, ?_⟩ <;> cases m <;>
        simp only [step, Lifecycle.step, hc, goneAfterFault, hf, if_true, if_false,
          Lifecycle.upd_apply, hne] <;>
        (repeat' split) <;> simp_all)
  · cases h

/-- Nothing in the alphabet takes the listener down: in every accepted trace
the listener is up at the end, `Health false` never occurs, and `Health true`
is enabled. -/
theorem listener_always_up (h : run m init tr = some s) :
    s.listenerUp = true ∧ Event.health false ∉ tr ∧ (step m s (.health true)).isSome = true := by
  have hl : s.listenerUp = true := by rw [run_listener h]; rfl
  refine ⟨hl, ?_, by simp [step, hl]⟩
  intro hmem
  obtain ⟨a, b, rfl⟩ := List.append_of_mem hmem
  obtain ⟨s1, h1, h2⟩ := run_prefix h
  obtain ⟨s2, h3, -⟩ := run_cons h2
  have : s1.listenerUp = true := by rw [run_listener h1]; rfl
  simp [step, this] at h3

/-- **`healthy_after`.**  After ANY accepted sequence of faults (any kinds, any
connections, any length — induction on the fault list), from any state, the
listener is as it was and every connection not named in the list looks as it
did; in particular a well-formed health request on a connection that was
usable before is answered 200. -/
theorem faults_frame (fs : List (Nat × FaultKind))
    (h : run m s (fs.map fun p => Event.fault p.1 p.2) = some s') :
    s'.listenerUp = s.listenerUp ∧ (∀ c, (∀ p ∈ fs, p.1 ≠ c) → connView s' c = connView s c) := by
  induction fs generalizing s with
  | nil => simp only [List.map_nil, run] at h; cases h; simp
  | cons p fs ih =>
    simp only [List.map_cons] at h
    obtain ⟨s1, h1, h2⟩ := run_cons h
    obtain ⟨a1, a2⟩ := ih h2
    obtain ⟨b1, b2, -, -, -⟩ := fault_frame h1
    refine ⟨by rw [a1, b1], ?_⟩
    intro c hc
    rw [a2 c (fun q hq => hc q (List.mem_cons_of_mem _ hq))]
    exact b2 c (fun e => hc p (List.mem_cons_self) e.symm)

theorem healthy_after (fs : List (Nat × FaultKind))
    (h : run m init (fs.map fun p => Event.fault p.1 p.2) = some s)
    (hc : ∀ p ∈ fs, p.1 ≠ c) :
    respond s c healthRequest = some ⟨200⟩ := by
  obtain ⟨h1, h2⟩ := faults_frame fs h
  have hv := h2 c hc
  simp only [connView, Prod.mk.injEq] at hv
  obtain ⟨v1, v2, v3, v4⟩ := hv
  simp [respond, usable, h1, v1, v2, v3, v4, init, Lifecycle.init, healthRequest, answer, wrap, handle]

/-- The same after any accepted history whatsoever (faults interleaved with
valid requests, disconnects, cancellations, panicking handlers): a connection
that does not occur in the history is served, and a health request on it is
answered 200. -/
theorem healthy_after_any (h : run m init tr = some s)
    (hq : ∀ r, Event.lc (.reqSent c r) ∉ tr) (hd : Event.lc (.disconnect c) ∉ tr)
    (hf : ∀ f, Event.fault c f ∉ tr) :
    respond s c healthRequest = some ⟨200⟩ := by
  have F := finv_of_run h
  have hl := (listener_always_up h).1
  have e1 : s.faulted c = none := by
    cases hx : s.faulted c with
    | none => rfl
    | some f => exact absurd (F.faultedEv c f hx) (hf f)
  have e2 : s.lc.gone c = false := by
    cases hx : s.lc.gone c with
    | false => rfl
    | true =>
      rcases F.goneEv c hx with h1 | ⟨f, h1⟩
      · exact absurd h1 hd
      · exact absurd h1 (hf f)
  have e3 : s.lc.dead c = false := by
    cases hx : s.lc.dead c with
    | false => rfl
    | true =>
      obtain ⟨r, hr⟩ := F.deadWhy c hx
      exact absurd (F.connEv r c hr) (hq r)
  have e4 : s.lc.busy c = none := by
    cases hx : s.lc.busy c with
    | none => rfl
    | some r => exact absurd (F.connEv r c (F.busyWhy c r hx)) (hq r)
  simp [respond, usable, hl, e1, e2, e3, e4, healthRequest, answer, wrap, handle]

/-- And the handler life cycle of a fresh request on such a connection runs to
the delivered response, followed by a successful health check: the server keeps
answering well-formed requests on other connections. -/
theorem serves_after_any (h : run m init tr = some s)
    (hr : ∀ c, Event.lc (.reqSent c r) ∉ tr)
    (hq : ∀ r, Event.lc (.reqSent c r) ∉ tr) (hd : Event.lc (.disconnect c) ∉ tr)
    (hf : ∀ f, Event.fault c f ∉ tr) :
    (run m s [.lc (.reqSent c r), .lc (.start r), .lc (.tick r), .lc (.done r),
      .lc (.respDelivered r), .health true]).isSome = true := by
  have hl := run_lc h
  have hr' : ∀ c, Lifecycle.Event.reqSent c r ∉ lcView tr := fun c => by
    rw [mem_lcView_reqSent]; exact hr c
  have hq' : ∀ r, Lifecycle.Event.reqSent c r ∉ lcView tr := fun r => by
    rw [mem_lcView_reqSent]; exact hq r
  have hd' : Lifecycle.Event.disconnect c ∉ lcView tr := fun x => by
    rcases mem_lcView_disconnect c tr x with h1 | ⟨f, h1⟩
    · exact hd h1
    · exact hf f h1
  obtain ⟨g1, g2, g3⟩ := C16.fresh_of_unmentioned hl hq' hd'
  have key := C16.serves_after (r' := r) (c' := c) hl hr' g1 g2 g3
  have hup := (listener_always_up h).1
  -- replay the lifecycle run inside the isolation LTS
  simp only [Lifecycle.run] at key
  simp only [run, step]
  cases h1 : Lifecycle.step m s.lc (.reqSent c r) with
  | none => simp [h1] at key
  | some l1 =>
    simp only [h1] at key ⊢
    cases h2 : Lifecycle.step m l1 (.start r) with
    | none => simp [h2] at key
    | some l2 =>
      simp only [h2] at key ⊢
      cases h3 : Lifecycle.step m l2 (.tick r) with
      | none => simp [h3] at key
      | some l3 =>
        simp only [h3] at key ⊢
        cases h4 : Lifecycle.step m l3 (.done r) with
        | none => simp [h4] at key
        | some l4 =>
          simp only [h4] at key ⊢
          cases h5 : Lifecycle.step m l4 (.respDelivered r) with
          | none => simp [h5] at key
          | some l5 => simp [hup]

/-! ### Non-vacuity -/

/-- Six connections: garbage, a truncated request, an oversized header, a bad
header, an abrupt disconnect and a panicking handler, interleaved with two
valid requests (one of them on a keep-alive connection used twice), then the
health check. -/
def exFaults : List Event :=
  [.fault 1 .garbage, .lc (.reqSent 7 70), .fault 2 (.truncate 17), .lc (.start 70),
   .fault 3 .oversize, .lc (.done 70), .fault 6 .handlerPanic, .lc (.reqSent 6 60),
   .lc (.respDelivered 70), .lc (.start 60), .fault 4 .badHeader, .lc (.panic 60),
   .fault 5 .disconnect, .lc (.reqSent 7 71), .lc (.start 71), .lc (.done 71),
   .lc (.respDelivered 71), .health true]

example : acceptsQuiescent .detached exFaults = true := by decide
example : acceptsQuiescent .cancel exFaults = true := by decide

/-- hypotheses of `healthy_after` for a concrete fault list and connection 9 -/
example : ∃ s, run .cancel init ([(1, FaultKind.garbage), (2, .truncate 3), (3, .oversize),
    (1, .badHeader)].map fun p => Event.fault p.1 p.2) = none ∧
    run .cancel init ([(1, FaultKind.garbage), (2, .truncate 3), (3, .oversize),
    (4, .badHeader)].map fun p => Event.fault p.1 p.2) = some s := ⟨_, by decide, rfl⟩

/-- The monitor has teeth: a failed health check, a response delivered on a
connection after its fault, a handler dropped (cancel mode) because *another*
connection was faulted. -/
example : accepts .detached [.fault 1 .garbage, .health false] = false := by decide
example : accepts .detached [.lc (.reqSent 1 10), .lc (.start 10), .lc (.done 10), .fault 1 .garbage,
    .lc (.respDelivered 10)] = false := by decide
example : accepts .cancel [.lc (.reqSent 1 10), .lc (.start 10), .fault 2 .disconnect,
    .lc (.drop 10)] = false := by decide

/-! ### (c) recogniser sanity (run-time oracle only) -/

/-- `GET /health HTTP/1.1\r\nhost: a\r\n\r\n` -/
def exGet : Bytes := ascii ['G', 'E', 'T', ' ', '/', 'h', ' ', 'H', 'T', 'T', 'P', '/', '1', '.', '1',
  '\r', '\n', 'h', 'o', 's', 't', ':', ' ', 'a', '\r', '\n', '\r', '\n']

/-- `POST /e HTTP/1.1\r\ncontent-length: 2\r\n\r\nhi` -/
def exPost : Bytes := ascii ['P', 'O', 'S', 'T', ' ', '/', 'e', ' ', 'H', 'T', 'T', 'P', '/', '1', '.',
  '1', '\r', '\n', 'c', 'o', 'n', 't', 'e', 'n', 't', '-', 'l', 'e', 'n', 'g', 't', 'h', ':', ' ', '2',
  '\r', '\n', '\r', '\n', 'h', 'i']

/-- `HTTP/1.1 400 Bad Request\r\ncontent-length: 0\r\n\r\n` -/
def exResp : Bytes := ascii ['H', 'T', 'T', 'P', '/', '1', '.', '1', ' ', '4', '0', '0', ' ', 'B', 'a',
  'd', '\r', '\n', 'c', 'o', 'n', 't', 'e', 'n', 't', '-', 'l', 'e', 'n', 'g', 't', 'h', ':', ' ', '0',
  '\r', '\n', '\r', '\n']

example : wellFormedRequest {} exGet = true := by decide
example : wellFormedRequest {} (exGet ++ exPost) = true := by decide
example : countRequests {} 100 (exGet ++ exPost.take 30) 0 = (1, true) := by decide
example : ∀ k, k < exGet.length → 0 < k → wellFormedRequest {} (exGet.take k) = false := by decide
example : wellFormedRequest {} (ascii ['G', 'E', 'T', ' ', '/', ' ', 'H', 'T', 'T', 'P', '/', '1', '.',
  '1', '\r', '\n', 'a', ' ', 'b', ':', ' ', 'c', '\r', '\n', '\r', '\n']) = false := by decide
example : validResponses 10 (exResp ++ exResp) [] = some [400, 400] := by decide
example : validResponses 10 (exResp.take 20) [] = none := by decide

end Dropshot.C18
