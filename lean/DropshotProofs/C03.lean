/-
C03 — request paths are normalised once and unsafe paths never reach a handler.

Property theorems only.  Model: DropshotModel/Path.lean (`inputSegments` =
`input_path_to_segments` of dropshot/src/router.rs in the order after the
repair of defect D1; `lookupWith` = its use at the top of `lookup_route`),
DropshotModel/Percent.lean (`percent_decode`), DropshotModel/Utf8.lean
(`str::from_utf8`).  Bytes are `List Nat` (values < 256); in the comments
"…" abbreviates the ASCII bytes of a string.  Helper lemmas:
DropshotProofs/Lemmas/{Percent,Utf8,Path}.lean.
-/
import DropshotModel.Path
import DropshotProofs.Lemmas.Percent
import DropshotProofs.Lemmas.Utf8
import DropshotProofs.Lemmas.Path

namespace Dropshot.C03
open Dropshot Dropshot.Percent Dropshot.Utf8 Dropshot.Path

/-! ### The result depends only on the list of non-empty raw segments -/

/-- `inputSegments` is a function of the non-empty raw segments alone. -/
theorem depends_on_rawSegments (p q : Bytes) (h : rawSegments p = rawSegments q) :
    inputSegments p = inputSegments q := by
  simp only [inputSegments, h]

/-- **Slash equivalence (general form).**  Two paths with the same canonical
slash structure — the same non-empty raw segments in the same order, whatever
the number and placement of `/` around them — get the same result. -/
theorem slash_equiv (p q : Bytes) (h : canon p = canon q) :
    inputSegments p = inputSegments q := by
  apply depends_on_rawSegments
  rw [← rawSegments_canon p, ← rawSegments_canon q, h]

/-- Every path is equivalent to its canonical spelling (one `/` before each
non-empty segment, none at the end). -/
theorem canon_same (p : Bytes) : inputSegments (canon p) = inputSegments p :=
  depends_on_rawSegments _ _ (rawSegments_canon p)

/-- A `/` inserted (or deleted) next to a `/` changes nothing. -/
theorem slash_dup (a b : Bytes) :
    inputSegments (a ++ 47 :: 47 :: b) = inputSegments (a ++ 47 :: b) := by
  apply depends_on_rawSegments
  rw [rawSegments_append_slash, rawSegments_cons_slash, rawSegments_append_slash]

/-- Any run of one or more `/` is as good as a single one. -/
theorem slash_run (a b : Bytes) (n : Nat) :
    inputSegments (a ++ List.replicate (n + 1) 47 ++ b) = inputSegments (a ++ 47 :: b) := by
  induction n with
  | zero => simp
  | succ n ih =>
    rw [← ih]
    have e1 : a ++ List.replicate (n + 1 + 1) 47 ++ b = a ++ 47 :: 47 :: (List.replicate n 47 ++ b) := by
      simp [List.replicate_succ]
    have e2 : a ++ List.replicate (n + 1) 47 ++ b = a ++ 47 :: (List.replicate n 47 ++ b) := by
      simp [List.replicate_succ]
    rw [e1, e2, slash_dup]

/-- A `/` inserted (or deleted) at the front changes nothing. -/
theorem slash_leading (p : Bytes) : inputSegments (47 :: p) = inputSegments p :=
  depends_on_rawSegments _ _ (rawSegments_cons_slash p)

/-- A `/` appended (or deleted) at the end changes nothing. -/
theorem slash_trailing (p : Bytes) : inputSegments (p ++ [47]) = inputSegments p :=
  depends_on_rawSegments _ _ (rawSegments_append_slash_end p)

/-- The three local edits leave the canonical form unchanged (so `slash_equiv`
covers every sequence of such edits). -/
theorem canon_edits (a b p : Bytes) :
    canon (a ++ 47 :: 47 :: b) = canon (a ++ 47 :: b) ∧ canon (47 :: p) = canon p ∧
    canon (p ++ [47]) = canon p := by
  refine ⟨?_, ?_, ?_⟩
  · simp only [canon]
    rw [rawSegments_append_slash, rawSegments_cons_slash, rawSegments_append_slash]
  · simp only [canon, rawSegments_cons_slash]
  · simp only [canon, rawSegments_append_slash_end]

/-! ### Each segment is decoded exactly once, after splitting -/

/-- **Decode once.**  An accepted path yields exactly the percent-decoding of
its non-empty raw segments, one output segment per raw segment, in order. -/
theorem decode_once (p : Bytes) (ss : List Bytes) (h : inputSegments p = .ok ss) :
    ss = (rawSegments p).map pctDecode := by
  have h1 := (collect_ok_iff checkSeg (rawSegments p) ss).1 h
  clear h
  generalize rawSegments p = rs at h1
  induction rs generalizing ss with
  | nil => cases ss <;> simp_all
  | cons r rs ih =>
    cases ss with
    | nil => simp at h1
    | cons s ss =>
      simp only [List.map_cons, List.cons.injEq] at h1 ⊢
      exact ⟨((checkSeg_ok_iff r s).1 h1.1).1, ih ss h1.2⟩

/-- An encoded slash (or anything else) never creates or removes a segment
boundary: the number of segments is fixed by the raw `/` alone. -/
theorem decode_once_length (p : Bytes) (ss : List Bytes) (h : inputSegments p = .ok ss) :
    ss.length = (rawSegments p).length := by
  rw [decode_once p ss h, List.length_map]

/-- Acceptance, exactly: a path is accepted iff every non-empty raw segment
decodes to a safe segment. -/
theorem ok_iff (p : Bytes) :
    (∃ ss, inputSegments p = .ok ss) ↔ ∀ r ∈ rawSegments p, SafeSeg (pctDecode r) := by
  constructor
  · rintro ⟨ss, h⟩ r hr
    have h1 := (collect_ok_iff checkSeg (rawSegments p) ss).1 h
    have : checkSeg r ∈ (rawSegments p).map checkSeg := List.mem_map_of_mem hr
    rw [h1] at this
    obtain ⟨d, _, hd⟩ := List.mem_map.1 this
    obtain ⟨rfl, h2, h3, h4⟩ := (checkSeg_ok_iff r d).1 hd.symm
    refine ⟨h3, h4, ?_, h2⟩
    intro e
    exact (mem_rawSegments p r hr).1 ((pctDecode_eq_nil r).1 e)
  · intro h
    apply collect_ok_of_all
    intro r hr
    obtain ⟨h1, h2, _, h4⟩ := h r hr
    exact ⟨pctDecode r, (checkSeg_ok_iff r _).2 ⟨rfl, h4, h1, h2⟩⟩

/-- Round trip for one segment: percent-encoding *any* safe byte string `s`
and putting a `/` in front is read back as exactly `[s]` — also when `s`
itself contains `%`, `/` or the text `%2f`: nothing is decoded twice and an
encoded slash stays inside its segment. -/
theorem encoded_segment_roundtrip (s : Bytes) (hs : SafeSeg s) :
    inputSegments (47 :: pctEncodeAll s) = .ok [s] := by
  obtain ⟨h1, h2, h3, h4⟩ := hs
  have hlt := utf8Valid_lt s h4
  have hns : 47 ∉ pctEncodeAll s := by
    rw [pctEncodeAll_eq_spell]
    apply spell_no_slash
    intro c hc
    obtain ⟨b, _, rfl⟩ := List.mem_map.1 hc
    simp
  have hne : pctEncodeAll s ≠ [] := by
    cases s with
    | nil => exact absurd rfl h3
    | cons b s => simp [pctEncodeAll]
  have hd := pctDecode_pctEncodeAll s hlt
  unfold inputSegments
  rw [rawSegments_cons_slash, rawSegments_noslash _ hns hne]
  have : checkSeg (pctEncodeAll s) = .ok s := (checkSeg_ok_iff _ _).2 ⟨hd.symm, h4, h1, h2⟩
  simp [collect, this]

/-- The same for an arbitrary spelling of the segment: each byte either raw
(anything but `%` and `/`) or `%XY` with any mix of upper- and lower-case hex
digits, including needless encoding of unreserved characters. -/
theorem spelled_segment_roundtrip (cs : List PctByte) (hok : ∀ c ∈ cs, c.ok = true)
    (hns : ∀ c ∈ cs, c ≠ .raw 47) (hs : SafeSeg (meant cs)) :
    inputSegments (47 :: spell cs) = .ok [meant cs] := by
  obtain ⟨h1, h2, h3, h4⟩ := hs
  have hno := spell_no_slash cs hns
  have hd : pctDecode (spell cs) = meant cs := by
    have := pctDecode_spell cs [] hok
    simpa using this
  have hne : spell cs ≠ [] := by
    intro e; rw [e] at hd; exact h3 hd.symm
  unfold inputSegments
  rw [rawSegments_cons_slash, rawSegments_noslash _ hno hne]
  have : checkSeg (spell cs) = .ok (meant cs) := (checkSeg_ok_iff _ _).2 ⟨hd.symm, h4, h1, h2⟩
  simp [collect, this]

/-- Round trip for whole paths: encode every segment, join with `/`, parse:
the handler-side segments are exactly the originals. -/
theorem encoded_path_roundtrip (segs : List Bytes) (hs : ∀ s ∈ segs, SafeSeg s) :
    inputSegments (segs.flatMap fun s => 47 :: pctEncodeAll s) = .ok segs := by
  have e : (segs.flatMap fun s => 47 :: pctEncodeAll s) = (segs.map pctEncodeAll).flatMap (47 :: ·) := by
    simp [List.flatMap_map]
  have hgood : ∀ r ∈ segs.map pctEncodeAll, r ≠ [] ∧ 47 ∉ r := by
    intro r hr
    obtain ⟨s, hs', rfl⟩ := List.mem_map.1 hr
    constructor
    · have := (hs s hs').2.2.1
      cases s with
      | nil => exact absurd rfl this
      | cons b s => simp [pctEncodeAll]
    · rw [pctEncodeAll_eq_spell]
      apply spell_no_slash
      intro c hc
      obtain ⟨b, _, rfl⟩ := List.mem_map.1 hc
      simp
  unfold inputSegments
  rw [e, rawSegments_join _ hgood, collect_ok_iff]
  simp only [List.map_map]
  apply List.map_congr_left
  intro s hs'
  obtain ⟨h1, h2, _, h4⟩ := hs s hs'
  exact (checkSeg_ok_iff _ _).2 ⟨(pctDecode_pctEncodeAll s (utf8Valid_lt s h4)).symm, h4, h1, h2⟩

/-- The percent decoder undoes the percent encoder (on bytes). -/
theorem decode_encode (b : Bytes) (h : ∀ x ∈ b, x < 256) : pctDecode (pctEncodeAll b) = b :=
  pctDecode_pctEncodeAll b h

/-- …and every admissible spelling of a byte string decodes to it. -/
theorem decode_spell (cs : List PctByte) (h : ∀ c ∈ cs, c.ok = true) :
    pctDecode (spell cs) = meant cs := by
  simpa using pctDecode_spell cs [] h

/-- Decoding never turns a non-empty raw segment into the empty string. -/
theorem decode_nonempty (r : Bytes) : pctDecode r = [] ↔ r = [] := pctDecode_eq_nil r

/-! ### Dot segments and invalid UTF-8 are refused -/

/-- **Dot segments, any spelling.**  If some raw segment percent-decodes to
`.` or `..`, the path is refused. -/
theorem dot_rejected (p r : Bytes) (hr : r ∈ rawSegments p)
    (hd : pctDecode r = dot ∨ pctDecode r = dotdot) : ∃ e, inputSegments p = .error e :=
  collect_error_of_mem checkSeg _ r hr ((checkSeg_error_iff r).2 (Or.inr hd))

/-- A raw segment that is not valid UTF-8 after decoding: refused. -/
theorem utf8_rejected (p r : Bytes) (hr : r ∈ rawSegments p)
    (hd : utf8Valid (pctDecode r) = false) : ∃ e, inputSegments p = .error e :=
  collect_error_of_mem checkSeg _ r hr ((checkSeg_error_iff r).2 (Or.inl hd))

/-- Refusal, exactly: the complement of `ok_iff`. -/
theorem error_iff (p : Bytes) :
    (∃ e, inputSegments p = .error e) ↔ ∃ r ∈ rawSegments p, ¬ SafeSeg (pctDecode r) := by
  constructor
  · rintro ⟨e, he⟩
    apply Classical.byContradiction
    intro hn
    have : ∀ r ∈ rawSegments p, SafeSeg (pctDecode r) := by
      intro r hr
      apply Classical.byContradiction
      intro h; exact hn ⟨r, hr, h⟩
    obtain ⟨ss, hss⟩ := (ok_iff p).2 this
    rw [he] at hss; cases hss
  · rintro ⟨r, hr, hns⟩
    cases h : inputSegments p with
    | error e => exact ⟨e, rfl⟩
    | ok ss => exact absurd ((ok_iff p).1 ⟨ss, h⟩ r hr) hns

/-- A segment sitting between two `/` (or at either end) is one of the raw
segments, whatever surrounds it. -/
theorem mem_rawSegments_between (a b r : Bytes) (hne : r ≠ []) (hns : 47 ∉ r) :
    r ∈ rawSegments (a ++ 47 :: (r ++ 47 :: b)) := by
  rw [rawSegments_append_slash, rawSegments_append_slash, rawSegments_noslash r hns hne]
  simp

/-- Every admissible spelling of `.` / `..` (any mix of raw dots, `%2e`, `%2E`,
…), anywhere in a path, is refused. -/
theorem spelled_dot_rejected (a b : Bytes) (cs : List PctByte) (hok : ∀ c ∈ cs, c.ok = true)
    (hns : ∀ c ∈ cs, c ≠ .raw 47) (hd : meant cs = dot ∨ meant cs = dotdot) :
    ∃ e, inputSegments (a ++ 47 :: (spell cs ++ 47 :: b)) = .error e := by
  have hdec := decode_spell cs hok
  have hne : spell cs ≠ [] := by
    intro e; rw [e] at hdec
    rcases hd with h | h <;> rw [← hdec] at h <;> cases h
  exact dot_rejected _ (spell cs) (mem_rawSegments_between a b _ hne (spell_no_slash cs hns))
    (by rw [hdec]; exact hd)

/-- The 3 spellings of `.` and the 9 spellings of `..`. -/
def dotSpellings : List Bytes :=
  [ [46], [37, 50, 101], [37, 50, 69],                                   -- .  %2e  %2E
    [46, 46], [46, 37, 50, 101], [46, 37, 50, 69],                       -- ..  .%2e  .%2E
    [37, 50, 101, 46], [37, 50, 69, 46],                                 -- %2e.  %2E.
    [37, 50, 101, 37, 50, 101], [37, 50, 101, 37, 50, 69],               -- %2e%2e  %2e%2E
    [37, 50, 69, 37, 50, 101], [37, 50, 69, 37, 50, 69] ]                -- %2E%2e  %2E%2E

/-- Each of the twelve concrete spellings is refused — alone … -/
theorem dot_spellings_rejected :
    ∀ r ∈ dotSpellings, inputSegments (47 :: r) = .error .dotSegment ∧
      inputSegments ([47, 97, 47] ++ r ++ [47, 98]) = .error .dotSegment := by
  decide

/-- … and anywhere inside any path. -/
theorem dot_spellings_rejected_anywhere (a b r : Bytes) (hr : r ∈ dotSpellings) :
    ∃ e, inputSegments (a ++ 47 :: (r ++ 47 :: b)) = .error e := by
  have key : ∀ r ∈ dotSpellings, r ≠ [] ∧ 47 ∉ r ∧ (pctDecode r = dot ∨ pctDecode r = dotdot) := by
    decide
  obtain ⟨h1, h2, h3⟩ := key r hr
  exact dot_rejected _ r (mem_rawSegments_between a b r h1 h2) h3

/-! ### What reaches a handler -/

/-- **No unsafe segment.**  Every segment of an accepted path is non-empty,
is neither `.` nor `..`, and is valid UTF-8. -/
theorem no_unsafe_segment (p : Bytes) (ss : List Bytes) (h : inputSegments p = .ok ss) :
    ∀ s ∈ ss, SafeSeg s := by
  intro s hs
  rw [decode_once p ss h] at hs
  obtain ⟨r, hr, rfl⟩ := List.mem_map.1 hs
  exact (ok_iff p).1 ⟨ss, h⟩ r hr

/-- A refused path is answered 400, whatever the rest of the router
(`route`: trie walk, method and version selection) would have done. -/
theorem lookup_400 {α : Type} (route : List Bytes → Except Nat α) (p : Bytes) (e : PathErr)
    (h : inputSegments p = .error e) : lookupWith route p = .error 400 := by
  simp [lookupWith, h]

/-- The rest of the router — and so any handler, and any path variable bound
from the segments — only ever sees safe segments; otherwise the answer is 400
and the continuation is not entered. -/
theorem route_sees_only_safe {α : Type} (route : List Bytes → Except Nat α) (p : Bytes) :
    (∃ ss, (∀ s ∈ ss, SafeSeg s) ∧ ss = (rawSegments p).map pctDecode ∧
        lookupWith route p = route ss) ∨
    ((∃ r ∈ rawSegments p, ¬ SafeSeg (pctDecode r)) ∧ lookupWith route p = .error 400) := by
  cases h : inputSegments p with
  | ok ss =>
    exact Or.inl ⟨ss, no_unsafe_segment p ss h, decode_once p ss h, by simp [lookupWith, h]⟩
  | error e =>
    exact Or.inr ⟨(error_iff p).1 ⟨e, h⟩, lookup_400 route p e h⟩

/-! ### Defect D1 (regression witness) -/

/-- Before the repair the dot test looked at the raw segment: `/%2e%2e` was
accepted and a handler received `..`.  The repaired order refuses it. -/
theorem asIs_fails :
    inputSegmentsAsIs [47, 37, 50, 101, 37, 50, 101] = .ok [[46, 46]] ∧
    inputSegments [47, 37, 50, 101, 37, 50, 101] = .error .dotSegment := by
  decide

/-- The statement `no_unsafe_segment` is false of the pre-repair function. -/
theorem asIs_no_unsafe_segment_fails :
    ¬ ∀ p ss, inputSegmentsAsIs p = .ok ss → ∀ s ∈ ss, SafeSeg s := by
  intro h
  have := h [47, 97, 47, 37, 50, 69, 46, 47, 98] [[97], [46, 46], [98]] (by decide) [46, 46] (by simp)
  exact this.2.1 rfl

/-! ### Non-vacuity -/

-- "//foo/bar/baz%2fbuzz" → ["foo", "bar", "baz/buzz"] (the repo's own unit test)
example : inputSegments [47, 47, 102, 111, 111, 47, 98, 97, 114, 47, 98, 97, 122, 37, 50, 102, 98, 117, 122, 122]
    = .ok [[102, 111, 111], [98, 97, 114], [98, 97, 122, 47, 98, 117, 122, 122]] := by decide

-- no second decoding: "/%252e%252e" → ["%2e%2e"], "/a%252fb" → ["a%2fb"]
example : inputSegments [47, 37, 50, 53, 50, 101, 37, 50, 53, 50, 101] = .ok [[37, 50, 101, 37, 50, 101]] := by
  decide
example : inputSegments [47, 97, 37, 50, 53, 50, 102, 98] = .ok [[97, 37, 50, 102, 98]] := by decide

-- truncated escapes are literal: "/%", "/%2", "/%zz", "/%%2e"
example : inputSegments [47, 37] = .ok [[37]] ∧ inputSegments [47, 37, 50] = .ok [[37, 50]] ∧
    inputSegments [47, 37, 122, 122] = .ok [[37, 122, 122]] ∧
    inputSegments [47, 37, 37, 50, 101] = .ok [[37, 46]] := by decide

-- "..." and ".a" are ordinary segments; "é" raw (C3 A9) and encoded are accepted; %C3 alone,
-- an overlong "/" (C0 AF), a surrogate (ED A0 80) and F4 90 80 80 (> U+10FFFF) are refused
example : inputSegments [47, 46, 46, 46, 47, 46, 97] = .ok [[46, 46, 46], [46, 97]] := by decide
example : inputSegments [47, 195, 169, 47, 37, 67, 51, 37, 97, 57] = .ok [[195, 169], [195, 169]] := by decide
example : inputSegments [47, 37, 67, 51] = .error .badUtf8 ∧
    inputSegments [47, 37, 99, 48, 37, 97, 102] = .error .badUtf8 ∧
    inputSegments [47, 37, 69, 68, 37, 65, 48, 37, 56, 48] = .error .badUtf8 ∧
    inputSegments [47, 37, 70, 52, 37, 57, 48, 37, 56, 48, 37, 56, 48] = .error .badUtf8 := by decide

-- hypotheses of `slash_equiv`: "//a///b/" and "/a/b" have the same canonical form
example : canon [47, 47, 97, 47, 47, 47, 98, 47] = canon [47, 97, 47, 98] := by decide

-- hypotheses of `encoded_segment_roundtrip` / `spelled_segment_roundtrip`: the segment "a/%2f b"
example : SafeSeg [97, 47, 37, 50, 102, 32, 98] := by decide
example : let cs : List PctByte := [.raw 97, .enc 47 false true, .enc 37 true false, .raw 50, .enc 102 true true]
    (∀ c ∈ cs, c.ok = true) ∧ (∀ c ∈ cs, c ≠ .raw 47) ∧ SafeSeg (meant cs) ∧
    spell cs = [97, 37, 50, 70, 37, 50, 53, 50, 37, 54, 54] := by decide

-- hypotheses of `spelled_dot_rejected`: ".%2E" written with a lower-case hex digit
example : let cs : List PctByte := [.raw 46, .enc 46 true false]
    (∀ c ∈ cs, c.ok = true) ∧ (∀ c ∈ cs, c ≠ .raw 47) ∧ meant cs = dotdot := by decide

-- `lookupWith`: a safe path reaches the continuation, an unsafe one does not
example : lookupWith (fun ss => (.ok ss.length : Except Nat Nat)) [47, 97, 47, 98] = .ok 2 ∧
    lookupWith (fun ss => (.ok ss.length : Except Nat Nat)) [47, 97, 47, 37, 50, 101] = .error 400 := by
  decide

end Dropshot.C03
