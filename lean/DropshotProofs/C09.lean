/-
C09 — handlers receive exactly what the client sent.

Property theorems only; helper lemmas are in `Lemmas/Extract.lean`.
Model: `DropshotModel/Extract.lean` (Rust `FromStr`, `from_map`,
`form_urlencoded`/`serde_urlencoded`, `http_request_load_body`, chunked
transfer coding, `multer::parse_boundary`, `RequestInfo::new`), on top of
`Percent` / `Utf8` / `Path`.

Conventions: byte strings are `List Nat` with elements < 256 (`IsBytes`), a Rust
`String` is its UTF-8 bytes, integers are unbounded with explicit width checks.

Partial (stated here, validated only on runs): that the real scheduler keeps
requests apart (`context_is_own` is about the model, which has no shared
state); floats; JSON enters as a codec parameter (`body_roundtrip`).
-/
import DropshotModel.Extract
import DropshotProofs.Lemmas.Extract
import DropshotProofs.Lemmas.ExtractFlat

namespace Dropshot.C09
open Dropshot Dropshot.Percent Dropshot.Utf8 Dropshot.Extract

/-! ### Scalars: Rust's `FromStr` inverts `Display`, exactly within the width -/

/-- An unsigned integer written in decimal parses back to itself iff it fits
the width: `u8 … u64` maxima round-trip, max+1 is refused. -/
theorem parseUInt_render_iff (w n : Nat) :
    parseUInt w (renderNat n) = some n ↔ n < 2 ^ w := by
  rw [parseUInt_render]; split <;> simp_all

/-- The signed analogue, including both extremes (`-2^(w-1)` and `2^(w-1)-1`). -/
theorem parseInt_render_iff (w : Nat) (i : Int) :
    parseInt w (renderInt i) = some i ↔ (-(2 ^ (w - 1) : Int) ≤ i ∧ i < (2 ^ (w - 1) : Int)) := by
  rw [parseInt_render]; split <;> simp_all

/-- Out of range never yields some *other* number: it is an error. -/
theorem parseUInt_render_overflow (w n : Nat) (h : ¬ n < 2 ^ w) :
    parseUInt w (renderNat n) = none := by
  rw [parseUInt_render]; simp [h]

theorem parseInt_render_overflow (w : Nat) (i : Int)
    (h : ¬ (-(2 ^ (w - 1) : Int) ≤ i ∧ i < (2 ^ (w - 1) : Int))) :
    parseInt w (renderInt i) = none := by
  rw [parseInt_render]; simp [h]

/-- The extremes of every width, concretely. -/
example : parseInt 64 (renderInt (-9223372036854775808)) = some (-9223372036854775808) :=
  (parseInt_render_iff 64 _).2 (by decide)
example : parseInt 64 (renderInt 9223372036854775807) = some 9223372036854775807 :=
  (parseInt_render_iff 64 _).2 (by decide)
example : parseInt 64 (renderInt 9223372036854775808) = none :=
  parseInt_render_overflow 64 _ (by decide)
example : parseInt 64 (renderInt (-9223372036854775809)) = none :=
  parseInt_render_overflow 64 _ (by decide)
example : parseUInt 64 (renderNat 18446744073709551615) = some 18446744073709551615 :=
  (parseUInt_render_iff 64 _).2 (by decide)
example : parseUInt 64 (renderNat 18446744073709551616) = none :=
  parseUInt_render_overflow 64 _ (by decide)
example : parseInt 8 [45, 49, 50, 56] = some (-128) := by decide   -- "-128"
example : parseInt 8 [49, 50, 56] = none := by decide              -- "128"
example : parseUInt 8 [45, 49] = none := by decide                 -- "-1" is not a u8
example : parseUInt 8 [32, 49] = none := by decide                 -- " 1": no trimming
example : parseUInt 8 [] = none := by decide
example : parseUInt 8 [43] = none := by decide                     -- "+"

/-- Other legal spellings of the same number: an explicit `+`, leading zeros. -/
theorem parseUInt_plus (w n : Nat) : parseUInt w (43 :: renderNat n) = parseUInt w (renderNat n) := by
  obtain ⟨d, r, h, h1, h2⟩ := renderAux_head n []
  unfold renderNat
  rw [h, parseUInt_plus_digits, parseUInt_digits w d r (by omega)]

theorem parseUInt_leading_zero (w n : Nat) :
    parseUInt w (48 :: renderNat n) = parseUInt w (renderNat n) := by
  obtain ⟨d, r, h, h1, h2⟩ := renderAux_head n []
  unfold renderNat
  rw [h, parseUInt_digits w 48 _ (by omega), parseUInt_digits w d r (by omega)]
  simp [decAcc, digitVal]

theorem parseBool_render (b : Bool) : parseBool (SVal.render (.bool b)) = some b := by
  cases b <;> decide

/-- Only the two exact spellings are booleans. -/
example : parseBool [84, 114, 117, 101] = none := by decide   -- "True"
example : parseBool [49] = none := by decide                  -- "1"

/-- Any Unicode scalar value survives as a `char`. -/
theorem parseChar_render (c : Nat) (h : isScalar c = true) : parseChar (utf8Encode c) = some c :=
  parseChar_encode c h

/-- **Every scalar of every type in the universe** (booleans, the eight
integer types at any value in range, strings, chars, enum variants) is what the
deserialiser makes of its rendering. -/
theorem scalar_roundtrip (t : STy) (sv : SVal) (h : sv.hasTy t = true) :
    deScalar t sv.render = .ok sv :=
  deScalar_render t sv h

example : (SVal.int (-32768)).hasTy (.int 16) = true := by decide

/-! ### Path parameters -/

/-- **C09 (path clause).**  For every route, every flat struct type whose
fields are the route's variables (what registration checks, `pathFits`), and
every value `v` of that type whose strings can be path segments at all
(non-empty, not `.`/`..`, valid UTF-8 — `Safe`), the percent-encoded request
path is routed, decoded once and deserialised to exactly `v`. -/
theorem path_roundtrip (route : List RSeg) (fs : List (Bytes × FTy)) (v : Val)
    (hfit : pathFits route fs = true) (hty : valHasTy v fs = true)
    (hsafe : ∀ s ∈ segsOf route (valsOf v), Safe s) :
    extractPath (.struct fs) route (encodePath route (valsOf v)) = .ok v := by
  have hne : ∀ s ∈ segsOf route (valsOf v), s ≠ [] := fun s hs => (hsafe s hs).2.2.2.1
  simp [extractPath, lookupVars_encoded route _ hsafe, mapDe_varsOf route fs v hfit hty hne]

/-- … and the handler is then called with `v`. -/
theorem path_handler_sees_value (route : List RSeg) (fs : List (Bytes × FTy)) (v : Val)
    (hfit : pathFits route fs = true) (hty : valHasTy v fs = true)
    (hsafe : ∀ s ∈ segsOf route (valsOf v), Safe s) :
    handle (extractPath (.struct fs) route (encodePath route (valsOf v))) = .called v := by
  rw [path_roundtrip route fs v hfit hty hsafe]; rfl

/-- Non-vacuity: `/p/{id}/{name}/{rest:.*}` with `id: u8 = 255`,
`name: String = "a/ %"`, `rest: Vec<String> = ["x", "é"]`. -/
example :
    let route : List RSeg := [.lit [112], .var [105, 100], .var [110], .rest [114]]
    let fs : List (Bytes × FTy) :=
      [([105, 100], .scalar (.uint 8)), ([110], .scalar .string), ([114], .seq .string)]
    let v : Val := [([105, 100], .scalar (.nat 255)), ([110], .scalar (.str [97, 47, 32, 37])),
      ([114], .seq [.str [120], .str [195, 169]])]
    pathFits route fs = true ∧ valHasTy v fs = true := by decide

/-- The excluded strings really cannot be sent: an empty segment vanishes and a
dot segment is refused (C03), so no request path carries them. -/
example : lookupVars [.var [120]] [47] = .noRoute := by decide
example : lookupVars [.var [120]] [47, 37, 50, 101] = .badPath := by decide

/-! ### Structs with a `#[serde(flatten)]`-ed part -/

/-- A string, char or enum member of a flattened part is read from the very
string that was sent: the buffered value is never re-interpreted (as a number,
a boolean, …) on its way to the handler. -/
theorem flat_member_from_string (t : STy) (s : Bytes)
    (ht : t = .string ∨ t = .char ∨ ∃ vs, t = .enum vs) :
    deContentScalar t s = deScalar t s := by
  rcases ht with h | h | ⟨vs, h⟩ <;> subst h <;> simp [deContentScalar, deScalar]

/-- In particular a string member is delivered byte for byte, whatever it looks like
(`7`, `007`, `3.14`, `true`, …). -/
theorem flat_string_member (s : Bytes) : deContentField (.scalar .string) s = .ok (.scalar (.str s)) := rfl

/-- **C09 (path clause, flattened structs).**  Flattening is transparent for parts whose
members are read from strings (string, char, unit-variant enum, `Option` of those): whenever
the struct with the members written inline receives `v` from a set of variables, the struct
with the `#[serde(flatten)]`-ed part receives the same `v` - for every struct, every part and
every variable set. -/
theorem flat_transparent (outer inner : List (Bytes × FTy)) (vars : VarSet) (v : Val)
    (hdisj : ∀ f ∈ inner, lookupField outer f.1 = none)
    (hstr : ∀ f ∈ inner, f.2.strLike = true)
    (h : mapDe (.struct (outer ++ inner)) vars = .ok v) :
    mapDeFlat outer inner vars = .ok v :=
  mapDeFlat_eq_inline outer inner vars v hdisj hstr h

/-- … hence the round trip of `path_roundtrip` carries over: every value of such a struct,
percent-encoded into the route, reaches the handler unchanged. -/
theorem flat_path_roundtrip (route : List RSeg) (outer inner : List (Bytes × FTy)) (v : Val)
    (hdisj : ∀ f ∈ inner, lookupField outer f.1 = none)
    (hstr : ∀ f ∈ inner, f.2.strLike = true)
    (hfit : pathFits route (outer ++ inner) = true) (hty : valHasTy v (outer ++ inner) = true)
    (hsafe : ∀ s ∈ segsOf route (valsOf v), Safe s) :
    extractPathFlat outer inner route (encodePath route (valsOf v)) = .ok v := by
  have hne : ∀ s ∈ segsOf route (valsOf v), s ≠ [] := fun s hs => (hsafe s hs).2.2.2.1
  have h := mapDe_varsOf route (outer ++ inner) v hfit hty hne
  simp [extractPathFlat, lookupVars_encoded route _ hsafe,
    flat_transparent outer inner _ v hdisj hstr h]

/-- Non-vacuity: `/f/{id}/{name}/{kind}` into `struct { id: u8, #[flatten] { name: String, kind: enum } }`
with `name = "007"`. -/
example :
    let route : List RSeg := [.lit [102], .var [105, 100], .var [110], .var [107]]
    let outer : List (Bytes × FTy) := [([105, 100], .scalar (.uint 8))]
    let inner : List (Bytes × FTy) := [([110], .scalar .string), ([107], .scalar (.enum [[82]]))]
    let v : Val := [([105, 100], .scalar (.nat 255)), ([110], .scalar (.str [48, 48, 55])),
      ([107], .scalar (.variant [82]))]
    (∀ f ∈ inner, lookupField outer f.1 = none) ∧ (∀ f ∈ inner, f.2.strLike = true) ∧
      pathFits route (outer ++ inner) = true ∧ valHasTy v (outer ++ inner) = true := by decide

/-- Non-vacuity / witness: `struct { id: u32, #[flatten] { name: String, kind: Color } }` fed
`id=7, kind=Red, name=007` yields the same value as the inline struct. -/
example :
    let outer : List (Bytes × FTy) := [([105, 100], .scalar (.uint 32))]
    let inner : List (Bytes × FTy) := [([110], .scalar .string), ([107], .scalar (.enum [[82]]))]
    let vars : VarSet := [([105, 100], .str [55]), ([107], .str [82]), ([110], .str [48, 48, 55])]
    mapDeFlat outer inner vars = mapDe (.struct (outer ++ inner)) vars ∧
      mapDeFlat outer inner vars = .ok [([105, 100], .scalar (.nat 7)), ([110], .scalar (.str [48, 48, 55])),
        ([107], .scalar (.variant [82]))] := by decide

/-- **Finding K9** (negation witness): a numeric member of a flattened part cannot be
filled - `struct { s: String, #[flatten] { n: u16 } }` fed `n=5, s=x` is refused although
the inline struct accepts it and the client encoded a value of the declared type. -/
theorem flat_numeric_member_refused :
    let outer : List (Bytes × FTy) := [([115], .scalar .string)]
    let inner : List (Bytes × FTy) := [([110], .scalar (.uint 16))]
    let vars : VarSet := [([110], .str [53]), ([115], .str [120])]
    mapDeFlat outer inner vars = .error .shape ∧
      mapDe (.struct (outer ++ inner)) vars = .ok [([115], .scalar (.str [120])), ([110], .scalar (.nat 5))] := by
  decide

/-! ### Query strings -/

/-- **Every legal spelling** of a list of key/value byte strings — each byte raw
(unless it is one of `& = + %`), as `%XX` with either case of hex digit, or `+`
for a space; `=` may stay raw inside a value — parses back to exactly that list. -/
theorem query_spelling_roundtrip (ps : List (List QByte × List QByte)) (h : ∀ p ∈ ps, OkPair p) :
    parseQueryRaw (spellQuery ps) = ps.map fun p => (qMeant p.1, qMeant p.2) :=
  parseQueryRaw_spell ps h

/-- **C09 (query clause, byte level).**  `parseQuery ∘ encodeQuery = id` for all
byte strings as keys and values, reserved characters percent-encoded. -/
theorem query_roundtrip (kvs : List (Bytes × Bytes)) (h : ∀ kv ∈ kvs, IsBytes kv.1 ∧ IsBytes kv.2) :
    parseQueryRaw (encodeQuery kvs) = kvs := by
  unfold encodeQuery
  rw [parseQueryRaw_spell]
  · rw [List.map_map]
    induction kvs with
    | nil => rfl
    | cons kv kvs ih =>
      have ih' := ih (fun kv hkv => h kv (by simp [hkv]))
      rw [List.map_cons, ih']
      simp [Function.comp, qMeant_qCanon]
  · intro p hp
    simp only [List.mem_map] at hp
    obtain ⟨kv, hkv, rfl⟩ := hp
    exact ⟨qCanon_ok kv.1 (h kv hkv).1,
      fun c hc => okKey_okVal c (qCanon_ok kv.2 (h kv hkv).2 c hc)⟩

/-- The strings serde sees: for valid UTF-8 (any Unicode) the lossy step is the identity. -/
theorem query_roundtrip_strings (kvs : List (Bytes × Bytes))
    (h : ∀ kv ∈ kvs, IsBytes kv.1 ∧ IsBytes kv.2)
    (hu : ∀ kv ∈ kvs, utf8Valid kv.1 = true ∧ utf8Valid kv.2 = true) :
    parseQuery (encodeQuery kvs) = kvs := by
  unfold parseQuery
  rw [query_roundtrip kvs h]
  induction kvs with
  | nil => rfl
  | cons kv kvs ih =>
    have := hu kv (by simp)
    simp only [List.map_cons, utf8Lossy_valid _ this.1, utf8Lossy_valid _ this.2]
    rw [ih (fun kv hkv => h kv (by simp [hkv])) (fun kv hkv => hu kv (by simp [hkv]))]

example : parseQueryRaw [97, 61, 37, 50, 54, 37, 51, 68, 43, 37, 67, 51, 37, 65, 57] =
    [([97], [38, 61, 32, 195, 169])] := by decide   -- a=%26%3D+%C3%A9  ↦  ("a", "&= é")

/-- **C09 (query clause, typed).**  For every struct type of single-valued
fields (required or optional) and every value of it, the query string made of
one `name=value` pair per present field deserialises to exactly that value;
an absent optional field is `None`. -/
theorem extractQuery_roundtrip (fs : List (Bytes × FTy)) (v : Val)
    (hnd : (fs.map Prod.fst).Nodup) (hty : valHasTy v fs = true) (hq : queryable fs = true)
    (hb : ∀ kv ∈ queryPairs v, IsBytes kv.1 ∧ IsBytes kv.2)
    (hu : ∀ kv ∈ queryPairs v, utf8Valid kv.1 = true ∧ utf8Valid kv.2 = true) :
    extractQuery (.struct fs) (encodeQuery (queryPairs v)) = .ok v := by
  simp only [extractQuery, query_roundtrip_strings _ hb hu]
  exact deStruct_queryPairs fs v hnd hty hq

/-- The same bytes as an `application/x-www-form-urlencoded` body go through
the same decoder. -/
theorem form_body_roundtrip (fs : List (Bytes × FTy)) (v : Val) (cap : Nat)
    (json : Bytes → Except BodyErr Val)
    (hnd : (fs.map Prod.fst).Nodup) (hty : valHasTy v fs = true) (hq : queryable fs = true)
    (hb : ∀ kv ∈ queryPairs v, IsBytes kv.1 ∧ IsBytes kv.2)
    (hu : ∀ kv ∈ queryPairs v, utf8Valid kv.1 = true ∧ utf8Valid kv.2 = true)
    (hcap : (encodeQuery (queryPairs v)).length ≤ cap) (ct : Bytes)
    (hct : requestCT (some ct) = .ok .urlEncoded) :
    loadBody json (extractQuery (.struct fs)) .urlEncoded cap (some ct)
      (encodeQuery (queryPairs v)) = .ok v := by
  have : ¬ (encodeQuery (queryPairs v)).length > cap := by omega
  simp [loadBody, this, hct, extractQuery_roundtrip fs v hnd hty hq hb hu]

example :
    let fs : List (Bytes × FTy) := [([97], .scalar (.int 8)), ([98], .option .bool)]
    let v : Val := [([97], .scalar (.int (-128))), ([98], .none)]
    (fs.map Prod.fst).Nodup ∧ valHasTy v fs = true ∧ queryable fs = true := by decide

/-! ### Bodies: content type and framing -/

/-- **C09 (body clause, codec as a parameter).**  When the request's content
type is the endpoint's and the body fits the limit, the decoder is given
exactly the bytes that were sent (and nothing else decides the result). -/
theorem body_roundtrip {α : Type} (json : Bytes → Except BodyErr α) (form : Bytes → Except DeErr α)
    (cap : Nat) (hdr : Option Bytes) (body : Bytes) (hcap : body.length ≤ cap)
    (hct : requestCT hdr = .ok .json) :
    loadBody json form .json cap hdr body = json body := by
  have : ¬ body.length > cap := by omega
  simp [loadBody, this, hct]

/-- A JSON body may omit the header, spell the media type in any case and add
parameters. -/
example : requestCT none = .ok .json := by decide
example : requestCT (some [65,112,112,108,105,99,97,116,105,111,110,47,74,83,79,78,32,59,32,
    99,104,97,114,115,101,116,61,117,116,102,45,56]) = .ok .json := by decide
    -- "Application/JSON ; charset=utf-8"

/-- **C09 ("every standards-conformant way of framing the body").**  Whatever
the chunk sizes (any list; a zero is read as one), whatever chunk extensions
and trailer fields are added, and whatever follows on the connection (`rest`:
the next pipelined request), de-chunking gives back exactly the payload and
leaves exactly `rest`. -/
theorem dechunk_chunk (bs : Bytes) (splits : List Nat) (exts : List Bytes) (lastExt : Bytes)
    (trailers : List (Bytes × Bytes)) (rest : Bytes)
    (hexts : ∀ e ∈ exts, OkExt e) (hlast : OkExt lastExt) (htr : ∀ t ∈ trailers, OkTrailer t) :
    dechunk (chunk bs splits exts lastExt trailers ++ rest) = some (bs, rest) := by
  unfold dechunk chunk
  have hassoc : chunkBody bs splits exts ++ 48 :: lastExt ++ crlf ++ List.flatMap trailerLine trailers ++
      crlf ++ rest = chunkBody bs splits exts ++
      (48 :: lastExt ++ crlf ++ List.flatMap trailerLine trailers ++ crlf ++ rest) := by
    simp [List.append_assoc]
  rw [hassoc]
  have hlen := chunkBody_length bs splits exts
  generalize hT : (48 :: lastExt ++ crlf ++ List.flatMap trailerLine trailers ++ crlf ++ rest) = T
  generalize hL : (chunkBody bs splits exts ++ T).length = L
  have hWlen : bs.length ≤ L := by
    rw [← hL]; simp only [List.length_append]; omega
  obtain ⟨j, hj, hd⟩ := dechunkAux_chunkBody bs splits exts hexts (L + 1 - bs.length) T []
  have e : L + 1 = (L + 1 - bs.length) + bs.length := by omega
  rw [e, hd]
  obtain ⟨j', rfl⟩ : ∃ j', j = j' + 1 := ⟨j - 1, by omega⟩
  rw [← hT, dechunkAux_last j' lastExt rest _ trailers hlast htr]
  simp

/-- In particular one-byte chunks, which cut through every UTF-8 sequence and
every `%XX`. -/
theorem dechunk_one_byte_chunks (bs rest : Bytes) :
    dechunk (chunk bs (List.replicate bs.length 1) [] [] [] ++ rest) = some (bs, rest) :=
  dechunk_chunk bs _ [] [] [] rest (by simp) (Or.inl rfl) (by simp)

example : OkExt [59, 97, 61, 98] ∧ OkTrailer ([88], [121]) := by
  refine ⟨Or.inr ⟨[97, 61, 98], rfl, by decide, by decide⟩, by decide, by decide, by decide, by decide⟩

/-! ### Multipart boundary -/

/-- **C09 (multipart).**  For every legal spelling of the `Content-Type`: the
media type in any case, any legally spelled parameters before (not named
`boundary`) and after, any number of spaces after each `;`, the parameter name
`boundary` in any case, the value as a token or as a quoted string —
`multer::parse_boundary` returns exactly the boundary. -/
theorem boundary_found (ty sub : Bytes) (before after : List ParamSpelling) (bp : ParamSpelling)
    (hty : lower ty = sMultipart) (hsub : lower sub = sFormData)
    (hbefore : ∀ p ∈ before, p.ok = true ∧ lower p.name ≠ sBoundary)
    (hafter : ∀ p ∈ after, p.ok = true)
    (hbn : lower bp.name = sBoundary) (hb : bp.ok = true) :
    boundaryOf (spellContentType ty sub (before ++ bp :: after)) = some bp.value :=
  boundaryOf_spell ty sub before after bp hty hsub hbefore hafter hbn hb

/-- Every RFC 2046 boundary can be sent quoted; those made of token characters
also unquoted.  Either way it is found. -/
theorem boundary_found_rfc2046 (b name : Bytes) (quoted : Bool) (sp1 sp2 : Nat)
    (ty sub : Bytes) (before after : List ParamSpelling)
    (hb : isBoundary b = true) (hq : quoted = true ∨ b.all isToken = true)
    (hname : lower name = sBoundary)
    (hty : lower ty = sMultipart) (hsub : lower sub = sFormData)
    (hbefore : ∀ p ∈ before, p.ok = true ∧ lower p.name ≠ sBoundary)
    (hafter : ∀ p ∈ after, p.ok = true) :
    boundaryOf (spellContentType ty sub
      (before ++ ⟨name, b, quoted, sp1, sp2⟩ :: after)) = some b := by
  apply boundary_found ty sub before after ⟨name, b, quoted, sp1, sp2⟩ hty hsub hbefore hafter hname
  simp only [isBoundary, Bool.and_eq_true, bne_iff_ne, ne_eq, decide_eq_true_eq] at hb
  have hn1 := ne_nil_of_lower name _ hname (by decide)
  have hn2 := tokens_of_lower name _ hname (by decide)
  simp only [ParamSpelling.ok, Bool.and_eq_true, bne_iff_ne, ne_eq]
  refine ⟨⟨⟨hn1, hn2⟩, hb.1.1.1⟩, ?_⟩
  cases quoted with
  | true =>
    simp only [if_true, List.all_eq_true]
    intro c hc
    exact bchar_quotable c (List.all_eq_true.1 hb.1.2 c hc)
  | false =>
    rcases hq with hq | hq
    · simp at hq
    · simpa using hq

/-- `Content-Type: Multipart/Form-Data;  charset=utf-8; BOUNDARY="a b:c" ; x=y` -/
example : boundaryOf [77,117,108,116,105,112,97,114,116,47,70,111,114,109,45,68,97,116,97,59,32,32,
    99,104,97,114,115,101,116,61,117,116,102,45,56,59,32,66,79,85,78,68,65,82,89,61,34,97,32,98,58,99,
    34,32,59,32,120,61,121] = some [97, 32, 98, 58, 99] := by decide

/-- **Defect D4 (regression witness).**  The code before the repair took
everything after the first `boundary=`: for `multipart/form-data; boundary="XYZ"`
that is `"XYZ"` with the quotes, which never matches the body's delimiter; the
repaired code finds `XYZ`. -/
theorem boundaryAsIs_fails :
    let ct : Bytes := [109,117,108,116,105,112,97,114,116,47,102,111,114,109,45,100,97,116,97,59,32,
      98,111,117,110,100,97,114,121,61,34,88,89,90,34]
    boundaryAsIs ct = some [34, 88, 89, 90, 34] ∧ boundaryOf ct = some [88, 89, 90] := by
  decide

/-- `…; boundary=XYZ; charset=utf-8` and `…; Boundary=XYZ`, the other two D4 inputs. -/
theorem boundaryAsIs_fails_param_after :
    let ct : Bytes := [109,117,108,116,105,112,97,114,116,47,102,111,114,109,45,100,97,116,97,59,32,
      98,111,117,110,100,97,114,121,61,88,89,90,59,32,99,104,97,114,115,101,116,61,117,116,102,45,56]
    boundaryAsIs ct ≠ some [88, 89, 90] ∧ boundaryOf ct = some [88, 89, 90] := by
  decide

theorem boundaryAsIs_fails_case :
    let ct : Bytes := [109,117,108,116,105,112,97,114,116,47,102,111,114,109,45,100,97,116,97,59,32,
      66,111,117,110,100,97,114,121,61,88,89,90]
    boundaryAsIs ct = none ∧ boundaryOf ct = some [88, 89, 90] := by
  decide

/-! ### The request context; concurrency at model level -/

/-- **C09 (context clause).**  The context a handler is given is a function of
its own request and of its connection's peer address only: method, URI and
headers are the request's, the peer is the connection's. -/
theorem context_fields (r : Request) (peer : Nat) :
    (mkContext r peer).method = r.method ∧ (mkContext r peer).uri = r.uri ∧
      (mkContext r peer).headers = r.headers ∧ (mkContext r peer).peer = peer :=
  ⟨rfl, rfl, rfl, rfl⟩

/-- Whatever arrives before and after a request, on whichever connections, its
handler invocation sees its own context and its own body. -/
theorem context_is_own (pre post : List (Nat × Request)) (peer : Nat) (r : Request) :
    serve (pre ++ (peer, r) :: post) = serve pre ++ (mkContext r peer, r.body) :: serve post := by
  simp [serve, invoke]

/-- Reordering the arrivals (any interleaving of connections) reorders the
invocations and changes none of them. -/
theorem serve_perm (a b : List (Nat × Request)) (h : a.Perm b) : (serve a).Perm (serve b) :=
  List.Perm.map _ h

end Dropshot.C09
