/-
C17 — shutdown is graceful and complete.

Property theorems only.  Model: DropshotModel/Shutdown.lean (the lifecycle LTS
of C16 extended with the shutdown protocol of server.rs 240-365, 673-694).  All
theorems quantify over every trace the monitor accepts, of any length; the
moment shutdown is requested relative to requests in flight, idle connections
and detached handlers is arbitrary because `CloseRequested` may occur anywhere
in the trace.  Helper lemmas: DropshotProofs/Lemmas/Shutdown.lean.

Partial: theorems are about the LTS; that hyper drains connections, that tokio
schedules the tasks and that the kernel refuses connections to a closed port
are validated on runs.  Delivery of a response is a liveness fact: the theorems
show `RespDelivered` stays enabled, the runs check that it happens.
-/
import DropshotModel.Shutdown
import DropshotProofs.Lemmas.Shutdown
import DropshotProofs.C16

namespace Dropshot.C17
open Dropshot.Shutdown
open Dropshot.Lifecycle (Mode)

variable {m : Mode} {tr a b : List Event} {s : State} {res : Bool} {r c i j : Nat}

/-- **Shutdown waits for every started handler** (detached handlers whose
client has left included): a handler that started before the join resolved
ended (`Done`, or its own `Panic`, or in cancel mode `Drop`) before it, and
nothing of it happens afterwards; no handler starts after the join. -/
theorem close_waits_all (h : run m init (a ++ Event.joinResolved res :: b) = some s)
    (hs : Event.lc (.start r) ∈ a ++ Event.joinResolved res :: b) :
    Event.lc (.start r) ∈ a ∧
    (Event.lc (.done r) ∈ a ∨ Event.lc (.drop r) ∈ a ∨ Event.lc (.panic r) ∈ a) ∧
    Event.lc (.start r) ∉ b ∧ Event.lc (.tick r) ∉ b ∧ Event.lc (.done r) ∉ b := by
  obtain ⟨s1, s2, h1, hact, -, hj, hb⟩ := at_join h
  have abs := joined_absorbing hj hb
  have hsa : Event.lc (.start r) ∈ a := by
    simp only [List.mem_append, List.mem_cons, reduceCtorEq, false_or] at hs
    rcases hs with hs | hs
    · exact hs
    · exact absurd hs (abs.2.1 r)
  have I := lc_inv h1
  have S := sinv_of_run h1
  have hnr : (s1.lc.req r).h ≠ .running := by
    intro hr
    have := (S.activeRunning r).2 hr
    rw [hact] at this; cases this
  have h1' := I.notStarted r
  have h2' := I.completed r
  have h3' := I.cancelled r
  have h4' := I.panicked r
  simp only [mem_lcTrace] at h1' h2' h3' h4'
  have hend : Event.lc (.done r) ∈ a ∨ Event.lc (.drop r) ∈ a ∨ Event.lc (.panic r) ∈ a := by
    cases hh : (s1.lc.req r).h <;> simp_all
  refine ⟨hsa, hend, abs.2.1 r, ?_, ?_⟩
  · -- the handler has ended at the join: absorbing in the lifecycle LTS
    intro ht
    have hterm : (s1.lc.req r).h.terminal = true := by
      cases hh : (s1.lc.req r).h <;> simp_all [Lifecycle.HState.terminal]
    obtain ⟨s1', h2, h3⟩ := run_prefix h
    have := Lifecycle.terminal_absorbing (r := r) (by rw [Option.some.inj (h1.symm.trans h2)] at hterm; exact hterm)
      (run_lc h3)
    have hm : Lifecycle.Event.tick r ∈ lcTrace (Event.joinResolved res :: b) := by
      rw [mem_lcTrace]; simp [ht]
    exact this.2.2.1 hm
  · intro ht
    have hterm : (s1.lc.req r).h.terminal = true := by
      cases hh : (s1.lc.req r).h <;> simp_all [Lifecycle.HState.terminal]
    obtain ⟨s1', h2, h3⟩ := run_prefix h
    have := Lifecycle.terminal_absorbing (r := r) (by rw [Option.some.inj (h1.symm.trans h2)] at hterm; exact hterm)
      (run_lc h3)
    have hm : Lifecycle.Event.done r ∈ lcTrace (Event.joinResolved res :: b) := by
      rw [mem_lcTrace]; simp [ht]
    exact this.2.2.2.1 hm

/-- **Detached handlers.**  In detached mode every handler that started and did
not itself panic has completed (`Done`, exactly once) before the join resolves,
whether or not its client is still connected. -/
theorem close_waits_detached
    (h : run .detached init (a ++ Event.joinResolved res :: b) = some s)
    (hs : Event.lc (.start r) ∈ a ++ Event.joinResolved res :: b)
    (hp : Event.lc (.panic r) ∉ a) :
    Event.lc (.done r) ∈ a ∧ (lcTrace (a ++ Event.joinResolved res :: b)).count (.done r) = 1 := by
  obtain ⟨-, hend, -, -, -⟩ := close_waits_all h hs
  have hnd := C16.detached_never_dropped (run_lc h) r
  rw [mem_lcTrace] at hnd
  have hd : Event.lc (.done r) ∈ a := by
    rcases hend with h1 | h1 | h1
    · exact h1
    · exact absurd (by simp [h1]) hnd
    · exact absurd h1 hp
  refine ⟨hd, ?_⟩
  have I := lc_inv h
  have := I.cDone r
  have pos : 0 < (lcTrace (a ++ Event.joinResolved res :: b)).count (.done r) :=
    List.count_pos_iff.2 (by rw [mem_lcTrace]; simp [hd])
  omega

/-- **Requests in flight are answered.**  Either mode: a handler that started
(any time before the join resolved — in particular before `CloseRequested`),
whose client never disconnected and which did not itself panic, completed
before the join resolved and was never dropped; and at the end of the trace
its response has been delivered or `RespDelivered` is still enabled (unless an
earlier request on the same connection panicked). -/
theorem close_waits (h : run m init (a ++ Event.joinResolved res :: b) = some s)
    (hs : Event.lc (.start r) ∈ a ++ Event.joinResolved res :: b)
    (hc : Event.lc (.reqSent c r) ∈ a ++ Event.joinResolved res :: b)
    (hn : Event.lc (.disconnect c) ∉ a ++ Event.joinResolved res :: b)
    (hp : Event.lc (.panic r) ∉ a ++ Event.joinResolved res :: b) :
    Event.lc (.done r) ∈ a ∧ Event.lc (.drop r) ∉ a ++ Event.joinResolved res :: b ∧
    (s.lc.dead c = false → (s.lc.req r).delivered = false →
      (step m s (.lc (.respDelivered r))).isSome = true) := by
  obtain ⟨hsa, hend, -, -, -⟩ := close_waits_all h hs
  have hl := run_lc h
  have I := lc_inv h
  have hdone : Event.lc (.done r) ∈ a := by
    rcases hend with h1 | h1 | h1
    · exact h1
    · -- a drop needs the own client's disconnect
      obtain ⟨-, c2, hc2, hg2⟩ := I.dropOwn r (by rw [mem_lcTrace]; simp [h1])
      have e1 := (I.conn r c).2 (by rw [mem_lcTrace]; exact hc)
      rw [e1] at hc2; cases hc2
      have := (I.gone c).1 hg2
      rw [mem_lcTrace] at this
      exact absurd this hn
    · exact absurd (by simp [h1]) hp
  have hcomp : (s.lc.req r).h = .completed :=
    (I.completed r).2 (by rw [mem_lcTrace]; simp [hdone])
  have key := C16.connected_handlers_complete (r := r) (c := c) hl
    (by rw [mem_lcTrace]; exact hs) (by rw [mem_lcTrace]; exact hc)
    (by rw [mem_lcTrace]; exact hn) (by rw [mem_lcTrace]; exact hp) (by rw [hcomp]; simp)
  refine ⟨hdone, ?_, ?_⟩
  · have := key.2.1; rw [mem_lcTrace] at this; exact this
  · intro hd hdel
    have := key.2.2 hd hdel
    simp only [step, startBlocked]
    cases hx : Lifecycle.step m s.lc (.respDelivered r) with
    | none => simp [hx] at this
    | some l => simp

/-- **The port is closed.**  After the join has resolved no `ConnectAccepted`
occurs in any accepted trace, it is not enabled in the final state, and
`ConnectRefused` is. -/
theorem port_closed (h : run m init (a ++ Event.joinResolved res :: b) = some s) :
    Event.connectAccepted ∉ b ∧ step m s .connectAccepted = none ∧
      (step m s .connectRefused).isSome = true := by
  obtain ⟨s1, s2, -, -, -, hj, hb⟩ := at_join h
  have abs := joined_absorbing hj hb
  refine ⟨abs.2.2.1, ?_, ?_⟩ <;> simp [step, abs.1, Phase.listenerClosed]

/-- The listener is in fact dropped earlier, when the server task is done
(`Drained`): already from then on no connect is accepted, and a refused connect
is only ever observed after that point. -/
theorem port_closed_after_drain (h : run m init (a ++ Event.drained :: b) = some s) :
    Event.connectAccepted ∉ b ∧ step m s .connectAccepted = none := by
  obtain ⟨s1, s2, -, -, -, hd, hb⟩ := at_drain h
  have abs := listenerClosed_absorbing (by rw [hd]; rfl) hb
  refine ⟨abs.2.1, ?_⟩
  simp [step, abs.1]

theorem refused_only_after_drain (h : run m init (a ++ Event.connectRefused :: b) = some s) :
    Event.drained ∈ a := by
  obtain ⟨s1, h1, h2⟩ := run_prefix h
  obtain ⟨s2, h3, -⟩ := run_cons h2
  simp only [step] at h3
  split at h3
  · rename_i hj
    exact (sinv_of_run h1).drainedEv hj
  · cases h3

/-- **Graceful shutdown waits for every connection with a request in flight.**
When the server task is done (`Drained`), a handler that started and has not
ended can only be a detached handler whose own client has left: every handler
of a client that is still connected, and in cancel mode every handler, has
ended before. -/
theorem drain_waits (h : run m init (a ++ Event.drained :: b) = some s)
    (hs : Event.lc (.start r) ∈ a) :
    (Event.lc (.done r) ∈ a ∨ Event.lc (.drop r) ∈ a ∨ Event.lc (.panic r) ∈ a) ∨
    (m = .detached ∧ ∃ c, Event.lc (.reqSent c r) ∈ a ∧ Event.lc (.disconnect c) ∈ a) := by
  obtain ⟨s1, s2, h1, -, hact, -, -⟩ := at_drain h
  have I := lc_inv h1
  have S := sinv_of_run h1
  have h1' := I.notStarted r
  have h2' := I.completed r
  have h3' := I.cancelled r
  have h4' := I.panicked r
  simp only [mem_lcTrace] at h1' h2' h3' h4'
  cases hh : (s1.lc.req r).h with
  | running =>
    right
    obtain ⟨hm, hg⟩ := hact r ((S.activeRunning r).2 hh)
    refine ⟨hm, ?_⟩
    simp only [clientGone] at hg
    split at hg
    · rename_i c hc
      refine ⟨c, ?_, ?_⟩
      · have := (I.conn r c).1 hc; rwa [mem_lcTrace] at this
      · have := (I.gone c).1 hg; rwa [mem_lcTrace] at this
    · cases hg
  | _ => left; simp_all

/-- **All waiters agree.**  Any two released waiters (`close()` itself is
waiter 0) got the same result, namely the value the join resolved with. -/
theorem waiters_agree {x y : Bool} (h : run m init tr = some s)
    (hi : Event.waiterReleased i x ∈ tr) (hj : Event.waiterReleased j y ∈ tr) :
    x = y ∧ Event.joinResolved x ∈ tr := by
  have S := sinv_of_run h
  have p1 := S.waiterJoined i x (S.waiterEv i x hi)
  have p2 := S.waiterJoined j y (S.waiterEv j y hj)
  rw [p1] at p2
  exact ⟨by cases p2; rfl, (S.joinedEv x).1 p1⟩

/-- A waiter is released only after the join resolved, hence (by
`close_waits_all`) only after every started handler has ended. -/
theorem waiter_after_join {x : Bool} (h : run m init (a ++ Event.waiterReleased i x :: b) = some s) :
    Event.joinResolved x ∈ a := by
  obtain ⟨s1, h1, h2⟩ := run_prefix h
  obtain ⟨s2, h3, -⟩ := run_cons h2
  simp only [step] at h3
  split at h3
  · rename_i hg
    exact ((sinv_of_run h1).joinedEv x).1 hg.1
  · cases h3

/-- The join resolves at most once, after `CloseRequested`, `AcceptStopped`
and `Drained` (in that order). -/
theorem close_order (h : run m init (a ++ Event.joinResolved res :: b) = some s) :
    Event.closeRequested ∈ a ∧ Event.acceptStopped ∈ a ∧ Event.drained ∈ a ∧
    (∀ x, Event.joinResolved x ∉ b) ∧
    (∀ a1 a2, a = a1 ++ Event.acceptStopped :: a2 → Event.closeRequested ∈ a1) ∧
    (∀ a1 a2, a = a1 ++ Event.drained :: a2 → Event.acceptStopped ∈ a1) := by
  obtain ⟨s1, s2, h1, -, hph, hj, hb⟩ := at_join h
  have S := sinv_of_run h1
  refine ⟨S.closeReq (by simp [hph]), S.acceptSt (by simp [hph]) (by simp [hph]),
    S.drainedEv (by rw [hph]; rfl), (joined_absorbing hj hb).2.2.2.1, ?_, ?_⟩
  · intro a1 a2 ha
    subst ha
    obtain ⟨t1, g1, g2⟩ := run_prefix h1
    obtain ⟨t2, g3, -⟩ := run_cons g2
    simp only [step] at g3
    split at g3
    · rename_i hg
      exact (sinv_of_run g1).closeReq (by simp [hg])
    · cases g3
  · intro a1 a2 ha
    subst ha
    obtain ⟨t1, t2, g1, g2, -, -, -⟩ := at_drain h1
    exact (sinv_of_run g1).acceptSt (by simp [g2]) (by simp [g2])

/-- The server closes a connection under its client only because of shutdown
(or a panic on that connection), and never while a handler runs on it. -/
theorem conn_closed_only_idle (h : run m init (a ++ Event.connClosed c :: b) = some s) :
    (Event.closeRequested ∈ a ∨ ∃ r, Event.lc (.reqSent c r) ∈ a ∧ Event.lc (.panic r) ∈ a) ∧
    ∀ r, Event.lc (.reqSent c r) ∈ a → Event.lc (.start r) ∈ a →
      (Event.lc (.done r) ∈ a ∨ Event.lc (.drop r) ∈ a ∨ Event.lc (.panic r) ∈ a) := by
  obtain ⟨s1, h1, h2⟩ := run_prefix h
  obtain ⟨s2, h3, -⟩ := run_cons h2
  have I := lc_inv h1
  have S := sinv_of_run h1
  simp only [step] at h3
  split at h3
  · rename_i hg
    obtain ⟨-, -, hbusy, hwhy⟩ := hg
    constructor
    · rcases hwhy with hw | hw
      · exact Or.inl (S.closeReq hw)
      · obtain ⟨r, q1, q2⟩ := I.deadWhy c hw
        refine Or.inr ⟨r, ?_, ?_⟩
        · have := (I.conn r c).1 q1; rwa [mem_lcTrace] at this
        · have := (I.panicked r).1 q2; rwa [mem_lcTrace] at this
    · intro r hr hst
      have hconn := (I.conn r c).2 (by rw [mem_lcTrace]; exact hr)
      have hnr : (s1.lc.req r).h ≠ .running := by
        intro hrun
        have := I.busyRunning r c hrun hconn
        rw [hbusy] at this; cases this
      have h1' := I.notStarted r
      have h2' := I.completed r
      have h3' := I.cancelled r
      have h4' := I.panicked r
      simp only [mem_lcTrace] at h1' h2' h3' h4'
      cases hh : (s1.lc.req r).h <;> simp_all
  · cases h3

/-- The internal steps that remain once no handler is running. -/
def remaining : Phase → List Event
  | .closeRequested => [.acceptStopped, .drained, .joinResolved true]
  | .acceptStopped => [.drained, .joinResolved true]
  | .drained => [.joinResolved true]
  | _ => []

/-- **Shutdown terminates, under fairness.**  Explicit fairness hypothesis:
every started handler has finished (`s.active = []`).  Then, once shutdown has
been requested, the remaining internal steps are enabled and the join resolves;
afterwards every waiter can be released with that result. -/
theorem close_terminates
    (hp : s.phase = .closeRequested ∨ s.phase = .acceptStopped ∨ s.phase = .drained)
    (hfair : s.active = []) :
    run m s (remaining s.phase) = some { s with phase := .joined true } ∧
      ∀ i, s.waiter i = none →
        (step m { s with phase := .joined true } (.waiterReleased i true)).isSome = true := by
  refine ⟨?_, fun i hi => by simp [step, hi]⟩
  rcases hp with hp | hp | hp <;> simp [remaining, run, step, hp, hfair]

/-- The fairness hypothesis is realisable by the handlers alone: from any
state in which shutdown has been requested, letting each running handler
finish (`Done`; always enabled for a running handler, whether or not its
client is still there) and nothing else leads to the join. -/
theorem close_terminates_by_handlers (n : Nat) (s : State)
    (hlen : s.active.length ≤ n)
    (hrun : ∀ r ∈ s.active, (s.lc.req r).h = .running)
    (hp : s.phase = .closeRequested ∨ s.phase = .acceptStopped ∨ s.phase = .drained) :
    ∃ ext s', run m s ext = some s' ∧ s'.phase = .joined true ∧
      ∀ e ∈ ext, (∃ r, e = Event.lc (.done r)) ∨ e = Event.acceptStopped ∨ e = Event.drained ∨
        e = Event.joinResolved true := by
  induction n generalizing s with
  | zero =>
    have hnil : s.active = [] := List.eq_nil_of_length_eq_zero (Nat.le_zero.1 hlen)
    refine ⟨remaining s.phase, _, (close_terminates hp hnil).1, rfl, ?_⟩
    rcases hp with hp | hp | hp <;> simp [hp, remaining]
  | succ n ih =>
    cases hact : s.active with
    | nil =>
      refine ⟨remaining s.phase, _, (close_terminates hp hact).1, rfl, ?_⟩
      rcases hp with hp | hp | hp <;> simp [hp, remaining]
    | cons r rest =>
      have hr : (s.lc.req r).h = .running := hrun r (by simp [hact])
      -- let handler r finish
      let s1 : State := { s with lc := Lifecycle.finish s.lc r .completed,
                                 active := s.active.filter (· != r) }
      have hstep : step m s (.lc (.done r)) = some s1 := by
        simp [step, startBlocked, Lifecycle.step, hr, activeAfter, s1]
      have hlen1 : s1.active.length ≤ n := by
        have : (s.active.filter (· != r)).length ≤ rest.length := by
          rw [hact]
          simp only [List.filter_cons, bne_self_eq_false, Bool.false_eq_true, if_false]
          exact List.length_filter_le _ _
        have h2 : rest.length + 1 ≤ n + 1 := by simpa [hact] using hlen
        show (s.active.filter (· != r)).length ≤ n
        omega
      have hrun1 : ∀ r' ∈ s1.active, (s1.lc.req r').h = .running := by
        intro r' hr'
        have hm : r' ∈ s.active.filter (· != r) := hr'
        rw [List.mem_filter] at hm
        have hne : r' ≠ r := by simpa using hm.2
        have := hrun r' hm.1
        simp [s1, Lifecycle.finish, hne, this]
      obtain ⟨ext, s', g1, g2, g3⟩ := ih s1 hlen1 hrun1 hp
      refine ⟨.lc (.done r) :: ext, s', ?_, g2, ?_⟩
      · simp [run, hstep, g1]
      · intro e he
        rcases List.mem_cons.1 he with rfl | he
        · exact Or.inl ⟨r, rfl⟩
        · exact g3 e he

/-! ### Non-vacuity: a concrete accepted shutdown with several requests -/

/-- Detached mode.  Connection 1: request 10 in flight at close, client stays;
connection 2: request 20, client leaves, the detached handler finishes during
shutdown; connection 3: idle keep-alive (request 30 answered earlier);
connection 4: request 40 sent after the close request on a connection that was
never served.  Waiter 0 is `close()` itself, waiters 1 and 2 are
`wait_for_shutdown()` futures. -/
def exShutdown : List Event :=
  [.lc (.reqSent 3 30), .lc (.start 30), .lc (.done 30), .lc (.respDelivered 30),
   .lc (.reqSent 1 10), .lc (.start 10), .lc (.reqSent 2 20), .lc (.start 20),
   .lc (.disconnect 2), .closeRequested, .connectAccepted, .connClosed 3, .lc (.tick 20),
   .lc (.done 10), .lc (.respDelivered 10), .connClosed 1,
   .acceptStopped, .drained, .connectRefused, .lc (.done 20), .joinResolved true,
   .waiterReleased 1 true, .waiterReleased 0 true,
   .connectRefused, .waiterReleased 2 true]

example : acceptsSettled .detached exShutdown = true := by decide
/-- in cancel mode the same trace is refused: handler 20 would have been waited for by `Drained` -/
example : accepts .cancel exShutdown = false := by decide

/-- The monitor has teeth: the join may not resolve while a (detached) handler
runs; waiters may not disagree; no connect is accepted after the join; no
handler starts after the join; an idle connection is not closed before
shutdown is requested. -/
example : accepts .detached [.lc (.reqSent 1 10), .lc (.start 10), .lc (.disconnect 1),
    .closeRequested, .acceptStopped, .drained, .joinResolved true] = false := by decide
example : accepts .detached [.closeRequested, .acceptStopped, .drained, .joinResolved true,
    .waiterReleased 0 true, .waiterReleased 1 false] = false := by decide
example : accepts .cancel [.closeRequested, .acceptStopped, .drained,
    .connectAccepted] = false := by decide
example : accepts .cancel [.lc (.reqSent 1 10), .closeRequested, .acceptStopped, .drained,
    .joinResolved true, .lc (.start 10)] = false := by decide
example : accepts .cancel [.lc (.reqSent 1 10), .lc (.start 10), .lc (.done 10),
    .lc (.respDelivered 10), .connClosed 1] = false := by decide

/-! ### The HTTPS arm of the accept loop

`stepTls` / `runTls` (DropshotModel/Shutdown.lean): the same protocol, except that the
listener is dropped when the accept loop ends, not when the server task has finished. -/

/-- **Transfer.**  An accepted HTTPS trace with its connect probes erased is an accepted
trace of the plain protocol ending in the same state - so `close_waits_all`,
`close_waits_detached`, `close_waits`, `drain_waits`, `waiters_agree`, `close_order`, …
hold for servers started with TLS as well (none of them mentions a connect probe). -/
theorem tls_transfer (tr : List Event) (h : runTls m init tr = some s) :
    run m init (tr.filter fun e => !isConnectEvent e) = some s :=
  runTls_erase tr init s h

/-- For instance: over HTTPS too, every waiter is released with the same result. -/
theorem tls_waiters_agree {x y : Bool} (tr : List Event) (h : runTls m init tr = some s)
    (hi : Event.waiterReleased i x ∈ tr) (hj : Event.waiterReleased j y ∈ tr) : x = y := by
  have h' := tls_transfer tr h
  have mi : Event.waiterReleased i x ∈ tr.filter fun e => !isConnectEvent e :=
    List.mem_filter.2 ⟨hi, by simp [isConnectEvent]⟩
  have mj : Event.waiterReleased j y ∈ tr.filter fun e => !isConnectEvent e :=
    List.mem_filter.2 ⟨hj, by simp [isConnectEvent]⟩
  exact (waiters_agree h' mi mj).1

theorem filter_keep_join (a b : List Event) (res : Bool) :
    (a ++ Event.joinResolved res :: b).filter (fun e => !isConnectEvent e) =
      a.filter (fun e => !isConnectEvent e) ++ Event.joinResolved res :: b.filter (fun e => !isConnectEvent e) := by
  simp [List.filter_append, isConnectEvent]

theorem filter_mem_keep {e : Event} {l : List Event} (hc : isConnectEvent e = false) :
    e ∈ l.filter (fun e => !isConnectEvent e) ↔ e ∈ l := by
  simp [List.mem_filter, hc]

/-- **Shutdown waits for every handler, over HTTPS too.**  In an accepted HTTPS trace every
handler that started at all started before the join resolved and had ended by then; nothing
starts, ticks or completes afterwards. -/
theorem tls_close_waits_all (h : runTls m init (a ++ Event.joinResolved res :: b) = some s)
    (hs : Event.lc (.start r) ∈ a ++ Event.joinResolved res :: b) :
    Event.lc (.start r) ∈ a ∧
    (Event.lc (.done r) ∈ a ∨ Event.lc (.drop r) ∈ a ∨ Event.lc (.panic r) ∈ a) ∧
    Event.lc (.start r) ∉ b ∧ Event.lc (.tick r) ∉ b ∧ Event.lc (.done r) ∉ b := by
  have h' := tls_transfer _ h
  rw [filter_keep_join] at h'
  have hs' : Event.lc (.start r) ∈
      a.filter (fun e => !isConnectEvent e) ++ Event.joinResolved res :: b.filter (fun e => !isConnectEvent e) := by
    rw [← filter_keep_join]; exact (filter_mem_keep rfl).2 hs
  obtain ⟨h1, h2, h3, h4, h5⟩ := close_waits_all h' hs'
  refine ⟨(filter_mem_keep rfl).1 h1, ?_, fun x => h3 ((filter_mem_keep rfl).2 x), fun x => h4 ((filter_mem_keep rfl).2 x),
    fun x => h5 ((filter_mem_keep rfl).2 x)⟩
  rcases h2 with x | x | x
  · exact .inl ((filter_mem_keep rfl).1 x)
  · exact .inr (.inl ((filter_mem_keep rfl).1 x))
  · exact .inr (.inr ((filter_mem_keep rfl).1 x))

/-- **Graceful shutdown over HTTPS.**  The handler of a request that had started before the
join resolved, whose client never disconnected and which did not panic, completed before the
join resolved and was never dropped; its response has been delivered or can still be. -/
theorem tls_close_waits (h : runTls m init (a ++ Event.joinResolved res :: b) = some s)
    (hs : Event.lc (.start r) ∈ a ++ Event.joinResolved res :: b)
    (hc : Event.lc (.reqSent c r) ∈ a ++ Event.joinResolved res :: b)
    (hn : Event.lc (.disconnect c) ∉ a ++ Event.joinResolved res :: b)
    (hp : Event.lc (.panic r) ∉ a ++ Event.joinResolved res :: b) :
    Event.lc (.done r) ∈ a ∧ Event.lc (.drop r) ∉ a ++ Event.joinResolved res :: b ∧
    (s.lc.dead c = false → (s.lc.req r).delivered = false →
      (step m s (.lc (.respDelivered r))).isSome = true) := by
  have h' := tls_transfer _ h
  have key := fun (e : Event) (hce : isConnectEvent e = false) =>
    (filter_mem_keep (l := a ++ Event.joinResolved res :: b) hce)
  rw [filter_keep_join] at h'
  have conv : ∀ e : Event, isConnectEvent e = false →
      (e ∈ a.filter (fun e => !isConnectEvent e) ++ Event.joinResolved res :: b.filter (fun e => !isConnectEvent e)
        ↔ e ∈ a ++ Event.joinResolved res :: b) := by
    intro e hce; rw [← filter_keep_join]; exact key e hce
  obtain ⟨h1, h2, h3⟩ := close_waits h' ((conv _ rfl).2 hs) ((conv _ rfl).2 hc)
    (fun x => hn ((conv _ rfl).1 x)) (fun x => hp ((conv _ rfl).1 x))
  exact ⟨(filter_mem_keep rfl).1 h1, fun x => h2 ((conv _ rfl).2 x), h3⟩

/-- Over HTTPS the port closes earlier: a connect is refused only once the accept loop has
stopped, and from then on none is accepted (in particular none after shutdown finished). -/
theorem tls_port (s s' : State) :
    (stepTls m s .connectRefused = some s' → s.phase ≠ .serving ∧ s.phase ≠ .closeRequested) ∧
    (s.phase ≠ .serving ∧ s.phase ≠ .closeRequested → stepTls m s .connectAccepted = none) :=
  ⟨tls_refused_needs_accept_stopped, tls_no_accept_after_stop⟩

/-- Non-vacuity: an HTTPS shutdown with a request in flight; the probe made while the
handler is still running is refused (it would be accepted by the plain arm). -/
example :
    let tr : List Event :=
      [.lc (.reqSent 1 10), .lc (.start 10), .closeRequested, .acceptStopped, .connectRefused,
       .lc (.tick 10), .lc (.done 10), .lc (.respDelivered 10), .connClosed 1, .drained,
       .joinResolved true, .waiterReleased 0 true, .connectRefused]
    acceptsSettledTls .detached tr = true ∧ accepts .detached tr = false := by decide

end Dropshot.C17
