/-
C02 — accepted registrations are unambiguous and reachable; conflicts are rejected.

Property theorems only.  Models: DropshotModel/Router.lean (`HttpRouter::insert`,
every panic an error value) and DropshotModel/Register.lean (`validate_tags`,
`validate_path_parameters`, `validate_named_parameters`, `type_util.rs`).
Unambiguity and reachability are `…_partial`: finding K1 (exact route beside
a wildcard child) and K2 (the empty range `until ⊥`) are excluded by
hypothesis, with negation witnesses below.
-/
import DropshotProofs.C04
import DropshotModel.Register

namespace Dropshot.C02
open Dropshot
variable {V : Type} [LinearOrder V]

/-- A template whose wildcard, if any, is its last segment. -/
def WildLast : List Seg → Prop
  | [] => True
  | [_] => True
  | .wild _ :: _ :: _ => False
  | _ :: rest => WildLast rest

theorem wildLast_cons (s : Seg) (rest : List Seg) (h1 : ∀ n, s = .wild n → rest = [])
    (h2 : WildLast rest) : WildLast (s :: rest) := by
  cases rest with
  | nil => trivial
  | cons r rs =>
    cases s with
    | wild n => exact absurd (h1 n rfl) (by simp)
    | lit _ => exact h2
    | var _ => exact h2

theorem Node.chain_wildLast : ∀ (segs : List Seg) (seen : List String) (e : Endpoint V) (c : Node V),
    Node.chain segs seen e = .ok c → WildLast segs
  | [], _, _, _, _ => trivial
  | .lit s :: rest, seen, e, c, h => by
    simp only [Node.chain] at h
    split at h
    · cases h
    · rename_i c' hc
      exact wildLast_cons _ _ (by simp) (Node.chain_wildLast rest seen e c' hc)
  | .var n :: rest, seen, e, c, h => by
    simp only [Node.chain] at h
    split at h
    · cases h
    · split at h
      · cases h
      · rename_i c' hc
        exact wildLast_cons _ _ (by simp) (Node.chain_wildLast rest (n :: seen) e c' hc)
  | .wild n :: rest, seen, e, c, h => by
    simp only [Node.chain] at h
    split at h
    · cases h
    · rename_i hr
      have : rest = [] := by simpa using hr
      subst this; trivial

mutual
  theorem Node.insertAt_wildLast : ∀ (n : Node V) (segs : List Seg) (seen : List String)
      (e : Endpoint V) (n' : Node V), Node.insertAt n segs seen e = .ok n' → WildLast segs
    | .mk ms es, [], _, _, _, _ => trivial
    | .mk ms es, seg :: rest, seen, e, n', h => by
      simp only [Node.insertAt] at h
      split at h
      · cases h
      · rename_i es' hes
        exact Edges.insertAt_wildLast es seg rest seen e es' hes
  theorem Edges.insertAt_wildLast : ∀ (es : Edges V) (seg : Seg) (rest : List Seg)
      (seen : List String) (e : Endpoint V) (es' : Edges V),
      Edges.insertAt es seg rest seen e = .ok es' → WildLast (seg :: rest)
    | .none, seg, rest, seen, e, es', h => by
      simp only [Edges.insertAt] at h
      split at h
      · cases h
      · rename_i ms es0 hc
        exact Node.chain_wildLast (seg :: rest) seen e _ hc
    | .lits cs, .lit s, rest, seen, e, es', h => by
      simp only [Edges.insertAt] at h
      split at h
      · cases h
      · rename_i cs' hcs
        exact wildLast_cons _ _ (by simp) (Children.insertAt_wildLast cs s rest seen e cs' hcs)
    | .lits _, .var n, _, seen, _, _, h => by
      simp only [Edges.insertAt] at h; split at h <;> cases h
    | .lits _, .wild n, rest, seen, _, _, h => by
      simp only [Edges.insertAt] at h; (repeat' split at h) <;> cases h
    | .single _ _, .lit _, _, _, _, _, h => by simp [Edges.insertAt] at h
    | .single n' c, .var n, rest, seen, e, es', h => by
      simp only [Edges.insertAt] at h
      split at h
      · cases h
      · split at h
        · cases h
        · split at h
          · cases h
          · rename_i c' hc
            exact wildLast_cons _ _ (by simp) (Node.insertAt_wildLast c rest (n :: seen) e c' hc)
    | .single _ _, .wild n, rest, seen, _, _, h => by
      simp only [Edges.insertAt] at h; (repeat' split at h) <;> cases h
    | .rest _ _, .lit _, _, _, _, _, h => by simp [Edges.insertAt] at h
    | .rest _ _, .var n, _, seen, _, _, h => by
      simp only [Edges.insertAt] at h; split at h <;> cases h
    | .rest n' c, .wild n, rest, seen, e, es', h => by
      simp only [Edges.insertAt] at h
      split at h
      · cases h
      · rename_i hr
        have : rest = [] := by simpa using hr
        subst this; trivial
  theorem Children.insertAt_wildLast : ∀ (cs : Children V) (k : String) (rest : List Seg)
      (seen : List String) (e : Endpoint V) (cs' : Children V),
      Children.insertAt cs k rest seen e = .ok cs' → WildLast rest
    | .nil, k, rest, seen, e, cs', h => by
      simp only [Children.insertAt] at h
      split at h
      · cases h
      · rename_i c hc; exact Node.chain_wildLast rest seen e c hc
    | .cons k' c tl, k, rest, seen, e, cs', h => by
      simp only [Children.insertAt] at h
      split at h
      · split at h
        · cases h
        · rename_i c' hc; exact Node.insertAt_wildLast c rest seen e c' hc
      · split at h
        · split at h
          · cases h
          · rename_i cn hc; exact Node.chain_wildLast rest seen e cn hc
        · split at h
          · cases h
          · rename_i tl' htl; exact Children.insertAt_wildLast tl k rest seen e tl' htl
end

/-- The canonical request path for a template: literals as they are, every
variable ↦ "x", a trailing wildcard ↦ no segments. -/
def witnessPath : List Seg → List String
  | [] => []
  | .lit s :: rest => s :: witnessPath rest
  | .var _ :: rest => "x" :: witnessPath rest
  | .wild _ :: rest => witnessPath rest

theorem matchT_witness : ∀ (tpl : List Seg), WildLast tpl → (matchT tpl (witnessPath tpl)).isSome
  | [], _ => by simp [matchT, witnessPath]
  | .lit s :: rest, h => by
    have h' : WildLast rest := by cases rest <;> simp_all [WildLast]
    simp [witnessPath, matchT_lit_cons, matchT_witness rest h']
  | .var n :: rest, h => by
    have h' : WildLast rest := by cases rest <;> simp_all [WildLast]
    have := matchT_witness rest h'
    simp only [witnessPath, matchT_var_cons, Option.isSome_map, this]
  | .wild n :: rest, h => by
    cases rest with
    | nil => simp [witnessPath, matchT_wild_last]
    | cons r rs => simp [WildLast] at h

/-- Every endpoint of an accepted table has its wildcard (if any) last. -/
theorem accepted_wildLast : ∀ (es : List (Endpoint V)) (t t' : Node V),
    insertAll t es = .ok t' → ∀ e ∈ es, WildLast e.path
  | [], _, _, _, e, he => by cases he
  | e0 :: es, t, t', h, e, he => by
    simp only [insertAll] at h
    split at h
    · cases h
    · rename_i t1 h1
      rcases List.mem_cons.1 he with rfl | he'
      · exact Node.insertAt_wildLast t e.path [] e t1 h1
      · exact accepted_wildLast es t1 t' h e he'

/-- **C02, reachability (partial: outside K1; the range must contain a
version — the only empty range is `until ⊥`, finding K2).**  Every endpoint
of an accepted table is reached by its canonical witness request. -/
theorem accepted_reachable_partial (es : List (Endpoint V)) (t : Node V)
    (hr : ∀ e ∈ es, Range.WF e.versions) (h : insertAll Node.empty es = .ok t)
    (hK : t.NoExactBesideWild) (e : Endpoint V) (he : e ∈ es) (v : V) (hv : Range.Mem v e.versions) :
    ∃ vars, t.lookup e.method (witnessPath e.path) (some v) = .ok (e, vars) := by
  have hwl := accepted_wildLast es Node.empty t h e he
  have hm := matchT_witness e.path hwl
  cases hmt : matchT e.path (witnessPath e.path) with
  | none => simp [hmt] at hm
  | some vars =>
    exact ⟨vars, (C01.dispatch_iff_partial es t hr h hK e.method _ v e vars).2 ⟨he, rfl, hmt, hv⟩⟩

/-- **C02, unambiguity (partial: outside K1).**  In an accepted table no request
matches two endpoints. -/
theorem accepted_unambiguous_partial (es : List (Endpoint V)) (t : Node V)
    (hr : ∀ e ∈ es, Range.WF e.versions) (h : insertAll Node.empty es = .ok t)
    (hK : t.NoExactBesideWild) (m : String) (p : List String) (v : V) (e₁ e₂ : Endpoint V)
    (h₁ : e₁ ∈ es ∧ normMethod e₁.method = normMethod m ∧ (matchT e₁.path p).isSome ∧ Range.Mem v e₁.versions)
    (h₂ : e₂ ∈ es ∧ normMethod e₂.method = normMethod m ∧ (matchT e₂.path p).isSome ∧ Range.Mem v e₂.versions) :
    e₁ = e₂ := by
  obtain ⟨w, a⟩ := C01.accepted_wf es t hr h
  obtain ⟨h11, h12, h13, h14⟩ := h₁
  obtain ⟨h21, h22, h23, h24⟩ := h₂
  cases hm1 : matchT e₁.path p with
  | none => simp [hm1] at h13
  | some vs1 =>
    cases hm2 : matchT e₂.path p with
    | none => simp [hm2] at h23
    | some vs2 =>
      exact (C01.lookup_unique_partial t w hK m p v e₁ e₂ vs1 vs2
        ⟨(a _).2 h11, h12, hm1, h14⟩ ⟨(a _).2 h21, h22, hm2, h24⟩).1


/-! ### The checks `register` runs before the router -/

/-- **C02, tag policy.**  A published endpoint is accepted by the tag check
iff its tag count satisfies the policy and (unless other tags are allowed)
every tag is a defined one; unpublished endpoints are not checked. -/
theorem validateTags_none_iff (cfg : TagConfig) (visible : Bool) (tags : List String) :
    validateTags cfg visible tags = none ↔
      (visible = false ∨
        ((cfg.policy = .atLeastOne → tags ≠ []) ∧ (cfg.policy = .exactlyOne → tags.length = 1) ∧
          (cfg.allowOther = true ∨ ∀ t ∈ tags, t ∈ cfg.defined))) := by
  obtain ⟨policy, allowOther, defined⟩ := cfg
  cases visible <;> cases policy <;> cases allowOther <;> cases tags with
  | nil => simp [validateTags]
  | cons t ts =>
    cases ts with
    | nil => simp [validateTags]
    | cons t2 ts2 => simp [validateTags]

theorem sameSet_iff (a b : List String) : sameSet a b = true ↔ ∀ x, x ∈ a ↔ x ∈ b := by
  simp only [sameSet, Bool.and_eq_true, List.all_eq_true, List.contains_iff_mem]
  constructor
  · rintro ⟨h1, h2⟩ x; exact ⟨h1 x, h2 x⟩
  · intro h; exact ⟨fun x hx => (h x).1 hx, fun x hx => (h x).2 hx⟩

/-- **C02, path parameters.**  Accepted iff the template's variables and the
declared path parameters are the same set of names. -/
theorem validatePathParams_none_iff (tpl : List Seg) (params : List Param) :
    validatePathParams tpl params = none ↔
      ∀ x, x ∈ (templateVars tpl).map (·.1) ↔ x ∈ (params.filter (·.loc == .path)).map (·.name) := by
  unfold validatePathParams
  simp only
  split
  · rename_i h; simp only [true_iff]; exact (sameSet_iff _ _).1 h
  · rename_i h
    simp only [reduceCtorEq, false_iff]
    intro hx; exact h ((sameSet_iff _ _).2 hx)

/-- What the named-parameter check demands of one parameter. -/
def paramOk (tpl : List Seg) (deps : Deps) (p : Param) : Bool :=
  let kindOf := ((templateVars tpl).reverse.find? (fun v => v.1 == p.name)).map (·.2)
  match p.loc with
  | .body => true
  | .path =>
    match kindOf with
    | some false => typeIsScalar deps p.shape
    | some true => typeIsStringArray deps p.shape
    | none => true
  | .query => kindOf.isNone && typeIsScalar deps p.shape

/-- **C02, named parameters.**  Accepted iff no query parameter bears the name
of a path variable, every single-segment path parameter and every query
parameter is scalar, and a wildcard's parameter is an array of strings. -/
theorem validateNamedParams_none_iff (tpl : List Seg) (deps : Deps) (params : List Param) :
    validateNamedParams tpl deps params = none ↔ ∀ p ∈ params, paramOk tpl deps p = true := by
  induction params with
  | nil => simp [validateNamedParams]
  | cons p rest ih =>
    simp only [validateNamedParams, List.mem_cons, forall_eq_or_imp]
    rw [← ih]
    obtain ⟨loc, name, shape⟩ := p
    cases loc <;> simp only [paramOk]
    · -- path
      cases h : (List.find? (fun v => v.1 == name) (templateVars tpl).reverse).map (·.2) with
      | none => simp
      | some b =>
        cases b
        · cases hs : typeIsScalar deps shape <;> simp
        · cases hs : typeIsStringArray deps shape <;> simp
    · -- query
      cases h : (List.find? (fun v => v.1 == name) (templateVars tpl).reverse).map (·.2) with
      | none => cases hs : typeIsScalar deps shape <;> simp
      | some b => simp
    · simp

/-- `register`'s own checks accept an endpoint iff all three conditions hold. -/
theorem validateEndpoint_none_iff (cfg : TagConfig) (visible : Bool) (tags : List String)
    (tpl : List Seg) (deps : Deps) (params : List Param) :
    validateEndpoint cfg visible tags tpl deps params = none ↔
      validateTags cfg visible tags = none ∧ validatePathParams tpl params = none ∧
        validateNamedParams tpl deps params = none := by
  unfold validateEndpoint
  cases validateTags cfg visible tags <;> cases validatePathParams tpl params <;> simp

/-! ### Negation witnesses for the reachability clause -/

/-- **K1.**  `PUT /a` beside `GET /a/{r:.*}` is accepted but no request reaches it. -/
theorem reachable_fails_K1 :
    C01.accepted C01.k1Table = true ∧
      C01.is405 ((C01.tableOf C01.k1Table).lookup "PUT" (witnessPath [.lit "a"]) (some 0)) ["GET"] = true := by
  decide

/-- **K2.**  With a least version `b`, an endpoint `until b` is accepted and contains no version at all. -/
theorem reachable_fails_K2 :
    C01.accepted [({ id := 0, method := "GET", path := [.lit "e"], versions := .until 0 } : Endpoint Nat)] = true ∧
      ¬ ∃ v : Nat, Range.Mem v (.until 0) := by
  refine ⟨by decide, ?_⟩
  rintro ⟨v, hv⟩; exact Nat.not_lt_zero v hv

/-- Non-vacuity: every endpoint of the sample table is reached by its witness. -/
example : C01.isHit ((C01.tableOf C01.sampleTable).lookup "put" (witnessPath [.lit "a", .var "x", .lit "b", .var "y"]) (some 5))
    2 [("x", .str "x"), ("y", .str "x")] = true := by decide

end Dropshot.C02
