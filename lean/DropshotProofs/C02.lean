/-
C02 — accepted registrations are unambiguous and reachable; conflicts are rejected.

Property theorems only.  Models: DropshotModel/Router.lean (`HttpRouter::insert`,
every panic an error value) and DropshotModel/Register.lean (`validate_tags`,
`validate_path_parameters`, `validate_named_parameters`, `type_util.rs`).
Unambiguity and reachability are `…_partial`: finding K1 (exact route beside
a wildcard child) and K2 (the empty range `until ⊥`) are excluded by
hypothesis, with negation witnesses below.
-/
import DropshotProofs.C04
import DropshotProofs.Lemmas.RouterConflict
import DropshotProofs.Lemmas.RouterLive
import DropshotModel.Register

namespace Dropshot.C02
open Dropshot
variable {V : Type} [LinearOrder V]

/-- The canonical request path for a template: literals as they are, every
variable ↦ "x", a trailing wildcard ↦ no segments. -/
def witnessPath : List Seg → List String
  | [] => []
  | .lit s :: rest => s :: witnessPath rest
  | .var _ :: rest => "x" :: witnessPath rest
  | .wild _ :: rest => witnessPath rest

theorem matchT_witness : ∀ (tpl : List Seg), WildLast tpl → (matchT tpl (witnessPath tpl)).isSome
  | [], _ => by simp [matchT, witnessPath]
  | .lit s :: rest, h => by
    have h' : WildLast rest := by cases rest <;> simp_all [WildLast]
    simp [witnessPath, matchT_lit_cons, matchT_witness rest h']
  | .var n :: rest, h => by
    have h' : WildLast rest := by cases rest <;> simp_all [WildLast]
    have := matchT_witness rest h'
    simp only [witnessPath, matchT_var_cons, Option.isSome_map, this]
  | .wild n :: rest, h => by
    cases rest with
    | nil => simp [witnessPath, matchT_wild_last]
    | cons r rs => simp [WildLast] at h

/-- Every endpoint of an accepted table has its wildcard (if any) last. -/
theorem accepted_wildLast : ∀ (es : List (Endpoint V)) (t t' : Node V),
    insertAll t es = .ok t' → ∀ e ∈ es, WildLast e.path
  | [], _, _, _, e, he => by cases he
  | e0 :: es, t, t', h, e, he => by
    simp only [insertAll] at h
    split at h
    · cases h
    · rename_i t1 h1
      rcases List.mem_cons.1 he with rfl | he'
      · exact Node.insertAt_wildLast t e.path [] e t1 h1
      · exact accepted_wildLast es t1 t' h e he'

/-- **C02, reachability (partial: outside K1; the range must contain a
version — the only empty range is `until ⊥`, finding K2).**  Every endpoint
of an accepted table is reached by its canonical witness request. -/
theorem accepted_reachable_partial (es : List (Endpoint V)) (t : Node V)
    (hr : ∀ e ∈ es, Range.WF e.versions) (h : insertAll Node.empty es = .ok t)
    (hK : t.NoExactBesideWild) (e : Endpoint V) (he : e ∈ es) (v : V) (hv : Range.Mem v e.versions) :
    ∃ vars, t.lookup e.method (witnessPath e.path) (some v) = .ok (e, vars) := by
  have hwl := accepted_wildLast es Node.empty t h e he
  have hm := matchT_witness e.path hwl
  cases hmt : matchT e.path (witnessPath e.path) with
  | none => simp [hmt] at hm
  | some vars =>
    exact ⟨vars, (C01.dispatch_iff_partial es t hr h hK e.method _ v e vars).2 ⟨he, rfl, hmt, hv⟩⟩

/-- **C02, unambiguity (partial: outside K1).**  In an accepted table no request
matches two endpoints. -/
theorem accepted_unambiguous_partial (es : List (Endpoint V)) (t : Node V)
    (hr : ∀ e ∈ es, Range.WF e.versions) (h : insertAll Node.empty es = .ok t)
    (hK : t.NoExactBesideWild) (m : String) (p : List String) (v : V) (e₁ e₂ : Endpoint V)
    (h₁ : e₁ ∈ es ∧ normMethod e₁.method = normMethod m ∧ (matchT e₁.path p).isSome ∧ Range.Mem v e₁.versions)
    (h₂ : e₂ ∈ es ∧ normMethod e₂.method = normMethod m ∧ (matchT e₂.path p).isSome ∧ Range.Mem v e₂.versions) :
    e₁ = e₂ := by
  obtain ⟨w, a⟩ := C01.accepted_wf es t hr h
  obtain ⟨h11, h12, h13, h14⟩ := h₁
  obtain ⟨h21, h22, h23, h24⟩ := h₂
  cases hm1 : matchT e₁.path p with
  | none => simp [hm1] at h13
  | some vs1 =>
    cases hm2 : matchT e₂.path p with
    | none => simp [hm2] at h23
    | some vs2 =>
      exact (C01.lookup_unique_partial t w hK m p v e₁ e₂ vs1 vs2
        ⟨(a _).2 h11, h12, hm1, h14⟩ ⟨(a _).2 h21, h22, hm2, h24⟩).1


/-! ### Conflicts are rejected -/

/-- The declarative list: a segment after a wildcard; a repeated variable name;
against some registered endpoint, two different kinds of segment or two
differently named variables at the first position where the templates differ;
or the same template and method with overlapping version ranges. -/
def Conflict (registered : List (Endpoint V)) (e : Endpoint V) : Prop :=
  ¬ WildLast e.path ∨ ¬ (varNames e.path).Nodup ∨
  ∃ e' ∈ registered, pathClash e'.path e.path = true ∨
    (e'.path = e.path ∧ normMethod e'.method = normMethod e.method ∧
      Range.overlaps e'.versions e.versions = true)

/-- **C02, conflicts are rejected.**  Registering an endpoint that conflicts
with what is already registered (or with itself) fails, whatever the table. -/
theorem conflict_refused (t : Node V) (hw : C01.WF t) (e : Endpoint V)
    (hc : Conflict t.abs e) : ∃ err, t.insert e = .error err := by
  cases hins : t.insert e with
  | error err => exact ⟨err, rfl⟩
  | ok t' =>
    exfalso
    unfold Node.insert at hins
    rcases hc with h | h | ⟨e', he', h | ⟨hp, hm, ho⟩⟩
    · exact h (Node.insertAt_wildLast t e.path [] e t' hins)
    · exact h (Node.insertAt_vars t e.path [] e t' hins).1
    · obtain ⟨a, ha⟩ := (C01.mem_abs_iff t e').1 he'
      have haddr := hw.addr _ ha
      simp only at haddr
      subst haddr
      have := Node.insertAt_noClash t e.path [] e t' hw.sorted hins (_, e') ha
      simp only at this
      rw [this] at h; cases h
    · obtain ⟨a, ha⟩ := (C01.mem_abs_iff t e').1 he'
      have haddr := hw.addr _ ha
      simp only at haddr
      subst haddr
      rw [hp] at ha
      have := Node.insertAt_noOverlap t e.path [] e t' hw.sorted hw.methods hins e' ha hm
      rw [this] at ho; cases ho

/-- **C02, "an endpoint with none of these conflicts is always accepted".** -/
theorem no_conflict_accepted (t : Node V) (hw : C01.WF t) (hl : Node.Live t) (e : Endpoint V)
    (hc : ¬ Conflict t.abs e) : ∃ t', t.insert e = .ok t' := by
  simp only [Conflict, not_or, not_exists, not_and] at hc
  obtain ⟨h1, h2, h3⟩ := hc
  have h1 : WildLast e.path := Classical.byContradiction h1
  have h2 : (varNames e.path).Nodup := Classical.byContradiction h2
  unfold Node.insert
  refine Node.insertAt_ok t e.path [] e hw.sorted hw.methods hl h1 h2 (by simp) ⟨?_, ?_⟩
  · intro x hx
    have haddr := hw.addr _ hx
    have hmem : x.2 ∈ t.abs := (C01.mem_abs_iff t x.2).2 ⟨x.1, hx⟩
    have := (h3 x.2 hmem).1
    rw [haddr]
    cases hh : pathClash x.2.path e.path
    · rfl
    · exact absurd hh this
  · intro e' he' hm
    have haddr := hw.addr _ he'
    simp only at haddr
    have hmem : e' ∈ t.abs := (C01.mem_abs_iff t e').2 ⟨_, he'⟩
    have := (h3 e' hmem).2 haddr.symm hm
    cases hh : Range.overlaps e'.versions e.versions
    · rfl
    · exact absurd hh this

/-- **C02, refusal ⇔ conflict.**  On any table reached by accepted
registrations, `insert` fails exactly when the new endpoint conflicts with a
registered one or with itself, in the sense of the declarative list. -/
theorem insert_error_iff (es : List (Endpoint V)) (t : Node V)
    (hr : ∀ e ∈ es, Range.WF e.versions) (h : insertAll Node.empty es = .ok t) (e : Endpoint V) :
    (∃ err, t.insert e = .error err) ↔ Conflict es e := by
  obtain ⟨w, a⟩ := C01.accepted_wf es t hr h
  have hl := insertAll_live es Node.empty t live_empty h
  have hce : Conflict es e ↔ Conflict t.abs e := by
    simp only [Conflict]
    constructor <;> rintro (h1 | h1 | ⟨e', he', h2⟩)
    · exact Or.inl h1
    · exact Or.inr (Or.inl h1)
    · exact Or.inr (Or.inr ⟨e', (a e').2 he', h2⟩)
    · exact Or.inl h1
    · exact Or.inr (Or.inl h1)
    · exact Or.inr (Or.inr ⟨e', (a e').1 he', h2⟩)
  rw [hce]
  constructor
  · rintro ⟨err, herr⟩
    by_contra hnc
    obtain ⟨t', ht'⟩ := no_conflict_accepted t w hl e hnc
    rw [ht'] at herr; cases herr
  · exact conflict_refused t w e

/-- The same for a shared version: two endpoints on one template and method whose
ranges share a version cannot both be registered, in either order. -/
theorem shared_version_refused (t : Node V) (hw : C01.WF t) (e e' : Endpoint V)
    (he' : e' ∈ t.abs) (hp : e'.path = e.path) (hm : normMethod e'.method = normMethod e.method)
    (hr : Range.WF e.versions) (v : V) (h1 : Range.Mem v e'.versions) (h2 : Range.Mem v e.versions) :
    ∃ err, t.insert e = .error err :=
  conflict_refused t hw e (Or.inr (Or.inr ⟨e', he', Or.inr ⟨hp, hm,
    C05.overlaps_of_shared _ _ (hw.ranges _ he') hr ⟨v, h1, h2⟩⟩⟩))

/-- Non-vacuity: each kind of conflict occurs on a concrete table. -/
example : pathClash [.lit "a", .var "x"] [.lit "a", .lit "b"] = true ∧
    pathClash [.lit "a", .var "x"] [.lit "a", .var "y", .lit "c"] = true ∧
    pathClash [.lit "a", .wild "r"] [.lit "a", .var "r"] = true ∧
    pathClash [.lit "a"] [.lit "b"] = false ∧ pathClash [.lit "a"] [.lit "a", .var "x"] = false := by
  decide


/-! ### What is accepted, and in any order -/

/-- A template is acceptable on its own. -/
def Internal (e : Endpoint V) : Prop := WildLast e.path ∧ (varNames e.path).Nodup

/-- Two endpoints cannot both be registered. -/
def PairConflict (a b : Endpoint V) : Prop :=
  pathClash a.path b.path = true ∨
    (a.path = b.path ∧ normMethod a.method = normMethod b.method ∧
      Range.overlaps a.versions b.versions = true)

theorem conflict_iff (es : List (Endpoint V)) (e : Endpoint V) :
    Conflict es e ↔ ¬ Internal e ∨ ∃ e' ∈ es, PairConflict e' e := by
  simp only [Conflict, Internal, PairConflict]
  constructor
  · rintro (h | h | h)
    · exact Or.inl (fun hi => h hi.1)
    · exact Or.inl (fun hi => h hi.2)
    · exact Or.inr h
  · rintro (h | h)
    · by_cases hw : WildLast e.path
      · exact Or.inr (Or.inl (fun hn => h ⟨hw, hn⟩))
      · exact Or.inl hw
    · exact Or.inr (Or.inr h)

theorem pathClash_symm : ∀ (a b : List Seg), pathClash a b = pathClash b a
  | [], b => by simp
  | a :: as, [] => by simp
  | a :: as, b :: bs => by
    simp only [pathClash]
    by_cases h : a = b
    · subst h; simp [pathClash_symm as bs]
    · have h' : ¬ b = a := fun e => h e.symm
      simp only [h, h', if_false]
      cases a <;> cases b <;> rfl

theorem pairConflict_symm (a b : Endpoint V) : PairConflict a b ↔ PairConflict b a := by
  simp only [PairConflict]
  rw [pathClash_symm a.path b.path, C05.overlaps_comm a.versions b.versions]
  constructor <;> rintro (h | ⟨h1, h2, h3⟩)
  · exact Or.inl h
  · exact Or.inr ⟨h1.symm, h2.symm, h3⟩
  · exact Or.inl h
  · exact Or.inr ⟨h1.symm, h2.symm, h3⟩

/-- Registering `rest` on top of an accepted `pre` succeeds iff every new
endpoint is acceptable on its own, conflicts with nothing registered before
it, and they do not conflict among themselves. -/
theorem insertAll_ok_iff : ∀ (rest pre : List (Endpoint V)) (t : Node V),
    (∀ e ∈ pre ++ rest, Range.WF e.versions) → insertAll Node.empty pre = .ok t →
    ((∃ t', insertAll t rest = .ok t') ↔
      (∀ b ∈ rest, Internal b ∧ ∀ a ∈ pre, ¬ PairConflict a b) ∧
        rest.Pairwise (fun a b => ¬ PairConflict a b))
  | [], pre, t, _, _ => by simp [insertAll]
  | e :: rest, pre, t, hr, hpre => by
    have hrpre : ∀ x ∈ pre, Range.WF x.versions := fun x hx => hr x (by simp [hx])
    have hiff := insert_error_iff pre t hrpre hpre e
    rw [conflict_iff] at hiff
    cases hins : t.insert e with
    | error err =>
      have hc := hiff.1 ⟨err, hins⟩
      simp only [insertAll, hins, reduceCtorEq, exists_false, false_iff]
      rintro ⟨h1, -⟩
      have := h1 e (by simp)
      rcases hc with hc | ⟨a, ha, hpc⟩
      · exact hc this.1
      · exact this.2 a ha hpc
    | ok t1 =>
      have hnc : ¬ (¬ Internal e ∨ ∃ e' ∈ pre, PairConflict e' e) := by
        intro hc
        obtain ⟨err, herr⟩ := hiff.2 hc
        rw [hins] at herr; cases herr
      simp only [not_or, not_exists, not_and] at hnc
      have hint : Internal e := Classical.byContradiction hnc.1
      have hpre1 : insertAll Node.empty (pre ++ [e]) = .ok t1 := by
        have : ∀ (xs : List (Endpoint V)) (t0 : Node V), insertAll t0 xs = .ok t →
            insertAll t0 (xs ++ [e]) = .ok t1 := by
          intro xs
          induction xs with
          | nil => intro t0 h0; simp only [insertAll, Except.ok.injEq] at h0; subst h0; simp [insertAll, hins]
          | cons x xs ih =>
            intro t0 h0
            simp only [insertAll, List.cons_append] at h0 ⊢
            split at h0
            · cases h0
            · rename_i tx hx; exact ih tx h0
        exact this pre Node.empty hpre
      have ih := insertAll_ok_iff rest (pre ++ [e]) t1
        (fun x hx => hr x (by simp only [List.mem_append, List.mem_cons, List.mem_singleton, List.not_mem_nil, or_false] at hx ⊢; grind)) hpre1
      have hstep : (∃ t', insertAll t (e :: rest) = .ok t') ↔ (∃ t', insertAll t1 rest = .ok t') := by
        simp only [insertAll, hins]
      rw [hstep, ih]
      simp only [List.mem_cons, forall_eq_or_imp, List.pairwise_cons]
      constructor
      · rintro ⟨h1, h2⟩
        refine ⟨⟨⟨hint, fun a ha => hnc.2 a ha⟩, fun b hb => ⟨(h1 b hb).1, fun a ha => (h1 b hb).2 a (List.mem_append_left _ ha)⟩⟩,
          fun b hb => (h1 b hb).2 e (List.mem_append_right _ (by simp)), h2⟩
      · rintro ⟨⟨-, h1⟩, h2, h3⟩
        refine ⟨fun b hb => ⟨(h1 b hb).1, fun a ha => ?_⟩, h3⟩
        rcases List.mem_append.1 ha with ha | ha
        · exact (h1 b hb).2 a ha
        · have : a = e := by simpa using ha
          subst this; exact h2 b hb

/-- **C02, what is accepted.**  A sequence of registrations is accepted iff
every endpoint is acceptable on its own and no two of them conflict. -/
theorem accepted_iff (es : List (Endpoint V)) (hr : ∀ e ∈ es, Range.WF e.versions) :
    (∃ t, insertAll Node.empty es = .ok t) ↔
      (∀ e ∈ es, Internal e) ∧ es.Pairwise (fun a b => ¬ PairConflict a b) := by
  have := insertAll_ok_iff es [] Node.empty (by simpa using hr) rfl
  rw [this]
  simp

/-- **C01/C02, registration order does not matter for acceptance.**  Any
permutation of an accepted sequence is accepted ("whichever of the two is
registered first"). -/
theorem acceptance_order_independent (es es' : List (Endpoint V)) (hp : es.Perm es')
    (hr : ∀ e ∈ es, Range.WF e.versions) :
    (∃ t, insertAll Node.empty es = .ok t) ↔ (∃ t', insertAll Node.empty es' = .ok t') := by
  rw [accepted_iff es hr, accepted_iff es' (fun e he => hr e (hp.mem_iff.2 he))]
  have hsymm : ∀ a b : Endpoint V, ¬ PairConflict a b → ¬ PairConflict b a :=
    fun a b h h' => h ((pairConflict_symm b a).1 h')
  constructor
  · rintro ⟨h1, h2⟩
    exact ⟨fun e he => h1 e (hp.mem_iff.2 he), (hp.pairwise_iff (fun {a b} => hsymm a b)).1 h2⟩
  · rintro ⟨h1, h2⟩
    exact ⟨fun e he => h1 e (hp.mem_iff.1 he), (hp.pairwise_iff (fun {a b} => hsymm a b)).2 h2⟩


/-! ### The checks `register` runs before the router -/

/-- **C02, tag policy.**  A published endpoint is accepted by the tag check
iff its tag count satisfies the policy and (unless other tags are allowed)
every tag is a defined one; unpublished endpoints are not checked. -/
theorem validateTags_none_iff (cfg : TagConfig) (visible : Bool) (tags : List String) :
    validateTags cfg visible tags = none ↔
      (visible = false ∨
        ((cfg.policy = .atLeastOne → tags ≠ []) ∧ (cfg.policy = .exactlyOne → tags.length = 1) ∧
          (cfg.allowOther = true ∨ ∀ t ∈ tags, t ∈ cfg.defined))) := by
  obtain ⟨policy, allowOther, defined⟩ := cfg
  cases visible <;> cases policy <;> cases allowOther <;> cases tags with
  | nil => simp [validateTags]
  | cons t ts =>
    cases ts with
    | nil => simp [validateTags]
    | cons t2 ts2 => simp [validateTags]

theorem sameSet_iff (a b : List String) : sameSet a b = true ↔ ∀ x, x ∈ a ↔ x ∈ b := by
  simp only [sameSet, Bool.and_eq_true, List.all_eq_true, List.contains_iff_mem]
  constructor
  · rintro ⟨h1, h2⟩ x; exact ⟨h1 x, h2 x⟩
  · intro h; exact ⟨fun x hx => (h x).1 hx, fun x hx => (h x).2 hx⟩

/-- **C02, path parameters.**  Accepted iff the template's variables and the
declared path parameters are the same set of names. -/
theorem validatePathParams_none_iff (tpl : List Seg) (params : List Param) :
    validatePathParams tpl params = none ↔
      ∀ x, x ∈ (templateVars tpl).map (·.1) ↔ x ∈ (params.filter (·.loc == .path)).map (·.name) := by
  unfold validatePathParams
  simp only
  split
  · rename_i h; simp only [true_iff]; exact (sameSet_iff _ _).1 h
  · rename_i h
    simp only [reduceCtorEq, false_iff]
    intro hx; exact h ((sameSet_iff _ _).2 hx)

/-- What the named-parameter check demands of one parameter. -/
def paramOk (tpl : List Seg) (deps : Deps) (p : Param) : Bool :=
  let kindOf := ((templateVars tpl).reverse.find? (fun v => v.1 == p.name)).map (·.2)
  match p.loc with
  | .body => true
  | .path =>
    match kindOf with
    | some false => typeIsScalar deps p.shape
    | some true => typeIsStringArray deps p.shape
    | none => true
  | .query => kindOf.isNone && typeIsScalar deps p.shape

/-- **C02, named parameters.**  Accepted iff no query parameter bears the name
of a path variable, every single-segment path parameter and every query
parameter is scalar, and a wildcard's parameter is an array of strings. -/
theorem validateNamedParams_none_iff (tpl : List Seg) (deps : Deps) (params : List Param) :
    validateNamedParams tpl deps params = none ↔ ∀ p ∈ params, paramOk tpl deps p = true := by
  induction params with
  | nil => simp [validateNamedParams]
  | cons p rest ih =>
    simp only [validateNamedParams, List.mem_cons, forall_eq_or_imp]
    rw [← ih]
    obtain ⟨loc, name, shape⟩ := p
    cases loc <;> simp only [paramOk]
    · -- path
      cases h : (List.find? (fun v => v.1 == name) (templateVars tpl).reverse).map (·.2) with
      | none => simp
      | some b =>
        cases b
        · cases hs : typeIsScalar deps shape <;> simp
        · cases hs : typeIsStringArray deps shape <;> simp
    · -- query
      cases h : (List.find? (fun v => v.1 == name) (templateVars tpl).reverse).map (·.2) with
      | none => cases hs : typeIsScalar deps shape <;> simp
      | some b => simp
    · simp

/-- `register`'s own checks accept an endpoint iff all three conditions hold. -/
theorem validateEndpoint_none_iff (cfg : TagConfig) (visible : Bool) (tags : List String)
    (tpl : List Seg) (deps : Deps) (params : List Param) :
    validateEndpoint cfg visible tags tpl deps params = none ↔
      validateTags cfg visible tags = none ∧ validatePathParams tpl params = none ∧
        validateNamedParams tpl deps params = none := by
  unfold validateEndpoint
  cases validateTags cfg visible tags <;> cases validatePathParams tpl params <;> simp

/-! ### Servers without a version policy

`ServerBuilder::start` with `VersionPolicy::Unversioned` routes every request
with no version at all, so *every* range matches: two endpoints on one method
and path with disjoint ranges, which registration rightly accepts, would both
match every request.  What keeps dispatch unambiguous is the builder's refusal
to start such a server (`router.has_versioned_routes()`, a flag `insert`
maintains).  The flag must therefore be a function of the set of endpoints. -/

/-- A table with any version-restricted endpoint is refused by an unversioned
server, wherever in the registration order that endpoint stands. -/
theorem unversioned_server_refuses_versioned (es : List (Endpoint V)) (e : Endpoint V)
    (he : e ∈ es) (hv : e.versions ≠ .all) : unversionedServerStarts es ≠ some true := by
  intro h
  exact hv (((C01.unversioned_server_starts_iff es).1 h).2 e he)

/-- **C02, unambiguity on unversioned servers (partial: outside K1).**  When an
unversioned server starts, no request - matched on method and path alone, as
such a server does - matches two endpoints. -/
theorem unversioned_server_unambiguous_partial (es : List (Endpoint V)) (t : Node V)
    (hs : unversionedServerStarts es = some true) (h : insertAll Node.empty es = .ok t)
    (hK : t.NoExactBesideWild) (v : V) (m : String) (p : List String) (e₁ e₂ : Endpoint V)
    (h₁ : e₁ ∈ es ∧ normMethod e₁.method = normMethod m ∧ (matchT e₁.path p).isSome)
    (h₂ : e₂ ∈ es ∧ normMethod e₂.method = normMethod m ∧ (matchT e₂.path p).isSome) :
    e₁ = e₂ := by
  have hall := ((C01.unversioned_server_starts_iff es).1 hs).2
  have hr : ∀ e ∈ es, Range.WF e.versions := by
    intro e he; rw [hall e he]; trivial
  refine accepted_unambiguous_partial es t hr h hK m p v e₁ e₂
    ⟨h₁.1, h₁.2.1, h₁.2.2, ?_⟩ ⟨h₂.1, h₂.2.1, h₂.2.2, ?_⟩
  · rw [hall e₁ h₁.1]; trivial
  · rw [hall e₂ h₂.1]; trivial

/-- The starting decision does not depend on the registration order. -/
theorem unversioned_server_order_independent (es es' : List (Endpoint V)) (hp : es.Perm es')
    (hr : ∀ e ∈ es, Range.WF e.versions) :
    unversionedServerStarts es = some true ↔ unversionedServerStarts es' = some true := by
  rw [C01.unversioned_server_starts_iff, C01.unversioned_server_starts_iff]
  have hacc := acceptance_order_independent es es' hp hr
  constructor
  · rintro ⟨a, b⟩
    exact ⟨hacc.1 a, fun e he => b e (hp.mem_iff.2 he)⟩
  · rintro ⟨a, b⟩
    exact ⟨hacc.2 a, fun e he => b e (hp.mem_iff.1 he)⟩

/-! ### Negation witnesses for the reachability clause -/

/-- **K1.**  `PUT /a` beside `GET /a/{r:.*}` is accepted but no request reaches it. -/
theorem reachable_fails_K1 :
    C01.accepted C01.k1Table = true ∧
      C01.is405 ((C01.tableOf C01.k1Table).lookup "PUT" (witnessPath [.lit "a"]) (some 0)) ["GET"] = true := by
  decide

/-- **K2.**  With a least version `b`, an endpoint `until b` is accepted and contains no version at all. -/
theorem reachable_fails_K2 :
    C01.accepted [({ id := 0, method := "GET", path := [.lit "e"], versions := .until 0 } : Endpoint Nat)] = true ∧
      ¬ ∃ v : Nat, Range.Mem v (.until 0) := by
  refine ⟨by decide, ?_⟩
  rintro ⟨v, hv⟩; exact Nat.not_lt_zero v hv

/-- Non-vacuity: every endpoint of the sample table is reached by its witness. -/
example : C01.isHit ((C01.tableOf C01.sampleTable).lookup "put" (witnessPath [.lit "a", .var "x", .lit "b", .var "y"]) (some 5))
    2 [("x", .str "x"), ("y", .str "x")] = true := by decide

end Dropshot.C02
