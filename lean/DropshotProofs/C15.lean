/-
C15 — following next-page tokens visits every item exactly once.

Property theorems only.  Model: DropshotModel/Pagination.lean (`page`,
`nextSelector` = `ResultsPage::new`'s rule, `scanFrom`/`scan`, `pageLimit`).
The collection is any list in strictly increasing *scan order* `lt` (ascending,
descending, composite keys: any strict order); sizes and limits are unbounded.
The token that carries the selector between requests is C14's
(`C14.token_roundtrip_partial`: the selector read back is the one issued), so
here the selector of the last item is handed to the next request directly.

Partial (stated in notes/C15.md): `page` is the *harness's* keyset handler
(what `examples/pagination-*.rs` do with a `BTreeMap` range); dropshot's own
pieces in the loop are `page_limit`, `ResultsPage::new` and the token codec.
-/
import DropshotModel.Pagination
import DropshotProofs.Lemmas.Scan

namespace Dropshot.C15
open Dropshot Dropshot.Pagination

variable {α σ : Type}

/-- **C15 (completeness, order).**  For an unchanging, strictly sorted
collection and any positive page size, the pages obtained by starting at the
first page and following each returned selector, concatenated, are exactly the
collection: every item, in order. -/
theorem scan_complete (lt : α → α → Bool) (ho : StrictOrder lt) (coll : List α) (L : Nat)
    (hs : Sorted lt coll) (hL : 0 < L) : (scan lt coll L).1.flatten = coll :=
  (scanFrom_spec lt ho L hL (coll.length + 2) [] coll hs (by omega)).2.1

/-- … hence exactly once: the concatenation has no repeated item. -/
theorem scan_each_once (lt : α → α → Bool) (ho : StrictOrder lt) (coll : List α) (L : Nat)
    (hs : Sorted lt coll) (hL : 0 < L) :
    (scan lt coll L).1.flatten.Nodup ∧ ∀ x, x ∈ (scan lt coll L).1.flatten ↔ x ∈ coll := by
  rw [scan_complete lt ho coll L hs hL]
  refine ⟨?_, fun _ => Iff.rfl⟩
  unfold Sorted at hs
  exact hs.imp fun {a b} h e => by subst e; rw [ho.irrefl] at h; cases h

/-- **C15 (page size).**  No page holds more items than the limit. -/
theorem page_le_limit (lt : α → α → Bool) (ho : StrictOrder lt) (coll : List α) (L : Nat)
    (hs : Sorted lt coll) (hL : 0 < L) : ∀ p ∈ (scan lt coll L).1, p.length ≤ L :=
  (scanFrom_spec lt ho L hL (coll.length + 2) [] coll hs (by omega)).2.2.1

/-- Every single page is within the limit, whatever the selector (no
sortedness needed). -/
theorem any_page_le_limit (lt : α → α → Bool) (coll : List α) (L : Nat) (w : Option α) :
    (page lt coll L w).length ≤ L := by
  cases w <;> simp [page, List.length_take] <;> omega

/-- **C15 (token ⇔ non-empty page).**  `ResultsPage::new` returns a next-page
token exactly when the page has an item (the selector of the last one). -/
theorem token_iff_nonempty (sel : α → σ) (items : List α) :
    (nextSelector sel items).isSome = true ↔ items ≠ [] := by
  cases h : items.getLast? with
  | none => rw [List.getLast?_eq_none_iff] at h; simp [nextSelector, h]
  | some l =>
    have : items ≠ [] := by intro e; subst e; simp at h
    simp [nextSelector, h, this]

theorem token_is_last (sel : α → σ) (items : List α) (a : α) :
    nextSelector sel (items ++ [a]) = some (sel a) := by
  simp [nextSelector]

/-- In a scan: every page but the last is non-empty (so carried a token), and
the last is empty (no token): the client stops exactly there. -/
theorem scan_stops_at_empty_page (lt : α → α → Bool) (ho : StrictOrder lt) (coll : List α) (L : Nat)
    (hs : Sorted lt coll) (hL : 0 < L) :
    (scan lt coll L).1.getLast? = some [] ∧ ∀ p ∈ (scan lt coll L).1.dropLast, p ≠ [] :=
  let h := scanFrom_spec lt ho L hL (coll.length + 2) [] coll hs (by omega)
  ⟨h.2.2.2.2.1, h.2.2.2.2.2⟩

/-- **C15 (termination, exact count).**  The scan makes `⌈n / L⌉ + 1` requests
(one trailing empty page; one request for the empty collection).
(DESIGN.md wrote `n / L + 1`; that is the count only when `L` divides `n`.) -/
theorem scan_terminates (lt : α → α → Bool) (ho : StrictOrder lt) (coll : List α) (L : Nat)
    (hs : Sorted lt coll) (hL : 0 < L) :
    (scan lt coll L).1.length = (coll.length + L - 1) / L + 1 :=
  (scanFrom_spec lt ho L hL (coll.length + 2) [] coll hs (by omega)).2.2.2.1

/-- The fuel (`length + 2`) is never exhausted: the scan ended because no token
was returned. -/
theorem scan_fuel_ok (lt : α → α → Bool) (ho : StrictOrder lt) (coll : List α) (L : Nat)
    (hs : Sorted lt coll) (hL : 0 < L) : (scan lt coll L).2 = false :=
  (scanFrom_spec lt ho L hL (coll.length + 2) [] coll hs (by omega)).1

/-- More fuel changes nothing. -/
theorem scan_fuel_irrelevant (lt : α → α → Bool) (ho : StrictOrder lt) (coll : List α) (L : Nat)
    (hs : Sorted lt coll) (hL : 0 < L) (f : Nat) (hf : coll.length + 2 ≤ f) :
    (scanFrom lt coll L f none).1.flatten = coll ∧ (scanFrom lt coll L f none).2 = false :=
  let h := scanFrom_spec lt ho L hL f [] coll hs hf
  ⟨h.2.1, h.1⟩

/-- The effective limit is positive when the configuration is. -/
theorem pageLimit_pos (client : Option Nat) (max dflt : Nat) (hc : ∀ n, client = some n → 0 < n)
    (hm : 0 < max) (hd : 0 < dflt) : 0 < pageLimit client max dflt := by
  cases client with
  | none => exact hd
  | some n => have := hc n rfl; simp only [pageLimit]; omega

/-- **C15 (clamp respected).**  With the page size dropshot computes
(`page_limit`: the client's limit capped at the server maximum, the default
when absent), the scan is complete and no page exceeds the cap. -/
theorem clamp_respected (lt : α → α → Bool) (ho : StrictOrder lt) (coll : List α)
    (client : Option Nat) (max dflt : Nat) (hc : ∀ n, client = some n → 0 < n)
    (hm : 0 < max) (hd : 0 < dflt) (hdm : dflt ≤ max) (hs : Sorted lt coll) :
    (scan lt coll (pageLimit client max dflt)).1.flatten = coll ∧
    (∀ p ∈ (scan lt coll (pageLimit client max dflt)).1, p.length ≤ max ∧
      ∀ n, client = some n → p.length ≤ n) := by
  have hL := pageLimit_pos client max dflt hc hm hd
  refine ⟨scan_complete lt ho coll _ hs hL, fun p hp => ?_⟩
  have h := page_le_limit lt ho coll _ hs hL p hp
  cases client with
  | none => exact ⟨by simp only [pageLimit] at h; omega, fun n e => by cases e⟩
  | some c =>
    simp only [pageLimit] at h
    exact ⟨by omega, fun n e => by cases e; omega⟩

/-! ### the scan orders used by the harness are strict orders -/

theorem nat_asc : StrictOrder (fun a b : Nat => decide (a < b)) :=
  ⟨fun a => by simp, fun a b c h1 h2 => by simp at *; omega⟩

theorem nat_desc : StrictOrder (fun a b : Nat => decide (b < a)) :=
  ⟨fun a => by simp, fun a b c h1 h2 => by simp at *; omega⟩

/-- Non-vacuity: a five-item ascending collection, page size two. -/
example : scan (fun a b : Nat => decide (a < b)) [1, 2, 3, 4, 5] 2 = ([[1, 2], [3, 4], [5], []], false) := by
  decide

example : Sorted (fun a b : Nat => decide (a < b)) [1, 2, 3, 4, 5] := by
  unfold Sorted; decide

/-- … descending, page size five (one full page, then the empty one). -/
example : scan (fun a b : Nat => decide (b < a)) [5, 4, 3, 2, 1] 5 = ([[5, 4, 3, 2, 1], []], false) := by
  decide

/-- The empty collection: one request, an empty page, no token. -/
example : scan (fun a b : Nat => decide (a < b)) [] 3 = ([[]], false) := by decide

/-- Why sortedness is a hypothesis: on a collection with a repeated key a keyset
scan skips the repeat. -/
theorem unsorted_scan_loses_items :
    (scan (fun a b : Nat => decide (a < b)) [1, 1, 2] 1).1.flatten ≠ [1, 1, 2] := by decide

end Dropshot.C15
