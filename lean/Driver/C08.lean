/-
Driver for C08.  Per harness line: decode the structural dump of the schemars
schema, run the model `j2oas`, compare its serialisation with the
implementation's JSON after key-sorting (`agree`), and evaluate the
specification on the **implementation's** output: for a set of instances
generated from the schema (valid ones, and single mutations: wrong type,
missing required, extra property, out of bounds, bad enum, too long / short,
duplicates), `JS.valid input j = RefOr.valid impl_output j` (`spec`).

  rs|us <id> <name|-> <schema> => ok:<oas> | panic
  dt <id> <type> <name|-> <ndefs> <root> (<defname> <def>)* => <res> (<res>)*

`spec` is evaluated when the input lies in the theorem's fragment
(`JS.supported`), or leaves it only through the `null` instance type (finding
K3) or `const` (finding K5), and for every derived type (`dt`).  For the other
synthetic unsupported inputs (`us`) the conversion is known to drop a keyword
(see the `drops_*` witnesses in DropshotProofs/C08.lean): `spec=na`, the class
names the reason.  A panic is compared with the model's error (`agree`);
`spec=na`.
-/
import DropshotModel.Proto
import DropshotModel.SchemaJson
import DropshotModel.RefSiblings

open Dropshot Dropshot.Proto Dropshot.Schema

namespace Dropshot.DriverC08

def out (id : String) (agree : Bool) (spec : String) (cls known model : String) : String :=
  s!"{id} agree={b2s agree} spec={spec} class={cls} known={known} model={model}"

def bad (id : String) (why : String) : String :=
  s!"{id} agree=0 spec=na class=bad-line known=- model={why}"

/-! ### Traversal helpers (labels and known-finding predicates) -/

mutual
partial def children : JS → List JS
  | .bool _ => []
  | .obj _ _ _ _ _ subs _ _ arr ob _ _ =>
    (match subs with
      | .none => []
      | .some a b c n i t e => ol a ++ ol b ++ ol c ++ o n ++ o i ++ o t ++ o e)
    ++ (match arr with
      | .none => []
      | .some items ai _ _ _ c =>
        (match items with | .none => [] | .single s => [s] | .vec l => l.toList) ++ o ai ++ o c)
    ++ (match ob with
      | .none => []
      | .some _ _ _ p pp ap pn => (p.toList.map (·.2)) ++ (pp.toList.map (·.2)) ++ o ap ++ o pn)
partial def o : JSOpt → List JS
  | .none => []
  | .some s => [s]
partial def ol : JSOptList → List JS
  | .none => []
  | .some l => l.toList
end

partial def anyNode (p : JS → Bool) (s : JS) : Bool :=
  p s || (children s).any (anyNode p)

partial def depthOf (s : JS) : Nat :=
  (children s).foldl (fun m c => max m (depthOf c + 1)) 0

def isNullTyped : JS → Bool
  | .obj _ (some (.single .null)) _ _ _ _ _ _ _ _ none _ => true
  | _ => false

def hasConstHere : JS → Bool
  | .obj _ _ _ _ (some _) _ _ _ _ _ none _ => true
  | _ => false

/-- the same schema with every `null` instance type replaced by `boolean` and
every `const` removed: used only to ask "is this schema unsupported *only*
because of K3 / K5?". -/
partial def eraseK (s : JS) : JS :=
  let rec opt : JSOpt → JSOpt
    | .none => .none
    | .some s => .some (eraseK s)
  let lst (l : JSList) : JSList := JSList.ofList (l.toList.map eraseK)
  let optl : JSOptList → JSOptList
    | .none => .none
    | .some l => .some (lst l)
  match s with
  | .bool b => .bool b
  | .obj md ty fmt en cv subs num str arr ob rf ext =>
    let ty' := match ty, rf with
      | some (.single .null), none => some (.single .boolean)
      | t, _ => t
    let cv' := match rf with | none => none | some _ => cv
    let subs' := match subs with
      | .none => .none
      | .some a b c n i t e => .some (optl a) (optl b) (optl c) (opt n) (opt i) (opt t) (opt e)
    let arr' := match arr with
      | .none => .none
      | .some items ai mx mn u c =>
        .some (match items with
          | .none => .none | .single s => .single (eraseK s) | .vec l => .vec (lst l)) (opt ai) mx mn u (opt c)
    let ob' := match ob with
      | .none => .none
      | .some mx mn req p pp ap pn =>
        .some mx mn req (JSProps.ofList (p.toList.map fun (k, s) => (k, eraseK s)))
          (JSProps.ofList (pp.toList.map fun (k, s) => (k, eraseK s))) (opt ap) (opt pn)
    .obj md ty' fmt en cv' subs' num str arr' ob' rf ext

/-- a label for the first reason `s` is outside `JS.supported` (labels only). -/
partial def whyUnsupported (s : JS) : String :=
  match s with
  | .bool _ => "-"
  | .obj _ ty _ en cv subs num str arr ob rf _ =>
    let fromChildren := ((children s).map whyUnsupported).find? (· != "-") |>.getD "-"
    match rf with
    | some _ =>
      if ty.isSome || en.isSome || cv.isSome || subs.isSome || !numTrivial num || !strTrivial str
        || !arr.trivial || !ob.trivial then "ref-siblings" else "-"
    | none =>
      if cv.isSome then "const" else
      match tyArm ty with
      | .typeArray => "type-array"
      | .one .null => "null-type"
      | .one .boolean | .one .number | .one .string =>
        if !enumNonEmpty en then "empty-enum" else fromChildren
      | .one .integer =>
        if !enumNonEmpty en then "empty-enum"
        else if !numInI64 num then "bound-beyond-i64" else fromChildren
      | .one .object =>
        if en.isSome then "enum-beside-object" else
        (match ob with
          | .some _ _ _ _ (.cons ..) _ _ => "patternProperties"
          | .some _ _ _ _ _ _ (.some _) => "propertyNames"
          | _ => fromChildren)
      | .one .array =>
        if en.isSome then "enum-beside-array" else
        (match arr with
          | .some _ _ _ _ _ (.some _) => "contains"
          | .some (.vec _) .. => "tuple-items"
          | _ => fromChildren)
      | .absent =>
        if en.isSome then "enum-without-type"
        else if !numTrivial num || !strTrivial str || !arr.trivial || !ob.trivial then
          (if subs.isSome then "validation-beside-subschemas" else "validation-without-type")
        else match subs with
          | .some _ _ _ _ (.some _) _ _ => "if-then-else"
          | _ => fromChildren

def rootKind : JS → String
  | .bool _ => "bool"
  | .obj _ ty _ _ _ subs _ _ _ _ rf _ =>
    match rf with
    | some _ => "ref"
    | none =>
      match ty, subs with
      | some (.single .null), _ => "null"
      | some (.single .boolean), _ => "boolean"
      | some (.single .object), _ => "object"
      | some (.single .array), _ => "array"
      | some (.single .number), _ => "number"
      | some (.single .string), _ => "string"
      | some (.single .integer), _ => "integer"
      | some (.vec _), _ => "typearray"
      | none, .some (.some _) _ _ _ _ _ _ => "allOf"
      | none, .some _ (.some _) _ _ _ _ _ => "anyOf"
      | none, .some _ _ (.some _) _ _ _ _ => "oneOf"
      | none, .some _ _ _ (.some _) _ _ _ => "not"
      | none, .some .. => "subs"
      | none, .none => "any"

def panicName : Panic → String
  | .nullSet => "null-set" | .typeArray => "type-array" | .typeAndSubschemas => "type-and-subschemas"
  | .enumValue => "enum-value" | .enumNotI64 => "enum-not-i64" | .invalidSubschema => "invalid-subschema"
  | .invalidBounds => "invalid-bounds" | .tupleItems => "tuple-items" | .arrayNone => "array-none"

/-! ### Instance generation -/

def dedup (xs : List J) : List J :=
  xs.foldl (fun acc x => if acc.any (J.beq x) then acc else acc ++ [x]) []

def basePool : List J := [.null, .bool true, .num 0, .str "a", .arr [], .obj []]

def rep (n : Nat) : String := String.ofList (List.replicate n 'a')

def numCands (num : Option NumV) : List J :=
  let bs : List Int := match num with
    | none => []
    | some v =>
      (([v.maximum, v.exclusiveMaximum, v.minimum, v.exclusiveMinimum].filterMap id).flatMap
        fun b => [b - 1, b, b + 1])
      ++ (match v.multipleOf with | some m => [m, 2 * m, m + 1, -m] | none => [])
  (bs ++ [0, 1, -1, 7, 256, 4294967296, 9223372036854775807, 9223372036854775808, -9223372036854775809]).map .num

def strCands (str : Option StrV) : List J :=
  let ls : List Nat := match str with
    | none => []
    | some v => ([v.minLength, v.maxLength].filterMap id).flatMap fun n => [n - 1, n, n + 1]
  (ls.map fun n => J.str (rep n)) ++ [.str "", .str "a", .str "ab", .str "héllo", .str "abcdef", .str "xyz"]

def setKey (k : String) (v : J) (kvs : List (String × J)) : List (String × J) :=
  if kvs.any (·.1 == k) then kvs.map (fun kv => if kv.1 == k then (k, v) else kv) else kvs ++ [(k, v)]

structure Gen where
  env : Env
  defs : List (String × JS)

partial def cands (g : Gen) (fuel : Nat) (s : JS) : List J :=
  match s with
  | .bool _ => basePool
  | .obj _ ty _ en cv subs num str arr ob rf _ =>
    let good (s : JS) (cs : List J) : List J := cs.filter (s.valid g.env)
    let badOf (s : JS) (cs : List J) : List J := cs.filter (fun c => !s.valid g.env c)
    let sub (s : JS) : List J := if fuel == 0 then basePool else (cands g (fuel - 1) s).take 10
    let arrC : List J := match arr with
      | .none => [.arr [], .arr [.num 1], .arr [.num 1, .num 1], .arr [.str "a", .null]]
      | .some items _ mx mn _ cont =>
        let ec : List J := match items with
          | .single s => sub s
          | .vec l => (l.toList.flatMap sub).take 8
          | .none => [.num 1, .str "a", .null]
        let ec := ec ++ (match cont with | .some c => sub c | .none => [])
        let gs : List J := match items with | .single s => good s ec | _ => ec
        let bs : List J := match items with | .single s => badOf s ec | _ => []
        let g0 := gs.headD (.num 1)
        let lens : List Nat := ([mn, mx].filterMap id).flatMap fun n => [n - 1, n, n + 1]
        [.arr [], .arr [g0], .arr [g0, g0], .arr (gs.take 2), .arr (gs.take 3), .arr (gs.take 5)]
        ++ (bs.take 2).map (fun b => J.arr [b])
        ++ (bs.take 1).map (fun b => J.arr [g0, b])
        ++ lens.map (fun n => J.arr ((gs ++ List.replicate n g0).take n))
        ++ lens.map (fun n => J.arr (List.replicate n g0))
    let objC : List J := match ob with
      | .none => [.obj [], .obj [("a", .num 1)]]
      | .some mx mn req props _ addl _ =>
        let ps := props.toList
        let pick (s : JS) : J := let cs := sub s; (good s cs).headD (cs.headD .null)
        let full0 : List (String × J) := ps.foldl (fun acc (k, s) => setKey k (pick s) acc) []
        let full : List (String × J) := req.foldl (fun acc r => if acc.any (·.1 == r) then acc else acc ++ [(r, .num 1)]) full0
        let reqOnly := full.filter (fun kv => req.contains kv.1)
        let extraV : J := match addl with
          | .some s => pick s
          | .none => .num 1
        let extraBad : List J := match addl with
          | .some s => (badOf s (sub s)).take 1
          | .none => []
        let lens : List Nat := ([mn, mx].filterMap id).flatMap fun n => [n - 1, n, n + 1]
        let pad (n : Nat) : List (String × J) :=
          (full ++ (List.range n).map fun i => (s!"pad{i}", extraV)).take n
        [.obj [], .obj full, .obj reqOnly, .obj (full ++ [("extra!", extraV)]), .obj (full ++ [("extra!", .str "s")])]
        ++ extraBad.map (fun b => J.obj (full ++ [("extra!", b)]))
        ++ req.map (fun r => J.obj (full.filter (·.1 != r)))
        ++ (ps.flatMap fun (k, s) => ((badOf s (sub s)).take 2).map fun b => J.obj (setKey k b full))
        ++ (ps.flatMap fun (k, s) => ((good s (sub s)).drop 1 |>.take 1).map fun v => J.obj (setKey k v full))
        ++ lens.map (fun n => J.obj (pad n))
    let byType : List J :=
      let one (t : IType) : List J := match t with
        | .null => [.null]
        | .boolean => [.bool true, .bool false]
        | .integer | .number => numCands num
        | .string => strCands str
        | .array => arrC
        | .object => objC
      match ty with
      | some (.single t) => one t
      | some (.vec ts) => ts.flatMap one
      | none =>
        (if num.isSome then numCands num else []) ++ (if str.isSome then strCands str else [])
        ++ (match arr with | .none => [] | _ => arrC) ++ (match ob with | .none => [] | _ => objC)
    let fromSubs : List J := match subs with
      | .none => []
      | .some a b c n i t e =>
        ((ol a ++ ol b ++ ol c ++ o n ++ o i ++ o t ++ o e).flatMap fun m => (sub m).take 8)
    let fromRef : List J := match rf with
      | none => []
      | some r =>
        match lookupDef r g.defs with
        | some d => if fuel == 0 then [] else (cands g (fuel - 1) d).take 24
        | none => [.num 1, .num 2, .str "s", .null, .bool false, .arr [.num 1], .obj [("k", .num 1)]]
    dedup (en.getD [] ++ cv.toList ++ byType ++ fromSubs ++ fromRef ++ basePool) |>.take 64

/-- references of the random streams: names ending in `A` accept integers,
`B` strings and `null`, anything else everything. -/
def refFixed (name : String) (j : J) : Bool :=
  match name.toList.getLast? with
  | some 'A' => (match j with | .num _ => true | _ => false)
  | some 'B' => (match j with | .str _ | .null => true | _ => false)
  | _ => true

/-- the uninterpreted pattern predicate, fixed arbitrarily (same on both sides). -/
def patFixed (p s : String) : Bool := (p.length + s.length) % 2 == 0 || s.startsWith "a"

def envFixed : Env := ⟨refFixed, patFixed⟩

def specOn (envJ envO : Env) (s : JS) (impl : RefOr) (insts : List J) : Bool × Nat × Nat × String :=
  let rs := insts.map fun j => (j, s.valid envJ j, impl.valid envO j)
  let bad := rs.filter fun (_, a, b) => a != b
  let nValid := (rs.filter fun (_, a, _) => a).length
  (bad.isEmpty, nValid, rs.length - nValid,
    match bad with | (j, a, b) :: _ => s!"{j.print}:js={b2s a}:oas={b2s b}" | [] => "")

def decodeSchema (h : String) : Option JS := (unhex h).bind parseJsonBytes |>.bind JS.ofJson

def decodeName (h : String) : Option (Option String) :=
  if h == "-" then some none else (unhex h).bind (fun b => String.fromUTF8? (ByteArray.mk b.toArray)) |>.map some

inductive Res where
  | panic
  | ok (j : J)

def decodeRes (t : String) : Option Res :=
  if t == "panic" then some .panic
  else if t.startsWith "ok:" then ((unhex (t.drop 3).toString).bind parseJsonBytes).map .ok
  else none

def knownOf (s : JS) : String :=
  if anyNode isNullTyped s then "K3" else if anyNode hasConstHere s then "K5" else "-"

def handleOne (stream id : String) (name : Option String) (s : JS) (res : Res) : String :=
  let m := j2oas name s
  let sup := s.supported
  let why := if sup then "-" else whyUnsupported s
  match res, m with
  | .panic, .error e => out id true "na" s!"{stream}-panic-{panicName e}" "-" s!"err:{panicName e}"
  | .panic, .ok r => out id false "na" s!"{stream}-panic" "-" (r.toJson.canon.print)
  | .ok ij, m =>
    match RefOr.ofJson ij with
    | none => bad id "impl-output-not-an-oas-schema"
    | some impl =>
      let (agree, mtxt) := match m with
        | .ok r => (J.eqv r.toJson ij, if J.eqv r.toJson ij then "ok" else r.toJson.canon.print)
        | .error e => (false, s!"err:{panicName e}")
      let evalSpec := sup || (eraseK s).supported
      if !evalSpec then
        out id agree "na" s!"{stream}-drop-{why}" "-" mtxt
      else
        let g : Gen := ⟨envFixed, []⟩
        let insts := cands g 3 s
        let (ok, nv, ni, w) := specOn envFixed envFixed s impl insts
        let known := if ok then "-" else knownOf s
        let cls := if sup then s!"{stream}-{rootKind s}-d{min (depthOf s) 4}" else s!"{stream}-{why}"
        out id agree (b2s ok) cls known (if ok then s!"{mtxt} valid={nv} invalid={ni}" else s!"{mtxt} {w}")

def refPrefix : String := "#/components/schemas/"

def handleDt (id tname : String) (name : Option String) (root : JS) (defs : List (String × JS))
    (rres : Res) (dres : List Res) : String :=
  -- model
  let mroot := j2oas name root
  let mdefs := defs.map fun (_, s) => j2oas none s
  let agreeOne (m : Except Panic RefOr) (r : Res) : Bool := match m, r with
    | .error _, .panic => true
    | .ok o, .ok ij => J.eqv o.toJson ij
    | _, _ => false
  let agree := agreeOne mroot rres && (mdefs.zip dres).all (fun (m, r) => agreeOne m r)
  let anyPanic := ((rres :: dres).any fun r => match r with | .panic => true | _ => false)
  if anyPanic then
    let kinds := (mroot :: mdefs).filterMap fun m => match m with | .error e => some (panicName e) | _ => none
    out id agree "na" s!"dt-panic-{kinds.headD "none"}" "-" s!"{tname}"
  else
    let implOf (r : Res) : Option RefOr := match r with | .ok ij => RefOr.ofJson ij | _ => none
    match implOf rres, dres.mapM implOf with
    | some iroot, some idefs =>
      let jdefs : List (String × JS) := defs.map fun (k, s) => (refPrefix ++ k, s)
      let odefs : List (String × RefOr) := (defs.zip idefs).map fun ((k, _), r) => (refPrefix ++ k, r)
      let fuel := 12
      let envJ : Env := ⟨refJS patFixed jdefs fuel, patFixed⟩
      let envO : Env := ⟨refOAS patFixed odefs fuel, patFixed⟩
      let g : Gen := ⟨envJ, jdefs⟩
      let checks := (("<root>", root), iroot) :: (defs.zip idefs)
      let results := checks.map fun ((k, s), impl) =>
        let (ok, nv, ni, w) := specOn envJ envO s impl (cands g 3 s)
        (k, ok, nv, ni, w)
      let ok := results.all fun (_, ok, _, _, _) => ok
      let nv := results.foldl (fun a (_, _, v, _, _) => a + v) 0
      let ni := results.foldl (fun a (_, _, _, i, _) => a + i) 0
      let all := root :: defs.map (·.2)
      let known := if ok then "-" else
        if all.any (anyNode isNullTyped) then "K3" else if all.any (anyNode hasConstHere) then "K5" else "-"
      let sup := all.all (·.supported)
      let why := (all.map whyUnsupported).find? (· != "-") |>.getD "-"
      let cls := if sup then s!"dt-{rootKind root}-defs{min defs.length 3}" else s!"dt-unsupported-{why}"
      let w := (results.find? fun (_, ok, _, _, _) => !ok).map (fun (k, _, _, _, w) => s!"{k}:{w}") |>.getD ""
      out id agree (b2s ok) cls known (if ok then s!"{tname} valid={nv} invalid={ni}" else s!"{tname} {w}")
    | _, _ => bad id "impl-output-not-an-oas-schema"

def handle (line : String) : String :=
  let fs := fields line
  let (inp, impl) := splitAt "=>" fs
  match inp with
  | ["da", id, tname, _order] =>
    -- document assembly: the schema the document publishes for the endpoint whose response is
    -- this type, expanded through the document's components, is the conversion of the type's own
    -- schema expanded through its own definitions (the conversion itself is what `dt` compares
    -- with the model)
    out id (impl == ["1"]) (b2s (impl == ["1"])) s!"da-{if tname.endsWith "Item" then "same-name" else if tname.startsWith "param_" then "parameter" else if tname.startsWith "header_" then "header" else if tname.startsWith "error_" then "error-type" else "family"}" "-" "1"
  | [stream, id, nameH, schemaH] =>
    if stream != "rs" && stream != "us" && stream != "rv" then bad id "unknown-stream" else
    match decodeName nameH, decodeSchema schemaH, impl with
    | some name, some s, [r] =>
      -- rv: the implementation converted the schema after schemars' RemoveRefSiblings visitor
      -- (what every definition goes through before it is published); the model applies its
      -- own `JS.rrs` first
      let s := if stream == "rv" then s.rrs else s
      (match decodeRes r with
        | some res => handleOne stream id name s res
        | none => bad id "result")
    | _, _, _ => bad id "parse"
  | "dt" :: id :: tname :: nameH :: nS :: rootH :: rest =>
    match decodeName nameH, nS.toNat?, decodeSchema rootH with
    | some name, some n, some root =>
      if rest.length != 2 * n || impl.length != n + 1 then bad id "arity" else
      let rec pairs : List String → Option (List (String × JS))
        | [] => some []
        | k :: v :: more => do
          let k ← (decodeName k).bind (fun (x : Option String) => x)
          let s ← decodeSchema v
          let r ← pairs more
          pure ((k, s) :: r)
        | _ => none
      (match pairs rest, impl.mapM decodeRes with
        | some defs, some (rr :: dr) => handleDt id tname name root defs rr dr
        | _, _ => bad id "parse-defs")
    | _, _, _ => bad id "parse"
  | _ => bad "?" "unknown-stream"

end Dropshot.DriverC08

def main : IO Unit := Dropshot.Proto.runDriver Dropshot.DriverC08.handle
