/-
Driver for C12: replays harness cases through the model of typed responses
(`agree`) and evaluates the property's specification predicate on the
implementation's answer (`spec`).  Streams: hv (header value / name
validity), hm (HeaderMap operations), tr (`to_result` in-process), rd
(redirect constructors), lw (live server).
-/
import DropshotModel.Proto
import DropshotModel.Response

open Dropshot Dropshot.Proto Dropshot.Error Dropshot.Response

namespace Dropshot.DriverC12

def out (id : String) (agree : Bool) (spec : String) (cls known model : String) : String :=
  s!"{id} agree={b2s agree} spec={spec} class={cls} known={known} model={model}"

def bad (id : String) (why : String) : String :=
  s!"{id} agree=0 spec=na class=bad-line known=- model={why}"

def insertName (n : Str) : List Str → List Str
  | [] => [n]
  | x :: xs => if n == x then x :: xs else if bytesLt n x then n :: x :: xs else x :: insertName n xs

def sortedNames (m : List (Str × Str)) : List Str :=
  m.foldl (fun acc p => insertName p.1 acc) []

/-- Canonical form of a header multimap: names sorted, values of a name in order. -/
def canon (m : List (Str × Str)) : List (Str × Str) :=
  (sortedNames m).flatMap fun n => (HMap.getAll n m).map fun v => (n, v)

def showPairs (m : List (Str × Str)) : String :=
  " ".intercalate (toString m.length :: m.flatMap fun p => [hex p.1, hex p.2])

def parsePairs : Nat → List String → Option (List (Str × Str) × List String)
  | 0, rest => some ([], rest)
  | k + 1, n :: v :: rest => do
    let nb ← unhex n
    let vb ← unhex v
    let (ps, r) ← parsePairs k rest
    pure ((nb, vb) :: ps, r)
  | _, _ => none

def parseCounted (xs : List String) : Option (List (Str × Str) × List String) :=
  match xs with
  | n :: rest => n.toNat?.bind fun k => parsePairs k rest
  | [] => none

/-- The property's own definition of a legal header value. -/
def specLegalValue (v : Str) : Bool :=
  v.all fun b => b == 9 || (32 ≤ b && b ≤ 126) || 128 ≤ b

def specStatus (kind : String) : Nat :=
  match kind with
  | "ok" => 200 | "created" => 201 | "accepted" => 202 | "deleted" => 204 | "updated" => 204
  | "found" => 302 | "seeother" => 303 | "temporary" => 307 | _ => 0

def parseKind (s : String) : Option Kind :=
  match s with
  | "ok" => some .ok | "created" => some .created | "accepted" => some .accepted
  | "deleted" => some .deleted | "updated" => some .updatedNoContent
  | "found" => some .found | "seeother" => some .seeOther | "temporary" => some .temporaryRedirect
  | _ => none

def isJsonKind (kind : String) : Bool := kind == "ok" || kind == "created" || kind == "accepted"

def internalMsgHex : String := hex (Error.strBytes "Internal Server Error")

/-! ### hm -/

def parseOp (s : String) : Option Op :=
  match s.splitOn ":" with
  | ["A", n, v] => do pure (.append (← unhex n) (← unhex v))
  | ["I", n, v] => do pure (.insert (← unhex n) (← unhex v))
  | ["R", n] => do pure (.remove (← unhex n))
  | _ => none

def parseOps : Nat → List String → Option (List Op × List String)
  | 0, rest => some ([], rest)
  | k + 1, o :: rest => do
    let op ← parseOp o
    let (os, r) ← parseOps k rest
    pure (op :: os, r)
  | _, _ => none

def handleHm (id : String) (inp impl : List String) : String :=
  match inp with
  | n1 :: rest =>
    match n1.toNat?.bind fun k => parseOps k rest with
    | some (ops1, n2 :: rest2) =>
      match n2.toNat?.bind fun k => parseOps k rest2 with
      | some (ops2, []) =>
        let m1 := ops1.foldl applyOp []
        let m2 := ops2.foldl applyOp []
        let r := canon (HMap.extend m1 m2)
        let m := showPairs r
        let collide := m2.any fun p => HMap.contains p.1 m1
        out id (m == " ".intercalate impl) "na"
          s!"hm-{if ops1.isEmpty then "e" else "n"}{if ops2.isEmpty then "e" else "n"}-{if collide then "collide" else "disjoint"}"
          "-" m
      | _ => bad id "ops2"
    | _ => bad id "ops1"
  | _ => bad id "short"

/-! ### tr -/

def parseField (n v : String) : Option (Str × Option Str) := do
  let nb ← unhex n
  if v = "X" then pure (nb, none)
  else if v.startsWith "S" then pure (nb, some (← unhex (v.drop 1).toString))
  else none

def parseFields : Nat → List String → Option (List (Str × Option Str) × List String)
  | 0, rest => some ([], rest)
  | k + 1, n :: v :: rest => do
    let f ← parseField n v
    let (fs, r) ← parseFields k rest
    pure (f :: fs, r)
  | _, _ => none

def showResult : Except HttpError Response → String
  | .error e => s!"err {e.status.code} {hex e.external}"
  | .ok r => s!"ok {r.status} {showPairs (canon r.headers)} {hex r.body}"

/-- Specification predicate for one `to_result` case, from the property text
and the inputs only.  `implOk`: the implementation produced a response with
this status / headers / body; `parsed`: canonical JSON of its body as parsed
by the reference parser. -/
def specTr (kind : String) (serFailed : Bool) (canonIn : String)
    (declared : List (Str × Option Str)) (explicit : List (Str × Str))
    (impl : Option (Nat × List (Str × Str) × Str × String)) (errStatus : Nat) : Bool :=
  let json := isJsonKind kind
  let nonString := declared.any fun f => f.2.isNone
  let illegal := declared.any fun f => match f.2 with
    | some v => !(specLegalValue v) || !(validHeaderName f.1)
    | none => false
  let mustRefuse := (json && serFailed) || nonString || illegal
  match impl with
  | none => mustRefuse && decide (500 ≤ errStatus ∧ errStatus ≤ 599)
  | some (status, hdrs, body, parsed) =>
    let exNames := explicit.map (·.1)
    let declNames := declared.map fun f => lowerName f.1
    let explicitOk := exNames.all fun n => HMap.getAll n hdrs == HMap.getAll n explicit
    let declaredOk := declared.all fun f =>
      let n := lowerName f.1
      if exNames.contains n then true
      else
        -- the values declared under this (case-insensitive) name
        let given := declared.filterMap fun g => if lowerName g.1 == n then g.2 else none
        match HMap.getAll n hdrs with
        | [v] => given.contains v && (given.length > 1 || some v == f.2)
        | _ => false
    let ctNamed := exNames.contains hContentType || declNames.contains hContentType
    let ctOk := if ctNamed then true
      else if json then HMap.getAll hContentType hdrs == [ctJson]
      else HMap.getAll hContentType hdrs == []
    let noExtra := hdrs.all fun p =>
      exNames.contains p.1 || declNames.contains p.1 || (json && p.1 == hContentType)
    let bodyOk := if json then parsed == canonIn && !body.isEmpty else body.isEmpty
    !mustRefuse && decide (status = specStatus kind) && explicitOk && declaredOk && ctOk && noExtra && bodyOk

def declClass (declared : List (Str × Option Str)) : String :=
  let names := declared.map fun f => lowerName f.1
  if declared.isEmpty then "d0"
  else if declared.any (fun f => f.2.isNone) then "dnonstr"
  else if declared.any (fun f => !(validHeaderName f.1)) then "dbadname"
  else if declared.any (fun f => match f.2 with | some v => !(validHeaderValue v) | none => false) then "dbadval"
  else if names.eraseDups.length < names.length then "dcase"
  else if names.contains hContentType then "dct"
  else s!"d{declared.length}"

def handleTr (id : String) (inp impl : List String) : String :=
  match inp with
  | kind :: wrap :: ser :: canonIn :: nd :: rest =>
    match parseKind kind, nd.toNat?.bind fun k => parseFields k rest with
    | some k, some (declared, rest2) =>
      match parseCounted rest2 with
      | some (explicit, []) =>
        let body : Option (Option Str) :=
          if ser = "F" || ser = "_" then some none
          else if ser.startsWith "S" then (unhex (ser.drop 1).toString).map some else none
        match body with
        | none => bad id "ser"
        | some body =>
          let t : Typed := { kind := k, body, declared, explicit }
          let r := toResult t
          let m := showResult r
          let overlap := explicit.any fun p => declared.any fun f => lowerName f.1 == p.1
          let cls := s!"tr-{kind}-{wrap}-{if ser = "F" then "unser" else "ser"}-{declClass declared}-" ++
            s!"e{if explicit.length > 2 then "n" else toString explicit.length}{if overlap then "-override" else ""}-" ++
            (match r with | .ok _ => "sent" | .error _ => "refused")
          match impl with
          | "ok" :: st :: irest =>
            match st.toNat?, parseCounted irest with
            | some st, some (hdrs, [ibody, parsed]) =>
              match unhex ibody with
              | some ib =>
                let implS := s!"ok {st} {showPairs hdrs} {hex ib}"
                let sp := specTr kind (ser = "F") canonIn declared explicit (some (st, hdrs, ib, parsed)) 0
                out id (m == implS) (b2s sp) cls "-" m
              | none => bad id "ibody"
            | _, _ => bad id "impl-ok"
          | ["err", st, msg] =>
            let sp := specTr kind (ser = "F") canonIn declared explicit none (st.toNat?.getD 0)
            out id (m == s!"err {st} {msg}") (b2s sp) cls "-" m
          | _ => bad id "impl"
      | _ => bad id "explicit"
    | _, _ => bad id "kind/fields"
  | _ => bad id "short"

/-! ### rd -/

def handleRd (id : String) (inp impl : List String) : String :=
  match inp with
  | kind :: loc :: rest =>
    match parseKind kind, unhex loc, parseCounted rest with
    | some k, some loc, some (explicit, []) =>
      let r : Except HttpError Response := match redirect k loc with
        | .error e => .error e
        | .ok t => toResult { t with explicit := explicit }
      let m := match redirect k loc, r with
        | .error e, _ => s!"ctor-err {e.status.code} {hex e.external}"
        | _, r => showResult r ++ " _"
      let legal := specLegalValue loc
      let exLoc := HMap.getAll hLocation explicit
      let kindOfLoc :=
        if loc.any (fun b => b < 32 && b != 9) then "ctl"
        else if loc.any (· == 127) then "del"
        else if loc.any (fun b => 128 ≤ b) then "nonascii"
        else if loc.any (· == 9) then "tab"
        else if loc.isEmpty then "empty" else "ascii"
      let cls := s!"rd-{kind}-{kindOfLoc}-{if explicit.isEmpty then "e0" else if exLoc.isEmpty then "e" else "eloc"}"
      match impl with
      | ["ctor-err", st, _msg] =>
        -- spec: refusal is right exactly for an illegal location, and it is an error status
        let sp := !legal && (match st.toNat? with | some c => decide (500 ≤ c ∧ c ≤ 599) | none => false)
        out id (m == " ".intercalate impl) (b2s sp) cls "-" m
      | "ok" :: st :: irest =>
        match st.toNat?, parseCounted irest with
        | some st, some (hdrs, [ibody, _]) =>
          let sp := legal && decide (st = specStatus kind) && ibody == "-" &&
            (if exLoc.isEmpty then HMap.getAll hLocation hdrs == [loc]
             else HMap.getAll hLocation hdrs == exLoc) &&
            (HMap.getAll hContentType hdrs == HMap.getAll hContentType explicit)
          out id (m == " ".intercalate impl) (b2s sp) cls "-" m
        | _, _ => bad id "impl-ok"
      | "err" :: _ => out id (m == " ".intercalate impl) "0" cls "-" m
      | _ => bad id "impl"
    | _, _, _ => bad id "fields"
  | _ => bad id "short"

/-! ### lw -/

def csvHex (vs : List Str) : String :=
  if vs.isEmpty then "none" else ",".intercalate (vs.map hex)

def hXOne : Str := Error.strBytes "x_one"

def handleLw (id : String) (inp impl : List String) : String :=
  match inp with
  | ["v", kind, text, canonIn, h, e] =>
    match parseKind kind, unhex text, unhex h, (if e = "_" then some none else (unhex e).map some) with
    | some k, some text, some h, some e =>
      let explicit : List (Str × Str) := match e with
        | none => []
        | some ev => [(hXOne, ev), (hXOne, Error.strBytes "second")]
      let t : Typed := { kind := k, body := some text, declared := [(hXOne, some h)], explicit }
      let cls := s!"lw-{kind}-{if e.isSome then "override" else "declared"}"
      match toResult t with
      | .error _ => out id (impl.head? == some "500") "na" (cls ++ "-refused") "-" "500"
      | .ok r =>
        let m := [toString r.status, csvHex (HMap.getAll hContentType r.headers),
                  csvHex (HMap.getAll hXOne r.headers), csvHex (HMap.getAll hLocation r.headers), hex r.body]
        match impl with
        | [st, ct, xo, lo, body, parsed] =>
          let json := isJsonKind kind
          let sp := st == toString (specStatus kind) &&
            (if json then ct == hex ctJson && parsed == canonIn else ct == "none" && body == "-") &&
            xo == (match e with
              | none => csvHex [h]
              | some ev => csvHex [ev, Error.strBytes "second"]) &&
            lo == "none"
          out id (m == [st, ct, xo, lo, body]) (b2s sp) cls "-" (" ".intercalate m)
        | _ => out id false "0" cls "-" "noresponse"
    | _, _, _, _ => bad id "fields"
  | ["r", kind, loc] =>
    match parseKind kind, unhex loc with
    | some k, some loc =>
      let legal := specLegalValue loc
      let cls := s!"lw-{kind}-{if legal then "legal" else "illegal"}"
      match impl with
      | [st, ct, _xo, lo, body, _parsed] =>
        match redirect k loc with
        | .error e =>
          let agree := st == toString e.status.code && lo == "none"
          let sp := !legal && (match st.toNat? with | some c => decide (500 ≤ c ∧ c ≤ 599) | none => false) &&
            lo == "none"
          out id agree (b2s sp) cls "-" s!"{e.status.code} none"
        | .ok t =>
          match toResult t with
          | .error _ => out id false "0" cls "-" "refused"
          | .ok r =>
            let agree := st == toString r.status && lo == csvHex (HMap.getAll hLocation r.headers) &&
              ct == "none" && body == "-"
            let sp := legal && st == toString (specStatus kind) && lo == hex loc && body == "-" && ct == "none"
            out id agree (b2s sp) cls "-" s!"{r.status} {csvHex (HMap.getAll hLocation r.headers)}"
      | _ => out id false "0" cls "-" "noresponse"
    | _, _ => bad id "fields"
  | _ => bad id "fields"

def handle (line : String) : String :=
  let fs := fields line
  let (inp, impl) := splitAt "=>" fs
  match inp with
  | ["hv", id, s] =>
    match unhex s, impl with
    | some b, [v, n] =>
      let mv := b2s (validHeaderValue b)
      let mn := b2s (validHeaderName b)
      let cls := s!"hv-v{mv}-n{mn}"
      out id (mv == v && mn == n) (b2s (b2s (specLegalValue b) == v)) cls "-" s!"{mv} {mn}"
    | _, _ => bad id "hv"
  | "hm" :: id :: rest => handleHm id rest impl
  | "tr" :: id :: rest => handleTr id rest impl
  | "rd" :: id :: rest => handleRd id rest impl
  | "lw" :: id :: rest => handleLw id rest impl
  -- the same over HTTP/1.0 and over HTTP/2: the protocol version of the request does not
  -- enter the model (nor the property)
  | "lw0" :: id :: rest => (handleLw id rest impl).replace "class=lw-" "class=lw-http10-"
  | "lw2" :: id :: rest => (handleLw id rest impl).replace "class=lw-" "class=lw-h2-"
  | _ => bad "?" "unknown-stream"

end Dropshot.DriverC12

def main : IO Unit := Dropshot.Proto.runDriver Dropshot.DriverC12.handle
