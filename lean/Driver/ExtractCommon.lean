/-
Shared by the C09 and C10 drivers: the fixed list of parameter shapes
(mirrors `harness/src/extract_common.rs`), the canonical value printer, the
parsers for the line fields, and the model's verdict on one `sv`-format line.
Line-protocol glue: not verified.
-/
import DropshotModel.Proto
import DropshotModel.Extract
import DropshotModel.JsonBody
import DropshotModel.Pagination

open Dropshot Dropshot.Proto Dropshot.Extract

namespace Dropshot.DriverExtract

def b (s : String) : Bytes := s.toUTF8.toList.map (·.toNat)

def unhexB (s : String) : Option Bytes := (unhex s).map fun l => l.map (·.toNat)

def hexB (bs : Bytes) : String := hex (bs.map UInt8.ofNat)

def colors : List Bytes := [b "Red", b "Green", b "dark-blue"]

/-- The shapes, by the index used on the wire. -/
def shape : Nat → Option (List (Bytes × FTy))
  | 0 => some [(b "a", .scalar (.uint 8)), (b "b", .scalar (.uint 16)), (b "c", .scalar (.uint 32)),
      (b "d", .scalar (.uint 64))]
  | 1 => some [(b "a", .scalar (.int 8)), (b "b", .scalar (.int 16)), (b "c", .scalar (.int 32)),
      (b "d", .scalar (.int 64))]
  | 2 => some [(b "s", .scalar .string), (b "b", .scalar .bool), (b "c", .scalar .char)]
  | 3 => some [(b "o", .option (.uint 32)), (b "p", .option .string), (b "q", .option .bool)]
  | 4 => some [(b "e", .scalar (.enum colors))]
  | 5 => some [(b "path", .seq .string)]
  | 6 => some [(b "type", .scalar .string), (b "x-y", .scalar (.int 32))]
  | 7 => some [(b "id", .scalar (.uint 32)), (b "rest", .seq .string)]
  | 8 => some [(b "oe", .option (.enum colors)), (b "oi", .option (.int 64)), (b "name", .scalar .string)]
  | 9 => some [(b "s", .scalar .string)]
  | 10 => some [(b "n", .nested)]
  | 11 => some [(b "v", .seq (.uint 16))]
  | 12 => some [(b "id", .scalar (.int 64)), (b "name", .scalar .string), (b "flag", .scalar .bool)]
  | 13 => some [(b "n", .scalar (.uint 64)), (b "s", .scalar .string), (b "b", .option .bool),
      (b "e", .option (.enum colors)), (b "i", .option (.int 8)), (b "c", .option .char)]
  | 14 => some [(b "id", .scalar (.uint 32)), (b "name", .scalar .string), (b "flag", .scalar .bool),
      (b "opt", .option (.int 64)), (b "kind", .scalar (.enum colors)), (b "tags", .seq .string)]
  | 15 => some [(b "id", .scalar (.uint 32)), (b "name", .scalar .string), (b "flag", .option .bool)]
  | 16 => some [(b "id", .scalar (.uint 32)), (b "s", .scalar .string), (b "o", .option .bool),
      (b "e", .scalar (.enum colors))]
  | 17 => some [(b "nonce", .scalar .string)]
  | 18 => some [(b "q", .scalar .string), (b "k", .option (.uint 32))]
  | 19 => some [(b "nonce", .scalar .string), (b "seq", .scalar (.uint 64))]
  | 20 => some [(b "u", .scalar (.uint 16)), (b "i", .scalar (.int 32)), (b "b", .scalar .bool),
      (b "c", .scalar .char), (b "e", .scalar (.enum colors))]
  | 21 => some [(b "min", .option (.uint 32)), (b "kind", .option (.enum colors)), (b "flag", .option .bool)]
  | _ => none

/-- Shapes with a `#[serde(flatten)]`-ed part: (outer fields, flattened fields). -/
def flatShape : Nat → Option (List (Bytes × FTy) × List (Bytes × FTy))
  | 22 => some ([(b "id", .scalar (.uint 32))],
      [(b "name", .scalar .string), (b "tag", .option .string), (b "kind", .scalar (.enum colors)),
       (b "c", .scalar .char)])
  | 23 => some ([(b "s", .scalar .string)], [(b "n", .scalar (.uint 16)), (b "f", .option .bool)])
  | _ => none

/-- `from_map` on any shape of the wire table. -/
def mapDeShape (sh : Nat) (vars : VarSet) : Option (Except DeErr Val) :=
  match flatShape sh with
  | some (o, i) => some (mapDeFlat o i vars)
  | none => (shape sh).map fun sfs => mapDe (.struct sfs) vars

/-! ### Canonical printing (same grammar as `canon` in the harness) -/

def canonS : SVal → String
  | .bool true => "t"
  | .bool false => "f"
  | .nat n => s!"n{n}"
  | .int i => s!"n{i}"
  | .str s => "s" ++ hexB s
  | .chr c => "s" ++ hexB (Utf8.utf8Encode c)
  | .variant n => "s" ++ hexB n

def canonF : FVal → String
  | .scalar v => canonS v
  | .none => "z"
  | .some v => canonS v
  | .seq vs => "[" ++ ";".intercalate (vs.map canonS) ++ "]"

def insertSorted (x : Bytes × FVal) : List (Bytes × FVal) → List (Bytes × FVal)
  | [] => [x]
  | y :: ys => if bytesLt x.1 y.1 then x :: y :: ys else y :: insertSorted x ys

def canonVal (v : Val) : String :=
  let sorted := v.foldl (fun acc x => insertSorted x acc) []
  "{" ++ ",".intercalate (sorted.map fun kv => hexB kv.1 ++ ":" ++ canonF kv.2) ++ "}"

def errKind : DeErr → String
  | .parse => "parse" | .missing => "missing" | .variant => "variant"
  | .duplicate => "duplicate" | .shape => "shape"

def resField : Except DeErr Val → String
  | .ok v => "ok " ++ canonVal v
  | .error e => "err " ++ errKind e

/-- The property for a struct with a flattened part, stated without the model of
serde's buffering: flattening is transparent - whenever the same entries decode
into the struct with the flattened members written inline, the handler must
receive exactly that value.  `none` = nothing to require (the inline struct
refuses the entries too). -/
def flatSpec (sh : Nat) (vars : VarSet) : Option Val :=
  match flatShape sh with
  | some (o, i) => match mapDe (.struct (o ++ i)) vars with | .ok v => some v | .error _ => none
  | none => none

/-- Finding K9: a supplied member of the flattened part is a boolean or an integer
(serde cannot fill those from the buffered string). -/
def flatBlocked (sh : Nat) (vars : VarSet) : Bool :=
  match flatShape sh with
  | some (_, i) => vars.any fun kv => match lookupField i kv.1 with
    | some (.scalar .bool) | some (.scalar (.uint _)) | some (.scalar (.int _)) => true
    | some (.option .bool) | some (.option (.uint _)) | some (.option (.int _)) => true
    | some (.seq _) | some .nested => true
    | _ => false
  | none => false

/-! ### Field parsers -/

/-- `_` or comma-separated `key=S<hex>` / `key=C<n>/<hex>/…`. -/
def parseEntries (s : String) : Option VarSet :=
  if s = "_" then some [] else
  (s.splitOn ",").mapM fun e =>
    match e.splitOn "=" with
    | [k, v] =>
      match unhexB k with
      | none => none
      | some kb =>
        if v.startsWith "S" then (unhexB (v.drop 1).toString).map fun x => (kb, VarVal.str x)
        else if v.startsWith "C" then
          match (v.drop 1).toString.splitOn "/" with
          | _ :: items => (items.mapM unhexB).map fun xs => (kb, VarVal.comps xs)
          | [] => none
        else none
    | _ => none

def out (id : String) (agree : Bool) (spec : String) (cls known model : String) : String :=
  s!"{id} agree={b2s agree} spec={spec} class={cls} known={known} model={model}"

def bad (id : String) (why : String) : String :=
  s!"{id} agree=0 spec=na class=bad-line known=- model={why}"

/-! ### The endpoints of the echo server -/

structure Ep where
  method : String := "GET"
  route : List RSeg
  pathShape : Option Nat := none
  queryShape : Option Nat := none
  /-- typed body: (shape, endpoint content type) -/
  body : Option (Nat × BodyCT) := none
  /-- `raw`, `stream`, `rawreq`, `mp`, `page`, `tls` -/
  kind : String := ""
  /-- `request_body_max_bytes` -/
  cap : Nat := 4096

def endpoint : String → Option Ep
  | "p3" => some { route := [.lit (b "path"), .var (b "id"), .var (b "name"), .var (b "flag")], pathShape := some 12 }
  | "wild" => some { route := [.lit (b "wild"), .var (b "id"), .rest (b "rest")], pathShape := some 7 }
  | "q6" => some { route := [.lit (b "query")], queryShape := some 13 }
  | "json" => some { method := "POST", route := [.lit (b "json")], body := some (14, .json) }
  | "form" => some { method := "POST", route := [.lit (b "form")], body := some (15, .urlEncoded) }
  | "formopt" => some { method := "POST", route := [.lit (b "formopt")], body := some (3, .urlEncoded) }
  | "j2" => some { method := "POST", route := [.lit (b "j2")], body := some (16, .json) }
  | "raw" => some { method := "PUT", route := [.lit (b "raw")], kind := "raw" }
  | "stream" => some { method := "PUT", route := [.lit (b "stream")], kind := "stream" }
  | "rawreq" => some { method := "POST", route := [.lit (b "rawreq")], kind := "rawreq" }
  | "bigraw" => some { method := "PUT", route := [.lit (b "bigraw")], kind := "bigraw" }
  | "bigstream" => some { method := "PUT", route := [.lit (b "bigstream")], kind := "bigstream" }
  | "mp" => some { method := "POST", route := [.lit (b "multipart")], kind := "mp" }
  | "all" =>
    some { method := "POST", route := [.lit (b "all"), .var (b "nonce")], pathShape := some 17, queryShape := some 18, body := some (19, .json) }
  | "scal" =>
    some { route := [.lit (b "scal"), .var (b "u"), .var (b "i"), .var (b "b"), .var (b "c"), .var (b "e")], pathShape := some 20 }
  | "page" => some { route := [.lit (b "page")], kind := "page" }
  | "bigjson" => some { method := "POST", route := [.lit (b "bigjson")], body := some (16, .json), cap := 262144 }
  | "bigform" => some { method := "POST", route := [.lit (b "bigform")], body := some (15, .urlEncoded), cap := 262144 }
  | "tls" => some { route := [.lit (b "tls"), .var (b "nonce")], pathShape := some 17, kind := "tls" }
  | _ => none

def bodyCap : Nat := 4096
/-- `request_body_max_bytes` of the `big*` endpoints. -/
def bigBodyCap : Nat := 262144

/-- `http::Uri` refuses a request target longer than this; hyper answers 414
itself (no framework error body). -/
def maxUriLen : Nat := 65534

/-- The paginated endpoint `/page`: `PaginationParams<ScanP, PageSel>` over the
query pairs (`Pagination.parseParams`, the C14 model), the first-page scan
parameters through `from_map` on shape 21. -/
def pageVerdict (query : Bytes) : Option (Option String) :=
  let scanOf : (Bytes → Option Bytes) → Option Val := fun look =>
    match shape 21 with
    | none => none
    | some fs =>
      let entries : VarSet := fs.filterMap fun f => (look f.1).map fun v => (f.1, VarVal.str v)
      match mapDe (.struct fs) entries with
      | .ok v => some v
      | .error _ => none
  match Pagination.parseParams Pagination.SelCodec.json scanOf (parseQuery query) with
  | .error _ => none
  | .ok (.first v, _) => some (some (canonVal v))
  | .ok (.next _, _) => some none

/-- hyper hands header values over without leading and trailing SP / HTAB. -/
def trimOws (bs : Bytes) : Bytes :=
  trimEnd (bs.dropWhile fun c => c == 32 || c == 9)

/-- Split a request target at the first `?`. -/
def splitTarget (t : Bytes) : Bytes × Option Bytes :=
  match t.span (· ≠ 63) with
  | (p, []) => (p, none)
  | (p, _ :: q) => (p, some q)

/-- Framing field: `nb`, `cl` or `ch:<splits>:<exts>:<lastext>:<trailers>`. -/
structure Framing where
  chunked : Bool
  /-- the generator meant this chunked coding to be broken (`bc`) -/
  broken : Bool := false
  splits : List Nat := []
  exts : List Bytes := []
  lastExt : Bytes := []
  trailers : List (Bytes × Bytes) := []

def parseList (s : String) (f : String → Option α) : Option (List α) :=
  if s = "_" then some [] else (s.splitOn ",").mapM f

def parseFraming (s : String) : Option Framing :=
  if s = "nb" || s = "cl" then some { chunked := false } else
  if s = "bc" then some { chunked := true, broken := true } else
  match s.splitOn ":" with
  | ["ch", sp, ex, le, tr] => do
    let splits ← parseList sp (·.toNat?)
    let exts ← parseList ex unhexB
    let lastExt ← unhexB le
    let trailers ← parseList tr fun t =>
      match t.splitOn "=" with
      | [n, v] => do let n ← unhexB n; let v ← unhexB v; pure (n, v)
      | _ => none
    pure { chunked := true, splits, exts, lastExt, trailers }
  | _ => none

def framingClass (f : Framing) (s : String) : String :=
  if !f.chunked then s
  else if !f.trailers.isEmpty then "cht"
  else if !f.exts.isEmpty || !f.lastExt.isEmpty then "chx"
  else if !f.splits.isEmpty && f.splits.all (· == 1) then "ch1"
  else "ch"

/-- What the model says the server does with one request. -/
inductive Verdict where
  | called (canon : String)      -- 200 with this echo
  | calledAny                    -- 200, echo not predicted (multipart contents)
  | refused (status : Nat)
  | badFraming                   -- the chunked coding itself is malformed (hyper answers)

structure SvLine where
  id : String
  ep : String
  method : String
  target : Bytes
  ct : Option Bytes
  framingRaw : String
  framing : Framing
  wire : Bytes
  extra : String
  sent : String
  nonce : String
  port : String
  -- implementation
  status : Nat
  echoV : String
  echoM : String
  echoU : String
  echoH : String
  echoP : String
  delta : String
  errBody : String
  followup : String

def parseSv (inp impl : List String) : Option SvLine :=
  match inp, impl with
  | [_, id, ep, method, target, ct, fr, wire, extra, sent, nonce],
    [status, ev, em, eu, eh, port, ep', delta, errb, fol] => do
    let target ← unhexB target
    let ct ← if ct = "none" then some none else (unhexB ct).map some
    let framing ← parseFraming fr
    let wire ← unhexB wire
    let status ← status.toNat?
    pure { id, ep, method, target, ct, framingRaw := fr, framing, wire, extra, sent, nonce, port, status,
           echoV := ev, echoM := em, echoU := eu, echoH := eh, echoP := ep', delta, errBody := errb,
           followup := fol }
  | _, _ => none

/-- The payload the server is given, per the model of the framing; and whether
the Lean `chunk` re-encodes it to the very bytes that were sent. -/
def payloadOf (l : SvLine) : Option (Bytes × Bool) :=
  if l.framing.chunked then
    match dechunk l.wire with
    | some (p, []) =>
      some (p, chunk p l.framing.splits l.framing.exts l.framing.lastExt l.framing.trailers == l.wire)
    | _ => none
  else some (l.wire, true)

/-- Is the JSON body a complete well-typed value followed by non-whitespace
bytes (the region of the repaired finding K10a; used as a class label)? -/
def jsonTrailing (l : SvLine) (e : Ep) (payload : Bytes) : Bool :=
  match e.body with
  | some (sh, .json) =>
    match shape sh, requestCT (l.ct.map trimOws) with
    | some fs, .ok .json => JsonBody.trailingGarbage fs payload
    | _, _ => false
  | _ => false

/-- The model's verdict, following `http_request_handle` → router →
`handle_request` (extractors in the order path, query, body). `strict`:
judge JSON by RFC 8259 (the specification) instead of as the code does. -/
def verdict (l : SvLine) (e : Ep) (payload : Bytes) (strict : Bool) : Verdict :=
  let (path, query) := splitTarget l.target
  if l.target.length > maxUriLen then .refused 414 else
  match lookupVars e.route path with
  | .badPath => .refused 400
  | .noRoute => .refused 404
  | .ok vars =>
    -- the route exists but not for this method (one endpoint per path here)
    if l.method != e.method then .refused 405 else
    -- path extractor
    let pathR : Except Unit (Option String) :=
      match e.pathShape.bind shape with
      | none => .ok none
      | some fs =>
        match mapDe (.struct fs) vars with
        | .ok v => .ok (some (canonVal v))
        | .error _ => .error ()
    match pathR with
    | .error _ => .refused 400
    | .ok pc =>
      let queryR : Except Unit (Option String) :=
        match e.queryShape.bind shape with
        | none => .ok none
        | some fs =>
          match extractQuery (.struct fs) (query.getD []) with
          | .ok v => .ok (some (canonVal v))
          | .error _ => .error ()
      match queryR with
      | .error _ => .refused 400
      | .ok qc =>
        let hdr := l.ct.map trimOws
        match e.body, e.kind with
        | some (sh, ect), _ =>
          match shape sh with
          | none => .refused 500
          | some fs =>
            let json := if strict then JsonBody.decodeStrict fs else JsonBody.decode fs
            match loadBody json (extractQuery (.struct fs)) ect e.cap hdr payload with
            | .error _ => .refused 400
            | .ok v =>
              match pc, qc with
              | some p, some q =>
                .called ("{" ++ hexB (b "b") ++ ":" ++ canonVal v ++ "," ++ hexB (b "p") ++ ":" ++ p ++ "," ++
                  hexB (b "q") ++ ":" ++ q ++ "}")
              | _, _ => .called (canonVal v)
        | none, "raw" =>
          match extractUntypedE bodyCap payload with
          | .ok p => .called ("s" ++ hexB p)
          | .error _ => .refused 400
        | none, "stream" =>
          -- the limit is enforced inside the handler's stream; same status
          if payload.length > bodyCap then .refused 400 else .called ("s" ++ hexB payload)
        | none, "rawreq" => .called ("s" ++ hexB payload)
        -- the same extractors under the endpoint's own, larger limit
        | none, "bigraw" =>
          match extractUntypedE bigBodyCap payload with
          | .ok p => .called ("s" ++ hexB p)
          | .error _ => .refused 400
        | none, "bigstream" =>
          if payload.length > bigBodyCap then .refused 400 else .called ("s" ++ hexB payload)
        | none, "mp" =>
          match multipartBoundary hdr with
          | .error _ => .refused 400
          | .ok bd => if hexB bd == l.extra then .calledAny else .refused 400
        | none, "page" =>
          match pageVerdict (query.getD []) with
          | none => .refused 400
          | some (some c) => .called c
          | some none => .calledAny
        | none, "tls" =>
          -- the handler reports its peer address with the nonce it was given
          match mapDe (.struct [(b "nonce", .scalar .string)]) vars with
          | .ok [(_, .scalar (.str n))] =>
            .called ("s" ++ hexB (b s!"127.0.0.1:{l.port}|" ++ n))
          | _ => .refused 400
        | none, _ =>
          match pc, qc with
          | some p, _ => .called p
          | none, some q => .called q
          | none, none => .calledAny

def verdictStr : Verdict → String
  | .called c => "200:" ++ c
  | .calledAny => "200:*"
  | .refused s => toString s
  | .badFraming => "bad-framing"

/-- Model output equals implementation output. -/
def agrees (l : SvLine) : Verdict → Bool
  | .called c => l.status == 200 && l.echoV == c
  | .calledAny => l.status == 200
  | .refused s => l.status == s
  | .badFraming => l.status == 400

/-- The context the handler reported is the request's own (`mkContext`). -/
def ctxOwn (l : SvLine) : Bool :=
  let r : Request := { method := b l.method, uri := l.target, headers := [(b "x-nonce", b l.nonce)], body := [] }
  let c := mkContext r (l.port.toNat?.getD 0)
  l.echoM == String.ofList (c.method.map Char.ofNat) && l.echoU == hexB c.uri &&
    l.echoH == hexB ((c.headers.head?.map (·.2)).getD []) && l.echoP == toString c.peer

end Dropshot.DriverExtract
