/-
Driver for C02 (registration): streams
  reg <id> <n> <ep>*n => <k accepted> <ok|refusal kind>
  rc  <id> <n> <ep>*n <epid> <method> <pathhex> <ver> => <lookup result>
The specification side (`flatConflict`) works on the flat list of accepted
endpoints and never looks at the trie.
-/
import Driver.RouterCommon
import DropshotModel.Path
import DropshotModel.Register

open Dropshot Dropshot.Proto Dropshot.RouterCommon

namespace Dropshot.DriverC02

def out (id : String) (agree : Bool) (spec : String) (cls known model : String) : String :=
  s!"{id} agree={b2s agree} spec={spec} class={cls} known={known} model={model}"

def bad (id why : String) : String := s!"{id} agree=0 spec=na class=bad-line known=- model={why}"

/-- A version shared by two ranges, by brute force over the complete pool
(`C05.shared_in_pool`). -/
def shareVersion (r s : Range SemVer) : Bool :=
  (SemVer.bot :: (r.endpoints ++ s.endpoints)).any fun v => decide (Range.Mem v r) && decide (Range.Mem v s)

def segKindName : Seg → String
  | .lit _ => "lit" | .var _ => "var" | .wild _ => "wild"

/-- Do two templates disagree at the first position where they differ? -/
def pathClash : List Seg → List Seg → Bool
  | a :: as, b :: bs =>
    if a = b then pathClash as bs
    else match a, b with
      | .lit _, .lit _ => false
      | _, _ => true
  | _, _ => false

def varNames (p : List Seg) : List String :=
  p.filterMap fun s => match s with | .lit _ => none | .var n => some n | .wild n => some n

def hasDup : List String → Bool
  | [] => false
  | x :: xs => xs.contains x || hasDup xs

def wildNotLast : List Seg → Bool
  | [] => false
  | [_] => false
  | .wild _ :: _ => true
  | _ :: rest => wildNotLast rest

/-- The declarative conflict list of the property, on the flat set. -/
def flatConflict (acc : List (Endpoint SemVer)) (e : Endpoint SemVer) : Bool :=
  wildNotLast e.path || hasDup (varNames e.path) ||
  acc.any fun e' =>
    pathClash e'.path e.path ||
    (e'.path == e.path && normMethod e'.method == normMethod e.method && shareVersion e'.versions e.versions)


/-! ### `pv`: tag policy and parameter validation -/

mutual
  /-- Shape grammar: `t<inst><0|1>`, `S<k>(s,s,…)`, `R<name>`, `A(s)`, `X`. -/
  partial def parseShape (cs : List Char) : Option (Shape × List Char) :=
    match cs with
    | 't' :: i :: p :: rest =>
      let inst : Option Inst := match i with
        | 'b' => some .bool | 'n' => some .number | 's' => some .string | 'i' => some .integer
        | 'a' => some .array | 'o' => some .object | 'z' => some .null | _ => none
      inst.map fun t => (.typed t (p == '1'), rest)
    | 'X' :: rest => some (.other, rest)
    | 'R' :: rest =>
      let (nm, rest') := rest.span (fun c => c.isAlphanum)
      some (.ref (String.ofList nm), rest')
    | 'A' :: '(' :: rest =>
      match parseShape rest with
      | some (item, ')' :: rest') => some (.arrayOf item, rest')
      | _ => none
    | 'S' :: k :: '(' :: rest =>
      let kind : Option SubKind := match k with
        | 'a' => some .allOf | 'y' => some .anyOf | 'o' => some .oneOf | _ => none
      match kind, parseShapes rest with
      | some kd, some (subs, ')' :: rest') => some (.sub kd subs, rest')
      | _, _ => none
    | _ => none
  partial def parseShapes (cs : List Char) : Option (List Shape × List Char) :=
    match parseShape cs with
    | none => none
    | some (s, ',' :: rest) =>
      match parseShapes rest with
      | some (ss, rest') => some (s :: ss, rest')
      | none => none
    | some (s, rest) => some ([s], rest)
end

def shapeOf (s : String) : Option Shape :=
  match parseShape s.toList with
  | some (sh, []) => some sh
  | _ => none

def listOf (s : String) : List String := if s = "-" then [] else s.splitOn ","

def errName : RegisterErr → String
  | .tagAtLeastOne => "tagAtLeastOne" | .tagExactlyOne => "tagExactlyOne" | .tagInvalid => "tagInvalid"
  | .pathParamsMismatch => "pathParamsMismatch" | .bothPathAndQuery => "bothPathAndQuery"
  | .notScalar => "notScalar" | .notStringArray => "notStringArray"

def handlePv (id : String) (rest : List String) (impl : List String) : String :=
  match rest, impl with
  | pol :: ao :: defined :: vis :: tags :: ph :: nd :: more, [i] =>
    match nd.toNat? with
    | none => bad id "ndeps"
    | some nd =>
      let depToks := more.take (max nd 1)
      let more := more.drop (max nd 1)
      match more with
      | np :: ptoks =>
        let deps : Option Deps := if nd == 0 then some [] else depToks.mapM fun t =>
          match t.splitOn "=" with
          | [n, s] => (shapeOf s).map fun sh => (n, sh)
          | _ => none
        let np := np.toNat?.getD 0
        let params : Option (List Param) := if np == 0 then some [] else (ptoks.take np).mapM fun t =>
          match t.splitOn ":" with
          | [l, n, s] => (shapeOf s).map fun sh =>
              { loc := if l == "p" then .path else .query, name := n, shape := sh }
          | _ => none
        let policy : TagPolicy := if pol == "a" then .atLeastOne else if pol == "e" then .exactlyOne else .any
        match deps, params, (unhex ph).bind utf8String with
        | some deps, some params, some path =>
          match routeSegs path with
          | .error _ => bad id "template"
          | .ok tpl =>
            let cfg : TagConfig := { policy, allowOther := ao == "1", defined := listOf defined }
            let visible := vis == "1"
            let tagl := listOf tags
            let m := validateEndpoint cfg visible tagl tpl deps params
            let model := match m with | none => "ok" | some e => "err:" ++ errName e
            -- specification: refused iff one of the listed conditions holds (no ordering, no kinds)
            let tagBad := visible && ((policy == .atLeastOne && tagl.isEmpty) ||
              (policy == .exactlyOne && tagl.length != 1) ||
              (ao != "1" && tagl.any fun t => !(listOf defined).contains t))
            let vars := templateVars tpl
            let declared := (params.filter (·.loc == .path)).map (·.name)
            let setBad := !(vars.all (fun v => declared.contains v.1) && declared.all (fun d => vars.any (·.1 == d)))
            let clash := params.any fun p => p.loc == .query && vars.any (·.1 == p.name)
            let typeBad := params.any fun p =>
              match p.loc with
              | .query => !typeIsScalar deps p.shape
              | .path => match vars.reverse.find? (·.1 == p.name) with
                | some (_, true) => !typeIsStringArray deps p.shape
                | some (_, false) => !typeIsScalar deps p.shape
                | none => false
              | .body => false
            let shouldRefuse := tagBad || setBad || clash || typeBad
            let specOk := shouldRefuse == (i != "ok")
            let cls := s!"pv-{match m with | none => "ok" | some e => errName e}"
            out id (model == i) (b2s specOk) cls "-" model
        | _, _, _ => bad id "parse-pv"
      | [] => bad id "parse-pv-params"
  | _, _ => bad id "parse-pv-head"

def handle (line : String) : String :=
  let fs := fields line
  let (inp, impl) := splitAt "=>" fs
  match inp with
  | "reg" :: id :: rest =>
    match parseTable rest, impl with
    | some (raws, []), [ik, ikind] =>
      let (k, _, eps, err) := registerAll Node.empty raws 0 []
      let mkind := match err with | none => "ok" | some e => e.name
      let model := s!"{k} {mkind}"
      -- specification: the first index whose endpoint conflicts with the earlier ones (or is malformed)
      let rec firstConflict (acc : List (Endpoint SemVer)) (rs : List RawEp) (i : Nat) : Nat × Bool :=
        match rs with
        | [] => (i, false)
        | r :: rs' =>
          match toEndpoint r with
          | .error _ => (i, true)
          | .ok ep => if flatConflict acc ep then (i, true) else firstConflict (acc ++ [ep]) rs' (i + 1)
      let (sk, srefused) := firstConflict [] raws 0
      let specOk := toString sk == ik && (srefused == (ikind != "ok"))
      let anyBot := raws.any fun r => isUntilBot r.range
      let known := if !specOk && anyBot then "K2" else "-"
      let cls := s!"reg-{mkind}-n{if raws.length ≤ 2 then toString raws.length else "3p"}-k{if k == raws.length then "all" else "part"}"
      let _ := eps
      out id (model == s!"{ik} {ikind}") (b2s specOk) cls known model
    | _, _ => bad id "parse"
  | "rc" :: id :: rest =>
    match parseTable rest, impl with
    | some (raws, [eid, m, ph, pv]), [i] =>
      match (unhex ph).bind utf8String, parseProbe pv with
      | some path, some v =>
        let (k, t, eps, err) := registerAll Node.empty raws 0 []
        if err.isSome || k ≠ raws.length then bad id "table-not-accepted-by-model" else
        -- the witness request is a path string: decoded as `lookup_route` decodes it
        let segs := match Path.inputSegments (path.toUTF8.toList.map (·.toNat)) with
          | .ok bs => (bs.mapM (fun b => utf8String (b.map (·.toUInt8)))).getD []
          | .error _ => []
        let model := encLookup (Node.lookup t m segs v)
        let specOk := i.startsWith s!"ok:{eid}:"
        let target := eps.find? fun e => toString e.id == eid
        let k1 := match target with
          | some e => eps.any fun e2 => match e2.path.getLast? with
              | some (.wild _) => e2.path.dropLast == e.path || e2.path == e.path
              | _ => false
          | none => false
        let k2 := match target with | some e => isUntilBot e.versions | none => false
        let known := if specOk then "-" else if k2 then "K2" else if k1 then "K1" else "-"
        let cls := s!"rc-{if specOk then "reached" else "missed"}-{match target with | some e => (if e.path.any (fun s => match s with | .wild _ => true | _ => false) then "wild" else if e.path.any (fun s => match s with | .var _ => true | _ => false) then "var" else "lit") | none => "none"}"
        out id (model == i) (b2s specOk) cls known model
      | _, _ => bad id "parse-request"
    | _, _ => bad id "parse-table"
  | "pv" :: id :: rest => handlePv id rest impl
  | _ => bad "?" "unknown-stream"

end Dropshot.DriverC02

def main : IO Unit := Dropshot.Proto.runDriver Dropshot.DriverC02.handle
