/-
Driver for C10: every `bad` case (a single-fault mutation of a valid request)
is replayed through the model of the code (`agree`: status and echo),
and the property is evaluated on the implementation's answer (`spec`):

* the model, reading JSON by RFC 8259 (`decodeStrict`), says whether the
  request is invalid;
* invalid  ⇒ status 4xx, framework error body, the endpoint's handler-entered
  counter unchanged, and the next valid request is answered 200;
* still valid (the mutation was harmless) ⇒ 200, exactly one handler entry,
  follow-up answered.

The inputs of the repaired finding K10a (a complete well-typed JSON value
followed by non-whitespace bytes) stay in the stream as ordinary must-pass
cases, class `bad-<ep>-json-trailing`.
  <id> agree=<0|1> spec=<0|1|na> class=<label> known=<K..|-> model=<…>
-/
import Driver.ExtractCommon

open Dropshot Dropshot.Proto Dropshot.Extract Dropshot.DriverExtract

namespace Dropshot.DriverC10

/-- Why the model refuses, as a class label. -/
def refusalClass (l : SvLine) (e : Ep) (payload : Bytes) : String :=
  let (path, query) := splitTarget l.target
  if l.target.length > maxUriLen then "uri-too-long" else
  match lookupVars e.route path with
  | .badPath => "path-undecodable"
  | .noRoute => "no-route"
  | .ok vars =>
    if l.method != e.method then "method-not-allowed" else
    let pathE := match e.pathShape.bind shape with
      | some fs => (match mapDe (.struct fs) vars with | .error er => some ("path-" ++ errKind er) | .ok _ => none)
      | none => none
    match pathE with
    | some c => c
    | none =>
      let queryE := match e.queryShape.bind shape with
        | some fs =>
          (match extractQuery (.struct fs) (query.getD []) with
            | .error er => some ("query-" ++ errKind er) | .ok _ => none)
        | none => none
      match queryE with
      | some c => c
      | none =>
        let hdr := l.ct.map trimOws
        match e.body, e.kind with
        | some (sh, ect), _ =>
          match shape sh with
          | none => "?"
          | some fs =>
            match loadBody (JsonBody.decodeStrict fs) (extractQuery (.struct fs)) ect e.cap hdr payload with
            | .ok _ => "none"
            | .error .tooLarge => "body-too-large"
            | .error .headerNotStr => "ct-not-ascii"
            | .error .unknownMime => "ct-unknown"
            | .error (.mismatch _ _) => "ct-mismatch"
            | .error (.decode er) => (if ect == .json then "json-" else "form-") ++ errKind er
            | .error .json => "json-syntax"
        | none, "raw" => if payload.length > bodyCap then "body-too-large" else "none"
        | none, "page" => if (pageVerdict (query.getD [])).isNone then "page-params" else "none"
        | none, "mp" =>
          match multipartBoundary hdr with
          | .error .noHeader => "mp-no-header"
          | .error .headerNotStr => "mp-ct-not-ascii"
          | .error .badContentType => "mp-bad-ct"
          | .ok _ => "none"
        | none, _ => "none"

def handleBad (inp impl : List String) : String :=
  match parseSv inp impl with
  | none => bad (inp.getD 1 "?") "parse"
  | some l =>
    match endpoint l.ep with
    | none => bad l.id "endpoint"
    | some e =>
      match payloadOf l with
      | none =>
        if l.framing.broken then
          -- a chunked coding that cannot be undone (`Extract.dechunk` fails, as the generator
          -- meant it to): the body cannot be decoded into anything; dropshot answers 400 as soon
          -- as an extractor reads it, and no handler runs
          let is4xx := 400 ≤ l.status && l.status < 500
          -- (a `StreamingBody` handler is the one reading the stream: it runs, meets the error
          -- while reading, and the harness's handler answers with it)
          let notRun := l.delta == "0" || l.ep == "stream"
          out l.id (l.status == 400) (b2s (is4xx && notRun && l.errBody == "1" && l.followup == "1"))
            s!"bad-{l.ep}-broken-chunked" "-" "400"
        else out l.id false "na" "bad-undecodable-framing" "-" "bad-framing"
      | some (payload, reenc) =>
        let vAsIs := verdict l e payload false
        let vSpec := verdict l e payload true
        let agree := agrees l vAsIs && reenc
        let is4xx := 400 ≤ l.status && l.status < 500
        -- a long-value case is labelled by the position the value was put in
        let longPos := match l.extra.splitOn "." with
          | ["long", pos, _] => some pos
          | _ => none
        let (specOk, cls) := match vSpec with
          | .refused st =>
            -- a request target that `http::Uri` cannot hold is answered by hyper (414,
            -- no framework body): everything else of the property is still required
            let bodyOk := l.errBody == "1" || (st == 414 && l.status == 414)
            (is4xx && l.delta == "0" && bodyOk && l.followup == "1",
              match longPos with
              | some pos => s!"long-{pos}-{refusalClass l e payload}"
              | none =>
                if jsonTrailing l e payload then s!"bad-{l.ep}-json-trailing"
                else s!"bad-{l.ep}-{refusalClass l e payload}")
          | _ =>
            (l.status == 200 && l.delta == "1" && l.followup == "1", s!"still-valid-{l.ep}")
        out l.id agree (b2s specOk) cls "-" (verdictStr vAsIs)

def handle (line : String) : String :=
  let fs := fields line
  let (inp, impl) := splitAt "=>" fs
  match inp with
  | "bad" :: _ => handleBad inp impl
  -- the same cases over HTTP/2 (the protocol version enters neither the model nor the property)
  | "bad2" :: _ => (handleBad inp impl).replace "class=" "class=h2-"
  | ["fl", id, hook, sh, _label, ents] =>
    -- the hooks inside catch_unwind: a panic is a failure of the property
    match sh.toNat?.bind shape, parseEntries ents with
    | some sfs, some vars =>
      let r := mapDe (.struct sfs) vars
      let m := if hook == "path" then (match r with | .ok v => "ok " ++ canonVal v | .error _ => "err 400")
        else resField r
      let got := " ".intercalate impl
      let panicked := got == "panic"
      let cls := if panicked then "panic" else
        s!"fl-{hook}-{sh}-{match r with | .ok _ => "ok" | .error er => errKind er}"
      out id (m == got) (b2s (!panicked)) cls "-" m
    | _, _ => bad id "parse"
  | _ => bad "?" "unknown-stream"

end Dropshot.DriverC10

def main : IO Unit := Dropshot.Proto.runDriver Dropshot.DriverC10.handle
