/-
Parsing of route-table case lines shared by the router-core drivers
(C01, C02, C04, C06).  Endpoint token: `id;method;pathhex;range;vis`.
-/
import DropshotModel.Proto
import DropshotModel.Router

open Dropshot Dropshot.Proto

namespace Dropshot.RouterCommon

def parseRange (s : String) : Option (Range SemVer) :=
  match s.splitOn ":" with
  | ["A"] => some .all
  | ["F", a] => (SemVer.parse a).map .from
  | ["FU", a, b] => do let a ← SemVer.parse a; let b ← SemVer.parse b; pure (.fromUntil a b)
  | ["U", b] => (SemVer.parse b).map .until
  | _ => none

def parseProbe (s : String) : Option (Option SemVer) :=
  if s = "N" then some none else (SemVer.parse s).map some

/-- A descriptor as sent by the harness (template still a raw string). -/
structure RawEp where
  id : Nat
  method : String
  path : String
  range : Range SemVer
  visible : Bool

def utf8String (bs : List UInt8) : Option String := String.fromUTF8? (ByteArray.mk bs.toArray)

def parseEp (tok : String) : Option RawEp :=
  match tok.splitOn ";" with
  | [id, m, ph, r, vis] => do
    let id ← id.toNat?
    let pb ← unhex ph
    let p ← utf8String pb
    let r ← parseRange r
    pure { id, method := m, path := p, range := r, visible := vis == "1" }
  | _ => none

/-- `<n> <ep>*n rest…` -/
def parseTable (fs : List String) : Option (List RawEp × List String) :=
  match fs with
  | n :: rest => do
    let n ← n.toNat?
    if rest.length < n then none else
    let eps ← (rest.take n).mapM parseEp
    pure (eps, rest.drop n)
  | [] => none

inductive AnyErr where
  | tmpl (e : TemplateErr)
  | reg (e : RegErr)

def AnyErr.name : AnyErr → String
  | .tmpl .noLeadingSlash => "noLeadingSlash"
  | .tmpl .emptySegment => "emptySegment"
  | .tmpl .missingOpenBrace => "missingOpenBrace"
  | .tmpl .missingCloseBrace => "missingCloseBrace"
  | .tmpl .emptyVarName => "emptyVarName"
  | .tmpl .badPattern => "badPattern"
  | .reg .litVsVar => "litVsVar"
  | .reg .varVsLit => "varVsLit"
  | .reg .varVsRest => "varVsRest"
  | .reg .wildVsLit => "wildVsLit"
  | .reg .wildVsVar => "wildVsVar"
  | .reg .nameMismatch => "nameMismatch"
  | .reg .dupVar => "dupVar"
  | .reg .afterWildcard => "afterWildcard"
  | .reg .duplicate => "duplicate"
  | .reg .overlap => "overlap"

def toEndpoint (r : RawEp) : Except TemplateErr (Endpoint SemVer) :=
  match routeSegs r.path with
  | .error e => .error e
  | .ok segs => .ok { id := r.id, method := r.method, path := segs, versions := r.range, visible := r.visible }

/-- Register in order; returns the number accepted, the trie of the accepted
prefix, the accepted endpoints, and the first refusal if any. -/
def registerAll : Node SemVer → List RawEp → Nat → List (Endpoint SemVer) →
    Nat × Node SemVer × List (Endpoint SemVer) × Option AnyErr
  | t, [], k, acc => (k, t, acc.reverse, none)
  | t, r :: rs, k, acc =>
    match toEndpoint r with
    | .error e => (k, t, acc.reverse, some (.tmpl e))
    | .ok ep =>
      match Node.insert t ep with
      | .error e => (k, t, acc.reverse, some (.reg e))
      | .ok t' => registerAll t' rs (k + 1) (ep :: acc)

/-- Split a (simple) request path on '/', dropping empty segments.  The router
streams only send paths without '%' or dot segments; C03 covers decoding. -/
def splitPath (p : String) : List String := (p.splitOn "/").filter (· ≠ "")

def hexStr (s : String) : String := hex s.toUTF8.toList

def encVal : VarVal → String
  | .str s => "S:" ++ hexStr s
  | .comps ss => "C:" ++ "/".intercalate (ss.map hexStr)

/-- Insertion sort by key (driver glue; bindings have distinct names). -/
def sortVars (vs : Vars) : Vars :=
  vs.foldl (fun acc kv =>
    let (lo, hi) := acc.span (fun x => x.1 < kv.1)
    lo ++ [kv] ++ hi) []

def encVars (vs : Vars) : String :=
  if vs.isEmpty then "-" else ",".intercalate ((sortVars vs).map fun kv => kv.1 ++ "=" ++ encVal kv.2)

def sortStrings (xs : List String) : List String :=
  xs.foldl (fun acc x =>
    let (lo, hi) := acc.span (fun y => y < x)
    lo ++ [x] ++ hi) []

def dedup (xs : List String) : List String :=
  xs.foldl (fun acc x => if acc.contains x then acc else acc ++ [x]) []

def encLookup (r : Except LookupErr (Endpoint SemVer × Vars)) : String :=
  match r with
  | .ok (e, vars) => s!"ok:{e.id}:{encVars vars}"
  | .error .notFound => "err:404"
  | .error (.methodNotAllowed allow) =>
    let a := sortStrings allow
    "err:405:" ++ (if a.isEmpty then "-" else ",".intercalate a)

/-- K1 region: the request path matches an endpoint's template exactly while
another endpoint's template is that template followed by a wildcard. -/
def inK1 (eps : List (Endpoint SemVer)) (p : List String) : Bool :=
  eps.any fun e1 => (matchT e1.path p).isSome &&
    eps.any fun e2 => match e2.path.getLast? with
      | some (.wild _) => e2.path.dropLast == e1.path
      | _ => false

def isUntilBot : Range SemVer → Bool
  | .until b => decide (b = SemVer.bot)
  | _ => false

end Dropshot.RouterCommon
