/-
Driver for C01 (dispatch): stream `lk`
  lk <id> <n> <ep>*n <method> <pathhex> <ver|N> => ok:<epid>:<vars> | err:404 | err:405:<allow>
-/
import Driver.RouterCommon
import DropshotModel.Dispatch

open Dropshot Dropshot.Proto Dropshot.RouterCommon

namespace Dropshot.DriverC01

def out (id : String) (agree : Bool) (spec : String) (cls known model : String) : String :=
  s!"{id} agree={b2s agree} spec={spec} class={cls} known={known} model={model}"

def bad (id why : String) : String := s!"{id} agree=0 spec=na class=bad-line known=- model={why}"

def sizeBucket (n : Nat) : String := if n ≤ 1 then "s1" else if n ≤ 3 then "s3" else if n ≤ 6 then "s6" else "s9"

def handle (line : String) : String :=
  let fs := fields line
  let (inp, impl) := splitAt "=>" fs
  match inp with
  | "lk" :: id :: rest =>
    match parseTable rest, impl with
    | some (raws, [m, ph, pv]), [i] =>
      match (unhex ph).bind utf8String, parseProbe pv with
      | some path, some v =>
        let (k, t, eps, err) := registerAll Node.empty raws 0 []
        if err.isSome || k ≠ raws.length then bad id "table-not-accepted-by-model" else
        -- `lookup_route` begins with `input_path_to_segments` (split on '/', drop
        -- empty segments, percent-decode each once, refuse dot-segments and
        -- non-UTF-8): the C03 model, composed here with the trie walk
        match Path.inputSegments (path.toUTF8.toList.map (·.toNat)) with
        | .error _ =>
          out id (i == "err:400") (b2s (i == "err:400")) "lk-400" "-" "err:400"
        | .ok bsegs =>
        match bsegs.mapM (fun b => utf8String (b.map (·.toUInt8))) with
        | none => bad id "segment-not-utf8"
        | some segs =>
        -- the model's `lookup_route` (`Dispatch.lookupRoute`); segments are UTF-8 here
        let conv : Bytes → String := fun b => (utf8String (b.map (·.toUInt8))).getD ""
        let res : Except LookupErr (Endpoint SemVer × Vars) :=
          match lookupRoute conv t m (path.toUTF8.toList.map (·.toNat)) v with
          | .ok r => .ok r
          | .error (.methodNotAllowed a) => .error (.methodNotAllowed a)
          | .error _ => .error .notFound
        let model := encLookup res
        -- specification, from the flat list of endpoints
        let cands := Cands eps m segs v
        let specOk : Bool :=
          match i.splitOn ":" with
          | "ok" :: eid :: vrest =>
            let vars := ":".intercalate vrest
            cands.length == 1 && cands.any fun e =>
              toString e.id == eid && (match matchT e.path segs with
                | some vs => encVars vs == vars
                | none => false)
          | _ => cands.isEmpty
        let known := if !specOk && inK1 eps segs then "K1" else "-"
        let hasWild := eps.any fun e => match e.path.getLast? with | some (.wild _) => true | _ => false
        let versioned := eps.any fun e => !e.versions.isAll
        let kind := match res with
          | .ok _ => "hit" | .error .notFound => "404" | .error (.methodNotAllowed _) => "405"
        let cls := s!"lk-{kind}-{sizeBucket eps.length}-{if hasWild then "w" else "n"}{if versioned then "v" else "u"}{if v.isNone then "N" else "V"}{if path.any (· == '%') then "p" else ""}"
        out id (model == i) (b2s specOk) cls known model
      | _, _ => bad id "parse-request"
    | _, _ => bad id "parse-table"
  | "us" :: id :: rest =>
    match parseTable rest, impl with
    | some (raws, []), [i] =>
      match raws.mapM (fun r => (toEndpoint r).toOption) with
      | none => bad id "template"
      | some eps =>
        let model := match unversionedServerStarts eps with
          | none => "not-accepted" | some true => "started" | some false => "refused"
        -- specification: an unversioned server starts iff every endpoint is unrestricted
        let allUnrestricted := raws.all fun r => r.range.isAll
        let specOk := i == (if allUnrestricted then "started" else "refused")
        let lastAll := match raws.getLast? with | some r => r.range.isAll | none => true
        out id (model == i) (b2s specOk) s!"us-{model}-{if lastAll then "lastAll" else "lastVer"}-n{raws.length}" "-" model
    | _, _ => bad id "parse-us"
  | _ => bad "?" "unknown-stream"

end Dropshot.DriverC01

def main : IO Unit := Dropshot.Proto.runDriver Dropshot.DriverC01.handle
