/-
Driver for C14: replays harness cases through the pagination model
(DropshotModel/Pagination.lean), compares with the implementation (`agree`)
and evaluates the specification predicate on the implementation's answer
(`spec`).  Also holds the driver-side model of serde's derived `Deserialize`
for the harness's selector type family (`decTy`) — the application type's
codec, a parameter of the theorems (`SelCodec`), compared here on every case.
-/
import DropshotModel.Proto
import DropshotModel.Pagination
import DropshotModel.Utf8

open Dropshot Dropshot.Proto Dropshot.Json Dropshot.Pagination

namespace Dropshot.DriverC14

/-! ### selector type family -/

inductive Ty
  | str | u64 | i64 | u128 | i128 | bool
  | unitEnum (names : List Bytes)
  | opt (t : Ty)
  | vec (t : Ty)
  | tuple (ts : List Ty)
  | struct (fs : List (Bytes × Ty))
  | variants (vs : List (Bytes × List Ty))
  | nest
deriving Inhabited

def jStrs : JList → Option (List Bytes)
  | .nil => some []
  | .cons (.str s) r => (jStrs r).map (s :: ·)
  | .cons _ _ => none

mutual
  partial def parseTy : JVal → Option Ty
    | .str s =>
      if s = ascii "S" then some .str
      else if s = ascii "U64" then some .u64
      else if s = ascii "I64" then some .i64
      else if s = ascii "U128" then some .u128
      else if s = ascii "I128" then some .i128
      else if s = ascii "B" then some .bool
      else if s = ascii "N" then some .nest
      else none
    | .obj (.cons k v .nil) =>
      if k = ascii "E" then
        match v with
        | .arr xs => (jStrs xs).map .unitEnum
        | _ => none
      else if k = ascii "O" then (parseTy v).map .opt
      else if k = ascii "V" then (parseTy v).map .vec
      else if k = ascii "T" then
        match v with
        | .arr xs => (parseTys xs.toList).map .tuple
        | _ => none
      else if k = ascii "R" then
        match v with
        | .arr xs => (xs.toList.mapM fun (f : JVal) =>
            match f with
            | JVal.arr (.cons (.str n) (.cons t .nil)) => (parseTy t).map fun t => (n, t)
            | _ => none).map .struct
        | _ => none
      else if k = ascii "X" then
        match v with
        | .arr xs => (xs.toList.mapM fun (f : JVal) =>
            match f with
            | JVal.arr (.cons (.str n) (.cons (.arr ts) .nil)) => (parseTys ts.toList).map fun ts => (n, ts)
            | _ => none).map .variants
        | _ => none
      else none
    | _ => none
  partial def parseTys : List JVal → Option (List Ty)
    | [] => some []
    | x :: xs => do
      let t ← parseTy x
      let ts ← parseTys xs
      pure (t :: ts)
end

def isOpt : Ty → Bool
  | .opt _ => true
  | _ => false

/-- serde's derived `Deserialize` over serde_json for the type family,
returning the value re-serialized canonically (what `serde_json::to_vec` of
the decoded Rust value prints). -/
partial def decTy : Ty → JVal → Option JVal
  | .str, .str s => some (.str s)
  | .u64, .num n => if 0 ≤ n ∧ n < 18446744073709551616 then some (.num n) else none
  | .i64, .num n => if -9223372036854775808 ≤ n ∧ n < 9223372036854775808 then some (.num n) else none
  | .u128, .num n => if 0 ≤ n ∧ n < 340282366920938463463374607431768211456 then some (.num n) else none
  | .i128, .num n =>
    if -170141183460469231731687303715884105728 ≤ n ∧ n < 170141183460469231731687303715884105728 then some (.num n) else none
  | .bool, .bool b => some (.bool b)
  | .unitEnum names, .str s => if names.contains s then some (.str s) else none
  | .unitEnum names, .obj (.cons k .null .nil) => if names.contains k then some (.str k) else none
  | .opt _, .null => some .null
  | .opt t, j => decTy t j
  | .vec t, .arr xs => (xs.toList.mapM (decTy t)).map fun ys => .arr (JList.ofList ys)
  | .nest, .arr xs => (xs.toList.mapM (decTy .nest)).map fun ys => .arr (JList.ofList ys)
  | .tuple ts, .arr xs =>
    let xl := xs.toList
    if xl.length = ts.length then
      ((ts.zip xl).mapM fun p => decTy p.1 p.2).map fun ys => .arr (JList.ofList ys)
    else none
  | .struct fs, .arr xs =>
    let xl := xs.toList
    if xl.length = fs.length then
      ((fs.zip xl).mapM fun p => (decTy p.1.2 p.2).map fun y => (p.1.1, y)).map fun ys => .obj (JFields.ofList ys)
    else none
  | .struct fs, .obj kvs =>
    -- document order; unknown skipped; a repeated known field refused
    let rec walk (l : List (Bytes × JVal)) (seen : List (Bytes × JVal)) : Option (List (Bytes × JVal)) :=
      match l with
      | [] => some seen
      | (k, v) :: rest =>
        match fs.find? (fun f => f.1 = k) with
        | none => walk rest seen
        | some f =>
          if seen.any (fun s => s.1 = k) then none
          else
            match decTy f.2 v with
            | none => none
            | some y => walk rest ((k, y) :: seen)
    match walk kvs.toList [] with
    | none => none
    | some seen =>
      (fs.mapM fun (f : Bytes × Ty) =>
        match seen.find? (fun (s : Bytes × JVal) => s.1 = f.1) with
        | some s => some (f.1, s.2)
        | none => if isOpt f.2 then some (f.1, JVal.null) else none).map fun ys => .obj (JFields.ofList ys)
  | .variants vs, .str s =>
    match vs.find? (fun v => v.1 = s) with
    | some (_, []) => some (.str s)
    | _ => none
  | .variants vs, .obj (.cons k v .nil) =>
    match vs.find? (fun x => x.1 = k) with
    | some (_, []) => if v == .null then some (.str k) else none
    | some (_, [t]) => (decTy t v).map fun y => .obj (.cons k y .nil)
    | some (_, ts) =>
      match v with
      | .arr xs =>
        let xl := xs.toList
        if xl.length = ts.length then
          ((ts.zip xl).mapM fun p => decTy p.1 p.2).map fun ys => .obj (.cons k (.arr (JList.ofList ys)) .nil)
        else none
      | _ => none
    | none => none
  | _, _ => none

def maxL (l : List Nat) : Nat := l.foldl max 0

/-- Containers serde_json's typed traversal has open at the deepest point
(`check_recursion!` on every `{`/`[` it enters through a typed visitor;
skipped values are consumed without recursion). -/
partial def tdepth : Ty → JVal → Nat
  | .unitEnum _, .obj _ => 1
  | .opt t, j => tdepth t j
  | .vec t, .arr xs => 1 + maxL (xs.toList.map (tdepth t))
  | .nest, .arr xs => 1 + maxL (xs.toList.map (tdepth .nest))
  | .tuple ts, .arr xs => 1 + maxL ((ts.zip xs.toList).map fun p => tdepth p.1 p.2)
  | .struct fs, .arr xs => 1 + maxL ((fs.zip xs.toList).map fun p => tdepth p.1.2 p.2)
  | .struct fs, .obj kvs =>
    1 + maxL (kvs.toList.map fun (p : Bytes × JVal) =>
      match fs.find? (fun f => f.1 = p.1) with
      | some f => tdepth f.2 p.2
      | none => 0)
  | .variants vs, .obj (.cons k v .nil) =>
    match vs.find? (fun x => x.1 = k) with
    | some (_, [t]) => 1 + tdepth t v
    | some (_, ts) =>
      match v with
      | .arr xs => 2 + maxL ((ts.zip xs.toList).map fun p => tdepth p.1 p.2)
      | _ => 1
    | none => 1
  | _, _ => 0

def codecOf (t : Ty) : SelCodec JVal :=
  ⟨id, decTy t, if isOpt t then some .null else none, tdepth t⟩

/-! ### rendering -/

def natBytes (bs : Bytes) : List UInt8 := bs.map fun b => UInt8.ofNat b
def bytesOf (bs : List UInt8) : Bytes := bs.map (·.toNat)
def hexB (bs : Bytes) : String := hex (natBytes bs)
def unhexB (s : String) : Option Bytes := (unhex s).map bytesOf

def corruptLabel : Corrupt → String
  | .json => "json" | .depth => "depth" | .shape => "shape" | .dupField => "dup"
  | .missingField => "missing" | .version => "version" | .selector => "selector"

def tokErrClass : TokenErr → String
  | .tooLarge => "large" | .base64 => "b64" | .corrupted _ => "corrupt"

def tokErrLabel : TokenErr → String
  | .tooLarge => "large" | .base64 => "b64" | .corrupted c => corruptLabel c

def out (id : String) (agree : Bool) (spec : String) (cls known model : String) : String :=
  s!"{id} agree={b2s agree} spec={spec} class={cls} known={known} model={model}"

def bad (id : String) (why : String) : String :=
  s!"{id} agree=0 spec=na class=bad-line known=- model={why}"

def lenBucket (tokLen : Nat) : String :=
  if tokLen < 480 then "lt480"
  else if tokLen < 508 then "480to504"
  else if tokLen = 508 then "508"
  else if tokLen = 512 then "512"
  else if tokLen = 516 then "516"
  else if tokLen ≤ 532 then "520to532"
  else "gt532"

/-! ### independent spec helpers -/

/-- The property's reading of an acceptable `limit` value, computed with the
core library's numeral reader rather than the model's: one optional `+`, then
ASCII digits only, value in `1 .. 2^32-1`. -/
def specLimit (bs : Bytes) : Option Nat :=
  let ds := match bs with
    | 43 :: r => r
    | _ => bs
  if ds.isEmpty then none
  else if ds.all (fun b => 48 ≤ b && b ≤ 57) then
    match (String.ofList (ds.map Char.ofNat)).toNat? with
    | some n => if 1 ≤ n ∧ n < 4294967296 then some n else none
    | none => none
  else none

def specEff (client : Option Nat) : Nat :=
  match client with
  | some n => if n < 10000 then n else 10000
  | none => 100

/-- Token length the property predicts for a selector whose JSON is `l` bytes
(envelope `{"v":"v1","page_start":…}` is 24 bytes; base64 with padding). -/
def specTokenLen (l : Nat) : Nat := 4 * ((l + 24 + 2) / 3)

/-! ### query-level model glue -/

def sortAsc : Bytes := ascii "by-id-ascending"
def sortDesc : Bytes := ascii "by-id-descending"

/-- `from_map` into `ScanP { sort: Option<Sort> }`. -/
def scanOf (get : Bytes → Option Bytes) : Option (Option Bytes) :=
  match get (ascii "sort") with
  | none => some none
  | some v => if v = sortAsc ∨ v = sortDesc then some (some v) else none

def tySelS : Ty := .struct [(ascii "last", .u64)]

def renderLimit : Option Nat → String
  | none => "none"
  | some n => toString n

def renderParams (kvs : List (Bytes × Bytes)) : String × String :=
  match parseParams (codecOf tySelS) scanOf kvs with
  | .ok (.first s, lim) =>
    (s!"first {match s with | none => "none" | some v => String.ofList (v.map Char.ofNat)} {renderLimit lim}",
     "first-" ++ (if lim.isSome then "lim" else "nolim") ++ (if s.isSome then "-sort" else ""))
  | .ok (.next j, lim) => (s!"next {hexB j.print} {renderLimit lim}", "next-" ++ (if lim.isSome then "lim" else "nolim"))
  | .error .dupLimit => ("err", "err-duplimit")
  | .error .badLimit => ("err", "err-badlimit")
  | .error (.token e) => ("err", "err-token-" ++ tokErrLabel e)
  | .error .scan => ("err", "err-scan")

def srvItems : Nat := 12000

def handle (line : String) : String :=
  let fs := fields line
  let (inp, impl) := splitAt "=>" fs
  match inp with
  | ["iss", id, tyh, sjh] =>
    match (unhexB tyh).bind Json.parse |>.bind parseTy, unhexB sjh with
    | some ty, some sj =>
      match Json.parse sj with
      | none => bad id "selector-json-outside-model"
      | some j =>
        let predicted := specTokenLen sj.length
        let deep := decide (tdepth ty j ≥ maxJsonDepth)
        let (m, tokLen) := match serializeToken SelCodec.json j with
          | .error e => ([s!"err", toString e.status], (tokenBytes SelCodec.json j).length)
          | .ok t =>
            let back := match deserializeToken (codecOf ty) t with
              | .ok v => s!"ok:{hexB v.print}"
              | .error e => s!"err:{tokErrClass e}"
            (["ok", hexB t, back], t.length)
        -- spec: refused at issue time iff over 512 (and then with 500); an issued
        -- token has the predicted length and reads back to the same selector
        let specOk := match impl with
          | ["err", code] => predicted > 512 && code == "500"
          | ["ok", th, back] =>
            predicted ≤ 512 && (unhexB th).any (fun t => t.length == predicted) && back == s!"ok:{sjh}"
          | _ => false
        let agree := m == impl
        let known := if !specOk && agree && deep then "K4" else "-"
        out id agree (b2s specOk)
          s!"iss-{impl.headD "?"}-{lenBucket tokLen}{if deep then "-deep" else ""}" known (" ".intercalate m)
    | _, _ => bad id "parse"
  | [stream, id, tyh, tokh] =>
    if stream == "tok" || stream == "orc" then
      match (unhexB tyh).bind Json.parse |>.bind parseTy, unhexB tokh with
      | some ty, some tok =>
        let r := deserializeToken (codecOf ty) tok
        let m := match r with
          | .ok v => ["ok", hexB v.print]
          | .error e => ["err", tokErrClass e]
        let label := match r with
          | .ok _ => "ok"
          | .error e => tokErrLabel e
        -- spec: accepted, or refused cleanly; an over-long token is refused as such
        -- ... and a token whose bytes are not UTF-8 text is not JSON text: never accepted
        -- (decided with the Base64 and UTF-8 models alone, for tokens inside and outside the
        -- JSON fragment the model reads)
        let notText := match Base64.decode .urlSafe tok with
          | some bytes => !Utf8.utf8Valid bytes
          | none => false
        let specOk := match impl with
          | ["ok", _] => tok.length ≤ 512 && !notText
          | ["err", c] => (tok.length > 512) == (c == "large")
          | _ => false
        if stream == "tok" then
          out id (m == impl) (b2s specOk) s!"tok-{label}" "-" (" ".intercalate m)
        else
          out id true (b2s specOk) s!"orc-{impl.headD "?"}-{if m == impl then "same" else "differ"}" "-" (" ".intercalate m)
      | _, _ => bad id "parse"
    else bad id "unknown-stream"
  | ["qry", id, qh] =>
    match unhexB qh with
    | none => bad id "hex"
    | some q =>
      let kvs := parseQuery q
      let (main, cls) := renderParams kvs
      let (implMain, implAlone) := splitAt "/" impl
      let tokenV := lastValue (kvs.filter fun p => p.1 ≠ kLimit) kPageToken
      let m := match tokenV with
        | some t => main ++ " / " ++ (renderParams [(kPageToken, t)]).1
        | none => main
      let limits := kvs.filter fun p => p.1 = kLimit
      -- spec (limit clause): a query that is just `limit=<x>`
      let specLim : Option Bool :=
        match kvs with
        | [(k, v)] =>
          if k = kLimit then
            some (match specLimit v with
              | some n => implMain == ["first", "none", toString n]
              | none => implMain == ["err"])
          else none
        | _ => none
      -- spec (token clause): with a token present the page is the token's page
      let specTok : Option Bool :=
        match tokenV with
        | none => none
        | some _ =>
          let limitsFine := match limits with
            | [] => true
            | [(_, v)] => (specLimit v).isSome
            | _ => false
          some (match implMain, implAlone with
            | ["next", x, _], ["next", y, "none"] => x == y
            | ["err"], ["err"] => true
            | ["err"], ["next", _, _] => !limitsFine
            | _, _ => false)
      let spec := match specLim, specTok with
        | some a, some b => b2s (a && b)
        | some a, none => b2s a
        | none, some b => b2s b
        | none, none => if implMain.headD "" == "panic" then "0" else "na"
      out id (m == " ".intercalate impl) spec s!"qry-{cls}{if tokenV.isSome then "-tok" else ""}" "-" m
  | ["srv", id, lim, tok, extra] =>
    let limB : Option (Option Bytes) := if lim == "none" then some none else (unhexB (lim.drop 1).toString).map some
    let tokB : Option (Option Bytes) := if tok == "none" then some none else (unhexB (tok.drop 1).toString).map some
    match limB, tokB, unhexB extra with
    | some limB, some tokB, some extraB =>
      let kvs := parseQuery extraB ++ (match limB with | some l => [(kLimit, l)] | none => [])
        ++ (match tokB with | some t => [(kPageToken, t)] | none => [])
      let (m, cls) : String × String := match parseParams (codecOf tySelS) scanOf kvs with
        | .error e => ("400 0 - 0", "400-" ++ (match e with
            | .dupLimit => "duplimit" | .badLimit => "badlimit" | .scan => "scan" | .token t => "token-" ++ tokErrLabel t))
        | .ok (w, l) =>
          let eff := pageLimit l serverMax serverDefault
          let start := match w with
            | .first _ => 0
            | .next j => match j with
              | .obj kvs => match kvs.get? (ascii "last") with
                | some (.num n) => n.toNat + 1
                | _ => 0
              | _ => 0
          let start := min start srvItems
          let n := min eff (srvItems - start)
          (s!"200 {n} {if n = 0 then "-" else toString start} {if n = 0 then 0 else 1}",
            s!"200-{match l with | none => "default" | some c => if c > serverMax then "clamped" else if c = serverMax then "atmax" else "client"}-{match w with | .first _ => "first" | .next _ => if n = 0 then "next-empty" else "next"}")
      -- spec: 200 or 400, never 5xx / broken framing; a refused limit is 400;
      -- a 200 page holds at most the effective limit; with a token the first
      -- item is the one after the token's, whatever else is in the query
      let specOk := match impl with
        | [st, n, first, _next] =>
          let limOk := match limB with
            | none => some none
            | some l => (specLimit l).map some
          if st == "400" then true && (limOk.isNone || tokB.isSome || !extraB.isEmpty)
          else if st == "200" then
            match limOk, n.toNat? with
            | some c, some k => k ≤ specEff c && (tokB.isSome || k == min (specEff c) srvItems && first == "0")
            | _, _ => false
          else false
        | _ => false
      out id (m == " ".intercalate impl) (b2s specOk) s!"srv-{cls}" "-" m
    | _, _, _ => bad id "parse"
  | ["sro", id, _tokh] =>
    let specOk := match impl with
      | st :: _ => (st == "200" || st == "400") && impl.length == 4
      | _ => false
    out id true (b2s specOk) s!"sro-{impl.headD "?"}" "-" "-"
  | _ => bad "?" "unknown-stream"

end Dropshot.DriverC14

def main : IO Unit := Dropshot.Proto.runDriver Dropshot.DriverC14.handle
