/-
Driver for C17 (trace validation).  Input, one scenario per line:

  sd <id> <mode> plan=<…> reqs=<r>:<c>:<kind>;… watch=<c>,… nwait=<n> <event log> => closed=<ok|err|timeout|panicked> released=<n> late=<n>

* `agree` — `Shutdown.acceptsSettled` accepts the observed log after the
  unobservable events have been inserted at the latest consistent point
  (`Shutdown.elaborate`: `AcceptStopped`, `Drained` before the first refused
  connect or released waiter, `JoinResolved res` before the first released waiter);
* `spec`  — the clauses of the property evaluated on the flat observed log
  and the harness observations.
-/
import DropshotModel.Proto
import DropshotModel.Shutdown

open Dropshot Dropshot.Proto Dropshot.Shutdown
open Dropshot.Lifecycle (Mode)

namespace Dropshot.DriverC17

def tail (n : Nat) (s : String) : String := String.ofList (s.toList.drop n)

def parseEvent (t : String) : Option Event :=
  if t = "CL" then some .closeRequested
  else if t = "NR" then some .connectRefused
  else if t = "NA" then some .connectAccepted
  else
  let rest := tail 1 t
  match t.toList.head? with
  | some 'Q' =>
    match rest.splitOn ":" with
    | [c, r] => do let c ← c.toNat?; let r ← r.toNat?; pure (.lc (.reqSent c r))
    | _ => none
  | some 'S' => rest.toNat?.map fun r => .lc (.start r)
  | some 'T' => rest.toNat?.map fun r => .lc (.tick r)
  | some 'C' => rest.toNat?.map fun c => .lc (.disconnect c)
  | some 'D' => rest.toNat?.map fun r => .lc (.done r)
  | some 'X' => rest.toNat?.map fun r => .lc (.drop r)
  | some 'P' => rest.toNat?.map fun r => .lc (.panic r)
  | some 'R' => rest.toNat?.map fun r => .lc (.respDelivered r)
  | some 'K' => rest.toNat?.map .connClosed
  | some 'W' =>
    match rest.splitOn ":" with
    | [i, "ok"] => i.toNat?.map fun i => .waiterReleased i true
    | [i, "err"] => i.toNat?.map fun i => .waiterReleased i false
    | _ => none
  | _ => none

def parseLog (s : String) : Option (List Event) :=
  if s = "-" then some [] else (s.splitOn ",").mapM parseEvent

def showEvent : Event → String
  | .lc (.reqSent c r) => s!"Q{c}:{r}" | .lc (.start r) => s!"S{r}" | .lc (.tick r) => s!"T{r}"
  | .lc (.disconnect c) => s!"C{c}" | .lc (.done r) => s!"D{r}" | .lc (.drop r) => s!"X{r}"
  | .lc (.panic r) => s!"P{r}" | .lc (.respDelivered r) => s!"R{r}"
  | .closeRequested => "CL" | .acceptStopped => "AS" | .drained => "DR" | .connClosed c => s!"K{c}"
  | .joinResolved b => s!"J{b}" | .waiterReleased i b => s!"W{i}:{b}"
  | .connectRefused => "NR" | .connectAccepted => "NA"

def parseMode : String → Option Mode
  | "detached" => some .detached | "cancel" => some .cancel | _ => none

def kv (key : String) (fs : List String) : Option String :=
  fs.findSome? fun f => if f.startsWith (key ++ "=") then some (tail (key.length + 1) f) else none

structure ReqMeta where
  r : Nat
  c : Nat
  kind : String

def parseReqs (s : String) : Option (List ReqMeta) :=
  if s = "-" then some [] else
  (s.splitOn ";").mapM fun t =>
    match t.splitOn ":" with
    | [r, c, k] => do let r ← r.toNat?; let c ← c.toNat?; pure ⟨r, c, k⟩
    | _ => none

def parseNats (s : String) : Option (List Nat) :=
  if s = "-" then some [] else (s.splitOn ",").mapM String.toNat?

/-! ### Specification predicates on the flat observed log -/

def idxWhere (p : Event → Bool) : List Event → Nat → Option Nat
  | [], _ => none
  | x :: xs, i => if p x then some i else idxWhere p xs (i + 1)

def idx (e : Event) (tr : List Event) : Option Nat := idxWhere (· == e) tr 0

/-- position of the first released waiter = latest possible position of the join -/
def joinIdx (tr : List Event) : Option Nat := idxWhere isWaiter tr 0

def ltIdx (a : Option Nat) (b : Option Nat) : Bool :=
  match a, b with
  | some i, some j => i < j
  | _, _ => false

def startedReqs (tr : List Event) : List Nat :=
  tr.filterMap fun e => match e with | .lc (.start r) => some r | _ => none

def waiterResults (tr : List Event) : List (Nat × Bool) :=
  tr.filterMap fun e => match e with | .waiterReleased i b => some (i, b) | _ => none

/-- "shutdown does not finish until all such requests and all detached handlers
have finished": every started handler ended before the first waiter was released. -/
def specWaitsAll (tr : List Event) : Bool :=
  let j := joinIdx tr
  (startedReqs tr).all fun r =>
    ltIdx (idx (.lc (.start r)) tr) j &&
    (ltIdx (idx (.lc (.done r)) tr) j || ltIdx (idx (.lc (.drop r)) tr) j || ltIdx (idx (.lc (.panic r)) tr) j)

/-- "every request whose handler had already started still receives its complete
response if its client stays connected". -/
def specAnswered (tr : List Event) (q : ReqMeta) : Bool :=
  if q.kind == "stays" || q.kind == "earlier" then
    tr.contains (.lc (.start q.r)) && ltIdx (idx (.lc (.done q.r)) tr) (idx (.lc (.respDelivered q.r)) tr)
      && !tr.contains (.lc (.drop q.r))
  else true

/-- in detached mode a handler whose client left still completes (before the join). -/
def specDetachedLeft (m : Mode) (tr : List Event) (q : ReqMeta) : Bool :=
  if m == .detached && q.kind == "left" then
    ltIdx (idx (.lc (.done q.r)) tr) (joinIdx tr) && !tr.contains (.lc (.drop q.r))
  else true

/-- "every waiter for shutdown is released with the same result": all `nwait`
waiters (close() included) were released, once each, with one common value. -/
def specWaiters (tr : List Event) (nwait : Nat) : Bool :=
  let ws := waiterResults tr
  ws.length == nwait &&
  (List.range nwait).all (fun i => (ws.filter fun (j, _) => j == i).length == 1) &&
  (match ws with
   | [] => false
   | (_, b) :: rest => rest.all fun (_, b') => b' == b)

/-- "once shutdown has finished the listening port no longer accepts
connections": after the first released waiter no connect succeeded and the
probe made after close() returned was refused; once a connect was refused
(the listener is dropped when the server task is done, possibly before the
detached handlers are) none succeeds any more. -/
def specPort (tr : List Event) : Bool :=
  match joinIdx tr with
  | none => false
  | some j =>
    let post := tr.drop j
    let afterRefusal := match idx .connectRefused tr with
      | some k => tr.drop k
      | none => []
    !post.contains .connectAccepted && post.contains .connectRefused
      && !afterRefusal.contains .connectAccepted

/-- every client that stayed saw its connection closed, and only after close was requested. -/
def specConnsClosed (tr : List Event) (watch : List Nat) : Bool :=
  watch.all fun c => ltIdx (idx .closeRequested tr) (idx (.connClosed c) tr)

def specOrder (tr : List Event) : Bool :=
  ltIdx (idx .closeRequested tr) (joinIdx tr) && tr.count .closeRequested == 1

def out (id : String) (agree : Bool) (spec : String) (cls known model : String) : String :=
  s!"{id} agree={b2s agree} spec={spec} class={cls} known={known} model={model}"

def bad (id why : String) : String :=
  s!"{id} agree=0 spec=na class=bad-line known=- model={why}"

def bucket (n : Nat) : String :=
  if n = 0 then "0" else if n = 1 then "1" else if n ≤ 4 then "2-4" else "5+"

def handle (line : String) : String :=
  let fs := fields line
  let (inp, obs) := splitAt "=>" fs
  match inp with
  | ["sd", id, mode, plan, reqs, watch, nwait, log] =>
    match parseMode mode, parseLog log, (kv "reqs" [reqs]).bind parseReqs,
          (kv "watch" [watch]).bind parseNats, (kv "nwait" [nwait]).bind String.toNat? with
    | some m, some tr, some metas, some watch, some nwait =>
      let closedOk := kv "closed" obs == some "ok"
      let late := (kv "late" obs).bind String.toNat?
      -- HTTPS traces go through the HTTPS arm's variant of the LTS (`stepTls`: the listener is
      -- dropped when the accept loop ends, so a connect can be refused while in-flight requests
      -- are still being served)
      let tls : Bool := decide ((plan.splitOn "tls").length > 1)
      let full := if tls then elaborateTls tr else elaborate tr
      let agree := if tls then acceptsSettledTls m full else acceptsSettled m full
      let model :=
        match (if tls then firstRejectedTls m init full 0 else firstRejected m init full 0) with
        | some (i, e) => s!"rejected@{i}:{showEvent e}"
        | none => if agree then "accepted" else "accepted-not-settled"
      let cWaits := specWaitsAll tr
      let cAns := metas.all (specAnswered tr)
      let cDet := metas.all (specDetachedLeft m tr)
      let cW := specWaiters tr nwait
      let cPort := specPort tr
      let cConns := specConnsClosed tr watch
      let cOrd := specOrder tr
      let cObs := closedOk && late == some 0
      let spec := cWaits && cAns && cDet && cW && cPort && cConns && cOrd && cObs
      let failing := (if cWaits then "" else "waitsAll;") ++ (if cAns then "" else "answered;") ++
        (if cDet then "" else "detachedLeft;") ++ (if cW then "" else "waiters;") ++
        (if cPort then "" else "port;") ++ (if cConns then "" else "connsClosed;") ++
        (if cOrd then "" else "order;") ++ (if cObs then "" else "obs;")
      let nStay := (metas.filter (·.kind == "stays")).length
      let nLeft := (metas.filter (·.kind == "left")).length
      let half : Bool := decide ((plan.splitOn "half=1").length > 1)
      let dropctx : Bool := decide ((plan.splitOn "!").length > 1)
      let noticed : Bool := decide ((plan.splitOn "noticed=1").length > 1)
      let byDrop : Bool := decide ((plan.splitOn "bydrop=1").length > 1)
      let hang := kv "closed" obs == some "timeout"
      let cls :=
        if half then s!"{mode}-half-sent" ++ (if hang then "-hang" else "")
        else s!"{mode}{if tls then "-tls" else ""}-stay{bucket nStay}-left{bucket nLeft}-idle{bucket (watch.length - nStay)}-w{bucket (nwait - 1)}"
          ++ (if dropctx then "-dropctx" else "") ++ (if noticed && nLeft > 0 then "-noticed" else "")
          ++ (if byDrop then "-bydrop" else "")
      out id agree (b2s spec) cls "-" (model ++ (if spec then "" else s!" failing={failing}"))
    | _, _, _, _, _ => bad id "parse"
  | _ :: id :: _ => bad id "shape"
  | _ => bad "?" "shape"

end Dropshot.DriverC17

def main : IO Unit := Dropshot.Proto.runDriver Dropshot.DriverC17.handle
