/-
Driver for C15: replays each scan through the model (`Pagination.scan` over
`0 … n-1` in the mode's scan order with the effective limit `pageLimit`),
compares the page sequence with the live server's, and evaluates the
specification predicate on the server's pages.
-/
import DropshotModel.Proto
import DropshotModel.Pagination

open Dropshot Dropshot.Proto Dropshot.Pagination

namespace Dropshot.DriverC15

def out (id : String) (agree : Bool) (spec : String) (cls known model : String) : String :=
  s!"{id} agree={b2s agree} spec={spec} class={cls} known={known} model={model}"

def bad (id : String) (why : String) : String :=
  s!"{id} agree=0 spec=na class=bad-line known=- model={why}"

/-- Run-length rendering of a page of ranks (same format as the harness). -/
partial def runsAux : List Nat → List String → List String
  | [], acc => acc.reverse
  | [a], acc => (toString a :: acc).reverse
  | a :: b :: rest, acc =>
    if b = a + 1 then
      let rec up (last : Nat) (l : List Nat) : Nat × List Nat :=
        match l with
        | c :: t => if c = last + 1 then up c t else (last, l)
        | [] => (last, [])
      let (e, r) := up b rest
      runsAux r (s!"{a}-{e}" :: acc)
    else if b + 1 = a then
      let rec down (last : Nat) (l : List Nat) : Nat × List Nat :=
        match l with
        | c :: t => if c + 1 = last then down c t else (last, l)
        | [] => (last, [])
      let (e, r) := down b rest
      runsAux r (s!"{a}-{e}" :: acc)
    else runsAux (b :: rest) (toString a :: acc)

def runs (l : List Nat) : String :=
  if l.isEmpty then "-" else ",".intercalate (runsAux l [])

/-- Expand `a-b,c,…` (either direction) back to a list of ranks. -/
def expandRuns (s : String) : Option (List Nat) :=
  if s == "-" then some [] else
  (s.splitOn ",").foldlM (fun acc piece =>
    match piece.splitOn "-" with
    | [a] => a.toNat?.map fun a => acc ++ [a]
    | [a, b] =>
      match a.toNat?, b.toNat? with
      | some a, some b =>
        if a ≤ b then some (acc ++ (List.range (b - a + 1)).map (· + a))
        else some (acc ++ (List.range (a - b + 1)).map (a - ·))
      | _, _ => none
    | _ => none) []

/-- A page as printed: token flag and items. -/
def parsePage (s : String) : Option (Bool × List Nat) :=
  match s.splitOn ":" with
  | [f, r] =>
    if f == "T" then (expandRuns r).map fun l => (true, l)
    else if f == "E" then (expandRuns r).map fun l => (false, l)
    else none
  | _ => none

def renderPage (tok : Bool) (items : List Nat) : String :=
  (if tok then "T:" else "E:") ++ runs items

/-- Effective limit as the property states it (cap 10000, default 100). -/
def specEff (client : Option Nat) : Nat :=
  match client with
  | some n => if n < 10000 then n else 10000
  | none => 100

def handle (line : String) : String :=
  let fs := fields line
  let (inp, impl) := splitAt "=>" fs
  match inp with
  | ["scan", id, mode, ns, ls] =>
    let lim : Option (Option Nat) := if ls == "none" then some none else ls.toNat?.map some
    let desc : Option Bool :=
      if mode.endsWith "-asc" then some false else if mode.endsWith "-desc" then some true else none
    match ns.toNat?, lim, desc with
    | some n, some lim, some desc =>
      let expected : List Nat := if desc then (List.range n).reverse else List.range n
      -- model
      let eff := pageLimit lim serverMax serverDefault
      let (pages, exhausted) :=
        if desc then scan (fun a b : Nat => decide (b < a)) expected eff
        else scan (fun a b : Nat => decide (a < b)) expected eff
      let mPages := pages.map fun p => renderPage (!p.isEmpty) p
      let m := s!"{pages.length} " ++ " ".intercalate mPages ++ (if exhausted then " FUEL" else "")
      let agree := m == " ".intercalate impl
      -- spec on the implementation's pages
      let specOk : Bool :=
        match impl with
        | cnt :: ps =>
          match ps.mapM parsePage with
          | none => false
          | some pp =>
            let all := pp.foldl (fun acc p => acc ++ p.2) []
            cnt.toNat? == some pp.length                 -- terminated, every request answered 200
            && all == expected                           -- every item, once, in order
            && pp.all (fun p => p.2.length ≤ specEff lim) -- page size
            && pp.all (fun p => p.1 == !p.2.isEmpty)      -- token ⇔ non-empty page
            && (pp.getLast?.map (fun p => !p.1)).getD false  -- ended because no token came
        | [] => false
      let sizeCls := if n = 0 then "empty" else if n ≤ 40 then "small" else if n ≤ 101 then "around-default" else if n ≤ 10001 then "around-max" else "beyond-max"
      let limCls := match lim with
        | none => "default"
        | some l => if l > serverMax then "clamped" else if l = serverMax then "atmax"
          else if l = 1 then "one" else if l < n then "lt-size" else if l = n then "eq-size" else "gt-size"
      out id agree (b2s specOk) s!"scan-{mode}-{sizeCls}-{limCls}" "-"
        (if m.length > 300 then (m.take 300).toString ++ "…" else m)
    | _, _, _ => bad id "parse"
  | ["noise", id, _what, vol] =>
    -- background listings whose 600-character selector cannot be issued as a token
    -- (C14.issue_fails_iff): every one is a 500, and none of them may disturb a scan
    -- (each scan line above is judged on its own)
    match impl with
    | [all500, other] =>
      out id (all500 == "1" && other == "0") (b2s (all500 == "1" && other == "0")) s!"noise-{vol}" "-" "1 0"
    | _ => bad id "parse-noise"
  | _ => bad "?" "unknown-stream"

end Dropshot.DriverC15

def main : IO Unit := Dropshot.Proto.runDriver Dropshot.DriverC15.handle
