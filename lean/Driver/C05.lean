/-
Driver for C05: replays harness cases through the model, compares with the
implementation's answer (`agree`) and evaluates the specification predicate on
the implementation's answer (`spec`).  Output, one line per case:
  <id> agree=<0|1> spec=<0|1|na> class=<label> known=<K..|-> model=<…>
-/
import DropshotModel.Proto
import DropshotModel.Version

open Dropshot Dropshot.Proto

namespace Dropshot.DriverC05

def parseV (s : String) : Option SemVer := SemVer.parse s

def parseRange (s : String) : Option (Range SemVer) :=
  match s.splitOn ":" with
  | ["A"] => some .all
  | ["F", a] => (parseV a).map .from
  | ["FU", a, b] => do let a ← parseV a; let b ← parseV b; pure (.fromUntil a b)
  | ["U", b] => (parseV b).map .until
  | _ => none

def parseProbe (s : String) : Option (Option SemVer) :=
  if s = "N" then some none else (parseV s).map some

def isUntilBot : Range SemVer → Bool
  | .until b => decide (b = SemVer.bot)
  | _ => false

def kindOf : Range SemVer → String
  | .all => "A" | .from _ => "F" | .fromUntil a b => if a = b then "FU1" else "FU" | .until _ => "U"

/-- Specification oracle for "share a version": brute force over the pool that
`C05.shared_in_pool` proves complete. -/
def sharePool (r s : Range SemVer) : Bool :=
  (SemVer.bot :: (r.endpoints ++ s.endpoints)).any fun v => decide (Range.Mem v r) && decide (Range.Mem v s)

def out (id : String) (agree : Bool) (spec : String) (cls known model : String) : String :=
  s!"{id} agree={b2s agree} spec={spec} class={cls} known={known} model={model}"

def bad (id : String) (why : String) : String :=
  s!"{id} agree=0 spec=na class=bad-line known=- model={why}"

def ordStr : Ordering → String
  | .lt => "lt" | .eq => "eq" | .gt => "gt"

def handle (line : String) : String :=
  let fs := fields line
  let (inp, impl) := splitAt "=>" fs
  match inp with
  | ["vm", id, r, p] =>
    match parseRange r, parseProbe p, impl with
    | some r, some p, [i] =>
      let m := r.matches p
      let specB := match p with
        | none => true
        | some v => decide (Range.Mem v r)
      out id (b2s m == i) (b2s (b2s specB == i)) s!"vm-{kindOf r}-{if p.isNone then "none" else b2s m}" "-" (b2s m)
    | _, _, _ => bad id "parse"
  | ["vo", id, r, s] =>
    match parseRange r, parseRange s, impl with
    | some r, some s, [i] =>
      let m := Range.overlaps r s
      let sp := sharePool r s
      let specOk := b2s sp == i
      let known := if !specOk && (isUntilBot r || isUntilBot s) then "K2" else "-"
      out id (b2s m == i) (b2s specOk) s!"vo-{kindOf r}-{kindOf s}-{b2s sp}" known (b2s m)
    | _, _, _ => bad id "parse"
  | ["fu", id, a, b] =>
    match parseV a, parseV b, impl with
    | some a, some b, [i] =>
      let m := if (Range.mkFromUntil a b).isSome then "ok" else "err"
      let sp := if a ≤ b then "ok" else "err"
      out id (m == i) (b2s (sp == i)) s!"fu-{ordStr (SemVer.cmp a b)}" "-" m
    | _, _, _ => bad id "parse"
  | ["sv", id, x, y] =>
    match unhex x, unhex y with
    | some xb, some yb =>
      -- the crate parses `&str`; the harness only sends valid UTF-8, and any
      -- non-ASCII char is rejected by both sides
      let px := (asciiString xb).bind fun s => SemVer.parse s
      let py := (asciiString yb).bind fun s => SemVer.parse s
      let c := match px, py with
        | some a, some b => ordStr (SemVer.cmp a b)
        | _, _ => "na"
      let rx := match px with | some a => SemVer.render a | none => "!"
      let m := [b2s px.isSome, b2s py.isSome, c, rx]
      -- spec: a successful parse re-renders to the input (checked on the implementation's side too)
      out id (m == impl) "na" s!"sv-{b2s px.isSome}{b2s py.isSome}-{c}" "-" (" ".intercalate m)
    | _, _ => bad id "hex"
  | ["hd", id, h, mx] =>
    let hdr : Option (Option (List UInt8)) := if h = "none" then some none else (unhex h).map some
    match hdr, parseV mx with
    | some hdr, some mx =>
      let m := match extractVersion hdr mx with
        | .ok v => "ok:" ++ SemVer.render v
        | .error _ => "err:400"
      -- spec: accepted iff the header is the exact spelling of a version ≤ max
      let specB := match impl with
        | [i] =>
          if i.startsWith "ok:" then
            match hdr with
            | some bs => (asciiString bs).bind (fun s => SemVer.parse s) |>.any fun v =>
                "ok:" ++ SemVer.render v == i && decide (v ≤ mx) && SemVer.render v == (asciiString bs).getD ""
            | none => false
          else i == "err:400" &&
            !(match hdr with
              | some bs => (asciiString bs).bind (fun s => SemVer.parse s) |>.any fun v => decide (v ≤ mx)
              | none => false)
        | _ => false
      let cls := match extractVersion hdr mx with
        | .ok _ => "hd-ok" | .error .missing => "hd-missing" | .error .notAscii => "hd-notascii"
        | .error .unparsable => "hd-unparsable" | .error .tooNew => "hd-toonew"
      out id ([m] == impl) (b2s specB) cls "-" m
    | _, _ => bad id "parse"
  | ["rg", id, r1, r2, p] =>
    match parseRange r1, parseRange r2, parseProbe p, impl with
    | some r1, some r2, some p, [acc, hit, docX, docRoot] =>
      -- model: the router refuses the second endpoint iff the ranges overlap;
      -- lookup returns the first registered endpoint whose range matches
      let ov := Range.overlaps r1 r2
      let mAcc := b2s (!ov)
      let cands := if ov then [("h1", r1)] else [("h1", r1), ("h2", r2)]
      let mHit := match cands.find? (fun c => c.2.matches p) with
        | some c => c.1 | none => "404"
      -- spec: refused iff a version is shared; the hit is the unique endpoint containing the probe
      let sp := sharePool r1 r2
      let specAcc := b2s (!sp) == acc
      let regd := if acc == "1" then [("h1", r1), ("h2", r2)] else [("h1", r1)]
      let holders := regd.filter fun c => match p with
        | none => true | some v => decide (Range.Mem v c.2)
      let specHit := match p with
        | none => true  -- an unversioned lookup over versioned routes is not part of the property
        | some _ => match holders with
          | [] => hit == "404"
          | [c] => hit == c.1
          | _ => false
      -- the document for the probe version lists exactly the endpoint that serves it, on an
      -- ordinary path and on the root path alike
      let specDoc := match p with
        | none => true
        | some _ => match holders with
          | [] => docX == "404" && docRoot == "404"
          | [c] => docX == c.1 && docRoot == "r" ++ String.ofList (c.1.toList.drop 1)
          | _ => false
      let mDocOk := match p with
        | none => true
        | some _ => docX == mHit && docRoot == (if mHit == "404" then "404" else "r" ++ String.ofList (mHit.toList.drop 1))
      let specOk := specAcc && specHit && specDoc
      let known := if !specOk && (isUntilBot r1 || isUntilBot r2) then "K2" else "-"
      out id (mAcc == acc && mHit == hit && mDocOk) (b2s specOk) s!"rg-{kindOf r1}-{kindOf r2}-acc{mAcc}-{if mHit == "404" then "miss" else mHit}" known s!"{mAcc} {mHit}"
    | _, _, _, _ => bad id "parse"
  | ["rg3", id, r1, r2, r3, p] =>
    match parseRange r1, parseRange r2, parseRange r3, parseV p, impl with
    | some r1, some r2, some r3, some v, [flags, hit] =>
      let rs := [("h1", r1), ("h2", r2), ("h3", r3)]
      -- model: each endpoint is accepted iff it overlaps none of those accepted before it
      let step (ov : Range SemVer → Range SemVer → Bool) :=
        rs.foldl (fun (acc : List (String × Range SemVer) × String) c =>
          if acc.1.any (fun a => ov a.2 c.2) then (acc.1, acc.2 ++ "0") else (acc.1 ++ [c], acc.2 ++ "1")) ([], "")
      let (macc, mflags) := step Range.overlaps
      let mHit := match macc.find? (fun c => c.2.matches (some v)) with | some c => c.1 | none => "404"
      -- spec: the same with "share a version" by brute force over the complete pool
      let (sacc, sflags) := step sharePool
      let holders := sacc.filter fun c => decide (Range.Mem v c.2)
      let specOk := sflags == flags && (match holders with
        | [] => hit == "404" | [c] => hit == c.1 | _ => false)
      let known := if !specOk && (isUntilBot r1 || isUntilBot r2 || isUntilBot r3) then "K2" else "-"
      out id (mflags == flags && mHit == hit) (b2s specOk) s!"rg3-{mflags}-{if mHit == "404" then "miss" else mHit}" known s!"{mflags} {mHit}"
    | _, _, _, _, _ => bad id "parse"
  | _ => bad "?" "unknown-stream"

end Dropshot.DriverC05

def main : IO Unit := Dropshot.Proto.runDriver Dropshot.DriverC05.handle
