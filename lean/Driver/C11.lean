/-
Driver for C11: replays harness cases through the model of the body cap
(`agree`) and evaluates the property's specification predicate on the
implementation's answer (`spec`).  Streams: fs (function level, explicit
frame lists), sv (live server).
-/
import DropshotModel.Proto
import DropshotModel.BodyCap

open Dropshot Dropshot.Proto Dropshot.BodyCap

namespace Dropshot.DriverC11

def out (id : String) (agree : Bool) (spec : String) (cls known model : String) : String :=
  s!"{id} agree={b2s agree} spec={spec} class={cls} known={known} model={model}"

def bad (id : String) (why : String) : String :=
  s!"{id} agree=0 spec=na class=bad-line known=- model={why}"

def parseFrame (s : String) : Option Frame :=
  if s = "T" then some .trailers
  else if s = "E" then some .ioError
  else if s.startsWith "D" then (unhex (s.drop 1).toString).map .data
  else none

def parseFrames : Nat → List String → Option (List Frame × List String)
  | 0, rest => some ([], rest)
  | k + 1, f :: rest => do
    let fr ← parseFrame f
    let (fs, r) ← parseFrames k rest
    pure (fr :: fs, r)
  | _, _ => none

def parseChunks : Nat → List String → Option (List Bytes × List String)
  | 0, rest => some ([], rest)
  | k + 1, c :: rest => do
    let b ← unhex c
    let (cs, r) ← parseChunks k rest
    pure (b :: cs, r)
  | _, _ => none

def showOutcome : Outcome → String
  | .ok => "ok"
  | .tooLarge => "toolarge:400"
  | .transport => "transport:400"

def showBuffered : Except Outcome Bytes → String
  | .ok b => "ok:" ++ hex b
  | .error o => showOutcome o

/-- Independent description of the input: the concatenated data, its length,
whether any frame is an error — computed by plain folds, not by the model's loop. -/
def sentBytes (fs : List Frame) : Bytes :=
  fs.foldl (fun acc f => match f with | .data b => acc ++ b | _ => acc) []

def hasError (fs : List Frame) : Bool :=
  fs.any fun f => match f with | .ioError => true | _ => false

def isPrefixB (a b : Bytes) : Bool := a.isPrefixOf b

def sumsOk (cap : Nat) (lens : List Nat) : Bool :=
  (lens.foldl (fun (st : Nat × Bool) l => (st.1 + l, st.2 && decide (st.1 + l ≤ cap))) (0, true)).2

/-- Specification predicate for a function-level case, from the property text:
never more than `cap` bytes observed (running total after every chunk);
what is observed is a prefix of what was sent; without transport errors:
length ≤ cap ⇒ accepted and delivered intact (streaming and buffered),
length > cap ⇒ refused with a 400-level error; with transport errors: not
accepted beyond the cap, and any refusal is 400-level. -/
def specFs (cap : Nat) (fs : List Frame) (chunks : List Bytes) (end_ buf : String) : Bool :=
  let sent := sentBytes fs
  let seen := chunks.foldl (· ++ ·) []
  let within := sumsOk cap (chunks.map List.length)
  let pre := isPrefixB seen sent
  let is4xx (s : String) : Bool := match (s.splitOn ":") with
    | [_, code] => match code.toNat? with | some c => decide (400 ≤ c ∧ c ≤ 499) | none => false
    | _ => false
  let bufLenOk := if buf.startsWith "ok:" then
      match unhex (buf.drop 3).toString with
      | some b => decide (b.length ≤ cap) && b == sent
      | none => false
    else is4xx buf
  within && pre && bufLenOk &&
  (if hasError fs then
      -- accepted only if nothing was lost and the cap held; otherwise a 4xx
      (if end_ == "ok" then false else is4xx end_)
   else if sent.length ≤ cap then
      end_ == "ok" && seen == sent && buf == "ok:" ++ hex sent
   else
      end_.startsWith "toolarge:" && is4xx end_ && buf.startsWith "toolarge:" && is4xx buf)

def relToCap (n cap : Nat) : String :=
  if n + 1 == cap then "capm1" else if n == cap then "cap" else if n == cap + 1 then "capp1"
  else if n < cap then "under" else "over"

def handleFs (id : String) (inp impl : List String) : String :=
  match inp with
  | cap :: n :: rest =>
    match cap.toNat?, n.toNat? with
    | some cap, some n =>
      match parseFrames n rest with
      | some (fs, []) =>
        let r := stream cap fs
        let mb := buffered cap fs
        let m := [toString r.1.length] ++ r.1.map hex ++ [showOutcome r.2, showBuffered mb]
        let sp := match impl with
          | k :: irest =>
            match k.toNat? with
            | some k => match parseChunks k irest with
              | some (chunks, [end_, buf]) => specFs cap fs chunks end_ buf
              | _ => false
            | none => false
          | _ => false
        let hasT := fs.any fun f => match f with | .trailers => true | _ => false
        let hasZ := fs.any fun f => match f with | .data [] => true | _ => false
        let cls := s!"fs-cap{cap}-{relToCap (sentBytes fs).length cap}-{showOutcome r.2 |>.takeWhile (· ≠ ':')}" ++
          s!"{if hasError fs then "-err" else ""}{if hasT then "-trl" else ""}{if hasZ then "-zero" else ""}"
        out id (m == impl) (b2s sp) cls "-" (" ".intercalate m)
      | _ => bad id "frames"
    | _, _ => bad id "nums"
  | _ => bad id "short"

def parseCsv (s : String) : Option (List Nat) :=
  if s = "-" then some [] else (s.splitOn ",").mapM String.toNat?

def handleSv (id : String) (inp impl : List String) : String :=
  match inp with
  | [kind, dflt, ov, via, n, framing, _chunks] =>
    match dflt.toNat?, (if ov = "N" then some none else ov.toNat?.map some), n.toNat? with
    | some dflt, some ov, some n =>
      let cap := effectiveCap ov dflt
      -- by C11.chunking_irrelevant the outcome does not depend on how hyper frames the body
      let body : Bytes := List.replicate n 0
      let o := (stream cap [.data body]).2
      let streaming := kind == "streaming"
      let cls := s!"sv-{kind}-d{dflt}-o{ov.map toString |>.getD "N"}{via}-{relToCap n cap}-{framing}"
      match impl with
      | [st, ek, inv, capSeen, obsLen, eq, pre, lens, herr] =>
        -- model
        let mStatus := match errStatus o with | none => "200" | some s => toString s
        let mEk := match o with | .ok => "-" | .tooLarge => "toolarge" | .transport => "other"
        let mInv := if o == .ok || streaming then "1" else "0"
        let agree :=
          st == mStatus && ek == mEk && inv == mInv &&
          (if mInv == "1" then capSeen == toString cap && pre == "1" else capSeen == "-") &&
          (if o == .ok then obsLen == toString n && eq == "1" && herr == "-"
           else if streaming then herr == showOutcome o else herr == "-")
        -- spec, from the property text
        let capSpec := match ov with | some x => x | none => dflt
        let lensOk := match parseCsv lens with
          | some ls => sumsOk capSpec ls && (if inv == "1" then some ls.sum == obsLen.toNat? else true)
          | none => false
        let obsOk := if inv == "1" then
            (match obsLen.toNat? with | some l => decide (l ≤ capSpec) | none => false) &&
            capSeen == toString capSpec && pre == "1" && lensOk
          else true
        let sp := obsOk &&
          (if n ≤ capSpec then st == "200" && inv == "1" && obsLen == toString n && eq == "1"
           else
             (match st.toNat? with | some c => decide (400 ≤ c ∧ c ≤ 499) | none => false) &&
             (if streaming then herr.startsWith "toolarge:4" else inv == "0"))
        out id agree (b2s sp) cls "-" s!"{mStatus} {mEk} {mInv} cap={cap}"
      | _ => out id false "0" cls "-" "noresponse"
    | _, _, _ => bad id "nums"
  | _ => bad id "fields"

def handle (line : String) : String :=
  let fs := fields line
  let (inp, impl) := splitAt "=>" fs
  match inp with
  | "fs" :: id :: rest => handleFs id rest impl
  | "sv" :: id :: rest => handleSv id rest impl
  | _ => bad "?" "unknown-stream"

end Dropshot.DriverC11

def main : IO Unit := Dropshot.Proto.runDriver Dropshot.DriverC11.handle
