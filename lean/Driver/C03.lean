/-
Driver for C03: replays harness cases through the model (`agree`) and
evaluates the specification predicate on the implementation's answer (`spec`).

The specification side deliberately does not call the model's
`splitSlash` / `pctDecode` / `utf8Valid`: it uses core Lean's `List.splitOn`
and `ByteArray.validateUTF8` and a separately written index-based percent
decoder (`specDecode`), so a slip in the model shows up as `agree=1 spec=0` or
`agree=0 spec=1` rather than cancelling out.

Output, one line per case:
  <id> agree=<0|1> spec=<0|1|na> class=<label> known=- model=<…>
-/
import DropshotModel.Proto
import DropshotModel.Path

open Dropshot Dropshot.Proto Dropshot.Percent Dropshot.Utf8 Dropshot.Path

namespace Dropshot.DriverC03

def toNats (bs : List UInt8) : Bytes := bs.map (·.toNat)

def hexN (bs : Bytes) : String := hex (bs.map UInt8.ofNat)

def unhexN (s : String) : Option Bytes := (unhex s).map toNats

/-! ### Independent specification oracle -/

def specHex (b : Nat) : Option Nat :=
  if b ≥ 48 && b ≤ 57 then some (b - 48)
  else
    let l := if b ≥ 65 && b ≤ 90 then b + 32 else b
    if l ≥ 97 && l ≤ 102 then some (l - 87) else none

/-- Index-based percent decoder over an array (written separately from the model). -/
def specDecode (r : Bytes) : Bytes := Id.run do
  let a := r.toArray
  let mut out : Array Nat := #[]
  let mut i := 0
  for _ in [0:a.size] do
    if i < a.size then
      let b := a[i]!
      if b == 37 && i + 2 < a.size && (specHex a[i+1]!).isSome && (specHex a[i+2]!).isSome then
        out := out.push ((specHex a[i+1]!).getD 0 * 16 + (specHex a[i+2]!).getD 0)
        i := i + 3
      else
        out := out.push b
        i := i + 1
  return out.toList

def specUtf8 (bs : Bytes) : Bool :=
  bs.all (· < 256) && ByteArray.validateUTF8 (ByteArray.mk (bs.map UInt8.ofNat).toArray)

def isDotSeg (s : Bytes) : Bool := s == [46] || s == [46, 46]

/-- The non-empty raw pieces between `/`. -/
def specPieces (p : Bytes) : List Bytes := (p.splitOn 47).filter (!·.isEmpty)

/-- Some raw piece decodes to a dot segment / to invalid UTF-8. -/
def specHasDot (p : Bytes) : Bool := (specPieces p).any fun r => isDotSeg (specDecode r)
def specHasBadUtf8 (p : Bytes) : Bool := (specPieces p).any fun r => !specUtf8 (specDecode r)
def specBad (p : Bytes) : Bool := specHasDot p || specHasBadUtf8 p

/-- A value a handler may be given. -/
def specSafe (s : Bytes) : Bool := !s.isEmpty && !isDotSeg s && specUtf8 s

/-! ### Results as they travel on the line -/

/-- A function-level / handler-level result: `none` = refused. -/
abbrev Res := Option (List Bytes)

def modelRes (p : Bytes) : Res :=
  match inputSegments p with
  | .ok ss => some ss
  | .error _ => none

def showSegs (ss : List Bytes) : String :=
  " ".intercalate (toString ss.length :: ss.map hexN)

def showRes : Res → String
  | some ss => "ok " ++ showSegs ss
  | none => "err"

/-- Parse `<n> <seg>*` from the front of a token list. -/
def parseSegs : List String → Option (List Bytes × List String)
  | [] => none
  | n :: rest =>
    match n.toNat? with
    | none => none
    | some k =>
      if rest.length < k then none else
      match (rest.take k).mapM unhexN with
      | none => none
      | some ss => some (ss, rest.drop k)

def parseFRes : List String → Option Res
  | ["err"] => some none
  | "ok" :: rest =>
    match parseSegs rest with
    | some (ss, []) => some (some ss)
    | _ => none
  | _ => none

/-- The property on one function-level answer: refused exactly when some raw
piece is a dot segment in any spelling or is not UTF-8 after decoding; when
accepted, every delivered segment is safe and the segments are the raw pieces
decoded once, piece by piece. -/
def specOne (p : Bytes) (r : Res) : Bool :=
  match r with
  | none => specBad p
  | some ss => !specBad p && ss.all specSafe && ss == (specPieces p).map specDecode

def contains2 (hay needle : Bytes) : Bool :=
  (List.range (hay.length + 1)).any fun i => (hay.drop i).take needle.length == needle && !needle.isEmpty

/-- Branch label for a path. -/
def classOf (p : Bytes) : String :=
  let raw := rawSegments p
  let slashy := decide (p ≠ canon p)
  let sl := if slashy then "-sl" else ""
  match inputSegments p with
  | .error .dotSegment =>
    (if raw.any isDotSeg then "dot-raw" else "dot-enc") ++ sl
  | .error .badUtf8 => "utf8" ++ sl
  | .ok ss =>
    let feat :=
      if ss.isEmpty then "root"
      else if ss.any (·.contains 47) then "encslash"
      else if ss.any (contains2 · [37, 50]) then "pct2-kept"
      else if ss.any (·.contains 37) then "pct-literal"
      else if ss.any (·.any (· ≥ 128)) then (if raw.any (·.any (· ≥ 128)) then "nonascii-raw" else "nonascii-enc")
      else if raw.any (·.contains 37) then "escaped"
      else "plain"
    "ok-" ++ feat ++ sl

def out (id : String) (agree : Bool) (spec : String) (cls model : String) : String :=
  s!"{id} agree={b2s agree} spec={spec} class={cls} known=- model={model}"

def bad (id : String) (why : String) : String :=
  s!"{id} agree=0 spec=na class=bad-line known=- model={why}"

/-! ### lookup_route on the two tables -/

inductive LRes where
  | status (code : Nat)
  | vars (vs : List (String × Bool × List Bytes))   -- name, isComponents, values
deriving BEq

def showL : LRes → String
  | .status c => toString c
  | .vars vs => " ".intercalate (s!"ok {vs.length}" :: vs.map fun (n, isC, ss) =>
      if isC then s!"{n} C {showSegs ss}" else s!"{n} S {hexN (ss.headD [])}")

def parseVars : Nat → List String → Option (List (String × Bool × List Bytes))
  | 0, [] => some []
  | 0, _ => none
  | k + 1, name :: "S" :: v :: rest =>
    match unhexN v, parseVars k rest with
    | some b, some more => some ((name, false, [b]) :: more)
    | _, _ => none
  | k + 1, name :: "C" :: rest =>
    match parseSegs rest with
    | some (ss, rest') => (parseVars k rest').map ((name, true, ss) :: ·)
    | none => none
  | _, _ => none

def parseL : List String → Option LRes
  | [c] => c.toNat?.map .status
  | "ok" :: k :: rest => k.toNat?.bind fun k => (parseVars k rest).map .vars
  | _ => none

/-- Model of `lookup_route` (GET, no version) on table `W` = `GET /{path:.*}`
and `P` = `GET /p/{x}`: `lookupWith` with the (trivial) trie walk of each table. -/
def modelL (table : String) (p : Bytes) : LRes :=
  let route : List Bytes → Except Nat LRes :=
    if table == "W" then fun ss => .ok (.vars [("path", true, ss)])
    else if table == "E" then fun ss =>
      -- `GET /p` beside `GET /p/{rest:.*}`: the wildcard edge of node `p` takes
      -- whatever follows, the empty remainder included
      match ss with
      | [112] :: rest => .ok (.vars [("rest", true, rest)])
      | _ => .error 404
    else fun ss =>
      match ss with
      | [[112], x] => .ok (.vars [("x", false, [x])])
      | _ => .error 404
  match lookupWith route p with
  | .ok r => r
  | .error c => .status c

/-- The property on one routed answer, from the flat description of the table. -/
def specL (table : String) (p : Bytes) (r : LRes) : Bool :=
  let decoded := (specPieces p).map specDecode
  match r with
  | .status 400 => specBad p
  | .status 404 => !specBad p &&
      ((table == "P" && !(decoded.length == 2 && decoded.head? == some [112])) ||
       (table == "E" && decoded.head? != some [112]))
  | .status _ => false
  | .vars vs =>
    !specBad p && vs.all (fun (_, _, ss) => ss.all specSafe) &&
    (if table == "W" then vs == [("path", true, decoded)]
     -- table E: which of the two endpoints serves `/p` is C01's business (finding K1);
     -- here: some endpoint of the table, safe values, and (in `handle`) the same
     -- answer for every slash-respelling
     else if table == "E" then decoded.head? == some [112] &&
       ((vs == [] && decoded.length == 1) || vs == [("rest", true, decoded.drop 1)])
     else decoded.length == 2 && decoded.head? == some [112] && vs == [("x", false, decoded.drop 1)])

def classL (table : String) (p : Bytes) : String :=
  let c := classOf p
  match modelL table p with
  | .status 404 => s!"l{table}-404-{c}"
  | _ => s!"l{table}-{c}"

/-! ### Dispatch -/

def handle (line : String) : String :=
  let fs := fields line
  let (inp, impl) := splitAt "=>" fs
  match inp with
  | ["f", id, ph] =>
    match unhexN ph, parseFRes impl with
    | some p, some r =>
      let m := modelRes p
      out id (m == r) (b2s (specOne p r)) ("f-" ++ classOf p) (showRes m)
    | _, _ => bad id "parse"
  | ["v", id, ph, qh] =>
    let (i1, i2) := splitAt ";" impl
    match unhexN ph, unhexN qh, parseFRes i1, parseFRes i2 with
    | some p, some q, some r1, some r2 =>
      let m1 := modelRes p
      let m2 := modelRes q
      -- the generator promises the same raw pieces; the spec then demands equal answers
      let same := specPieces p == specPieces q
      let sp := specOne p r1 && specOne q r2 && (!same || r1 == r2)
      out id (m1 == r1 && m2 == r2) (b2s sp) ("v-" ++ classOf p ++ (if same then "" else "-DIFFERENT-PIECES"))
        (showRes m1 ++ " ; " ++ showRes m2)
    | _, _, _, _ => bad id "parse"
  | ["l", id, table, ph, qh] =>
    let (i1, i2) := splitAt ";" impl
    match unhexN ph, unhexN qh, parseL i1, parseL i2 with
    | some p, some q, some r1, some r2 =>
      if table != "W" && table != "P" && table != "E" then bad id "table" else
      let m1 := modelL table p
      let m2 := modelL table q
      let same := specPieces p == specPieces q
      let sp := specL table p r1 && specL table q r2 && (!same || r1 == r2)
      out id (m1 == r1 && m2 == r2) (b2s sp) (classL table p ++ (if same then "" else "-DIFFERENT-PIECES"))
        (showL m1 ++ " ; " ++ showL m2)
    | _, _, _, _ => bad id "parse"
  | ["s", id, ph] =>
    match unhexN ph with
    | some p =>
      -- live server, wildcard echo: 200 + components, or the status of the refusal
      let r : Option LRes := match impl with
        | "200" :: rest =>
          match parseSegs rest with
          | some (ss, []) => some (.vars [("path", true, ss)])
          | _ => none
        | [c] => c.toNat?.map .status
        | _ => none
      match r with
      | some r =>
        let m := modelL "W" p
        out id (m == r) (b2s (specL "W" p r)) ("s-" ++ classOf p) (showL m)
      | none => bad id "impl"
    | none => bad id "parse"
  | _ :: id :: _ => bad id "unknown-stream"
  | _ => bad "?" "unknown-stream"

end Dropshot.DriverC03

def main : IO Unit := Dropshot.Proto.runDriver Dropshot.DriverC03.handle
