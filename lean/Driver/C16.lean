/-
Driver for C16 (trace validation).  Input, one scenario per line:

  lc <id> <mode> n=<n> plans=<p;…> reqs=<r>:<c>:<kind>;… <event log> => health=<b> closed=<b> late=<n> resp=<r>:<status>;…

* `agree`  — the monitor `Lifecycle.acceptsQuiescent` accepts the real trace
  (every event enabled in the state reached so far, and at the end no handler is
  still running);
* `spec`   — the clauses of the property evaluated directly on the flat event
  list and the harness observations (no use of `step`);
* `known`  — `K16P` when the only failing clause is "a cancel-mode handler whose
  client left is eventually cancelled" and every offending request is one with
  pipelined bytes pending behind it (kind `pipe`).
-/
import DropshotModel.Proto
import DropshotModel.Lifecycle
import DropshotModel.Config
import DropshotModel.SchemaJson

open Dropshot Dropshot.Proto Dropshot.Lifecycle

namespace Dropshot.DriverC16

def tail1 (s : String) : String := String.ofList (s.toList.drop 1)

def parseEvent (t : String) : Option Event :=
  let rest := tail1 t
  match t.toList.head? with
  | some 'Q' =>
    match rest.splitOn ":" with
    | [c, r] => do let c ← c.toNat?; let r ← r.toNat?; pure (.reqSent c r)
    | _ => none
  | some 'S' => rest.toNat?.map .start
  | some 'T' => rest.toNat?.map .tick
  | some 'C' => rest.toNat?.map .disconnect
  | some 'D' => rest.toNat?.map .done
  | some 'X' => rest.toNat?.map .drop
  | some 'P' => rest.toNat?.map .panic
  | some 'R' => rest.toNat?.map .respDelivered
  | _ => none

def parseLog (s : String) : Option (List Event) :=
  if s = "-" then some [] else (s.splitOn ",").mapM parseEvent

def showEvent : Event → String
  | .reqSent c r => s!"Q{c}:{r}" | .start r => s!"S{r}" | .tick r => s!"T{r}"
  | .disconnect c => s!"C{c}" | .done r => s!"D{r}" | .drop r => s!"X{r}"
  | .panic r => s!"P{r}" | .respDelivered r => s!"R{r}"

def parseMode : String → Option Mode
  | "detached" => some .detached | "cancel" => some .cancel | _ => none

/-- `key=value` field. -/
def kv (key : String) (fs : List String) : Option String :=
  fs.findSome? fun f => if f.startsWith (key ++ "=") then some (String.ofList (f.toList.drop (key.length + 1))) else none

structure ReqMeta where
  r : Nat
  c : Nat
  kind : String

def parseReqs (s : String) : Option (List ReqMeta) :=
  if s = "-" then some [] else
  (s.splitOn ";").mapM fun t =>
    match t.splitOn ":" with
    | [r, c, k] => do let r ← r.toNat?; let c ← c.toNat?; pure ⟨r, c, k⟩
    | _ => none

def parseResp (s : String) : Option (List (Nat × Nat)) :=
  if s = "-" then some [] else
  (s.splitOn ";").mapM fun t =>
    match t.splitOn ":" with
    | [r, st] => do let r ← r.toNat?; let st ← st.toNat?; pure (r, st)
    | _ => none

/-! ### Specification predicates on the flat trace -/

def firstIdx (e : Event) : List Event → Nat → Option Nat
  | [], _ => none
  | x :: xs, i => if x = e then some i else firstIdx e xs (i + 1)

def idx (e : Event) (tr : List Event) : Option Nat := firstIdx e tr 0

/-- `a` occurs, and before the first `b` (or `b` does not occur). -/
def before (a b : Event) (tr : List Event) : Bool :=
  match idx a tr, idx b tr with
  | some i, some j => i < j
  | some _, none => true
  | none, _ => false

/-- `a` and `b` both occur and the first `a` is before the first `b`. -/
def strictlyBefore (a b : Event) (tr : List Event) : Bool :=
  match idx a tr, idx b tr with
  | some i, some j => i < j
  | _, _ => false

def after (tr : List Event) (e : Event) : List Event :=
  match idx e tr with
  | some i => tr.drop (i + 1)
  | none => []

def connOf (tr : List Event) (r : Nat) : Option Nat :=
  tr.findSome? fun e => match e with
    | .reqSent c r' => if r' = r then some c else none
    | _ => none

/-- clause "exactly one end": per request at most one Start; Done+Drop+Panic is
1 for a started handler and 0 otherwise. -/
def specOneEnd (tr : List Event) (r : Nat) : Bool :=
  let ends := tr.count (.done r) + tr.count (.drop r) + tr.count (.panic r)
  let st := tr.count (.start r)
  st ≤ 1 && ends == st

/-- clause "Drop only in cancel mode, only after the own client's disconnect,
nothing of r afterwards". -/
def specDropOk (m : Mode) (tr : List Event) (r : Nat) : Bool :=
  if tr.contains (.drop r) then
    m == .cancel &&
    (match connOf tr r with
     | some c => strictlyBefore (.reqSent c r) (.drop r) tr && strictlyBefore (.disconnect c) (.drop r) tr
     | none => false) &&
    (let rest := after tr (.drop r)
     !rest.contains (.tick r) && !rest.contains (.done r) && !rest.contains (.start r)
       && !rest.contains (.panic r))
  else true

/-- clause "cancelled eventually": cancel mode, handler started, its client
disconnected and the handler had not completed before that: it was dropped. -/
def specCancelled (m : Mode) (tr : List Event) (r : Nat) : Bool :=
  if m == .cancel && tr.contains (.start r) && !tr.contains (.panic r) then
    match connOf tr r with
    | some c =>
      if tr.contains (.disconnect c) && !strictlyBefore (.done r) (.disconnect c) tr then
        tr.contains (.drop r)
      else true
    | none => false
  else true

/-- clause "detached handlers run to completion exactly once". -/
def specDetached (m : Mode) (tr : List Event) (r : Nat) : Bool :=
  if m == .detached then
    !tr.contains (.drop r) &&
    (if tr.contains (.start r) && !tr.contains (.panic r) then tr.count (.done r) == 1 else true)
  else true

/-- clause "clients that stay connected: handler completes, response delivered". -/
def specStay (tr : List Event) (q : ReqMeta) : Bool :=
  if q.kind == "stay" || q.kind == "first" then
    tr.contains (.start q.r) && tr.contains (.done q.r) && strictlyBefore (.done q.r) (.respDelivered q.r) tr
      && !tr.contains (.drop q.r)
  else true

/-- a response is only ever delivered for a completed handler. -/
def specDelivered (tr : List Event) (r : Nat) : Bool :=
  if tr.contains (.respDelivered r) then strictlyBefore (.done r) (.respDelivered r) tr else true

/-- clause "a panic fails only its own request": the panicking request gets no
response and does not complete. -/
def specPanic (tr : List Event) (resp : List (Nat × Nat)) (r : Nat) : Bool :=
  if tr.contains (.panic r) then
    !tr.contains (.done r) && !tr.contains (.respDelivered r) &&
      (resp.all fun (r', st) => r' != r || st == 0)
  else true

def dedup (xs : List Nat) : List Nat :=
  xs.foldl (fun acc x => if acc.contains x then acc else acc ++ [x]) []

def bucket (n : Nat) : String :=
  if n ≤ 1 then "1" else if n ≤ 4 then "2-4" else if n ≤ 16 then "5-16" else "17-32"

def out (id : String) (agree : Bool) (spec : String) (cls known model : String) : String :=
  s!"{id} agree={b2s agree} spec={spec} class={cls} known={known} model={model}"

def bad (id why : String) : String :=
  s!"{id} agree=0 spec=na class=bad-line known=- model={why}"

/-! ### Configuration lines -/

def cfgAddrs : List String := ["127.0.0.1:0", "0.0.0.0:8080", "[::1]:443", "192.168.1.20:65535", "[::]:12220"]
def cfgValidAddr (s : String) : Bool := cfgAddrs.contains s

def hexToStr (h : String) : Option String :=
  (unhex h).bind fun b => String.fromUTF8? (ByteArray.mk b.toArray)

def encHdrs (hs : List String) : String :=
  if hs.isEmpty then "-" else ",".intercalate (hs.map fun h => "s" ++ hex h.toUTF8.toList)

def decHdrs (s : String) : Option (List String) :=
  if s == "-" then some [] else (s.splitOn ",").mapM fun t => hexToStr (tail1 t)

def cfgModeName : Mode → String | .detached => "detached" | .cancel => "cancel"

def showCfg : Option Config.Cfg → String
  | none => "err"
  | some c => s!"ok {hex c.bind.toUTF8.toList} {c.maxBytes} {cfgModeName c.mode} {encHdrs c.logHeaders}"

def handleCf (id textH : String) (obs : List String) : String :=
  match (unhex textH).bind Schema.parseJsonBytes with
  | none => s!"{id} agree=0 spec=na class=bad-line known=- model=json"
  | some j =>
    let m := showCfg (Config.parse cfgValidAddr j)
    let got := " ".intercalate obs
    -- the property's clause, from the flat key list: a configuration that names one of the two
    -- modes (once) runs under that mode, one that names none runs detached
    let named : Option (List Schema.J) := match j with
      | .obj kvs => some ((kvs.filter fun kv => kv.1 == "default_handler_task_mode").map (·.2))
      | _ => none
    let spec : String := match named, obs with
      | some [], "ok" :: _ :: _ :: mode :: _ => b2s (mode == "detached")
      | some [.str "cancel-on-disconnect"], "ok" :: _ :: _ :: mode :: _ => b2s (mode == "cancel")
      | some [.str "detached"], "ok" :: _ :: _ :: mode :: _ => b2s (mode == "detached")
      | _, _ => "na"
    let cls := match named with
      | none => "cf-not-an-object"
      | some vs => s!"cf-{if got == "err" then "err" else "ok"}-mode{vs.length}"
    s!"{id} agree={b2s (m == got)} spec={spec} class={cls} known=- model={m}"

def handleCs (id bindH maxS modeS hdrsS : String) (obs : List String) : String :=
  match hexToStr bindH, maxS.toNat?, parseMode modeS, decHdrs hdrsS, obs with
  | some bind, some mx, some mode, some hs, [textH] =>
    let c : Config.Cfg := { bind := bind, maxBytes := mx, mode := mode, logHeaders := hs }
    match (unhex textH).bind Schema.parseJsonBytes with
    | none => s!"{id} agree=0 spec=0 class=cs known=- model=unparsable"
    | some j =>
      let m := Config.serialize c
      -- what was written out reads back as the same configuration
      let back := Config.parse cfgValidAddr j == some c
      s!"{id} agree={b2s (Schema.J.beq m j)} spec={b2s back} class=cs-{modeS} known=- model={m.print}"
  | _, _, _, _, _ => s!"{id} agree=0 spec=na class=bad-line known=- model=parse"

def handle (line : String) : String :=
  let fs := fields line
  let (inp, obs) := splitAt "=>" fs
  match inp with
  | ["cf", id, textH] => handleCf id textH obs
  | ["cs", id, bindH, maxS, modeS, hdrsS] => handleCs id bindH maxS modeS hdrsS obs
  | ["lc", id, mode, n, plans, reqs, log] =>
    match parseMode mode, parseLog log, (kv "reqs" [reqs]).bind parseReqs,
          (kv "n" [n]).bind String.toNat?, kv "plans" [plans],
          (kv "resp" obs).bind parseResp with
    | some m, some tr, some metas, some n, some plans, some resp =>
      let health := kv "health" obs == some "1"
      let closed := kv "closed" obs == some "1"
      let late := (kv "late" obs).bind String.toNat?
      -- model: the monitor
      let agree := acceptsQuiescent m tr
      let model :=
        match firstRejected m init tr 0 with
        | some (i, e) => s!"rejected@{i}:{showEvent e}"
        | none => if agree then "accepted" else "accepted-not-quiescent"
      -- specification, clause by clause
      let rs := dedup (reqsOf tr ++ metas.map (·.r))
      let cOne := rs.all (specOneEnd tr)
      let cDrop := rs.all (specDropOk m tr)
      let cDet := rs.all (specDetached m tr)
      let cDel := rs.all (specDelivered tr)
      let cPanic := rs.all (specPanic tr resp)
      let cStay := metas.all (specStay tr)
      let notCancelled := rs.filter fun r => !specCancelled m tr r
      let cCancel := notCancelled.isEmpty
      -- (`early=1`: close() returned while a started detached handler had not ended)
      let cObs := health && closed && late == some 0 && kv "early" obs != some "1"
      let others := cOne && cDrop && cDet && cDel && cPanic && cStay && cObs
      let spec := others && cCancel
      let kindOf (r : Nat) : String := (metas.find? (·.r == r)).map (·.kind) |>.getD "?"
      let known :=
        if !spec && others && m == .cancel && notCancelled.all (fun r => kindOf r == "pipe") then "K16P"
        else "-"
      let failing := (if cOne then "" else "oneEnd;") ++ (if cDrop then "" else "drop;") ++
        (if cDet then "" else "detached;") ++ (if cDel then "" else "delivered;") ++
        (if cPanic then "" else "panic;") ++ (if cStay then "" else "stay;") ++
        (if cCancel then "" else s!"notCancelled{notCancelled};") ++ (if cObs then "" else "obs;")
      let cls := s!"{mode}-" ++ (if n ≤ 4 || plans.startsWith "h2-" then plans.replace ";" "+" else s!"mix-n{bucket n}")
      out id agree (b2s spec) cls known (model ++ (if spec then "" else s!" failing={failing}"))
    | _, _, _, _, _, _ => bad id "parse"
  | _ :: id :: _ => bad id "shape"
  | _ => bad "?" "shape"

end Dropshot.DriverC16

def main : IO Unit := Dropshot.Proto.runDriver Dropshot.DriverC16.handle
