/-
Driver for C20: replays harness cases through the model, compares with the
implementation's answer (`agree`) and evaluates the specification predicate on
the implementation's answer (`spec`).  Output, one line per case:
  <id> agree=<0|1> spec=<0|1|na> class=<label> known=<K..|-> model=<…>

Streams (see harness/src/bin/c20.rs):
  ak  derive_accept_key vs the Lean SHA-1/base64 (the independent oracle)
  hs  live handshakes: status, handler ran, the 101's headers, echo probe
  ef  raw bytes in both directions after the upgrade
-/
import DropshotModel.Proto
import DropshotModel.Websocket

open Dropshot Dropshot.Proto Dropshot.Websocket

namespace Dropshot.DriverC20

def out (id : String) (agree : Bool) (spec : String) (cls known model : String) : String :=
  s!"{id} agree={b2s agree} spec={spec} class={cls} known={known} model={model}"

def bad (id : String) (why : String) : String :=
  s!"{id} agree=0 spec=na class=bad-line known=- model={why}"

def unhexN (s : String) : Option (List Nat) := (unhex s).map fun bs => bs.map (·.toNat)
def hexN (bs : List Nat) : String := hex (bs.map UInt8.ofNat)
def asciiN (s : String) : List Nat := s.toList.map Char.toNat

/-- `(name, hex)` pairs of an `hs` line. -/
def parseHeaders : List String → Option Headers
  | [] => some []
  | n :: v :: rest => do
      let vb ← unhexN v
      let tl ← parseHeaders rest
      pure ((asciiN n, vb) :: tl)
  | _ => none

/-! hyper's part of the answer (trusted glue, compared on every run):
keep-alive bookkeeping of `proto/h1/role.rs` (`Server::parse`) and the
`Connection` header `proto/h1/conn.rs` (`enforce_version`, `fix_keep_alive`)
forces onto the response. -/

/-- hyper's `headers::connection_has`: split at `,`, trim, compare ignoring case;
only on values `to_str` accepts. -/
def hyperConnHas (v : List Nat) (needle : List Nat) : Bool :=
  match toStr v with
  | none => false
  | some s => ((splitOn isComma s).map trimOWS).any fun e => eqIgnoreCase e needle

def tClose : List Nat := asciiN "close"
def tKeepAlive : List Nat := asciiN "keep-alive"

/-- Keep-alive state after the request head (HTTP/1.1 default on, 1.0 default off;
each `Connection` line updates it in order). -/
def hyperKeepAlive (minor : Nat) (connLines : List (List Nat)) : Bool :=
  connLines.foldl (fun ka v => if ka then !hyperConnHas v tClose else hyperConnHas v tKeepAlive)
    (minor == 1)

/-- The `Connection` header of the 101 as it leaves hyper: dropshot's `Upgrade`
unless hyper overrides it (`close` when keep-alive is off on HTTP/1.1,
`keep-alive` for an HTTP/1.0 peer that asked for it). -/
def hyperRespConnection (minor : Nat) (connLines : List (List Nat)) : List Nat :=
  let ka := hyperKeepAlive minor connLines
  if minor == 1 then (if ka then vUpgradeCap else tClose)
  else (if ka then tKeepAlive else vUpgradeCap)

/-! Specification side, per element: good / bad / absent / ambiguous. -/

inductive El | good | bad | absent | odd
deriving DecidableEq

def El.letter : El → String
  | .good => "g" | .bad => "b" | .absent => "a" | .odd => "x"

/-- A list-valued element: absent; legal list containing / not containing the
token; or not a legal RFC 7230 list (the RFCs then say nothing). -/
def listState (hdrs : Headers) (name : List Nat) (elem : List Nat → Bool) (tok : List Nat) : El :=
  let lines := getAll hdrs name
  if lines.isEmpty then .absent
  else if !lines.all (legalLine elem) then .odd
  else if (fieldElems hdrs name).any (fun e => e.map lower == tok) then .good else .bad

/-- Version: exactly one line `13` is good; no line `13` is bad; several lines
of which some say 13 is not settled by the RFC (§4.1 forbids sending that). -/
def versionState (hdrs : Headers) : El :=
  match getAll hdrs hVersion with
  | [] => .absent
  | [v] => if v == v13 then .good else .bad
  | vs => if vs.all (· == v13) then .good else if vs.any (· == v13) then .odd else .bad

def keyState (hdrs : Headers) : El :=
  match getAll hdrs hKey with
  | [] => .absent
  | [_] => .good
  | _ => .odd

def isB64Nonce (k : List Nat) : Bool :=
  match Base64.decode .standard k with
  | some raw => raw.length == 16
  | none => false

/-- Spelling features of the list headers, for the class label: `m` several
lines, `t` an HTAB, `e` an empty list element (`,,`, leading/trailing comma). -/
def spelling (hdrs : Headers) : String :=
  let cl := getAll hdrs hConnection
  let ul := getAll hdrs hUpgrade
  let both := cl ++ ul
  let f (c : Bool) (s : String) := if c then s else ""
  let multi := cl.length > 1 || ul.length > 1
  let tab := both.any fun v => v.contains 9
  let empt := both.any fun v => (splitOn isComma v).any fun p => (trimOWS p).isEmpty
  let r := f multi "m" ++ f tab "t" ++ f empt "e"
  if r.isEmpty then "simple" else r

def handleHs (id ep method minorS : String) (hdrsRaw : Headers) (impl : List String) : String :=
  match impl, minorS.toNat? with
  | [status, ran, accept, upgrade, connection, echo], some minor =>
    let _ := ep
    let wireOk := hdrsRaw.all fun h => h.2.all wireByteOk
    let hdrs : Headers := hdrsRaw.map fun h => (h.1, wireValue h.2)
    let statusN := status.toNat?.getD 999
    -- ---------------- model ----------------
    let r := respondReq (minor == 1) hdrs
    let connLines := getAll hdrs hConnection
    let (model, kind) : String × String :=
      if !wireOk then ("400 0 none none none na", "hyper-reject")
      else if method != "GET" then ("405 0 none none none na", "method")
      else if r.status == 101 then
        let acc := match getFirst r.headers hAccept with | some a => hexN a | none => "none"
        let upg := match getFirst r.headers hUpgrade with | some a => hexN a | none => "none"
        let conn := hexN (hyperRespConnection minor connLines)
        (s!"101 1 {acc} {upg} {conn} 1", "h11")
      else (s!"{r.status} 0 none none none na", if minor == 1 then "h11" else "h10")
    let implS := " ".intercalate impl
    let agree := implS == model
    -- ---------------- specification ----------------
    let c := listState hdrs hConnection isToken tUpgrade
    let u := listState hdrs hUpgrade isProtocol tWebsocket
    let v := versionState hdrs
    let k := keyState hdrs
    let plainRequest := wireOk && method == "GET" && minor == 1
    let all := [c, u, v, k]
    let must101 := plainRequest && all.all (· == .good)
    -- RFC 6455 §4.2.1 item 1: the handshake is an HTTP/1.1-or-higher GET; a
    -- request hyper refuses never reaches dropshot
    let mustNot := !plainRequest || all.any (fun e => e == .bad || e == .absent)
    let digests := (getAll hdrs hKey).map fun key => hexN (acceptKey key)
    let specOk :=
      if statusN == 101 then
        !mustNot && ran == "1" && echo == "1" && digests.contains accept
      else
        !must101 && ran == "0" &&
          ((400 ≤ statusN && statusN < 500) || (statusN == 0 && !wireOk))
    -- (K20a — 101 for a complete handshake over HTTP/1.0 — is repaired; those
    -- cases are ordinary must-pass cases now: 400, handler not run)
    let known := "-"
    -- ---------------- class ----------------
    let els := s!"c{c.letter}u{u.letter}v{v.letter}k{k.letter}"
    let keyKind := match getFirst hdrs hKey with
      | none => ""
      | some key => if key.isEmpty then "-kempty" else if isB64Nonce key then "" else "-kfree"
    let connOver := if statusN == 101 && connection != hexN vUpgradeCap then "-conn-overridden" else ""
    let notGood := all.filter (· != .good)
    -- the first element, in the code's order of checks, that is not good
    let firstBad :=
      if c != .good then "C" else if u != .good then "U" else if v != .good then "V" else "K"
    let cls :=
      if kind == "hyper-reject" then s!"hs-hyper-reject-{status}"
      else if kind == "method" then s!"hs-method-{status}"
      else if kind == "h10" then s!"hs-http10-{status}-{if notGood.isEmpty then "complete" else "incomplete"}"
      else if notGood.isEmpty then s!"hs-{status}-ok-{spelling hdrs}{keyKind}{connOver}"
      else if statusN == 101 then s!"hs-101-{els}{connOver}"   -- only possible with an `x` element
      else if notGood.length == 1 then s!"hs-{status}-{els}"     -- exactly one element off: the iff's boundary
      else s!"hs-{status}-first{firstBad}-off{notGood.length}"
    let _ := upgrade
    out id agree (b2s specOk) cls known model
  | _, _ => bad id "impl-fields"

def sizeBucket (tok : String) : String :=
  let len : Nat :=
    if tok == "-" then 0
    else if tok.startsWith "#" then
      ((tok.drop 1).toString.splitOn ":").head!.toNat?.getD 0
    else tok.length / 2
  if len == 0 then "0" else if len ≤ 125 then "le125" else if len ≤ 4096 then "le4k"
  else if len ≤ 65536 then "le64k" else "gt64k"

def handle (line : String) : String :=
  let fs := fields line
  let (inp, impl) := splitAt "=>" fs
  match inp with
  | ["ak", id, keyHex] =>
    match unhexN keyHex, impl with
    | some key, [acc] =>
      let m := hexN (acceptKey key)
      let blocks := (key.length + 36 + 9 + 63) / 64
      let cls := s!"ak-{if key.isEmpty then "empty" else if isB64Nonce key then "nonce16" else "free"}-blocks{if blocks > 3 then "4+" else toString blocks}"
      -- the Lean digest is the specification's oracle: spec = the crate's answer equals it
      out id (m == acc) (b2s (m == acc)) cls "-" m
    | _, _ => bad id "parse"
  | "hs" :: id :: ep :: method :: minor :: _namecase :: n :: rest =>
    match n.toNat?, parseHeaders rest with
    | some n, some hdrs =>
      if hdrs.length != n then bad id "header-count" else handleHs id ep method minor hdrs impl
    | _, _ => bad id "parse"
  | [stream, id, _ep, mode, early, chunk, c2s, s2c] =>
    if stream != "ef" && stream != "et" then bad "?" "unknown-stream" else
    match impl with
    | [status, c2sGot, s2cGot] =>
      -- model: the upgraded stream is a transparent byte pipe in both directions
      let model := s!"101 {c2s} {s2c}"
      let ok := status == "101" && c2sGot == c2s && s2cGot == s2c
      let cls := s!"{stream}-{mode}-c2s{sizeBucket c2s}-s2c{sizeBucket s2c}{if early == "1" then "-early" else ""}{if chunk == "1" then "-bytewise" else ""}"
      out id (" ".intercalate impl == model) (b2s ok) cls "-" (if model.length > 200 then (model.take 200).toString ++ "…" else model)
    | _ => bad id "impl-fields"
  | _ => bad "?" "unknown-stream"

end Dropshot.DriverC20

def main : IO Unit := Dropshot.Proto.runDriver Dropshot.DriverC20.handle
