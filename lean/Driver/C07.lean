/-
Driver for C07.  One harness line = one live request derived from the OpenAPI
document:

  rq <id> <variant> <endpoint-desc> <operation> <components> <request>
       => <status> <content-type|-> <body|-> <headers>

agree  — the model's predictions for the endpoint's `Ty` description equal what
         the document says (parameter names / locations / required flags,
         request body media type, success status and media types, error
         responses) and what the server did (status), and the model's derived
         schema judges the body at hand like the documented schema does.
spec   — from the document and the Lean validator only (`RefOr.valid` on the
         document's schemas, references resolved in `components`):
         * a `valid` request (all documented-required parameters present,
           every value valid for its documented schema and `format`, body valid
           for the documented request schema, documented content type) got 2xx/3xx;
         * an `omit` request (one documented-required parameter left out) got 4xx;
         * every 2xx/3xx response has a documented status, a documented content
           type (or none, when none is documented), a body valid for the schema
           documented for that status, and the documented required headers;
         * every 4xx/5xx body is valid for the documented error schema.
known  — K3 (`()` response), and three findings of this slice (see notes/C07.md):
         K6 flattened non-string query member, K7 non-string response header
         member, K8 `Option<T>` of a referenced type at the root of a response.
-/
import DropshotModel.Proto
import DropshotModel.SchemaJson
import DropshotModel.OpenApiDoc07

open Dropshot Dropshot.Proto Dropshot.Schema Dropshot.Doc07

namespace Dropshot.DriverC07

instance : BEq J := ⟨J.beq⟩

def out (id : String) (agree : Bool) (spec : String) (cls known model : String) : String :=
  s!"{id} agree={b2s agree} spec={spec} class={cls} known={known} model={model}"

def bad (id : String) (why : String) : String :=
  s!"{id} agree=0 spec=na class=bad-line known=- model={why}"

def hexJson (h : String) : Option J := (unhex h).bind parseJsonBytes
def hexStr (h : String) : Option String :=
  (unhex h).bind fun b => String.fromUTF8? (ByteArray.mk b.toArray)

/-! ### `Ty` descriptions -/

def widthOf (n : Int) : Option Width :=
  if n == 8 then some .w8 else if n == 16 then some .w16 else if n == 32 then some .w32
  else if n == 64 then some .w64 else none

mutual
partial def tyOf (j : J) : Option Ty :=
  match j with
  | .str "bool" => some .bool
  | .str "str" => some .str
  | .str "uuid" => some .uuid
  | .str "unit" => some .unit
  | .obj [("int", .arr [.num b, .bool s])] => (widthOf b).map fun w => .int w s
  | .obj [("nonzero", .num b)] => (widthOf b).map .nonzero
  | .obj [("enum", .arr vs)] => (vs.mapM J.asStr?).map .enumOf
  | .obj [("opt", t)] => (tyOf t).map .opt
  | .obj [("vec", t)] => (tyOf t).map .vec
  | .obj [("map", t)] => (tyOf t).map .map
  | .obj [("struct", fs)] => (fieldsOf fs).map .struct
  | .obj [("untagged", .arr ts)] =>
    ts.foldr (fun t acc => do
      let rest ← acc
      (tyOf t).map fun ty => TyList.cons ty rest) (some .nil) |>.map .untagged
  | _ => none
partial def fieldsOf (j : J) : Option Fields :=
  match j with
  | .arr xs =>
    xs.foldr (fun x acc => do
      let rest ← acc
      match x with
      | .arr [.str n, t, .bool d] => (tyOf t).map fun ty => Fields.cons n ty d rest
      | _ => none) (some .nil)
  | _ => none
end

def optFields (j : J) (k : String) : Option (Option Fields) :=
  match j.get? k with
  | none | some .null => some none
  | some v => (fieldsOf v).map some

structure EpDesc where
  op : String
  pathTy : Option Fields
  queryTy : Option Fields
  queryFlat : List String
  bodyTy : Option Ty
  bodyCt : Option String
  respTy : Option Ty
  /-- the response type is outside the `Ty` universe (tagged enums): the model
  predicts nothing about the body, the specification still validates it -/
  respOpaque : Bool
  kind : Kind
  hdrTy : Option Fields
  /-- a response header carries this query parameter's value as received -/
  hdrFrom : Option String

def kindOf : String → Option Kind
  | "ok" => some .ok | "created" => some .created | "accepted" => some .accepted
  | "deleted" => some .deleted | "updatedNoContent" => some .updatedNoContent
  | "found" => some .found | "seeOther" => some .seeOther
  | "temporaryRedirect" => some .temporaryRedirect | _ => none

def optTy (j : J) (k : String) : Option (Option Ty) :=
  match j.get? k with
  | none | some .null => some none
  | some v => (tyOf v).map some

def epOf (j : J) : Option EpDesc := do
  let op ← (j.get? "op").bind J.asStr?
  let p ← optFields j "pathTy"
  let q ← optFields j "queryTy"
  let b ← optTy j "bodyTy"
  let r ← optTy j "respTy"
  let h ← optFields j "hdrTy"
  let k ← ((j.get? "kind").bind J.asStr?).bind kindOf
  let flat := match j.get? "queryFlat" with
    | some (.arr xs) => xs.filterMap J.asStr?
    | _ => []
  pure { op := op, pathTy := p, queryTy := q, queryFlat := flat, bodyTy := b,
         bodyCt := (j.get? "bodyCt").bind J.asStr?, respTy := r,
         respOpaque := (j.get? "respOpaque") == some (.bool true), kind := k, hdrTy := h,
         hdrFrom := (j.get? "hdrFrom").bind J.asStr? }

/-! ### The document side -/

def refPrefix : String := "#/components/schemas/"

structure DocEnv where
  schemas : List (String × RefOr)     -- keyed by the full `$ref` string
  responses : List (String × J)

def patFixed (_p _s : String) : Bool := true

def DocEnv.env (d : DocEnv) : Env := ⟨refOAS patFixed d.schemas 16, patFixed⟩

def docEnvOf (comps : J) : Option DocEnv := do
  let ss ← (comps.get? "schemas").bind J.asObj?
  let rs ← (comps.get? "responses").bind J.asObj?
  let schemas ← ss.mapM fun (kv : String × J) => (RefOr.ofJson kv.2).map fun r => (refPrefix ++ kv.1, r)
  pure { schemas := schemas, responses := rs }

def fmtRange : String → Option (Int × Int)
  | "int8" => some (-128, 127) | "int16" => some (-32768, 32767)
  | "int32" => some (-2147483648, 2147483647)
  | "int64" => some (-9223372036854775808, 9223372036854775807)
  | "uint8" => some (0, 255) | "uint16" => some (0, 65535) | "uint32" => some (0, 4294967295)
  | "uint64" => some (0, 18446744073709551615)
  | _ => none

mutual
/-- the `format` side condition read off the *document's* schema: integers fit
their documented format, `uuid` strings are UUIDs (the explicit restriction of
`C07.schema_sound_complete`). -/
partial def fmtOkR (d : DocEnv) (fuel : Nat) (r : RefOr) (j : J) : Bool :=
  match r with
  | .ref name =>
    if fuel == 0 then true else
    (match lookupDef name d.schemas with | some s => fmtOkR d (fuel - 1) s j | none => true)
  | .item (.mk _ k) => fmtOkK d fuel k j
partial def fmtOkK (d : DocEnv) (fuel : Nat) (k : OKind) (j : J) : Bool :=
  match k, j with
  | .integer t, .num n =>
    (match t.format.toOption.bind fmtRange with | some (lo, hi) => decide (lo ≤ n) && decide (n ≤ hi) | none => true)
  | .string t, .str s => if t.format.toOption == some "uuid" then isUuid s else true
  | .array (.some it) _ _ _, .arr xs => xs.all (fmtOkR d fuel it)
  | .object props _ addl _ _, .obj kvs =>
    kvs.all fun kv =>
      match lookupDef kv.1 props.toList with
      | some s => fmtOkR d fuel s kv.2
      | none => (match addl with | .schema s => fmtOkR d fuel s kv.2 | _ => true)
  | .allOf l, j => l.toList.all (fun s => fmtOkR d fuel s j)
  | .oneOf l, j => l.toList.any (fun s => s.valid d.env j && fmtOkR d fuel s j)
  | .anyOf l, j => l.toList.any (fun s => s.valid d.env j && fmtOkR d fuel s j)
  | _, _ => true
end

/-- the resolved kind of a (possibly referenced) schema, for reading parameter
strings by their documented type. -/
partial def resolveKind (d : DocEnv) (fuel : Nat) : RefOr → Option OKind
  | .ref name => if fuel == 0 then none else (lookupDef name d.schemas).bind (resolveKind d (fuel - 1))
  | .item (.mk _ (.allOf (.cons r .nil))) => resolveKind d fuel r
  | .item (.mk _ k) => some k

/-- the JSON value a parameter string stands for, by the documented type. -/
def readByDoc (d : DocEnv) (s : RefOr) (v : String) : J :=
  match resolveKind d 8 s with
  | some (.integer _) | some (.number _) => (match parseInt v with | some n => .num n | none => .str v)
  | some (.boolean _) => if v == "true" then .bool true else if v == "false" then .bool false else .str v
  | _ => .str v

structure DocParam where
  name : String
  loc : String
  required : Bool
  schema : RefOr

def docParams (op : J) : Option (List DocParam) :=
  match op.get? "parameters" with
  | none => some []
  | some (.arr ps) => ps.mapM fun p => do
    let n ← (p.get? "name").bind J.asStr?
    let l ← (p.get? "in").bind J.asStr?
    let s ← (p.get? "schema").bind RefOr.ofJson
    pure ⟨n, l, ((p.get? "required").bind J.asBool?).getD false, s⟩
  | some _ => none

/-- media type ↦ schema of a `content` object. -/
def contentOf (c : Option J) : Option (List (String × RefOr)) :=
  match c with
  | none => some []
  | some (.obj kvs) => kvs.mapM fun (kv : String × J) => ((kv.2.get? "schema").bind RefOr.ofJson).map fun r => (kv.1, r)
  | some _ => none

/-- follow a `#/components/responses/X` reference. -/
def resolveResponse (d : DocEnv) (r : J) : Option J :=
  match r.get? "$ref" with
  | some (.str s) =>
    let pre := "#/components/responses/"
    if s.startsWith pre then J.lookup (s.drop pre.length).toString d.responses else none
  | _ => some r

def statusKey (st : Nat) : String := toString st
def classKey (st : Nat) : String := toString (st / 100) ++ "XX"

/-- the response object the document lists for a status: exact code, else the
`nXX` range, else `default`. -/
def docResponseFor (d : DocEnv) (op : J) (st : Nat) : Option J :=
  match op.get? "responses" with
  | some (.obj rs) =>
    (match J.lookup (statusKey st) rs with
      | some r => resolveResponse d r
      | none =>
        match J.lookup (classKey st) rs with
        | some r => resolveResponse d r
        | none => (J.lookup "default" rs).bind (resolveResponse d))
  | _ => none

def mediaType (ct : String) : String :=
  (((ct.splitOn ";").headD "").trimAscii.toString).toLower

/-! ### Verdicts -/

def pairsOf (j : J) : List (String × String) :=
  match j with
  | .obj kvs => kvs.filterMap fun kv => match kv.2 with | .str s => some (kv.1, s) | _ => none
  | _ => []

def cmpParams (a b : String × String × Bool) : Bool :=
  a.2.1 < b.2.1 || (a.2.1 == b.2.1 && a.1 < b.1)

def sortParams (l : List (String × String × Bool)) : List (String × String × Bool) :=
  (l.toArray.qsort cmpParams).toList

def modelParams (ep : EpDesc) : List (String × String × Bool) :=
  let ps := match ep.pathTy with
    | some fs => (paramList fs).map fun (n, r, _) => (n, "path", r)
    | none => []
  let qs := match ep.queryTy with
    | some fs => (paramList fs).map fun (n, r, _) => (n, "query", r)
    | none => []
  ps ++ qs

def handleRq (id variant : String) (ep : EpDesc) (op comps req : J) (status : Nat)
    (ctype : String) (bodyBytes : List UInt8) (hdrs : J) : String :=
  match docEnvOf comps, docParams op with
  | some d, some dps =>
    let env := d.env
    let method := ((op.get? "method").bind J.asStr?).getD "?"
    -- the request
    let rparams : List (String × String × String) := match req.get? "params" with
      | some (.arr ps) => ps.filterMap fun p => match p with
        | .arr [.str n, .str l, .str v] => some (n, l, v) | _ => none
      | _ => []
    let omitted := (req.get? "omitted").bind J.asStr?
    let rctype := (req.get? "ctype").bind J.asStr?
    let rbody := match req.get? "body" with | some .null => none | x => x
    let hasBody := ((req.get? "hasBody").bind J.asBool?).getD false
    let pathPairs := rparams.filterMap fun (n, l, v) => if l == "path" then some (n, v) else none
    let queryPairs := rparams.filterMap fun (n, l, v) => if l == "query" then some (n, v) else none
    -- the document
    let docBody : Option (List (String × RefOr)) := match op.get? "requestBody" with
      | none => some []
      | some rb => contentOf (rb.get? "content")
    match docBody with
    | none => bad id "requestBody"
    | some docBody =>
    let respBodyJ : Option J := if bodyBytes.isEmpty then none else parseJsonBytes bodyBytes
    -- ---------------- model vs document / server (agree) -------------------
    let m1 := sortParams (modelParams ep) == sortParams (dps.map fun p => (p.name, p.loc, p.required))
    let expectedCt := match ep.bodyCt with
      | some "form" => some BodyCT.urlEncoded
      | some "multipart" => some BodyCT.multipart
      | some "bytes" => some BodyCT.bytes
      | some _ => some BodyCT.json
      | none => none
    let m2 := (docBody.map (·.1)) == (match expectedCt with | some c => [documentedBodyCT c] | none => [])
      && (ep.bodyCt.isSome == ((op.get? "requestBody").isSome))
      && (match op.get? "requestBody" with | some rb => (rb.get? "required") == some (.bool true) | none => true)
    let docSucc : List (String × J) := match op.get? "responses" with
      | some (.obj rs) => rs.filter fun (kv : String × J) => kv.1 != "4XX" && kv.1 != "5XX"
      | _ => []
    let m3 := (docSucc.map (·.1)) == [statusKey ep.kind.status]
      && (match docSucc with
          | [(_, r)] =>
            (match contentOf (r.get? "content") with
              | some c => (c.map (·.1)) == (if ep.kind.hasBody && (ep.respTy.isSome || ep.respOpaque) then ["application/json"] else [])
              | none => false)
          | _ => false)
      && (docResponseFor d op 400).isSome && (docResponseFor d op 500).isSome
    -- predicted status
    let pathRes : Except Nat Unit := match ep.pathTy with
      | none => .ok ()
      | some fs =>
        if omitted.any (fun o => (fs.lookup o).isSome && !(pathPairs.any (·.1 == o))) then .error 404
        else match extractParams fs pathPairs with | .ok _ => .ok () | .error e => .error e
    let queryRes : Except Nat Unit := match ep.queryTy with
      | none => .ok ()
      | some fs => match extractParamsFlat ep.queryFlat fs queryPairs with | .ok _ => .ok () | .error e => .error e
    let mime := rctype.map mediaType
    let hasBoundary := ((req.get? "boundary").bind J.asBool?).getD false
    let bodyRes : Except Nat Unit := match ep.bodyTy, ep.bodyCt with
      | none, some "multipart" => loadMultipart mime hasBoundary
      | none, some "bytes" => loadBytes mime
      | none, _ => .ok ()
      | some (.struct fs), some "form" =>
        (match loadForm fs mime (pairsOf (rbody.getD (.obj []))) with | .ok _ => .ok () | .error e => .error e)
      | some t, _ =>
        (match loadBody t mime (if hasBody then rbody else none) with | .ok _ => .ok () | .error e => .error e)
    -- `http::HeaderValue`: bytes 0x20-0x7E, HTAB and 0x80-0xFF; a handler value that holds
    -- anything else (a line feed, DEL) cannot be sent and the conversion of its `Ok` value fails
    let hdrValOk := match ep.hdrFrom with
      | some n => queryPairs.all fun (k, v) => k != n ||
          v.toList.all fun c => (c.toNat ≥ 32 && c.toNat != 127) || c == '\t'
      | none => true
    let hdrOk := (match ep.hdrTy with | some fs => headersSerialisable fs | none => true) && hdrValOk
    let predicted : Nat := match pathRes, queryRes, bodyRes with
      | .error e, _, _ => e
      | _, .error e, _ => e
      | _, _, .error e => e
      | _, _, _ => if hdrOk then ep.kind.status else 500
    let m4 := predicted == status
    -- the model's derived schema vs the documented one, on the bodies at hand
    let jenv : Env := ⟨fun _ _ => true, patFixed⟩
    -- what the model says is published for a root type: the conversion of its root schema
    let publishedValid (t : Ty) (j : J) : Bool := match j2oas none (rootSchemaOf t) with
      | .ok r => r.valid jenv j
      | .error _ => false
    let m5req := match ep.bodyTy, ep.bodyCt, rbody, docBody with
      | some t, some "json", some j, [(_, s)] => publishedValid t j == s.valid env j
      | _, _, _, _ => true
    let succResp := docResponseFor d op status
    let succContent := (succResp.map fun r => contentOf (r.get? "content")).getD (some [])
    let m5resp := match ep.respTy, respBodyJ, succContent with
      | some t, some j, some [(_, s)] =>
        if status < 300 then publishedValid t j == s.valid env j else true
      | _, _, _ => true
    let agree := m1 && m2 && m3 && m4 && m5req && m5resp
    -- ---------------- specification (document + validator only) ------------
    let reqPresent := dps.all fun p => !p.required || rparams.any (fun (n, l, _) => n == p.name && l == p.loc)
    let valsOk := rparams.all fun (n, l, v) =>
      match dps.find? (fun p => p.name == n && p.loc == l) with
      | some p => let j := readByDoc d p.schema v; p.schema.valid env j && fmtOkR d 16 p.schema j
      | none => false
    let bodyOk := match docBody with
      | [] => !hasBody
      | (ct, s) :: _ =>
        hasBody && rctype.map mediaType == some ct &&
        (match rbody with
          | some j => s.valid env j && fmtOkR d 16 s j
          | none => false)
    -- (a handler that puts an unsendable value into a response header has not produced a
    -- response: the 2xx clause applies to requests the handler can answer)
    let pre := reqPresent && valsOk && bodyOk && hdrValOk
    let is23 := decide (200 ≤ status) && decide (status < 400)
    let is4 := decide (400 ≤ status) && decide (status < 500)
    -- s3 / s4: the response is documented
    let respOk : Bool × String :=
      match succResp, succContent with
      | some r, some content =>
        let ctOk :=
          if content.isEmpty then (bodyBytes.isEmpty, "body-but-none-documented")
          else match J.lookup (mediaType ctype) (content.map fun (k, s) => (k, s.toJson)), respBodyJ with
            | some _, some j =>
              (match lookupDef (mediaType ctype) content with
                | some s => (s.valid env j, s!"body-invalid:{j.print}")
                | none => (false, "?"))
            | none, _ => (false, s!"content-type-not-documented:{ctype}")
            | _, none => (false, "body-not-json")
        let hdrsOk := match r.get? "headers" with
          | some (.obj hs) => hs.all fun kv =>
              ((kv.2.get? "required") != some (.bool true)) || (hdrs.get? kv.1).isSome
          | _ => true
        if !ctOk.1 then ctOk else (hdrsOk, "required-header-missing")
      | _, _ => (false, "status-not-documented")
    let s1 := if variant == "valid" || variant == "ctype-same" then (if pre then some is23 else none) else some true
    let s2 := if variant == "omit" then is4 else true
    let (specS, why) : String × String :=
      if status ≥ 400 && !respOk.1 then ("0", s!"error-body-not-as-documented:{status}:{respOk.2}") else
      match s1 with
      | none => ("na", "precondition-not-met")
      | some a =>
        if !a then ("0", s!"valid-request-refused:{status}")
        else if !s2 then ("0", s!"omitted-required-accepted:{status}")
        else if !respOk.1 then ("0", respOk.2)
        else ("1", "")
    -- ---------------- known findings (predicates on the input) -------------
    let k3 := match succContent with
      | some [(_, .item (.mk dd (.string t)))] => t.enumeration == [none] && !dd.nullable
      | _ => false
    let k6 := variant == "valid" && queryPairs.any fun (n, _) =>
      ep.queryFlat.contains n &&
        (match dps.find? (fun p => p.name == n) with
          | some p => (match resolveKind d 8 p.schema with | some (.string _) => false | _ => true)
          | none => false)
    let k7 := match op.get? "responses" with
      | some (.obj rs) => rs.any fun kv => match kv.2.get? "headers" with
        | some (.obj hs) => hs.any fun h =>
            match (h.2.get? "schema").bind RefOr.ofJson with
            | some s => (match resolveKind d 8 s with | some (.string _) => false | _ => true)
            | none => false
        | _ => false
      | _ => false
    let k8 := match ep.respTy, succContent, respBodyJ with
      | some (.opt t), some [(_, .ref _)], some .null => t.isRef
      | _, _, _ => false
    let known := if specS != "0" || why.startsWith "error-body-not-as-documented" then "-" else
      if k3 then "K3" else if k6 then "K6" else if k7 then "K7" else if k8 then "K8" else "-"
    let shape := (if ep.pathTy.isSome then "p" else "") ++ (if ep.queryTy.isSome then "q" else "")
      ++ (match ep.bodyCt with
          | some "json" => "b" | some "form" => "bf" | some "multipart" => "bm" | some "bytes" => "by"
          | _ => "")
      ++ (if ep.hdrTy.isSome then "h" else "")
    let cls := s!"{variant}-{method}-{if shape.isEmpty then "none" else shape}-{ep.kind.status}-got{status}"
    out id agree specS cls known
      (s!"{ep.op} predicted={predicted}" ++ (if agree then "" else s!" m={b2s m1}{b2s m2}{b2s m3}{b2s m4}{b2s m5req}{b2s m5resp}")
        ++ (if why.isEmpty then "" else " " ++ why))
  | _, _ => bad id "document"

def handle (line : String) : String :=
  let fs := fields line
  let (inp, impl) := splitAt "=>" fs
  match inp, impl with
  | ["rq", id, variant, descH, opH, compsH, reqH], [st, ctH, bodyH, hdrH] =>
    match (hexJson descH).bind epOf, hexJson opH, hexJson compsH, hexJson reqH, st.toNat?, hexStr ctH,
      unhex bodyH, hexJson hdrH with
    | some ep, some op, some comps, some req, some status, some ct, some body, some hdrs =>
      handleRq id variant ep op comps req status ct body hdrs
    | _, _, _, _, _, _, _, _ => bad id "parse"
  | _, _ => bad "?" "unknown-stream"

end Dropshot.DriverC07

def main : IO Unit := Dropshot.Proto.runDriver Dropshot.DriverC07.handle
