/-
Driver for C19: replays harness cases through the model (`agree`) and evaluates
the specification predicate on the implementation's answer (`spec`).
  <id> agree=<0|1> spec=<0|1|na> class=<label> known=<K..|-> model=<…>

Streams (see harness/src/bin/c19.rs):
  dc  ExtractedDoc::from_attrs            vr  VersionRange::parse
  md  metadata deserialise+validate+emit  ex  whole expansions, three styles
  bl  real ApiEndpoint builder methods
  pe / pd / pt / pl / pj / pr  the compiled programs (registered records, document
      entries, lookup metadata, whole documents, routing tables)
-/
import DropshotModel.Proto
import DropshotModel.Macro

open Dropshot Dropshot.Proto Dropshot.Macro

namespace Dropshot.DriverC19

/-! ### Line decoding / encoding (glue) -/

def decodeStr (s : String) : Option Str := do
  let bs ← unhex s
  let str ← String.fromUTF8? (ByteArray.mk bs.toArray)
  pure str.toList

def encodeStr (s : Str) : String := hex (String.ofList s).toUTF8.toList

def decodeOpt (s : String) : Option (Option Str) :=
  if s = "~" then some none else (decodeStr s).map some

def encodeOpt : Option Str → String
  | none => "~"
  | some s => encodeStr s

def mapM' {α β : Type} (f : α → Option β) : List α → Option (List β)
  | [] => some []
  | a :: as => do let b ← f a; let bs ← mapM' f as; pure (b :: bs)

/-- `T2,aa,bb` / `D0`. -/
def decodeList (tag : Char) (s : String) : Option (List Str) :=
  match s.splitOn "," with
  | [] => none
  | hd :: items =>
    match hd.toList with
    | t :: n => if t = tag && String.ofList n == toString items.length then mapM' decodeStr items else none
    | [] => none

def encodeList (tag : Char) (xs : List Str) : String :=
  ",".intercalate ((String.singleton tag ++ toString xs.length) :: xs.map encodeStr)

def decodeSpec (s : String) : Option VSpec :=
  match s.toList with
  | 'L' :: r => (decodeStr (String.ofList r)).map .lit
  | 'I' :: r => (decodeStr (String.ofList r)).map .ident
  | _ => none

def decodeVSyn (s : String) : Option (Option VSyntax) :=
  match s.splitOn ":" with
  | ["~"] => some none
  | ["A"] => some (some .all)
  | ["U", b] => (decodeSpec b).map fun b => some (.until b)
  | ["F", a] => (decodeSpec a).map fun a => some (.from a)
  | ["FU", a, b] => do let a ← decodeSpec a; let b ← decodeSpec b; pure (some (.fromUntil a b))
  | _ => none

def encodeVExpr : VExpr → String
  | .lit a b c => s!"L{a}.{b}.{c}"
  | .ident p => "I" ++ encodeStr p

def encodeVRange : VRange → String
  | .all => "A"
  | .from a => "F:" ++ encodeVExpr a
  | .until b => "U:" ++ encodeVExpr b
  | .fromUntil a b => "FU:" ++ encodeVExpr a ++ ":" ++ encodeVExpr b

def encodeSem (v : SemVer) : String := s!"L{v.major}.{v.minor}.{v.patch}"

def encodeRange : Range SemVer → String
  | .all => "A"
  | .from a => "F:" ++ encodeSem a
  | .until b => "U:" ++ encodeSem b
  | .fromUntil a b => "FU:" ++ encodeSem a ++ ":" ++ encodeSem b

def decodeBool (s : String) : Option Bool :=
  if s = "1" then some true else if s = "0" then some false else none

def decodeNatOpt (s : String) : Option (Option Nat) :=
  if s = "~" then some none else s.toNat?.map some

/-- The 14 declaration fields. -/
def decodeDecl : List String → Option Decl
  | [k, m, pr, p, v, t, o, c, mx, dep, unp, cr, n, doc] => do
    let kind ← if k = "E" then some Kind.endpoint else if k = "C" then some Kind.channel else none
    let method ← decodeOpt m
    let protocol ← decodeOpt pr
    let path ← decodeOpt p
    let versions ← decodeVSyn v
    let tags ← decodeList 'T' t
    let operationId ← decodeOpt o
    let contentType ← decodeOpt c
    let requestBodyMaxBytes ← decodeNatOpt mx
    let deprecated ← decodeBool dep
    let unpublished ← decodeBool unp
    let dropshotCrate ← decodeOpt cr
    let name ← decodeStr n
    let doc ← decodeList 'D' doc
    pure { kind, method, protocol, path, versions, tags, operationId, contentType,
           requestBodyMaxBytes, deprecated, unpublished, dropshotCrate, doc, name }
  | _ => none

def errName : MacroErr → String
  | .extraneous => "ext" | .unknownVariant => "var" | .missingField => "mis"
  | .badSemver => "sem" | .preRelease => "pre" | .buildMeta => "bld" | .reversed => "rev"
  | .unexpectedToken => "tok" | .dropshotCrateInTrait => "crt" | .wildcardNotUnpublished => "wld"
  | .channelWildcard => "cwl" | .badContentType => "bct"

def encodeErrs (es : List MacroErr) : String := "err:" ++ ",".intercalate (es.map errName)

def methodStr (m : Method) : String := String.ofList m.name

def encodeCall : Call → String
  | .summary s => "s:" ++ encodeStr s
  | .description s => "d:" ++ encodeStr s
  | .tag s => "t:" ++ encodeStr s
  | .visible b => "v:" ++ b2s b
  | .deprecated b => "p:" ++ b2s b
  | .requestBodyMaxBytes n => "m:" ++ toString n

def encodeCalls (cs : List Call) : String :=
  ",".intercalate (("K" ++ toString cs.length) :: cs.map encodeCall)

/-- Source text of the handler argument the expansion emits (trait `MyApi`). -/
def handlerText : Handler → String
  | .fn n => "h:" ++ encodeStr n
  | .adapter n => "h:" ++ encodeStr (n ++ "_adapter".toList)
  | .traitMethod n => "h:" ++ encodeStr ("<ServerImplasMyApi>::".toList ++ n)
  | .traitAdapter n => "h:" ++ encodeStr (n ++ "_adapter::<ServerImpl>".toList)
  | .stub _ => "-"

/-- `new;opid;handler;METHOD;ct;path;versions;tys;calls`, with the handler and
type-argument fields supplied by the caller. -/
def encodeChain (c : Chain) (handler tys : String) : String :=
  ";".intercalate [if c.ctor.forTypes then "nft" else "new", encodeStr c.ctor.operationId, handler,
    methodStr c.ctor.method, encodeStr c.ctor.contentType, encodeStr c.ctor.path,
    encodeVRange c.ctor.versions, tys, encodeCalls c.calls]

/-- Blank the handler and type-argument fields of an implementation chain. -/
def blankChain (s : String) : String :=
  match s.splitOn ";" with
  | [k, o, _, m, c, p, v, _, cs] => ";".intercalate [k, o, "_", m, c, p, v, "_", cs]
  | _ => s

structure PChain where
  forTypes : Bool
  opid : Str
  handler : String
  method : String
  ct : Str
  path : Str
  versions : String
  tys : String
  calls : List (Char × String)

def parseChain (s : String) : Option PChain :=
  match s.splitOn ";" with
  | [k, o, h, m, c, p, v, t, cs] => do
    let opid ← decodeStr o
    let ct ← decodeStr c
    let path ← decodeStr p
    let calls ← match cs.splitOn "," with
      | [] => none
      | _ :: items => mapM' (fun (i : String) => match i.toList with
          | tag :: ':' :: r => some (tag, String.ofList r)
          | _ => none) items
    pure { forTypes := k == "nft", opid, handler := h, method := m, ct, path, versions := v, tys := t, calls }
  | _ => none

/-! ### Specification side (written without `validate` / `toChain`) -/

def jsonMime : Str := "application/json".toList

/-- A plain `major.minor.patch` literal. -/
def plainSem (s : Str) : Option SemVer :=
  match SemVer.parseChars s with
  | some v => if v.pre.isEmpty && v.build.isEmpty then some v else none
  | none => none

def specOk : VSpec → Bool
  | .lit s => (plainSem s).isSome
  | .ident _ => true

/-- The `versions` argument is well-formed: plain literals, literal pairs in order. -/
def versionsOkSpec : Option VSyntax → Bool
  | none => true
  | some .all => true
  | some (.until b) => specOk b
  | some (.from a) => specOk a
  | some (.fromUntil a b) =>
    -- observation F1: the upper bound must start with a literal or a plain identifier
    specOk a && specOk b && b.peekable &&
    match a, b with
    | .lit x, .lit y =>
      match plainSem x, plainSem y with
      | some va, some vb => decide (va ≤ vb)
      | _, _ => false
    | _, _ => true

/-- Expected spelling of the emitted versions expression. -/
def specVersions : Option VSyntax → String
  | none => "A"
  | some .all => "A"
  | some (.until b) => "U:" ++ sp b
  | some (.from a) => "F:" ++ sp a
  | some (.fromUntil a b) => "FU:" ++ sp a ++ ":" ++ sp b
where sp : VSpec → String
  | .lit s => match plainSem s with
    | some v => encodeSem v
    | none => "?"
  | .ident p => "I" ++ encodeStr p

def mimes : List Str := [jsonMime, "application/x-www-form-urlencoded".toList, "multipart/form-data".toList]

def hasWildcard (p : Str) : Bool := isWildcardPath p

/-- Decidable form of `C19.Accepts`. -/
def acceptsB (trait : Bool) (d : Decl) : Bool :=
  versionsOkSpec d.versions && d.path.isSome && (!trait || d.dropshotCrate.isNone) &&
  match d.kind with
  | .endpoint =>
    d.protocol.isNone &&
    (match d.method with
      | some m => ["DELETE", "GET", "HEAD", "PATCH", "POST", "PUT", "OPTIONS"].contains (String.ofList m)
      | none => false) &&
    (match d.path with
      | some p => !hasWildcard p || d.unpublished
      | none => false) &&
    (match d.contentType with
      | some c => mimes.contains c
      | none => true)
  | .channel =>
    d.method.isNone && d.contentType.isNone && d.requestBodyMaxBytes.isNone &&
    d.protocol == some "WEBSOCKETS".toList &&
    (match d.path with
      | some p => !hasWildcard p
      | none => false)

def declMethod (d : Decl) : String :=
  match d.kind with
  | .channel => "GET"
  | .endpoint => String.ofList (d.method.getD [])

def declCt (d : Decl) : Str :=
  match d.kind with
  | .channel => jsonMime
  | .endpoint => d.contentType.getD jsonMime

def declMax (d : Decl) : Option Nat :=
  match d.kind with
  | .channel => none
  | .endpoint => d.requestBodyMaxBytes

/-- No doc text lost: evaluated on the implementation's summary / description. -/
def docSpec (doc : List Str) (summary description : Option Str) : Bool :=
  nonWs (optStr' summary ++ optStr' description) == specNonWs doc &&
  (summary.isSome || description.isNone)
where optStr' : Option Str → Str
  | none => []
  | some s => s

/-- The emitted chain carries exactly the declaration. -/
def chainSpec (d : Decl) (c : PChain) : Bool :=
  let callsOf (t : Char) := (c.calls.filter fun x => x.1 == t).map (·.2)
  let sums := callsOf 's'
  let descs := callsOf 'd'
  let one (l : List String) : Option (Option Str) :=
    match l with
    | [] => some none
    | [x] => (decodeStr x).map some
    | _ => none
  c.opid == d.operationId.getD d.name &&
  c.method == declMethod d &&
  c.ct == declCt d &&
  some c.path == d.path &&
  c.versions == specVersions d.versions &&
  callsOf 't' == d.tags.map encodeStr &&
  callsOf 'v' == (if d.unpublished then ["0"] else []) &&
  callsOf 'p' == (if d.deprecated then ["1"] else []) &&
  callsOf 'm' == (match declMax d with | some n => [toString n] | none => []) &&
  (match one sums, one descs with
    | some s, some ds => docSpec d.doc s ds
    | _, _ => false)

/-- Two chains agree up to constructor kind, handler and type arguments. -/
def sameUpToHandler (a b : String) : Bool :=
  match (blankChain a).splitOn ";", (blankChain b).splitOn ";" with
  | _ :: ra, _ :: rb => ra == rb
  | _, _ => false

def out (id : String) (agree : Bool) (spec : String) (cls known model : String) : String :=
  s!"{id} agree={b2s agree} spec={spec} class={cls} known={known} model={model}"

def bad (id : String) (why : String) : String :=
  s!"{id} agree=0 spec=na class=bad-line known=- model={why}"

def hasNonAscii (ss : List Str) : Bool := ss.any fun s => s.any fun c => c.toNat ≥ 128

def kindTag (d : Decl) : String := match d.kind with | .endpoint => "E" | .channel => "C"

def versTag : Option VSyntax → String
  | none => "v0" | some .all => "vA" | some (.until _) => "vU" | some (.from _) => "vF"
  | some (.fromUntil _ _) => "vFU"

/-! ### Programs: versions behind constants, `V<major>_<minor>_<patch>` -/

def envOf (p : Str) : Option SemVer :=
  let last := ((String.ofList p).splitOn "::").getLast!
  match last.toList with
  | 'V' :: r =>
    match (String.ofList r).splitOn "_" with
    | [a, b, c] => do
      let a ← a.toNat?; let b ← b.toNat?; let c ← c.toNat?
      pure (semOf a b c)
    | _ => none
  | _ => none

def bctName : BodyCT → String
  | .bytes => "bytes" | .json => "json" | .urlencoded => "urlencoded" | .multipart => "multipart"

def encodeRec (e : EndpointRec) : String :=
  let vers := match resolveVersions envOf e.versions with
    | some r => encodeRange r
    | none => "panic"
  " ".intercalate [encodeStr e.operationId, methodStr e.method, encodeStr e.path, bctName e.bodyContentType,
    (match e.requestBodyMaxBytes with | some n => toString n | none => "~"),
    encodeOpt e.summary, encodeOpt e.description, encodeList 'T' e.tags, b2s e.visible, b2s e.deprecated, vers]

/-- Split `a | b | c`. -/
def splitBars (fs : List String) : List (List String) :=
  let rec go (acc cur : List String) (out : List (List String)) : List String → List (List String)
    | [] => (cur.reverse :: out).reverse
    | f :: r => if f = "|" then go acc [] (cur.reverse :: out) r else go acc (f :: cur) out r
  go [] [] [] fs

/-- The declared range as a set of versions (specification side: `Range.Mem`). -/
def declRange (d : Decl) : Option (Range SemVer) :=
  let ev : VSpec → Option SemVer
    | .lit s => plainSem s
    | .ident p => envOf p
  match d.versions with
  | none => some .all
  | some .all => some .all
  | some (.until b) => (ev b).map .until
  | some (.from a) => (ev a).map .from
  | some (.fromUntil a b) => do let a ← ev a; let b ← ev b; pure (.fromUntil a b)

def memB (v : Option SemVer) (r : Range SemVer) : Bool :=
  match v with
  | none => true
  | some v => decide (Range.Mem v r)

def bctOfMime (s : Str) : String :=
  match BodyCT.fromMime s with
  | some b => bctName b
  | none => "?"

/-- A registered record equals the declaration (specification side). -/
def recSpec (d : Decl) (r : List String) : Bool :=
  match r with
  | [o, m, p, b, mx, s, ds, t, vis, dep, vers] =>
    o == encodeStr (d.operationId.getD d.name) && m == declMethod d && some p == d.path.map encodeStr &&
    b == bctOfMime (declCt d) &&
    mx == (match declMax d with | some n => toString n | none => "~") &&
    t == encodeList 'T' d.tags && vis == b2s (!d.unpublished) && dep == b2s d.deprecated &&
    some vers == (declRange d).map encodeRange &&
    (match decodeOpt s, decodeOpt ds with
      | some s, some ds => docSpec d.doc s ds
      | _, _ => false)
  | _ => false

/-- Expected request-body mime of the document entry, from the body extractor. -/
def bodyMime (d : Decl) (ext : String) : String :=
  if ext = "typed" then encodeStr (declCt d)
  else if ext = "untyped" || ext = "stream" then encodeStr "application/octet-stream".toList
  else if ext = "multipart" then encodeStr "multipart/form-data".toList
  else "~"

def parseVer (s : String) : Option (Option SemVer) :=
  if s = "N" then some none else (SemVer.parse s).map some

def lit (s : String) : Option VExpr :=
  match s.toList with
  | 'L' :: r => (SemVer.parse (String.ofList r)).map fun v => .lit v.major v.minor v.patch
  | _ => none

def handle (line : String) : String :=
  let fs := fields line
  let (inp, impl) := splitAt "=>" fs
  match inp with
  | ["dc", id, origin, doc] =>
    match decodeList 'D' doc, impl with
    | some vals, [s, ds] =>
      let m := extractDoc vals
      let mStr := s!"{encodeOpt m.1} {encodeOpt m.2}"
      let spec := match decodeOpt s, decodeOpt ds with
        | some s, some ds => docSpec vals s ds
        | _, _ => false
      let lines := normLines vals
      let nb := lines.filter (fun l => !l.isEmpty)
      let shape := if m.1.isNone then "none" else if m.2.isNone then "sum" else "desc"
      let flags :=
        (if vals.any (fun v => v.contains '\n') then "b" else "") ++
        (if nb.dropLast.any (fun l => endsWith l '-') && m.2.isSome then "h" else "") ++
        (match m.2 with | some dsc => if ((String.ofList dsc).splitOn "\n\n").length > 1 then "p" else "" | none => "") ++
        (if vals.any (fun v => ((splitNl v).drop 1).any fun l => (trim l).head? == some '*') then "s" else "") ++
        (if hasNonAscii vals then "u" else "") ++
        (if lines.head?.any (·.isEmpty) then "l" else "")
      out id (mStr == s!"{s} {ds}") (b2s spec) s!"dc-{origin}-{shape}-{if flags.isEmpty then "plain" else flags}" "-" mStr
    | _, _ => bad id "parse"
  | ["vr", id, v] =>
    match decodeVSyn v with
    | some (some syn) =>
      let m := match parseVersions syn with
        | .ok r => s!"ok {encodeVRange r}"
        | .error e => s!"err {errName e}"
      let specB := match impl with
        | ["ok", r] => versionsOkSpec (some syn) && r == specVersions (some syn)
        | ["err", _] => !versionsOkSpec (some syn)
        | _ => false
      let cls := match parseVersions syn with
        | .ok _ => "ok" | .error e => errName e
      out id (m == " ".intercalate impl) (b2s specB) s!"vr-{versTag (some syn)}-{cls}" "-" m
    | _ => bad id "parse"
  | "md" :: id :: mk :: rest =>
    match decodeDecl rest with
    | some d =>
      let trait := mk == "T"
      let mkind := if trait then MacroKind.trait else .function
      let (m, cls) := match validate mkind d with
        | .error es => (encodeErrs es, "err-" ++ "+".intercalate (es.map errName))
        | .ok v =>
          let r := encodeChain (toChain (if trait then .traitImpl else .function) v) "_" "_"
          let s := encodeChain (toChain .traitStub v) "_" "_"
          (s!"ok {r} {s}", "ok")
      let implN := match impl with
        | ["ok", r, s] => s!"ok {blankChain r} {blankChain s}"
        | other => " ".intercalate other
      let specB := match impl with
        | ["ok", r, s] =>
          acceptsB trait d && sameUpToHandler r s &&
          (match parseChain r, parseChain s with
            | some pr, some ps => chainSpec d pr && chainSpec d ps && !pr.forTypes && ps.forTypes
            | _, _ => false)
        | [e] => e.startsWith "err:" && !acceptsB trait d
        | _ => false
      out id (m == implN) (b2s specB) s!"md-{mk}{kindTag d}-{cls}-{versTag d.versions}" "-" m
    | none => bad id "parse"
  | "ex" :: id :: rest =>
    match decodeDecl rest.dropLast, rest.getLast? with
    | some d, some wantTys =>
      let one (s : Style) : String := match expand s d with
        | .error es => encodeErrs es
        | .ok _ =>
          match validate s.macroKind d with
          | .ok v =>
            let c := toChain s v
            encodeChain c (handlerText c.ctor.handler) (if s == .traitStub then wantTys else "~")
          | .error es => encodeErrs es
      let m := [one .function, one .traitImpl, one .traitStub]
      let okAll := m.all fun x => !x.startsWith "err:"
      let specB := match impl with
        | [f, i, s] =>
          let chk (trait : Bool) (x : String) (forTypes : Bool) : Bool :=
            if x.startsWith "err:" then !acceptsB trait d
            else acceptsB trait d && match parseChain x with
              | some p => chainSpec d p && p.forTypes == forTypes && (!forTypes || p.tys == wantTys)
              | none => false
          chk false f false && chk true i false && chk true s true &&
          (f.startsWith "err:" || i.startsWith "err:" || (sameUpToHandler f i && sameUpToHandler i s)) &&
          (i.startsWith "err:" == s.startsWith "err:")
        | _ => false
      let cls := if okAll then "ok" else
        match validate .trait d with
        | .error es => "err-" ++ "+".intercalate (es.map errName)
        | .ok _ => "ok"
      out id (m == impl) (b2s specB)
        s!"ex-{kindTag d}-{cls}-{versTag d.versions}-{if d.doc.isEmpty then "nodoc" else "doc"}" "-" (" ".intercalate m)
    | _, _ => bad id "parse"
  | ["bl", id, chain] =>
    match parseChain chain with
    | some p =>
      let meth := Method.ofIdent p.method.toList
      let vr : Option VRange := match p.versions.splitOn ":" with
        | ["A"] => some .all
        | ["F", a] => (lit a).map .from
        | ["U", b] => (lit b).map .until
        | ["FU", a, b] => do let a ← lit a; let b ← lit b; pure (.fromUntil a b)
        | _ => none
      let calls := mapM' (fun (c : Char × String) =>
        match c.1 with
        | 's' => (decodeStr c.2).map Call.summary
        | 'd' => (decodeStr c.2).map Call.description
        | 't' => (decodeStr c.2).map Call.tag
        | 'v' => (decodeBool c.2).map Call.visible
        | 'p' => (decodeBool c.2).map Call.deprecated
        | 'm' => c.2.toNat?.map Call.requestBodyMaxBytes
        | _ => none) p.calls
      match meth, vr, calls with
      | some meth, some vr, some calls =>
        let ch : Chain := { ctor := { forTypes := true, operationId := p.opid, handler := .stub p.opid,
                                      method := meth, contentType := p.ct, path := p.path, versions := vr },
                            calls }
        -- arguments are evaluated first: a reversed `from_until(..).unwrap()` panics
        let m := match resolveVersions envOf vr, evalChain ch with
          | some _, some e => encodeRec e
          | _, _ => "panic"
        out id (m == " ".intercalate impl) "na"
          s!"bl-{if m == "panic" then "panic" else "ok"}-k{min calls.length 4}" "-" m
      | _, _, _ => bad id "parse"
    | none => bad id "parse"
  | "pe" :: id :: rest =>
    match decodeDecl rest with
    | some d =>
      let one (s : Style) : String := match expand s d with
        | .error es => encodeErrs es
        | .ok e => encodeRec e
      let m := [one .function, one .traitImpl, one .traitStub]
      let recs := splitBars impl
      let specB := match recs with
        | [f, i, s] => f == i && i == s && recSpec d f
        | _ => false
      out id (m.map (fun x => x.splitOn " ") == recs) (b2s specB)
        s!"pe-{kindTag d}-{versTag d.versions}-{if d.unpublished then "unpub" else "pub"}" "-" (" | ".intercalate m)
    | none => bad id "parse"
  | "pd" :: id :: ver :: ext :: rest =>
    match decodeDecl rest, SemVer.parse ver with
    | some d, some v =>
      let entry (s : Style) : String := match expand s d with
        | .error es => encodeErrs es
        | .ok e =>
          if documentedAt envOf e v then
            let de := docEntry e
            " ".intercalate [methodStr de.method, encodeStr de.path, encodeStr de.operationId,
              encodeList 'T' de.tags, b2s de.deprecated, encodeOpt de.summary, encodeOpt de.description,
              bodyMime d ext]
          else "absent"
      let m := [entry .function, entry .traitImpl, entry .traitStub]
      let ents := splitBars impl
      let should := !d.unpublished && (match declRange d with | some r => memB (some v) r | none => false)
      let entSpec (e : List String) : Bool :=
        match e with
        | ["absent"] => !should
        | [mm, p, o, t, dep, s, ds, rb] =>
          should && mm == declMethod d && some p == d.path.map encodeStr &&
          o == encodeStr (d.operationId.getD d.name) && t == encodeList 'T' d.tags && dep == b2s d.deprecated &&
          rb == bodyMime d ext &&
          (match decodeOpt s, decodeOpt ds with
            | some s, some ds => docSpec d.doc s ds
            | _, _ => false)
        | _ => false
      let specB := match ents with
        | [f, i, s] => f == i && i == s && entSpec f
        | _ => false
      -- finding K19a: a declared trailing slash is not shown in the document
      let known := if !specB && (match d.path with | some p => trailingSlash p | none => false) then "K19a" else "-"
      out id (m.map (fun x => x.splitOn " ") == ents) (b2s specB)
        s!"pd-{if should then "listed" else if d.unpublished then "unpublished" else "other-version"}-{versTag d.versions}"
        known (" | ".intercalate m)
    | _, _ => bad id "parse"
  | "pl" :: id :: ver :: rest =>
    -- the declaration, then the declarations that share its method and path (other ranges)
    match (splitBars rest).mapM decodeDecl, parseVer ver with
    | some (d :: sibs), some v =>
      -- a version-less lookup among several version-restricted declarations of one path cannot
      -- happen on a server (an unversioned server refuses to start with versioned routes)
      if v.isNone && !sibs.isEmpty then out id true "na" "pl-nover-siblings" "-" "-" else
      let metaOf (e : EndpointRec) : String :=
        let lm := lookupMeta e
        " ".intercalate [encodeStr lm.operationId, bctName lm.bodyContentType,
          (match lm.requestBodyMaxBytes with | some n => toString n | none => "~")]
      let look (s : Style) : String := match expand s d with
        | .error es => encodeErrs es
        | .ok e =>
          if routedAt envOf e v then metaOf e
          else
            -- the request belongs to whichever sibling's range holds the version
            match sibs.findSome? fun o => match expand s o with
                | .ok eo => if routedAt envOf eo v then some (metaOf eo) else none
                | .error _ => none with
            | some m => m
            | none => "404"
      let m := [look .function, look .traitImpl, look .traitStub]
      let looks := splitBars impl
      let inRange (x : Decl) : Bool := match declRange x with | some r => memB v r | none => false
      let should := inRange d
      let specOf (x : Decl) (o b mx : String) : Bool :=
        o == encodeStr (x.operationId.getD x.name) && b == bctOfMime (declCt x) &&
          mx == (match declMax x with | some n => toString n | none => "~")
      let lookSpec (l : List String) : Bool :=
        match l with
        | [code] => !should && !sibs.any inRange && code == "404"
        | [o, b, mx] =>
          if should then specOf d o b mx
          else match sibs.find? inRange with
            | some x => specOf x o b mx
            | none => false
        | _ => false
      let specB := match looks with
        | [f, i, s] => f == i && i == s && lookSpec f
        | _ => false
      out id (m.map (fun x => x.splitOn " ") == looks) (b2s specB)
        s!"pl-{if should then "hit" else "miss"}-{if d.unpublished then "unpub" else "pub"}-{if v.isNone then "nover" else versTag d.versions}"
        "-" (" | ".intercalate m)
    | _, _ => bad id "parse"
  | "pt" :: id :: ver :: rest =>
    -- the document's top-level tag list, against the whole table of declarations:
    -- exactly the tags written on the declarations that are documented at this version
    match (splitBars rest).mapM decodeDecl, SemVer.parse ver with
    | some ds, some v =>
      let insertS (x : String) (l : List String) : List String :=
        let rec go : List String → List String
          | [] => [x]
          | y :: ys => if x < y then x :: y :: ys else if x == y then y :: ys else y :: go ys
        go l
      let norm (l : List String) : String :=
        let l := l.foldl (fun acc x => insertS x acc) []
        if l.isEmpty then "-" else ",".intercalate l
      let modelOf (s : Style) : String :=
        norm (ds.flatMap fun d => match expand s d with
          | .error _ => []
          | .ok e => if documentedAt envOf e v then (docEntry e).tags.map encodeStr else [])
      let m := [modelOf .function, modelOf .traitImpl, modelOf .traitStub]
      let spec := norm (ds.flatMap fun d =>
        let should := !d.unpublished && (match declRange d with | some r => memB (some v) r | none => false)
        if should then d.tags.map encodeStr else [])
      let got := splitBars impl
      let specB := match got with
        | [[f], [i], [s]] => f == spec && i == spec && s == spec
        | _ => false
      out id (m.map (fun x => [x]) == got) (b2s specB) s!"pt-tags-{(spec.splitOn ",").length}" "-" (" | ".intercalate m)
    | _, _ => bad id "parse"
  | ["pj", id, _ver] =>
    -- C19.styles_agree: the three documents are equal
    out id (impl == ["1", "1"]) (b2s (impl == ["1", "1"])) "pj-doc-equal" "-" "1 1"
  | ["pr", id, n] =>
    -- routing tables: same entries in all styles, one per declaration
    out id (impl == ["1", "1", n]) (b2s (impl == ["1", "1", n])) "pr-table-equal" "-" s!"1 1 {n}"
  | _ => bad "?" "unknown-stream"

end Dropshot.DriverC19

def main : IO Unit := Dropshot.Proto.runDriver Dropshot.DriverC19.handle
