/-
Driver for C13: replays harness cases through the model of error.rs /
error_status_code.rs / the request-id stamping (`agree`) and evaluates the
specification predicate of the property on the implementation's answer
(`spec`).  Streams: eu (u16 conversions), ct (constants), ir (constructors →
into_response), lv (live server).
-/
import DropshotModel.Proto
import DropshotModel.Error

open Dropshot Dropshot.Proto Dropshot.Error

namespace Dropshot.DriverC13

def out (id : String) (agree : Bool) (spec : String) (cls known model : String) : String :=
  s!"{id} agree={b2s agree} spec={spec} class={cls} known={known} model={model}"

def bad (id : String) (why : String) : String :=
  s!"{id} agree=0 spec=na class=bad-line known=- model={why}"

/-! ### eu / ct -/

def showE : Except ConvErr ErrorStatus → String
  | .ok e => s!"ok:{e.code}"
  | .error .invalidStatus => "inv"
  | .error .notInClass => "nic"

def showC : Except ConvErr ClientErrorStatus → String
  | .ok e => s!"ok:{e.code}"
  | .error .invalidStatus => "inv"
  | .error .notInClass => "nic"

def modelEu (n : Nat) : List String :=
  let e := showE (ErrorStatus.fromU16 n)
  let c := showC (ClientErrorStatus.fromU16 n)
  let (es, cs) := match statusFromU16 n with
    | none => ("na", "na")
    | some s => (showE (ErrorStatus.fromStatus s), showC (ClientErrorStatus.fromStatus s))
  let ac := match ErrorStatus.fromU16 n with
    | .ok ev => showC ev.asClient
    | .error _ => "na"
  let ce := match ClientErrorStatus.fromU16 n with
    | .ok cv => s!"ok:{cv.toError.code}"
    | .error _ => "na"
  -- from_u16, TryFrom<u16>, FromStr, from_bytes, TryFrom<&[u8]>, TryFrom<&str> (decimal spelling of n)
  [e, e, e, e, e, e, es, es, c, c, c, c, cs, cs, ac, ac, ac, ce, ce]

/-- Specification, straight from the property text: an error status is
representable iff 400 ≤ n ≤ 599 (client: ≤ 499), by every route, and keeps
its number. -/
def specEu (n : Nat) (impl : List String) : Bool :=
  let okN := s!"ok:{n}"
  let isE := decide (400 ≤ n ∧ n ≤ 599)
  let isC := decide (400 ≤ n ∧ n ≤ 499)
  match impl with
  | [e, et, estr, eb, ebt, est, es, ets, c, ct, cstr, cb, cs, cts, ac, act, acr, ce, cer] =>
    let eAll := [e, et, estr, eb, ebt, est]
    let cAll := [c, ct, cstr, cb]
    (if isE then eAll.all (· == okN) && es == okN && ets == okN
      else eAll.all (fun x => !x.startsWith "ok") && !es.startsWith "ok" && !ets.startsWith "ok") &&
    (if isC then cAll.all (· == okN) && cs == okN && cts == okN
      else cAll.all (fun x => !x.startsWith "ok") && !cs.startsWith "ok" && !cts.startsWith "ok") &&
    -- refinement between the two types
    (if isC then ac == okN && act == okN && acr == okN && ce == okN && cer == okN
      else [ac, act, acr, ce, cer].all (fun x => !x.startsWith "ok"))
  | _ => false

def classEu (n : Nat) : String :=
  if n < 100 then "eu-lt100"
  else if n < 399 then "eu-1xx-3xx"
  else if n = 399 then "eu-399"
  else if n = 400 then "eu-400"
  else if n < 499 then "eu-4xx"
  else if n = 499 then "eu-499"
  else if n = 500 then "eu-500"
  else if n < 599 then "eu-5xx"
  else if n = 599 then "eu-599"
  else if n = 600 then "eu-600"
  else if n < 1000 then "eu-6xx-9xx"
  else "eu-ge1000"

/-! ### ir -/

def bytesLt : List UInt8 → List UInt8 → Bool
  | [], [] => false
  | [], _ :: _ => true
  | _ :: _, [] => false
  | a :: as, b :: bs => a < b || (a == b && bytesLt as bs)

def insertName (n : Str) : List Str → List Str
  | [] => [n]
  | x :: xs => if n == x then x :: xs else if bytesLt n x then n :: x :: xs else x :: insertName n xs

def sortedNames (m : List (Str × Str)) : List Str :=
  m.foldl (fun acc p => insertName p.1 acc) []

/-- Canonical form of a header multimap: names sorted, values of a name in order. -/
def canon (m : List (Str × Str)) : List (Str × Str) :=
  (sortedNames m).flatMap fun n => (HMap.getAll n m).map fun v => (n, v)

def parsePairs : Nat → List String → Option (List (Str × Str) × List String)
  | 0, rest => some ([], rest)
  | k + 1, n :: v :: rest => do
    let nb ← unhex n
    let vb ← unhex v
    let (ps, r) ← parsePairs k rest
    pure ((nb, vb) :: ps, r)
  | _, _ => none

def parseOptHex (s : String) : Option (Option Str) :=
  if s = "_" then some none else (unhex s).map some

def parseCode (s : String) : Option (Option Str) :=
  if s = "N" then some none
  else if s.startsWith "S" then (unhex (s.drop 1).toString).map some
  else none

structure IrIn where
  ctor : String
  status : Nat
  code : Option Str
  msg : Option Str
  internal : Option Str
  nonce : Option Str
  reason : Option Str
  headers : List (Str × Str)
  reqid : Str

def buildErr (i : IrIn) : Option HttpError :=
  let setInternal (e : HttpError) : HttpError :=
    match i.internal with
    | some x => { e with internal := x }
    | none => e
  let base : Option HttpError := match i.ctor with
    | "lit" => some { status := ⟨i.status⟩, errorCode := i.code, external := i.msg.getD [],
                      internal := i.internal.getD [], headers := [] }
    | "fce" => some (setInternal (forClientError i.code ⟨i.status⟩ (i.msg.getD [])))
    | "fbr" => some (setInternal (forBadRequest i.code (i.msg.getD [])))
    | "fcs" => some (setInternal (forClientErrorWithStatus i.code ⟨i.status⟩))
    | "fie" => some (forInternalError (i.internal.getD []))
    | "fua" => some (forUnavail i.code (i.internal.getD []))
    | "fnf" => some (forNotFound i.code (i.internal.getD []))
    | _ => none
  base.map fun e => i.headers.foldl (fun acc p => withHeader acc p.1 p.2) e

def showCodeField : Option Str → String
  | none => "N"
  | some s => "S" ++ hex s

/-- Specification predicate for one constructor → `into_response` case,
computed from the inputs and the property text (not from the model): exact
status; JSON body with exactly the keys request_id, message and (iff a code
was given) error_code, carrying the request id, the external message and the
code; attached headers present with their values; exactly one x-request-id
(= the id) and one JSON content type; the nonce that lives only in the
internal message occurs nowhere in the response. -/
def specIr (i : IrIn) (status : Nat) (hdrs : List (Str × Str)) (body : Str)
    (keys prid pcode pmsg : String) : Bool :=
  let expStatus := match i.ctor with
    | "fbr" => 400 | "fie" => 500 | "fua" => 503 | "fnf" => 404 | _ => i.status
  let expCode : Option Str := if i.ctor == "fie" then some (Error.strBytes "Internal") else i.code
  let expKeys := if expCode.isSome then "error_code,message,request_id" else "message,request_id"
  let msgOk := match i.ctor with
    | "lit" | "fce" | "fbr" => pmsg == "S" ++ hex (i.msg.getD [])
    | _ => match i.reason with
      | some r => pmsg == "S" ++ hex r
      | none => pmsg.startsWith "S"   -- no standard label exists: any message (leak-checked below)
  let own := [hContentType, hRequestId]
  let inNames := (i.headers.map fun p => lowerName p.1).filter fun n => !own.contains n
  let attachedOk := inNames.all fun n =>
    HMap.getAll n hdrs == ((i.headers.filter fun p => lowerName p.1 == n).map (·.2))
  let noExtra := hdrs.all fun p => own.contains p.1 || inNames.contains p.1
  let idOk := HMap.getAll hRequestId hdrs == [i.reqid]
  let ctOk := HMap.getAll hContentType hdrs == [ctJson]
  let leakOk := match i.nonce with
    | none => true
    | some nn => !(occursIn nn body) && hdrs.all fun p => !(occursIn nn p.1) && !(occursIn nn p.2)
  decide (status = expStatus) && decide (400 ≤ status ∧ status ≤ 599) &&
    keys == expKeys && prid == "S" ++ hex i.reqid && pcode == showCodeField expCode && msgOk &&
    attachedOk && noExtra && idOk && ctOk && leakOk

def handleIr (id : String) (inp impl : List String) : String :=
  match inp with
  | ctor :: status :: code :: msg :: internal :: nonce :: reason :: nh :: rest =>
    match status.toNat?, parseCode code, parseOptHex msg, parseOptHex internal, parseOptHex nonce,
          parseOptHex reason, nh.toNat? with
    | some status, some code, some msg, some internal, some nonce, some reason, some nh =>
      match parsePairs nh rest with
      | some (headers, [reqid]) =>
        match unhex reqid with
        | none => bad id "reqid"
        | some reqid =>
          let i : IrIn := { ctor, status, code, msg, internal, nonce, reason, headers, reqid }
          let own := headers.any fun p => lowerName p.1 == hContentType || lowerName p.1 == hRequestId
          let cls := s!"ir-{ctor}-h{if nh > 2 then "n" else toString nh}-{if own then "ownhdr" else "plain"}-" ++
            s!"{if code.isSome then "code" else "nocode"}-{if reason.isSome then "label" else "nolabel"}-" ++
            s!"{if nonce.isSome then "nonce" else "nononce"}"
          let reasonAgree := canonicalReason status == reason
          match buildErr i with
          | none => bad id "ctor"
          | some e =>
            let r := intoResponse e reqid
            let mh := canon r.headers
            match impl with
            | ["panic"] =>
              out id false "0" cls "-" s!"{r.status}"
            | ist :: inh :: irest =>
              match ist.toNat?, inh.toNat? with
              | some ist, some inh =>
                match parsePairs inh irest with
                | some (ih, [ibody, keys, prid, pcode, pmsg]) =>
                  match unhex ibody with
                  | none => bad id "body"
                  | some ibody =>
                    let agree := r.status == ist && mh == ih && r.body == ibody && reasonAgree
                    let sp := specIr i ist ih ibody keys prid pcode pmsg
                    out id agree (b2s sp) cls "-"
                      (if agree then s!"{r.status} {mh.length} bodylen={r.body.length}"
                       else s!"{r.status} {mh.map fun p => hex p.1 ++ ":" ++ hex p.2} {hex r.body} reason={b2s reasonAgree}")
                | _ => bad id "impl-pairs"
              | _, _ => bad id "impl-nums"
            | _ => bad id "impl"
      | _ => bad id "pairs"
    | _, _, _, _, _, _, _ => bad id "fields"
  | _ => bad id "short"

/-! ### lv -/

def scenarioOutcome (scen : String) (status : Nat) (bogus : Bool) (id : Str) : Option (Outcome × Bool × Bool) :=
  -- (outcome, handler ran, framework-format body)
  let okRsp : Response := { status := status, headers := [(hContentType, ctJson)], body := [] }
  if scen == "ok" || scen == "typed-ok" then some (.ok okRsp, true, false)
  else if scen == "ws" then
    -- the 101 of a websocket upgrade is a final response like any other (no content type)
    some (.ok { status := status, headers := [(Error.strBytes "upgrade", Error.strBytes "websocket")], body := [] },
          true, false)
  else if scen == "okdecl" then
    some (.ok { okRsp with headers := [(hContentType, ctJson), (Error.strBytes "x_one", Error.strBytes "declared")] },
          true, false)
  else if scen == "okdeclhdr" then
    some (.ok { okRsp with headers := [(hContentType, ctJson), (Error.strBytes "x_one", Error.strBytes "declared"),
                                        (hRequestId, Error.strBytes "bogus"), (hRequestId, Error.strBytes "bogus2")] },
          true, false)
  else if scen == "okhdr" then
    some (.ok { okRsp with headers := [(hRequestId, Error.strBytes "bogus"), (hRequestId, Error.strBytes "bogus2"),
                                        (hContentType, ctJson)] }, true, false)
  else if scen.startsWith "herr-" then
    let e : HttpError := { status := ⟨status⟩, errorCode := none, external := Error.strBytes "external",
                           internal := [], headers := [] }
    let e := withHeader e (Error.strBytes "x-seen") id
    let e := if bogus then withHeader e (Error.strBytes "X-Request-Id") (Error.strBytes "bogus") else e
    some (.dropshotErr e, true, true)
  else if scen == "custom" then some (.handlerErr [] okRsp, true, false)
  else if scen == "fwcustom-400" then some (.handlerErr [] okRsp, false, false)
  else if scen.startsWith "fw-" then
    some (.dropshotErr { status := ⟨status⟩, errorCode := none, external := [], internal := [], headers := [] },
          false, true)
  else none

def handleLv (id : String) (inp impl : List String) : String :=
  match inp with
  | [mode, scen, status, bogus, cid] =>
    -- `mode` (handler task mode) and `cid` (what the client put into its own x-request-id request
    -- header) do not enter the model: the code as it stands ignores both when it stamps the id
    match status.toNat? with
    | none => bad id "status"
    | some status =>
      let rid : Str := [1]
      match scenarioOutcome scen status (bogus == "1") rid with
      | none => bad id "scenario"
      | some (o, ran, fw) =>
        let r := wrap o rid
        let nx := (HMap.getAll hRequestId r.headers).length
        let m := [toString r.status, toString nx, if ran then "1" else "na", if fw then "1" else "na",
                  "1", "0", (if scen == "ws" then "other" else "json"), "1", "0"]
        let cls := s!"lv-{mode}-{scen}-{if bogus == "1" && scen.startsWith "herr-" then "bogus" else "plain"}-{cid}"
        -- spec, from the property: the status the handler/framework chose; exactly one
        -- x-request-id; equal to the id the handler saw (when a handler ran) and to the id in a
        -- framework-format body; never seen before in this run; internal text not sent
        let sp := match impl with
          | [st, nxs, eqSeen, eqBody, fresh, leak, _ctype, wf, _adopt] =>
            st == toString status && nxs == "1" &&
            (if ran then eqSeen == "1" else eqSeen == "na" || eqSeen == "1") &&
            (if fw then eqBody == "1" else eqBody == "na" || eqBody == "1") &&
            fresh == "1" && leak == "0" && wf == "1"
          | _ => false
        out id (m == impl) (b2s sp) cls "-" (" ".intercalate m)
  | _ => bad id "fields"

def handle (line : String) : String :=
  let fs := fields line
  let (inp, impl) := splitAt "=>" fs
  match inp with
  | ["eu", id, n] =>
    match n.toNat? with
    | some n =>
      let m := modelEu n
      out id (m == impl) (b2s (specEu n impl)) (classEu n) "-" (" ".intercalate m)
    | none => bad id "n"
  | ["ct", id, ty, idx, _name] =>
    match idx.toNat?, impl with
    | some idx, [v] =>
      let tbl := if ty == "C" then clientConstants else errorConstants
      let m := match tbl[idx]? with | some c => toString c | none => "none"
      let sp := match v.toNat? with
        | some c => decide (400 ≤ c) && (if ty == "C" then decide (c ≤ 499) else decide (c ≤ 599))
        | none => false
      out id (m == v) (b2s sp) s!"ct-{ty}" "-" m
    | _, _ => bad id "ct"
  | "ir" :: id :: rest => handleIr id rest impl
  | "lv" :: id :: rest => handleLv id rest impl
  | _ => bad "?" "unknown-stream"

end Dropshot.DriverC13

def main : IO Unit := Dropshot.Proto.runDriver Dropshot.DriverC13.handle
