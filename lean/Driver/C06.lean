/-
Driver for C06 (OpenAPI operations): stream
  doc <id> <n> <ep>*n <version> => <nops> <ops|-> <distinct docs over permutations> <same twice> <perms accepted> <unresolved refs> <tags|->
with ops = comma-joined `pathhex;method;opid:tag+tag`, sorted; tags = the names in the
document's top-level `tags` array, in document order.
-/
import Driver.RouterCommon

open Dropshot Dropshot.Proto Dropshot.RouterCommon

namespace Dropshot.DriverC06

def out (id : String) (agree : Bool) (spec : String) (cls known model : String) : String :=
  s!"{id} agree={b2s agree} spec={spec} class={cls} known={known} model={model}"

def bad (id why : String) : String := s!"{id} agree=0 spec=na class=bad-line known=- model={why}"

/-- Render a raw template the way the document shows it, from the string
alone (independent of the model's parser): drop empty segments, turn
`{name:.*}` into `{name}`. -/
def docPathOfRaw (raw : String) : String :=
  let segs := (raw.splitOn "/").filter (· ≠ "")
  let segs := segs.map fun s =>
    match s.splitOn ":" with
    | [a, _] => a ++ "}"
    | _ => s
  "/" ++ "/".intercalate segs

/-- The harness gives endpoint `id` the tags `[]` (id = 3 mod 4) or `["g<id mod 5>"]`. -/
def tagsOfId (id : Nat) : List String := if id % 4 == 3 then [] else [s!"g{id % 5}"]

/-- `pathhex;method;opid:tag+tag` -/
def opLine (path method : String) (id : Nat) : String :=
  s!"{hexStr path};{method};op{id}:{"+".intercalate (tagsOfId id)}"

def dedupSorted : List String → List String
  | a :: b :: rest => if a == b then dedupSorted (b :: rest) else a :: dedupSorted (b :: rest)
  | l => l

def handle (line : String) : String :=
  let fs := fields line
  let (inp, impl) := splitAt "=>" fs
  match inp with
  | "doc" :: id :: rest =>
    match parseTable rest, impl with
    | some (raws, [pv]), [inops, iops, idistinct, isame, iperm, iunres, itags] =>
      match SemVer.parse pv with
      | some v =>
        let (k, t, _, err) := registerAll Node.empty raws 0 []
        if err.isSome || k ≠ raws.length then bad id "table-not-accepted-by-model" else
        -- model: the iterator of the trie at this version, visible endpoints only
        let mops := ((Node.iter t (some v)).filter fun x => x.2.2.visible).map fun x =>
          opLine x.1 x.2.1.toLower x.2.2.id
        let mops := sortStrings mops
        -- the document's top-level tag list: the tags of the published endpoints at this version
        let mtags := dedupSorted (sortStrings
          (((Node.iter t (some v)).filter fun x => x.2.2.visible).flatMap fun x => tagsOfId x.2.2.id))
        let mtagLine := if mtags.isEmpty then "-" else ",".intercalate mtags
        let model := (if mops.isEmpty then "-" else ",".intercalate mops) ++ " tags=" ++ mtagLine
        -- specification: from the flat list of descriptors
        let sops := (raws.filter fun r => r.visible && decide (Range.Mem v r.range)).map fun r =>
          opLine (docPathOfRaw r.path) (normMethod r.method).toLower r.id
        let sops := sortStrings sops
        let sline := if sops.isEmpty then "-" else ",".intercalate sops
        -- … and the tag list names exactly the tags of those operations, each once, sorted
        let stags := dedupSorted (sortStrings
          ((raws.filter fun r => r.visible && decide (Range.Mem v r.range)).flatMap fun r => tagsOfId r.id))
        let stagLine := if stags.isEmpty then "-" else ",".intercalate stags
        let specOk := sline == iops && toString sops.length == inops && stagLine == itags &&
          idistinct == "1" && isame == "1" && iperm == "1" && iunres == "0"
        let nvis := (raws.filter (·.visible)).length
        let cls := s!"doc-n{if raws.length ≤ 2 then toString raws.length else if raws.length ≤ 5 then "5" else "9"}-ops{if sops.length == 0 then "0" else if sops.length == nvis then "all" else "some"}-{if nvis < raws.length then "hidden" else "allvis"}"
        out id (model == iops ++ " tags=" ++ itags) (b2s specOk) cls "-" model
      | none => bad id "parse-version"
    | _, _ => bad id "parse"
  | ["refs", id, _ver, order] =>
    -- reference closure: a contract of schemars' generator + dropshot's bookkeeping, no model;
    -- the specification is simply "nothing dangles"
    match impl with
    | [nops, nrefs, nunres, _nschemas, _names, sameTwice, samePerm] =>
      let cls := s!"refs-ops{if nops == "0" then "0" else "n"}-refs{if nrefs == "0" then "0" else "n"}-{if order.splitOn "," |>.length |> (· ≥ 16) then "full" else "subset"}"
      -- nothing dangles; regenerating gives the same bytes; so does another registration order
      out id true (b2s (nunres == "0" && sameTwice == "1" && samePerm == "1")) cls "-" "-"
    | _ => bad id "parse-refs"
  | _ => bad "?" "unknown-stream"

end Dropshot.DriverC06

def main : IO Unit := Dropshot.Proto.runDriver Dropshot.DriverC06.handle
