/-
Driver for C09: replays every harness case through the model (`agree`) and
evaluates the property on the implementation's answer (`spec`): the echoed
value equals the value sent, and the echoed method / URI / header / peer port
are the request's own.
  <id> agree=<0|1> spec=<0|1|na> class=<label> known=<K..|-> model=<…>
-/
import Driver.ExtractCommon

open Dropshot Dropshot.Proto Dropshot.Extract Dropshot.DriverExtract

namespace Dropshot.DriverC09

def fieldKinds (fs : List (Bytes × FTy)) : String :=
  String.ofList (fs.map fun f => match f.2 with
    | .scalar _ => 's' | .option _ => 'o' | .seq _ => 'v' | .nested => 'n')

def resClass (r : Except DeErr Val) : String :=
  match r with
  | .ok _ => "ok"
  | .error e => errKind e

def handleSv (stream : String) (inp impl : List String) : String :=
  match parseSv inp impl with
  | none => bad (inp.getD 1 "?") "parse"
  | some l =>
    match endpoint l.ep with
    | none => bad l.id "endpoint"
    | some e =>
      match payloadOf l with
      | none => out l.id false "0" s!"{stream}-{l.ep}-undecodable-framing" "-" "bad-framing"
      | some (payload, reenc) =>
        let v := verdict l e payload false
        let agree := agrees l v && ctxOwn l && reenc
        -- the property: the handler's argument is the value sent, its context is the request's
        let deltaOk := l.delta == "na" || l.delta == "1"
        -- TLS stream: the value sent is "the handler saw my own socket address, with my nonce";
        -- the address is what the client's socket reports as its local end
        let sent := if e.kind == "tls" then "s" ++ hexB (b s!"127.0.0.1:{l.port}|{l.nonce}") else l.sent
        let specOk := l.status == 200 && l.echoV == sent && l.port != "0" && l.echoM == l.method &&
          l.echoU == hexB l.target && l.echoH == hexB (b l.nonce) && l.echoP == l.port && deltaOk
        let cls :=
          if e.kind == "tls" then
            match l.extra.splitOn "." with
            | role :: fin :: _ => s!"tl-{role}-{if role == "keepalive" || role == "threads" then "any" else fin}"
            | _ => "tl-other"
          else s!"{stream}-{l.ep}-{framingClass l.framing l.framingRaw}" ++
            (if l.followup == "r0" || l.followup == "na" then "" else "-resent")
        -- K10: a schedule inside multer 3.1.0 refuses a conformant multipart body once; the
        -- harness has sent the same request twice more and the value sent was delivered both
        -- times (`T:<value>`).  A refusal that repeats, or a resend delivering anything but
        -- the value sent, is not this finding.
        let k10 := l.ep == "mp" && l.status == 400 && l.echoV == "T:" ++ l.sent &&
          verdictStr v == "200:*"
        -- (for K10 the model is compared with the answer to the resend, which the line carries)
        out l.id (agree || k10) (b2s specOk) (if k10 then cls ++ "-K10" else cls) (if k10 then "K10" else "-") (verdictStr v)

def handle (line : String) : String :=
  let fs := fields line
  let (inp, impl) := splitAt "=>" fs
  match inp with
  | ["fm", id, sh, ents] | ["fs", id, sh, ents] =>
    match parseEntries ents with
    | some vars =>
      match sh.toNat?.bind (mapDeShape · vars) with
      | some r =>
        let m := resField r
        let got := " ".intercalate impl
        -- the property on the implementation's own answer, for structs with a flattened part:
        -- the handler receives what the inline struct would receive
        let (sp, kn) := match flatSpec (sh.toNat?.getD 0) vars with
          | some v => (b2s (got == "ok " ++ canonVal v), if flatBlocked (sh.toNat?.getD 0) vars then "K9" else "-")
          | none => ("na", "-")
        out id (m == got) sp s!"{inp.getD 0 "?"}-{sh}-{resClass r}" kn m
      | none => bad id "parse"
    | none => bad id "parse"
  | ["px", id, sh, ents] =>
    match parseEntries ents >>= fun vars => (sh.toNat?.bind (mapDeShape · vars)) with
    | some r =>
      -- `http_extract_path_params`: every failure is a 400
      let m := match r with
        | .ok v => "ok " ++ canonVal v
        | .error _ => "err 400"
      let got := " ".intercalate impl
      let shn := sh.toNat?.getD 0
      let vars := (parseEntries ents).getD []
      let (sp, kn) := match flatSpec shn vars with
        | some v => (b2s (got == "ok " ++ canonVal v), if flatBlocked shn vars then "K9" else "-")
        | none => ("na", "-")
      out id (m == got) sp s!"px-{if (flatShape shn).isSome then "flat-" else ""}{if r.toBool then "ok" else "400"}" kn m
    | none => bad id "parse"
  | ["qs", id, sh, q] =>
    match sh.toNat?.bind shape, unhexB q with
    | some sfs, some qb =>
      let r := extractQuery (.struct sfs) qb
      let m := resField r
      out id (m == " ".intercalate impl) "na" s!"qs-{sh}-{resClass r}" "-" m
    | _, _ => bad id "parse"
  | ["pq", id, q] =>
    match unhexB q with
    | some qb =>
      let ps := parseQuery qb
      let m := toString ps.length :: ps.flatMap fun kv => [hexB kv.1, hexB kv.2]
      let lossy := ps != parseQueryRaw qb
      out id (m == impl) "na" s!"pq-{if ps.length > 3 then "4+" else toString ps.length}{if lossy then "-lossy" else ""}" "-"
        (" ".intercalate m)
    | none => bad id "parse"
  | ["mb", id, ct] =>
    match unhexB ct with
    | some c =>
      let r := boundaryOf c
      let m := match r with
        | some bd => "ok " ++ hexB bd
        | none => "err"
      let cls := match r, boundaryAsIs c with
        | some bd, some old => if bd == old then "mb-ok-same-as-before-D4" else "mb-ok-D4-differs"
        | some _, none => "mb-ok-D4-differs"
        | none, _ => "mb-err"
      out id (m == " ".intercalate impl) "na" cls "-" m
    | none => bad id "parse"
  | ["ct", id, sent, ok] =>
    -- every request answered 200, and exactly one handler entry per answered request
    let good := impl == [ok] && sent == ok
    out id good (b2s good) "ct-handler-entries" "-" ok
  | ["sp", id, vol] =>
    -- the other clients' failing uploads (over the limit in two frames / cut off) were all refused
    out id (impl == ["1"]) (b2s (impl == ["1"])) s!"sp-spoilers-{vol}" "-" "1"
  | "sv" :: _ => handleSv "sv" inp impl
  | "pl" :: _ => handleSv "pl" inp impl
  | "h2" :: _ => handleSv "h2" inp impl
  | "cc" :: _ => handleSv "cc" inp impl
  | "tl" :: _ => handleSv "tl" inp impl
  | _ => bad "?" "unknown-stream"

end Dropshot.DriverC09

def main : IO Unit := Dropshot.Proto.runDriver Dropshot.DriverC09.handle
