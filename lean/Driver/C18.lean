/-
Driver for C18.  Two kinds of input lines:

  fc  <id> <mode> <kind> <sent> => <recv-hex> rr=<n>:<wf>:<statuses|->
  seq <id> <mode> n=<n> <event log> => health=<b> closed=<b> unconnected=<n>

`fc`: `agree` — the Lean recogniser `Isolation.validResponses` and the Rust
`RespReader` agree on the received bytes (validity and the list of statuses),
and the recogniser classifies the generated request as the generator meant it
(malformed for `oversize-*`/`badhdr-*`, well-formed for `valid-*`/`big-*`/
`refused-*`); `spec` — everything received is a sequence of valid responses, no
more responses than requests (+1 for a malformed rest), the response to the
malformed rest (if any) is 4xx/5xx, valid requests are answered 200, requests
refused by dropshot itself get the 4xx/5xx of the corresponding `wrap` arm.

`seq`: `agree` — `Isolation.acceptsQuiescent` accepts the event log; `spec` —
the health request on a fresh connection after the sequence was answered 200,
the server closed cleanly, valid requests on untouched connections were served.
-/
import DropshotModel.Proto
import DropshotModel.Isolation

open Dropshot Dropshot.Proto Dropshot.Isolation
open Dropshot.Lifecycle (Mode)

namespace Dropshot.DriverC18

def tail (n : Nat) (s : String) : String := String.ofList (s.toList.drop n)

def kv (key : String) (fs : List String) : Option String :=
  fs.findSome? fun f => if f.startsWith (key ++ "=") then some (tail (key.length + 1) f) else none

def parseMode : String → Option Mode
  | "detached" => some .detached | "cancel" => some .cancel | _ => none

/-- `hex` or `<hexbyte>x<count>` segments joined by '.'. -/
def parseSent (s : String) : Option Bytes :=
  if s = "-" then some [] else
  (s.splitOn ".").foldlM (fun acc seg =>
    match seg.splitOn "x" with
    | [h] => (unhex h).map fun b => acc ++ b
    | [h, n] =>
      match unhex h, n.toNat? with
      | some [b], some k => some (acc ++ List.replicate k b)
      | _, _ => none
    | _ => none) []

def parseFault : String → Option FaultKind
  | "garbage" => some .garbage | "trunc" => some (.truncate 0) | "oversize" => some .oversize
  | "badhdr" => some .badHeader | "disc" => some .disconnect | "panic" => some .handlerPanic
  | _ => none

def parseEvent (t : String) : Option Event :=
  let rest := tail 1 t
  match t.toList.head? with
  | some 'Q' =>
    match rest.splitOn ":" with
    | [c, r] => do let c ← c.toNat?; let r ← r.toNat?; pure (.lc (.reqSent c r))
    | _ => none
  | some 'S' => rest.toNat?.map fun r => .lc (.start r)
  | some 'T' => rest.toNat?.map fun r => .lc (.tick r)
  | some 'C' => rest.toNat?.map fun c => .lc (.disconnect c)
  | some 'D' => rest.toNat?.map fun r => .lc (.done r)
  | some 'X' => rest.toNat?.map fun r => .lc (.drop r)
  | some 'P' => rest.toNat?.map fun r => .lc (.panic r)
  | some 'R' => rest.toNat?.map fun r => .lc (.respDelivered r)
  | some 'F' =>
    match rest.splitOn ":" with
    | [c, k] => do let c ← c.toNat?; let k ← parseFault k; pure (.fault c k)
    | _ => none
  | some 'H' => if rest = "1" then some (.health true) else if rest = "0" then some (.health false) else none
  | _ => none

def parseLog (s : String) : Option (List Event) :=
  if s = "-" then some [] else (s.splitOn ",").mapM parseEvent

def showEvent : Event → String
  | .lc (.reqSent c r) => s!"Q{c}:{r}" | .lc (.start r) => s!"S{r}" | .lc (.tick r) => s!"T{r}"
  | .lc (.disconnect c) => s!"C{c}" | .lc (.done r) => s!"D{r}" | .lc (.drop r) => s!"X{r}"
  | .lc (.panic r) => s!"P{r}" | .lc (.respDelivered r) => s!"R{r}"
  | .fault c _ => s!"F{c}" | .health b => s!"H{b}"

def out (id : String) (agree : Bool) (spec : String) (cls known model : String) : String :=
  s!"{id} agree={b2s agree} spec={spec} class={cls} known={known} model={model}"

def bad (id why : String) : String :=
  s!"{id} agree=0 spec=na class=bad-line known=- model={why}"

def parseStatuses (s : String) : Option (List Nat) :=
  if s = "-" then some [] else (s.splitOn ",").mapM String.toNat?

def showNats (xs : List Nat) : String :=
  if xs.isEmpty then "-" else ",".intercalate (xs.map toString)

def bucket (n : Nat) : String :=
  if n ≤ 3 then "1-3" else if n ≤ 20 then "4-20" else if n ≤ 50 then "21-50" else "long"

def isErr (st : Nat) : Bool := 400 ≤ st && st ≤ 599

def handleFc (id mode kindFull sent : String) (obs : List String) : String :=
  -- the same corpus is also sent over TLS (after the handshake): same expectations
  let kind := if kindFull.startsWith "tls-" then tail 4 kindFull else kindFull
  match parseMode mode, parseSent sent, obs with
  | some _, some sentB, [recvH, rr] =>
    match unhex recvH, (kv "rr" [rr]).map (·.splitOn ":") with
    | some recv, some [n, wf, sts] =>
      if kind.startsWith "h2-" then
        -- an HTTP/2 connection (the client sent the preface): whatever the server sent is a
        -- sequence of complete frames beginning with its SETTINGS frame; a malformed
        -- continuation is never answered with a response (a HEADERS frame), a well-formed
        -- request is answered 200 (`:status 200` is the indexed field 0x88)
        let lean := validH2 recv
        let showF (fs : List (Nat × Nat)) : String :=
          if fs.isEmpty then "-" else ",".intercalate (fs.map fun f => s!"{f.1}.{f.2}")
        let oracleAgree := match lean with
          | some fs => wf == "1" && n == toString fs.length && sts == showF fs
          | none => wf == "0"
        let sentOk := h2Preface.isPrefixOf sentB
        let spec := match lean with
          | none => false
          | some fs =>
            let answered := fs.any fun f => f.1 == 1
            if kind == "h2-valid-get" && !kindFull.startsWith "tls-" then fs.contains (1, 136)
            else if kind == "h2-valid-get" then true
            else !answered
        let cls := (if kindFull.startsWith "tls-" then "tls-" else "") ++ kind ++ "/" ++
          (match lean with
           | none => "invalid-frames"
           | some [] => "silent"
           | some fs => if fs.any (fun f => f.1 == 7) then "goaway" else if fs.any (fun f => f.1 == 1) then "response" else "frames")
        out id (oracleAgree && sentOk) (b2s spec) cls "-" s!"h2 lean={(lean.map showF).getD "invalid"}"
      else
      match n.toNat?, parseStatuses sts with
      | some rn, some rsts =>
        let lean := validResponses (recv.length + 1) recv []
        let (k, leftover) := countRequests {} (sentB.length + 1) sentB 0
        let wfReq := k ≥ 1 && !leftover
        -- the two response oracles agree
        let oracleAgree := match lean with
          | some sts => wf == "1" && sts == rsts && rn == sts.length
          | none => wf == "0"
        -- the recogniser classifies the request as the generator meant it
        let meantMalformed := kind.startsWith "oversize-" || kind.startsWith "badhdr-"
        let meantWellFormed := kind.startsWith "valid-" || kind.startsWith "big-" ||
          kind.startsWith "refused-" || kind.startsWith "answered-" || kind == "panic"
        let classAgree := (!meantMalformed || !wfReq) && (!meantWellFormed || wfReq) &&
          (!(kind.startsWith "trunc-") || k == 0)
        let agree := oracleAgree && classAgree
        let spec := match lean with
          | none => false
          | some sts =>
            let cnt := sts.length
            let countOk := cnt ≤ k + (if leftover then 1 else 0)
            let restOk := !(leftover && cnt == k + 1) || (sts.getLast?.map isErr).getD true
            let validOk := !(kind.startsWith "valid-") || sts == List.replicate k 200
            let bigOk := !(kind.startsWith "big-") || cnt == 1
            let refusedOk := !(kind.startsWith "refused-") ||
              (match sts with
               | [st] => isErr st &&
                 (!(kind.startsWith "refused-handler-") || some st == (tail 16 kind).toNat?) &&
                 (kind != "refused-404" || st == 404) && (kind != "refused-405" || st == 405)
               | _ => false)
            let panicOk := kind != "panic" || cnt == 0
            -- `answered-*`: a well-formed request the server may accept or refuse, but must answer
            let answeredOk := !(kind.startsWith "answered-") ||
              (match sts with | [st] => st == 200 || (400 ≤ st && st < 500) | _ => false)
            countOk && restOk && validOk && bigOk && refusedOk && panicOk && answeredOk
        let answered := match lean with
          | some [] => "silent"
          | some (st :: _) => s!"{st / 100}xx"
          | none => "invalid-response"
        let cls := (if kindFull.startsWith "tls-" then "tls-" else "") ++
          (if kind.startsWith "abrupt-" then "abrupt" else kind) ++ "/" ++ answered
        out id agree (b2s spec) cls "-"
          s!"k={k} leftover={b2s leftover} lean={(lean.map showNats).getD "invalid"} rust={showNats rsts}"
      | _, _ => bad id "rr"
    | _, _ => bad id "recv"
  | _, _, _ => bad id "parse"

def lcReqs (tr : List Event) : List (Nat × Nat) :=
  tr.filterMap fun e => match e with | .lc (.reqSent c r) => some (c, r) | _ => none

def faultOn (tr : List Event) (c : Nat) : Bool :=
  tr.any fun e => match e with | .fault c' _ => c' == c | _ => false

def handleSeq (id mode n log : String) (obs : List String) : String :=
  match parseMode mode, parseLog log, (kv "n" [n]).bind String.toNat? with
  | some m, some tr, some n =>
    let health := kv "health" obs == some "1"
    let closed := kv "closed" obs == some "1"
    let unconnected := (kv "unconnected" obs).bind String.toNat?
    let agree := acceptsQuiescent m tr && tr.getLast? == some (.health true)
    let model :=
      match firstRejected m init tr 0 with
      | some (i, e) => s!"rejected@{i}:{showEvent e}"
      | none => if agree then "accepted" else "accepted-not-terminal"
    -- valid requests on connections nobody tampered with were served and delivered
    let served := (lcReqs tr).all fun (c, r) =>
      faultOn tr c ||
        (tr.contains (.lc (.start r)) && tr.contains (.lc (.done r)) && tr.contains (.lc (.respDelivered r)))
    -- a panicking handler fails only itself: it has no Done
    let panics := (lcReqs tr).all fun (_, r) =>
      !tr.contains (.lc (.panic r)) || !tr.contains (.lc (.done r))
    let spec := health && closed && unconnected == some 0 && served && panics &&
      tr.contains (.health true) && !tr.contains (.health false)
    let nf := (tr.filter fun e => match e with | .fault _ _ => true | _ => false).length
    let nh := tr.count (.health true)
    let tls := id.startsWith "t"
    -- TLS sequences: a health check on a fresh connection after EACH fault
    let specTls := !tls || nh ≥ nf + 1
    let fdx := id.startsWith "x"
    -- `xn…`: the harness could not exhaust the process's descriptors (no verdict)
    if id.startsWith "xn" then out id true "na" "fdx-not-exhausted" "-" model else
    out id agree (b2s (spec && specTls)) s!"{if fdx then "fdx-" else if tls then "tls-" else ""}seq-{mode}-n{bucket n}" "-"
      (model ++ s!" faults={nf} healths={nh}")
  | _, _, _ => bad id "parse"

def handle (line : String) : String :=
  let fs := fields line
  let (inp, obs) := splitAt "=>" fs
  match inp with
  | ["fc", id, mode, kind, sent] => handleFc id mode kind sent obs
  | ["seq", id, mode, n, log] => handleSeq id mode n log obs
  | _ :: id :: _ => bad id "shape"
  | _ => bad "?" "shape"

end Dropshot.DriverC18

def main : IO Unit := Dropshot.Proto.runDriver Dropshot.DriverC18.handle
