/-
Driver for C04 (404 / 405 / Allow): stream `lk` (same line format as C01).
The specification is computed from the flat endpoint list: 405 with exactly
the served methods when some other method serves this path at this version,
404 when none does.
-/
import Driver.RouterCommon
import DropshotModel.Path

open Dropshot Dropshot.Proto Dropshot.RouterCommon

namespace Dropshot.DriverC04

def out (id : String) (agree : Bool) (spec : String) (cls known model : String) : String :=
  s!"{id} agree={b2s agree} spec={spec} class={cls} known={known} model={model}"

def bad (id why : String) : String := s!"{id} agree=0 spec=na class=bad-line known=- model={why}"

def handle (line : String) : String :=
  let fs := fields line
  let (inp, impl) := splitAt "=>" fs
  match inp with
  | "lk" :: id :: rest =>
    match parseTable rest, impl with
    | some (raws, [m, ph, pv]), [i] =>
      match (unhex ph).bind utf8String, parseProbe pv with
      | some path, some v =>
        let (k, t, eps, err) := registerAll Node.empty raws 0 []
        if err.isSome || k ≠ raws.length then bad id "table-not-accepted-by-model" else
        -- `lookup_route` starts with `input_path_to_segments` (C03's model): a path it
        -- refuses is answered 400 before any route is looked at; otherwise the trie sees the
        -- percent-decoded segments
        match Path.inputSegments (path.toUTF8.toList.map (·.toNat)) with
        | .error _ => out id (i == "err:400") (b2s (i == "err:400")) "c4-400" "-" "err:400"
        | .ok bsegs =>
        match bsegs.mapM (fun b => utf8String (b.map (·.toUInt8))) with
        | none => bad id "segment-not-utf8"
        | some segs =>
        let res := Node.lookup t m segs v
        let model := encLookup res
        let cands := Cands eps m segs v
        let served := sortStrings (dedup (servedMethods eps segs v))
        let expected : String :=
          if !cands.isEmpty then "hit"
          else if served.isEmpty then "err:404"
          else "err:405:" ++ ",".intercalate served
        let specOk : Bool := if expected == "hit" then i.startsWith "ok:" else i == expected
        let known := if !specOk && inK1 eps segs then "K1" else "-"
        let nMethods := (dedup (eps.map fun e => normMethod e.method)).length
        let skew := served.length < (dedup ((eps.filter fun e => (matchT e.path segs).isSome).map fun e => normMethod e.method)).length
        let cls := s!"c4-{if expected == "hit" then "hit" else if served.isEmpty then "404" else "405x" ++ toString served.length}-{if skew then "skew" else "flat"}-m{nMethods}"
        out id (model == i) (b2s specOk) cls known model
      | _, _ => bad id "parse-request"
    | _, _ => bad id "parse-table"
  | _ => bad "?" "unknown-stream"

end Dropshot.DriverC04

def main : IO Unit := Dropshot.Proto.runDriver Dropshot.DriverC04.handle
