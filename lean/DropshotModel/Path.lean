/-
Model of `input_path_to_segments` (dropshot/src/router.rs) and of its use at
the top of `HttpRouter::lookup_route`:

    path.split('/').filter(|s| !s.is_empty())
        .map(|s| { let d = percent_decode_str(s).decode_utf8()?;      // Err → 400
                   match d { "." | ".." => Err(..), _ => Ok(d) } })
        .collect()

This is the order after the repair of defect D1 (decode, then test for dot
segments).  The order before the repair (test the raw segment, then decode) is
kept as `inputSegmentsAsIs` for the regression witness `C03.asIs_fails`.

Bytes are `List Nat` (values < 256), as in Percent.lean / Utf8.lean.
-/
import DropshotModel.Percent
import DropshotModel.Utf8

namespace Dropshot.Path
open Dropshot.Percent Dropshot.Utf8

/-- `'/'` -/
def slash : Nat := 47

/-- `"."` and `".."` -/
def dot : Bytes := [46]
def dotdot : Bytes := [46, 46]

/-- `str::split('/')`: always at least one piece. -/
def splitSlash : Bytes → List Bytes
  | [] => [[]]
  | b :: rest =>
    if b = 47 then [] :: splitSlash rest
    else
      match splitSlash rest with
      | s :: ss => (b :: s) :: ss
      | [] => [[b]]

/-- The non-empty raw (still percent-encoded) segments of a path. -/
def rawSegments (p : Bytes) : List Bytes := (splitSlash p).filter (· ≠ [])

inductive PathErr where
  | badUtf8      -- `decode_utf8()` failed
  | dotSegment   -- "dot-segments are not permitted"
deriving DecidableEq, Repr

instance {ε α : Type} [DecidableEq ε] [DecidableEq α] : DecidableEq (Except ε α)
  | .ok a, .ok b => if h : a = b then isTrue (by rw [h]) else isFalse (fun e => h (by cases e; rfl))
  | .error a, .error b => if h : a = b then isTrue (by rw [h]) else isFalse (fun e => h (by cases e; rfl))
  | .ok _, .error _ => isFalse (fun e => by cases e)
  | .error _, .ok _ => isFalse (fun e => by cases e)

/-- The closure applied to one raw segment (repaired order). -/
def checkSeg (r : Bytes) : Except PathErr Bytes :=
  let d := pctDecode r
  if utf8Valid d then
    if d = dot ∨ d = dotdot then .error .dotSegment else .ok d
  else .error .badUtf8

/-- The closure as it stood before the repair of D1: the dot test sees the raw
segment. -/
def checkSegAsIs (r : Bytes) : Except PathErr Bytes :=
  if r = dot ∨ r = dotdot then .error .dotSegment
  else
    let d := pctDecode r
    if utf8Valid d then .ok d else .error .badUtf8

/-- `iter.map(f).collect::<Result<Vec<_>, _>>()`: the first error wins. -/
def collect (f : Bytes → Except PathErr Bytes) : List Bytes → Except PathErr (List Bytes)
  | [] => .ok []
  | r :: rs =>
    match f r with
    | .error e => .error e
    | .ok d =>
      match collect f rs with
      | .error e => .error e
      | .ok ds => .ok (d :: ds)

/-- `input_path_to_segments`. -/
def inputSegments (p : Bytes) : Except PathErr (List Bytes) :=
  collect checkSeg (rawSegments p)

/-- `input_path_to_segments` before the repair of defect D1. -/
def inputSegmentsAsIs (p : Bytes) : Except PathErr (List Bytes) :=
  collect checkSegAsIs (rawSegments p)

/-- The canonical spelling of a path's slash structure: one `/` before each
non-empty raw segment, nothing else. -/
def canon (p : Bytes) : Bytes := (rawSegments p).flatMap (47 :: ·)

/-- The first statement of `lookup_route`, with the remainder of the lookup
(trie walk, method and version selection, handler choice) as the continuation
`route`: a path error is answered `400` without entering the continuation. -/
def lookupWith {α : Type} (route : List Bytes → Except Nat α) (p : Bytes) : Except Nat α :=
  match inputSegments p with
  | .error _ => .error 400
  | .ok ss => route ss

/-- What a handler may safely be given as a path-variable value. -/
def SafeSeg (s : Bytes) : Prop := s ≠ dot ∧ s ≠ dotdot ∧ s ≠ [] ∧ utf8Valid s = true

instance (s : Bytes) : Decidable (SafeSeg s) := by unfold SafeSeg; infer_instance

end Dropshot.Path
