/-
Model of the declaration macros of `dropshot_endpoint` (`#[endpoint]`,
`#[channel]`, `#[api_description]`) as far as property C19 needs them:

* `doc.rs`      — `ExtractedDoc::from_attrs`, `normalize_comment_string`;
* `metadata.rs` — `EndpointMetadata::validate`, `ChannelMetadata::validate`,
                  `VersionRange::parse`, `parse_semver`, `to_api_endpoint_fn`;
* `util.rs`     — `ValidContentType`, `is_wildcard_path`;
* `dropshot/src/api_description.rs` — `ApiEndpoint::new`, `new_for_types`, the
                  builder methods, `ApiEndpointBodyContentType::from_mime_type`.

Strings are `List Char` (Rust `char` = Unicode scalar value).  Whitespace is
the Unicode `White_Space` property, which is what `str::trim_start/trim_end`
and `char::is_whitespace` use.

What is *not* modelled: token-level syntax errors inside the attribute list
(serde_tokenstream's parser), the order in which several simultaneous
deserialisation errors are reported (the generator produces at most one of the
order-dependent ones), validation of the function signature (`params.rs`),
and the API-level `tag_config`.
-/
import DropshotModel.Version

namespace Dropshot.Macro

abbrev Str := List Char

/-! ## doc.rs -/

/-- `char::is_whitespace` (Unicode `White_Space`). -/
def isWs (c : Char) : Bool :=
  let n := c.toNat
  (9 ≤ n && n ≤ 13) || n == 32 || n == 0x85 || n == 0xA0 || n == 0x1680 ||
  (0x2000 ≤ n && n ≤ 0x200A) || n == 0x2028 || n == 0x2029 || n == 0x202F ||
  n == 0x205F || n == 0x3000

/-- `str::trim_start`. -/
def trimStart (s : Str) : Str := s.dropWhile isWs

/-- `str::trim_end`. -/
def trimEnd (s : Str) : Str := (s.reverse.dropWhile isWs).reverse

/-- `s.trim_start().trim_end()`. -/
def trim (s : Str) : Str := trimEnd (trimStart s)

/-- `s.split('\n')`: always at least one piece. -/
def splitNl : Str → List Str
  | [] => [[]]
  | c :: cs =>
    if c = '\n' then [] :: splitNl cs
    else match splitNl cs with
      | [] => [[c]]
      | l :: ls => (c :: l) :: ls

/-- `trimmed.strip_prefix("* ").unwrap_or_else(|| trimmed.strip_prefix('*').unwrap_or(trimmed))`. -/
def stripStar : Str → Str
  | '*' :: ' ' :: r => r
  | '*' :: r => r
  | s => s

/-- `normalize_comment_string`: the lines of one `#[doc = "…"]` value.  The
first line is only trimmed; later lines (block comments) also lose one
leading `*` or `* `. -/
def normalizeAttr (s : Str) : List Str :=
  match splitNl s with
  | [] => []
  | first :: rest => trim first :: rest.map fun l => stripStar (trim l)

/-- All normalised lines of the doc attributes of an item, in order
(`attrs.iter().flat_map(…)`).  **This is what "normalised" means in C19.** -/
def normLines (attrs : List Str) : List Str := attrs.flatMap normalizeAttr

/-- Skip leading blank lines (the two `loop { match lines.next() … }`). -/
def dropBlank (ls : List Str) : List Str := ls.dropWhile fun l => l.isEmpty

def endsWith (s : Str) (c : Char) : Bool := s.getLast? == some c

/-- One step of the `fold` that builds the description. -/
def descStep (acc comment : Str) : Str :=
  if endsWith acc '-' || endsWith acc '\n' || acc.isEmpty then acc ++ comment
  else if comment.isEmpty then acc ++ ['\n', '\n']
  else acc ++ ' ' :: comment

def foldDesc (acc : Str) : List Str → Str
  | [] => acc
  | c :: cs => foldDesc (descStep acc c) cs

/-- The description built from the lines after the summary
(`first.map(|first| lines.fold(first, …).trim_end().to_string())`). -/
def descOf (rest : List Str) : Option Str :=
  match dropBlank rest with
  | [] => none
  | f :: more => some (trimEnd (foldDesc f more))

/-- `ExtractedDoc::from_attrs` on the string values of the `#[doc = "…"]`
attributes (other attributes contribute nothing): `(summary, description)`. -/
def extractDoc (attrs : List Str) : Option Str × Option Str :=
  match dropBlank (normLines attrs) with
  | [] => (none, none)
  | s :: rest => (some s, descOf rest)

/-- The non-whitespace characters of a string, in order. -/
def nonWs (s : Str) : Str := s.filter fun c => !isWs c

/-- Drop one leading `*`. -/
def dropStar : Str → Str
  | '*' :: r => r
  | s => s

/-- Specification-side account of the text of a doc comment, written without
trimming, blank skipping or folding: per attribute value, the non-whitespace
characters of each line, minus one leading `*` on every line after the first
(`specNonWs` below). -/
def specAttr (s : Str) : Str :=
  match splitNl s with
  | [] => []
  | f :: rest => nonWs f ++ rest.flatMap fun l => dropStar (nonWs l)

def specNonWs (attrs : List Str) : Str := attrs.flatMap specAttr

/-! ## metadata.rs: attribute arguments -/

inductive Kind where
  | endpoint | channel
deriving DecidableEq, Repr

/-- `MethodType`. -/
inductive Method where
  | DELETE | GET | HEAD | PATCH | POST | PUT | OPTIONS
deriving DecidableEq, Repr

def Method.name : Method → Str
  | .DELETE => "DELETE".toList | .GET => "GET".toList | .HEAD => "HEAD".toList
  | .PATCH => "PATCH".toList | .POST => "POST".toList | .PUT => "PUT".toList
  | .OPTIONS => "OPTIONS".toList

def Method.all : List Method := [.DELETE, .GET, .HEAD, .PATCH, .POST, .PUT, .OPTIONS]

/-- serde's variant lookup for `method = IDENT` (exact, case-sensitive). -/
def Method.ofIdent (s : Str) : Option Method := Method.all.find? fun m => m.name == s

/-- `ValidContentType`. -/
inductive ContentType where
  | json | urlencoded | multipart
deriving DecidableEq, Repr

def ContentType.mime : ContentType → Str
  | .json => "application/json".toList
  | .urlencoded => "application/x-www-form-urlencoded".toList
  | .multipart => "multipart/form-data".toList

def ContentType.all : List ContentType := [.json, .urlencoded, .multipart]

/-- `<ValidContentType as FromStr>::from_str`. -/
def ContentType.parse (s : Str) : Option ContentType := ContentType.all.find? fun c => c.mime == s

/-- `ApiEndpointBodyContentType`. -/
inductive BodyCT where
  | bytes | json | urlencoded | multipart
deriving DecidableEq, Repr

def BodyCT.mime : BodyCT → Str
  | .bytes => "application/octet-stream".toList
  | .json => "application/json".toList
  | .urlencoded => "application/x-www-form-urlencoded".toList
  | .multipart => "multipart/form-data".toList

def BodyCT.all : List BodyCT := [.bytes, .json, .urlencoded, .multipart]

/-- `ApiEndpointBodyContentType::from_mime_type`. -/
def BodyCT.fromMime (s : Str) : Option BodyCT := BodyCT.all.find? fun c => c.mime == s

def ContentType.body : ContentType → BodyCT
  | .json => .json | .urlencoded => .urlencoded | .multipart => .multipart

/-- `VersionSpecifier` as written: a string literal or a path to a constant. -/
inductive VSpec where
  | lit (s : Str)
  | ident (path : Str)
deriving DecidableEq, Repr

/-- The four spellings of `versions = …`: `..`, `..b`, `a..`, `a..b`. -/
inductive VSyntax where
  | all
  | until (b : VSpec)
  | from (a : VSpec)
  | fromUntil (a b : VSpec)
deriving DecidableEq, Repr

/-- A parsed `VersionSpecifier`: what `semver_expr` will emit, either
`semver::Version::new(major, minor, patch)` or the path itself. -/
inductive VExpr where
  | lit (major minor patch : Nat)
  | ident (path : Str)
deriving DecidableEq, Repr

/-- The macro's `VersionRange`, over the shared `Range` type of C05. -/
abbrev VRange := Range VExpr

inductive MacroErr where
  /-- serde_tokenstream: `extraneous member` (a key the struct does not have) -/
  | extraneous
  /-- serde: `unknown variant` (method / protocol identifier) -/
  | unknownVariant
  /-- serde: `missing field` -/
  | missingField
  /-- `expected semver: …` -/
  | badSemver
  /-- `semver pre-release string is not supported here` -/
  | preRelease
  /-- `semver build metadata is not supported here` -/
  | buildMeta
  /-- `"from" version (…) must be earlier than "until" version (…)` -/
  | reversed
  /-- syn: `unexpected token` (input left over after the range) -/
  | unexpectedToken
  /-- `must not specify _dropshot_crate` (trait items only) -/
  | dropshotCrateInTrait
  /-- endpoint path with `:.*}` that is not `unpublished = true` -/
  | wildcardNotUnpublished
  /-- channel path with `:.*}` -/
  | channelWildcard
  /-- content type not one of the three supported -/
  | badContentType
deriving DecidableEq, Repr

/-- `SemVer` of a literal triple. -/
def semOf (major minor patch : Nat) : SemVer :=
  { major, minor, patch, pre := [], build := [] }

/-- `parse_semver`: a semver without pre-release and without build metadata. -/
def parseSemverLit (s : Str) : Except MacroErr SemVer :=
  match SemVer.parseChars s with
  | none => .error .badSemver
  | some v =>
    if v.pre ≠ [] then .error .preRelease
    else if v.build ≠ [] then .error .buildMeta
    else .ok v

/-- `<VersionSpecifier as Parse>::parse`. -/
def VSpec.parse : VSpec → Except MacroErr VExpr
  | .lit s =>
    match parseSemverLit s with
    | .error e => .error e
    | .ok v => .ok (.lit v.major v.minor v.patch)
  | .ident p => .ok (.ident p)

/-- First `::`-separated segment of a path as written (no spaces). -/
def firstSegment : Str → Str
  | [] => []
  | c :: cs => if c = ':' then [] else c :: firstSegment cs

/-- The path does not start with a plain identifier: a leading `::`, a
qualified `<T as Tr>::…`, or one of the path keywords (which `syn::Ident`
does not match). -/
def keywordLead (p : Str) : Bool :=
  let f := firstSegment p
  f.isEmpty || f.head? == some '<' ||
  f == "crate".toList || f == "self".toList || f == "super".toList || f == "Self".toList

/-- `lookahead.peek(syn::LitStr) || lookahead.peek(syn::Ident)`: what the parser
looks for after `a..` to decide between `a..` and `a..b`. -/
def VSpec.peekable : VSpec → Bool
  | .lit _ => true
  | .ident p => !keywordLead p

/-- The literal behind a `VExpr`, if it is one. -/
def VExpr.litSem : VExpr → Option SemVer
  | .lit a b c => some (semOf a b c)
  | .ident _ => none

/-- `<VersionRange as Parse>::parse` (through `syn::parse2`, as `ParseWrapper`
does): the order check applies only when both ends are literals
(`latest_semver < earliest_semver` is refused). -/
def parseVersions : VSyntax → Except MacroErr VRange
  | .all => .ok .all
  | .until b =>
    match b.parse with
    | .error e => .error e
    | .ok b => .ok (.until b)
  | .from a =>
    match a.parse with
    | .error e => .error e
    | .ok a => .ok (.from a)
  | .fromUntil a b =>
    match a.parse with
    | .error e => .error e
    | .ok a =>
      -- not recognised as the start of a second specifier: parsed as `a..`,
      -- and `syn::parse2` then refuses the left-over tokens
      if !b.peekable then .error .unexpectedToken else
      match b.parse with
      | .error e => .error e
      | .ok b =>
        match a.litSem, b.litSem with
        | some va, some vb => if vb < va then .error .reversed else .ok (.fromUntil a b)
        | _, _ => .ok (.fromUntil a b)

/-- Run-time value of an emitted version expression; `env` resolves constant paths. -/
def VExpr.eval (env : Str → Option SemVer) : VExpr → Option SemVer
  | .lit a b c => some (semOf a b c)
  | .ident p => env p

/-- Run-time value of the emitted `ApiEndpointVersions` expression:
`All`, `From(x)`, `Until(y)` are plain constructors, `from_until(x, y).unwrap()`
panics (`none`) on a reversed pair. -/
def resolveVersions (env : Str → Option SemVer) : VRange → Option (Range SemVer)
  | .all => some .all
  | .from a => (a.eval env).map .from
  | .until b => (b.eval env).map .until
  | .fromUntil a b =>
    match a.eval env, b.eval env with
    | some va, some vb => Range.mkFromUntil va vb
    | _, _ => none

/-- `is_wildcard_path` / `path.contains(":.*}")`. -/
def containsSub (pat : Str) : Str → Bool
  | [] => pat.isEmpty
  | c :: cs => pat.isPrefixOf (c :: cs) || containsSub pat cs

def isWildcardPath (p : Str) : Bool := containsSub ":.*}".toList p

/-- `MacroKind`. -/
inductive MacroKind where
  | function | trait
deriving DecidableEq, Repr

/-- An endpoint or channel declaration: the attribute arguments as written
(absent = `none`), the doc attribute values and the function name. -/
structure Decl where
  kind : Kind
  /-- identifier after `method =` (`#[endpoint]` only) -/
  method : Option Str := none
  /-- identifier after `protocol =` (`#[channel]` only) -/
  protocol : Option Str := none
  path : Option Str
  versions : Option VSyntax := none
  tags : List Str := []
  operationId : Option Str := none
  contentType : Option Str := none
  /-- value of the `usize` expression -/
  requestBodyMaxBytes : Option Nat := none
  deprecated : Bool := false
  unpublished : Bool := false
  dropshotCrate : Option Str := none
  /-- values of the `#[doc = "…"]` attributes on the function, in order -/
  doc : List Str := []
  /-- the function's identifier -/
  name : Str
deriving DecidableEq, Repr

/-- `ValidatedEndpointMetadata` (channels wrap one), together with the two
other inputs of `to_api_endpoint_fn`: the function name and the doc attributes. -/
structure VDecl where
  kind : Kind
  operationId : Option Str
  method : Method
  path : Str
  tags : List Str
  unpublished : Bool
  deprecated : Bool
  requestBodyMaxBytes : Option Nat
  contentType : ContentType
  versions : VRange
  doc : List Str
  name : Str
deriving DecidableEq, Repr

/-- `versions.map(|h| h.into_inner()).unwrap_or(VersionRange::All)`; the parse
itself happens during deserialisation. -/
def parseVersionsOpt : Option VSyntax → Except MacroErr VRange
  | none => .ok .all
  | some s => parseVersions s

/-- Deserialisation of `EndpointMetadata` (serde + serde_tokenstream). -/
def deserEndpoint (d : Decl) : Except MacroErr (Method × Str × VRange) :=
  if d.protocol.isSome then .error .extraneous else
  match d.method.map Method.ofIdent with
  | some none => .error .unknownVariant
  | m =>
    match parseVersionsOpt d.versions with
    | .error e => .error e
    | .ok vr =>
      match m, d.path with
      | some (some m), some p => .ok (m, p, vr)
      | _, _ => .error .missingField

/-- The only `ChannelProtocol`. -/
def WEBSOCKETS : Str := "WEBSOCKETS".toList

/-- Deserialisation of `ChannelMetadata`. -/
def deserChannel (d : Decl) : Except MacroErr (Str × VRange) :=
  if d.method.isSome || d.contentType.isSome || d.requestBodyMaxBytes.isSome then .error .extraneous else
  match d.protocol with
  | some pr =>
    if pr ≠ WEBSOCKETS then .error .unknownVariant else
    match parseVersionsOpt d.versions with
    | .error e => .error e
    | .ok vr =>
      match d.path with
      | some p => .ok (p, vr)
      | none => .error .missingField
  | none =>
    match parseVersionsOpt d.versions with
    | .error e => .error e
    | .ok _ => .error .missingField

/-- The content type check of `EndpointMetadata::validate`. -/
def checkContentType : Option Str → Option ContentType
  | none => some .json
  | some s => ContentType.parse s

/-- `EndpointMetadata::validate` / `ChannelMetadata::validate` after
deserialisation.  A deserialisation failure is a single error; validation
collects every error, in the order the code pushes them. -/
def validate (mk : MacroKind) (d : Decl) : Except (List MacroErr) VDecl :=
  let crateErr := if mk = .trait && d.dropshotCrate.isSome then [MacroErr.dropshotCrateInTrait] else []
  match d.kind with
  | .endpoint =>
    match deserEndpoint d with
    | .error e => .error [e]
    | .ok (m, p, vr) =>
      let wildErr := if isWildcardPath p && !d.unpublished then [MacroErr.wildcardNotUnpublished] else []
      match checkContentType d.contentType with
      | none => .error (crateErr ++ wildErr ++ [.badContentType])
      | some ct =>
        if crateErr ++ wildErr ≠ [] then .error (crateErr ++ wildErr) else
        .ok { kind := .endpoint, operationId := d.operationId, method := m, path := p, tags := d.tags,
              unpublished := d.unpublished, deprecated := d.deprecated,
              requestBodyMaxBytes := d.requestBodyMaxBytes, contentType := ct, versions := vr,
              doc := d.doc, name := d.name }
  | .channel =>
    match deserChannel d with
    | .error e => .error [e]
    | .ok (p, vr) =>
      let wildErr := if isWildcardPath p then [MacroErr.channelWildcard] else []
      if crateErr ++ wildErr ≠ [] then .error (crateErr ++ wildErr) else
      .ok { kind := .channel, operationId := d.operationId, method := .GET, path := p, tags := d.tags,
            unpublished := d.unpublished, deprecated := d.deprecated,
            requestBodyMaxBytes := none, contentType := .json, versions := vr,
            doc := d.doc, name := d.name }

/-! ## `to_api_endpoint_fn`: the emitted constructor call and builder chain -/

/-- The three ways an API is declared and built. -/
inductive Style where
  | function | traitImpl | traitStub
deriving DecidableEq, Repr

def Style.macroKind : Style → MacroKind
  | .function => .function
  | _ => .trait

/-- The handler argument of `ApiEndpoint::new` (absent for `new_for_types`,
which installs a `StubRouteHandler` named after the operation id). -/
inductive Handler where
  /-- the annotated function itself -/
  | fn (name : Str)
  /-- the generated websocket adapter `<name>_adapter` -/
  | adapter (name : Str)
  /-- `<ServerImpl as Trait>::name` -/
  | traitMethod (name : Str)
  /-- `<name>_adapter::<ServerImpl>` -/
  | traitAdapter (name : Str)
  /-- `StubRouteHandler::new_with_name(&operation_id)` -/
  | stub (operationId : Str)
deriving DecidableEq, Repr

/-- Arguments of `ApiEndpoint::new(…)` / `ApiEndpoint::new_for_types::<…>(…)`. -/
structure Ctor where
  forTypes : Bool
  operationId : Str
  handler : Handler
  method : Method
  contentType : Str
  path : Str
  versions : VRange
deriving DecidableEq, Repr

/-- One builder call. -/
inductive Call where
  | summary (s : Str)
  | description (s : Str)
  | tag (s : Str)
  | visible (b : Bool)
  | deprecated (b : Bool)
  | requestBodyMaxBytes (n : Nat)
deriving DecidableEq, Repr

structure Chain where
  ctor : Ctor
  calls : List Call
deriving DecidableEq, Repr

def optCall {α : Type} (f : α → Call) : Option α → List Call
  | none => []
  | some a => [f a]

def handlerOf (s : Style) (d : VDecl) (operationId : Str) : Handler :=
  match s, d.kind with
  | .function, .endpoint => .fn d.name
  | .function, .channel => .adapter d.name
  | .traitImpl, .endpoint => .traitMethod d.name
  | .traitImpl, .channel => .traitAdapter d.name
  | .traitStub, _ => .stub operationId

/-- `ValidatedEndpointMetadata::to_api_endpoint_fn` with the `kind` argument
each expansion path passes (`Regular` for functions and for
`api_description::<ServerImpl>()`, `Stub` for `stub_api_description()`). -/
def toChain (s : Style) (d : VDecl) : Chain :=
  let operationId := d.operationId.getD d.name
  let doc := extractDoc d.doc
  { ctor := { forTypes := s == .traitStub, operationId, handler := handlerOf s d operationId,
              method := d.method, contentType := d.contentType.mime, path := d.path,
              versions := d.versions }
    calls := optCall .summary doc.1 ++ optCall .description doc.2 ++ d.tags.map .tag ++
             (if d.unpublished then [.visible false] else []) ++
             (if d.deprecated then [.deprecated true] else []) ++
             optCall .requestBodyMaxBytes d.requestBodyMaxBytes }

/-! ## api_description.rs: what the emitted expression evaluates to -/

/-- The fields of `ApiEndpoint` that come from the declaration (parameters,
response and error schemas come from the function's types: C07). -/
structure EndpointRec where
  operationId : Str
  handler : Handler
  method : Method
  path : Str
  bodyContentType : BodyCT
  requestBodyMaxBytes : Option Nat
  summary : Option Str
  description : Option Str
  tags : List Str
  visible : Bool
  deprecated : Bool
  versions : VRange
deriving DecidableEq, Repr

/-- `ApiEndpoint::new` / `new_for_types` once the mime type is accepted. -/
def evalCtor (bct : BodyCT) (c : Ctor) : EndpointRec :=
  { operationId := c.operationId, handler := c.handler, method := c.method, path := c.path,
    bodyContentType := bct, requestBodyMaxBytes := none, summary := none, description := none,
    tags := [], visible := true, deprecated := false, versions := c.versions }

/-- The builder methods of `ApiEndpoint`. -/
def applyCall (e : EndpointRec) : Call → EndpointRec
  | .summary s => { e with summary := some s }
  | .description s => { e with description := some s }
  | .tag t => { e with tags := e.tags ++ [t] }
  | .visible b => { e with visible := b }
  | .deprecated b => { e with deprecated := b }
  | .requestBodyMaxBytes n => { e with requestBodyMaxBytes := some n }

/-- Evaluate an emitted chain; `none` = the `expect("unsupported mime type")` panic. -/
def evalChain (c : Chain) : Option EndpointRec :=
  (BodyCT.fromMime c.ctor.contentType).map fun bct => c.calls.foldl applyCall (evalCtor bct c.ctor)

/-- The registered endpoint of a validated declaration in a given style
(`evalChain (toChain s d) = some (toEndpoint s d)`, see `C19.evalChain_toChain`). -/
def toEndpoint (s : Style) (d : VDecl) : EndpointRec :=
  let c := toChain s d
  c.calls.foldl applyCall (evalCtor d.contentType.body c.ctor)

/-- Forget which handler is installed. -/
def EndpointRec.eraseHandler (e : EndpointRec) : EndpointRec := { e with handler := .stub [] }

/-- The whole path from declaration to registered endpoint. -/
def expand (s : Style) (d : Decl) : Except (List MacroErr) EndpointRec :=
  match validate s.macroKind d with
  | .error es => .error es
  | .ok v => .ok (toEndpoint s v)

/-! ## Served and documented (the consumers, `router.rs` / `gen_openapi`) -/

/-- `lookup_route` finds the endpoint at version `v` (its method and path
matching is C01): `find_handler_matching_version` ignores `visible`. -/
def routedAt (env : Str → Option SemVer) (e : EndpointRec) (v : Option SemVer) : Bool :=
  match resolveVersions env e.versions with
  | some r => r.matches v
  | none => false

/-- `gen_openapi` at version `v` lists the endpoint: `endpoints(Some(v))` then `visible`. -/
def documentedAt (env : Str → Option SemVer) (e : EndpointRec) (v : SemVer) : Bool :=
  e.visible && routedAt env e (some v)

/-- The declaration-derived fields of an operation in the document. -/
structure DocEntry where
  method : Method
  path : Str
  operationId : Str
  tags : List Str
  deprecated : Bool
  summary : Option Str
  description : Option Str
deriving DecidableEq, Repr

/-- A registered path ends in `/` without being the root. -/
def trailingSlash (p : Str) : Bool := p.length > 1 && endsWith p '/'

/-- The path under which `gen_openapi` lists an endpoint: the router stores
segments (`route_path_to_segments` drops a final empty segment) and its
iterator joins them again, so a trailing slash is not shown (finding K19a). -/
def docPath (p : Str) : Str := if trailingSlash p then p.dropLast else p

def docEntry (e : EndpointRec) : DocEntry :=
  { method := e.method, path := docPath e.path, operationId := e.operationId, tags := e.tags,
    deprecated := e.deprecated, summary := e.summary, description := e.description }

/-- `RequestEndpointMetadata` returned by `lookup_route`. -/
structure LookupMeta where
  operationId : Str
  bodyContentType : BodyCT
  requestBodyMaxBytes : Option Nat
deriving DecidableEq, Repr

def lookupMeta (e : EndpointRec) : LookupMeta :=
  { operationId := e.operationId, bodyContentType := e.bodyContentType,
    requestBodyMaxBytes := e.requestBodyMaxBytes }

end Dropshot.Macro
