/-
Schema.lean — JSON instances, the schemars-0.8 JSON-Schema fragment (`JS`) that
`dropshot/src/schema_util.rs::j2oas_schema` consumes, the openapiv3 schema
fragment (`OAS`) it produces, and the validity semantics of both
(DESIGN.md Appendix B).

* `J`      JSON instance values.  Numbers are integers (non-integral floats are
           outside the model and outside every generator).
* `JS`     deep embedding of `schemars::schema::Schema` / `SchemaObject`, field
           for field, *including the distinction between `None` and
           `Some(default)`* for the boxed validation groups (the converter's
           behaviour depends on it: `type: array` with `array: None` panics).
* `OAS`    deep embedding of `openapiv3::Schema` (`SchemaData` + `SchemaKind`);
           `RefOr` is `openapiv3::ReferenceOr<Schema>`.
* `JS.valid ρ`, `RefOr.valid ρ`  total structural recursions on the schema; the
           instance is pushed down, `$ref`s are interpreted by `ρ.ref`, regular
           expressions by the uninterpreted `ρ.pat` shared by both sides.

Everything here is core Lean only (drivers link against it).
-/
namespace Dropshot.Schema

/-! ## JSON instances -/

inductive J where
  | null
  | bool (b : Bool)
  | num (n : Int)
  | str (s : String)
  | arr (xs : List J)
  | obj (kvs : List (String × J))
deriving Repr, Inhabited

namespace J

mutual
/-- Structural equality of JSON values (objects compared as ordered lists; the
drivers canonicalise key order before calling it). -/
def beq : J → J → Bool
  | .null, .null => true
  | .bool a, .bool b => a == b
  | .num a, .num b => a == b
  | .str a, .str b => a == b
  | .arr a, .arr b => beqList a b
  | .obj a, .obj b => beqFields a b
  | _, _ => false
def beqList : List J → List J → Bool
  | [], [] => true
  | x :: xs, y :: ys => beq x y && beqList xs ys
  | _, _ => false
def beqFields : List (String × J) → List (String × J) → Bool
  | [], [] => true
  | (k, x) :: xs, (l, y) :: ys => k == l && beq x y && beqFields xs ys
  | _, _ => false
end

def isNull : J → Bool
  | .null => true
  | _ => false

/-- `xs` has no two equal elements (`uniqueItems`). -/
def nodup : List J → Bool
  | [] => true
  | x :: xs => !(xs.any (beq x)) && nodup xs

/-- First value bound to `k`. -/
def lookup (k : String) : List (String × J) → Option J
  | [] => none
  | (l, v) :: rest => if k == l then some v else lookup k rest

def hasKey (k : String) (kvs : List (String × J)) : Bool := kvs.any (·.1 == k)

end J

/-- Interpretation of the two things the validity semantics does not look
into: `$ref` targets and regular expressions (`pat p s`: string `s` matches
pattern `p`). -/
structure Env where
  ref : String → J → Bool
  pat : String → String → Bool

def optAll {α : Type} (o : Option α) (p : α → Bool) : Bool :=
  match o with
  | none => true
  | some a => p a

/-! ## Non-recursive parts of a schemars `SchemaObject` -/

/-- `schemars::schema::InstanceType`. -/
inductive IType where
  | null | boolean | object | array | number | string | integer
deriving DecidableEq, Repr

/-- `schemars::schema::SingleOrVec<T>` (for `instance_type`). -/
inductive SV (α : Type) where
  | single (a : α)
  | vec (l : List α)
deriving Repr

/-- `schemars::schema::Metadata`. -/
structure Meta where
  id : Option String := none
  title : Option String := none
  description : Option String := none
  default : Option J := none
  deprecated : Bool := false
  readOnly : Bool := false
  writeOnly : Bool := false
  examples : List J := []
deriving Repr, Inhabited

/-- `schemars::schema::NumberValidation` (the `f64`s restricted to integers). -/
structure NumV where
  multipleOf : Option Int := none
  maximum : Option Int := none
  exclusiveMaximum : Option Int := none
  minimum : Option Int := none
  exclusiveMinimum : Option Int := none
deriving Repr, Inhabited

/-- `schemars::schema::StringValidation`. -/
structure StrV where
  maxLength : Option Nat := none
  minLength : Option Nat := none
  pattern : Option String := none
deriving Repr, Inhabited

def IType.admits : IType → J → Bool
  | .null, .null => true
  | .boolean, .bool _ => true
  | .object, .obj _ => true
  | .array, .arr _ => true
  | .number, .num _ => true
  | .integer, .num _ => true   -- every number of the model is integral
  | .string, .str _ => true
  | _, _ => false

/-- keyword `type`. -/
def typeOk : Option (SV IType) → J → Bool
  | none, _ => true
  | some (.single t), j => t.admits j
  | some (.vec ts), j => ts.any (·.admits j)

/-- keyword `enum`: membership by structural equality. -/
def enumOk : Option (List J) → J → Bool
  | none, _ => true
  | some vs, j => vs.any (J.beq j)

/-- keyword `const`. -/
def constOk : Option J → J → Bool
  | none, _ => true
  | some c, j => J.beq j c

/-- draft-07 numeric keywords (numeric `exclusiveMinimum`/`exclusiveMaximum`). -/
def NumV.ok (v : NumV) : J → Bool
  | .num n =>
    optAll v.multipleOf (fun m => n % m == 0) &&
    optAll v.maximum (fun m => decide (n ≤ m)) &&
    optAll v.exclusiveMaximum (fun m => decide (n < m)) &&
    optAll v.minimum (fun m => decide (m ≤ n)) &&
    optAll v.exclusiveMinimum (fun m => decide (m < n))
  | _ => true

def numOk (o : Option NumV) (j : J) : Bool := optAll o (·.ok j)

/-- string keywords; lengths in code points. -/
def StrV.ok (ρ : Env) (v : StrV) : J → Bool
  | .str s =>
    optAll v.maxLength (fun m => decide (s.length ≤ m)) &&
    optAll v.minLength (fun m => decide (m ≤ s.length)) &&
    optAll v.pattern (fun p => ρ.pat p s)
  | _ => true

def strOk (ρ : Env) (o : Option StrV) (j : J) : Bool := optAll o (·.ok ρ j)

/-- `extensions.get("nullable") == Some(Bool(true))`. -/
def extNullable (ext : List (String × J)) : Bool :=
  match J.lookup "nullable" ext with
  | some (.bool true) => true
  | _ => false

/-- tuple `items`: a member failed (`none`) or the elements beyond the tuple
must satisfy `additionalItems`. -/
def tupleRest (o : Option (List J)) (p : J → Bool) : Bool :=
  match o with
  | none => false
  | some rest => rest.all p

/-- exactly one `true`. -/
def exactlyOne (bs : List Bool) : Bool := (bs.filter id).length == 1

/-! ## The JSON-Schema side: `schemars::schema::Schema` -/

mutual
/-- `schemars::schema::Schema`; `obj` carries the twelve fields of
`SchemaObject` in declaration order. -/
inductive JS where
  | bool (b : Bool)
  | obj (metadata : Option Meta) (instanceType : Option (SV IType)) (format : Option String)
        (enumValues : Option (List J)) (constValue : Option J) (subschemas : JSSubs)
        (number : Option NumV) (string : Option StrV) (array : JSArr) (object : JSObjV)
        (reference : Option String) (extensions : List (String × J))
/-- `Option<Box<Schema>>`. -/
inductive JSOpt where
  | none
  | some (s : JS)
/-- `Vec<Schema>`. -/
inductive JSList where
  | nil
  | cons (s : JS) (rest : JSList)
/-- `Option<Vec<Schema>>`. -/
inductive JSOptList where
  | none
  | some (l : JSList)
/-- `Option<Box<SubschemaValidation>>`. -/
inductive JSSubs where
  | none
  | some (allOf anyOf oneOf : JSOptList) (not ifS thenS elseS : JSOpt)
/-- `Option<SingleOrVec<Schema>>` (keyword `items`). -/
inductive JSItems where
  | none
  | single (s : JS)
  | vec (l : JSList)
/-- `Option<Box<ArrayValidation>>`. -/
inductive JSArr where
  | none
  | some (items : JSItems) (additionalItems : JSOpt) (maxItems minItems : Option Nat)
         (uniqueItems : Option Bool) (contains : JSOpt)
/-- `Map<String, Schema>`. -/
inductive JSProps where
  | nil
  | cons (k : String) (s : JS) (rest : JSProps)
/-- `Option<Box<ObjectValidation>>`. -/
inductive JSObjV where
  | none
  | some (maxProperties minProperties : Option Nat) (required : List String)
         (properties patternProperties : JSProps) (additionalProperties propertyNames : JSOpt)
end

instance : Inhabited JS := ⟨.bool true⟩

def JSProps.keys : JSProps → List String
  | .nil => []
  | .cons k _ rest => k :: rest.keys

def JSSubs.isSome : JSSubs → Bool
  | .none => false
  | .some .. => true

mutual
/-- Validity of instance `j` against a schemars schema (draft-07 keyword
meanings, all present keywords conjoined, `$ref` one of them; plus the
OpenAPI-dialect `nullable: true` extension that schemars' `openapi3` settings
emit, which admits `null` beside an explicit `type` or a composition). -/
def JS.valid (ρ : Env) : JS → J → Bool
  | .bool b, _ => b
  | .obj _ ty _ en cv subs num str arr ob rf ext, j =>
    (typeOk ty j && enumOk en j && constOk cv j && subs.valid ρ j && numOk num j && strOk ρ str j
      && arr.valid ρ j && ob.valid ρ j && optAll rf (fun r => ρ.ref r j))
    || (extNullable ext && j.isNull && (ty.isSome || subs.isSome)
      && enumOk en j && constOk cv j && optAll rf (fun r => ρ.ref r j))
/-- an absent optional schema constrains nothing. -/
def JSOpt.valid (ρ : Env) : JSOpt → J → Bool
  | .none, _ => true
  | .some s, j => s.valid ρ j
/-- the verdict of each member. -/
def JSList.vals (ρ : Env) : JSList → J → List Bool
  | .nil, _ => []
  | .cons s rest, j => s.valid ρ j :: rest.vals ρ j
def JSOptList.allOk (ρ : Env) : JSOptList → J → Bool
  | .none, _ => true
  | .some l, j => (l.vals ρ j).all id
def JSOptList.anyOk (ρ : Env) : JSOptList → J → Bool
  | .none, _ => true
  | .some l, j => (l.vals ρ j).any id
def JSOptList.oneOk (ρ : Env) : JSOptList → J → Bool
  | .none, _ => true
  | .some l, j => exactlyOne (l.vals ρ j)
def JSSubs.valid (ρ : Env) : JSSubs → J → Bool
  | .none, _ => true
  | .some allOf anyOf oneOf nt ifS thenS elseS, j =>
    allOf.allOk ρ j && anyOf.anyOk ρ j && oneOf.oneOk ρ j
    && (match nt with | .none => true | .some s => !(s.valid ρ j))
    && (match ifS with
        | .none => true
        | .some s => if s.valid ρ j then thenS.valid ρ j else elseS.valid ρ j)
/-- tuple `items`: consume one instance element per schema; `none` = a member
failed, `some rest` = the elements beyond the tuple. -/
def JSList.tuple (ρ : Env) : JSList → List J → Option (List J)
  | .nil, xs => some xs
  | .cons _ _, [] => some []
  | .cons s rest, x :: xs => if s.valid ρ x then rest.tuple ρ xs else none
def JSArr.valid (ρ : Env) : JSArr → J → Bool
  | .none, _ => true
  | .some items addl maxI minI uniq cont, .arr xs =>
    (match items with
      | .none => true
      | .single s => xs.all (fun x => s.valid ρ x)
      | .vec l => tupleRest (l.tuple ρ xs) (fun x => addl.valid ρ x))
    && optAll maxI (fun m => decide (xs.length ≤ m))
    && optAll minI (fun m => decide (m ≤ xs.length))
    && (match uniq with | some true => J.nodup xs | _ => true)
    && (match cont with | .none => true | .some s => xs.any (fun x => s.valid ρ x))
  | .some .., _ => true
/-- keyword `properties`: every listed property that is present is valid. -/
def JSProps.valid (ρ : Env) : JSProps → List (String × J) → Bool
  | .nil, _ => true
  | .cons k s rest, kvs =>
    (match J.lookup k kvs with | none => true | some v => s.valid ρ v) && rest.valid ρ kvs
/-- keyword `patternProperties`. -/
def JSProps.patValid (ρ : Env) : JSProps → List (String × J) → Bool
  | .nil, _ => true
  | .cons p s rest, kvs =>
    kvs.all (fun kv => !(ρ.pat p kv.1) || s.valid ρ kv.2) && rest.patValid ρ kvs
def JSObjV.valid (ρ : Env) : JSObjV → J → Bool
  | .none, _ => true
  | .some maxP minP req props pprops addl pnames, .obj kvs =>
    optAll maxP (fun m => decide (kvs.length ≤ m))
    && optAll minP (fun m => decide (m ≤ kvs.length))
    && req.all (fun r => J.hasKey r kvs)
    && props.valid ρ kvs
    && pprops.patValid ρ kvs
    && kvs.all (fun kv =>
        props.keys.contains kv.1 || pprops.keys.any (fun p => ρ.pat p kv.1) || addl.valid ρ kv.2)
    && kvs.all (fun kv => pnames.valid ρ (.str kv.1))
  | .some .., _ => true
end

/-! ## The OpenAPI side: `openapiv3::Schema` -/

/-- `openapiv3::VariantOrUnknownOrEmpty<_>` for `format`; `item` holds the
serialised spelling of a recognised variant (`"int32"`, `"date-time"`, …). -/
inductive Fmt where
  | empty
  | item (s : String)
  | unknown (s : String)
deriving Repr, DecidableEq

def Fmt.toOption : Fmt → Option String
  | .empty => none
  | .item s => some s
  | .unknown s => some s

/-- `openapiv3::SchemaData` (the fields dropshot sets; `externalDocs` and
`discriminator` are never set). -/
structure SData where
  nullable : Bool := false
  readOnly : Bool := false
  writeOnly : Bool := false
  deprecated : Bool := false
  exampleVal : Option J := none
  title : Option String := none
  description : Option String := none
  default : Option J := none
  extensions : List (String × J) := []
deriving Repr, Inhabited

/-- `openapiv3::StringType`. -/
structure StringType where
  format : Fmt := .empty
  pattern : Option String := none
  enumeration : List (Option String) := []
  minLength : Option Nat := none
  maxLength : Option Nat := none
deriving Repr, Inhabited

/-- `openapiv3::NumberType` / `IntegerType` (same shape; `f64`/`i64` ↦ `Int`). -/
structure NumType where
  format : Fmt := .empty
  multipleOf : Option Int := none
  exclusiveMinimum : Bool := false
  exclusiveMaximum : Bool := false
  minimum : Option Int := none
  maximum : Option Int := none
  enumeration : List (Option Int) := []
deriving Repr, Inhabited

mutual
/-- `openapiv3::Schema`. -/
inductive OAS where
  | mk (data : SData) (kind : OKind)
/-- `openapiv3::SchemaKind`, with `Type(Type::X(..))` flattened to `X`. -/
inductive OKind where
  | string (t : StringType)
  | number (t : NumType)
  | integer (t : NumType)
  | object (properties : ORProps) (required : List String) (additionalProperties : OAddl)
           (minProperties maxProperties : Option Nat)
  | array (items : OROpt) (minItems maxItems : Option Nat) (uniqueItems : Bool)
  | boolean (enumeration : List (Option Bool))
  | oneOf (l : ORList)
  | allOf (l : ORList)
  | anyOf (l : ORList)
  | not (r : RefOr)
  | any
/-- `openapiv3::ReferenceOr<Schema>`. -/
inductive RefOr where
  | ref (reference : String)
  | item (s : OAS)
inductive ORList where
  | nil
  | cons (r : RefOr) (rest : ORList)
/-- `IndexMap<String, ReferenceOr<Box<Schema>>>`. -/
inductive ORProps where
  | nil
  | cons (k : String) (r : RefOr) (rest : ORProps)
inductive OROpt where
  | none
  | some (r : RefOr)
/-- `Option<openapiv3::AdditionalProperties>`. -/
inductive OAddl where
  | none
  | any (b : Bool)
  | schema (r : RefOr)
end

instance : Inhabited RefOr := ⟨.item (.mk {} .any)⟩

def ORProps.keys : ORProps → List String
  | .nil => []
  | .cons k _ rest => k :: rest.keys

/-- OpenAPI `enum` on a typed schema: the empty list is "no enum" (openapiv3
does not serialise it); `none` is the JSON value `null`. -/
def enumHas {α : Type} [BEq α] (e : List (Option α)) (v : Option α) : Bool :=
  e.isEmpty || e.contains v

/-- numeric keywords with OpenAPI-3.0 boolean `exclusive*` flags. -/
def NumType.ok (t : NumType) (n : Int) : Bool :=
  optAll t.multipleOf (fun m => n % m == 0) &&
  optAll t.maximum (fun m => if t.exclusiveMaximum then decide (n < m) else decide (n ≤ m)) &&
  optAll t.minimum (fun m => if t.exclusiveMinimum then decide (m < n) else decide (m ≤ n)) &&
  enumHas t.enumeration (some n)

def StringType.ok (ρ : Env) (t : StringType) (s : String) : Bool :=
  optAll t.maxLength (fun m => decide (s.length ≤ m)) &&
  optAll t.minLength (fun m => decide (m ≤ s.length)) &&
  optAll t.pattern (fun p => ρ.pat p s) &&
  enumHas t.enumeration (some s)

mutual
/-- Validity against an OpenAPI 3.0.3 schema object.  `nullable: true` admits
`null` only beside an explicit `type` (then `enum`, if any, must still list
`null`) or a composition; there is no `null` type. -/
def OAS.valid (ρ : Env) : OAS → J → Bool
  | .mk d k, j => k.valid ρ d.nullable j
def OKind.valid (ρ : Env) : OKind → Bool → J → Bool
  | .string t, nullable, j =>
    (match j with | .str s => t.ok ρ s | _ => false)
    || (nullable && j.isNull && enumHas t.enumeration none)
  | .number t, nullable, j =>
    (match j with | .num n => t.ok n | _ => false)
    || (nullable && j.isNull && enumHas t.enumeration none)
  | .integer t, nullable, j =>
    (match j with | .num n => t.ok n | _ => false)
    || (nullable && j.isNull && enumHas t.enumeration none)
  | .boolean e, nullable, j =>
    (match j with | .bool b => enumHas e (some b) | _ => false)
    || (nullable && j.isNull && enumHas e none)
  | .object props req addl minP maxP, nullable, j =>
    (match j with
      | .obj kvs =>
        optAll maxP (fun m => decide (kvs.length ≤ m))
        && optAll minP (fun m => decide (m ≤ kvs.length))
        && req.all (fun r => J.hasKey r kvs)
        && props.valid ρ kvs
        && kvs.all (fun kv => props.keys.contains kv.1 || addl.valid ρ kv.2)
      | _ => false)
    || (nullable && j.isNull)
  | .array items minI maxI uniq, nullable, j =>
    (match j with
      | .arr xs =>
        (match items with | .none => true | .some r => xs.all (fun x => r.valid ρ x))
        && optAll maxI (fun m => decide (xs.length ≤ m))
        && optAll minI (fun m => decide (m ≤ xs.length))
        && (!uniq || J.nodup xs)
      | _ => false)
    || (nullable && j.isNull)
  | .oneOf l, nullable, j => exactlyOne (l.vals ρ j) || (nullable && j.isNull)
  | .allOf l, nullable, j => (l.vals ρ j).all id || (nullable && j.isNull)
  | .anyOf l, nullable, j => (l.vals ρ j).any id || (nullable && j.isNull)
  | .not r, nullable, j => !(r.valid ρ j) || (nullable && j.isNull)
  | .any, _, _ => true
def RefOr.valid (ρ : Env) : RefOr → J → Bool
  | .ref r, j => ρ.ref r j
  | .item s, j => s.valid ρ j
def ORList.vals (ρ : Env) : ORList → J → List Bool
  | .nil, _ => []
  | .cons r rest, j => r.valid ρ j :: rest.vals ρ j
def ORProps.valid (ρ : Env) : ORProps → List (String × J) → Bool
  | .nil, _ => true
  | .cons k r rest, kvs =>
    (match J.lookup k kvs with | none => true | some v => r.valid ρ v) && rest.valid ρ kvs
def OAddl.valid (ρ : Env) : OAddl → J → Bool
  | .none, _ => true
  | .any b, _ => b
  | .schema r, j => r.valid ρ j
end

end Dropshot.Schema
