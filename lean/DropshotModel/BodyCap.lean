/-
Model of the request-body cap (dropshot/src/extractor/body.rs,
http_util.rs `http_dump_body`, handler.rs `RequestContext::request_body_max_bytes`).

`StreamingBody::into_stream` pulls frames from the body one at a time:
an I/O error ends the stream with a 400; trailers are skipped; for a data
frame of `len` bytes the test `bytes_read + len > cap` is made *before* the
frame is yielded — on excess the rest of the body is drained
(`http_dump_body`, which itself fails on the first I/O error) and the stream
ends with a 400.  `TypedBody` (`http_request_load_body`) and `UntypedBody`
buffer the very same stream (`into_bytes_mut` = `try_fold`), so in this
version there is one cap check, not three.

`usize` arithmetic is modelled with unbounded `Nat`; totals ≥ 2^64 are
outside the model (unreachable with real frame sizes).
-/
namespace Dropshot.BodyCap

abbrev Bytes := List UInt8

/-- What `Body::frame()` can produce. -/
inductive Frame where
  | data (b : Bytes)
  | trailers
  | ioError
deriving DecidableEq, Repr

/-- How the stream ends. -/
inductive Outcome where
  /-- end of body reached, everything yielded -/
  | ok
  /-- "request body exceeded maximum size of {cap} bytes" -/
  | tooLarge
  /-- "error streaming request body: {e}" -/
  | transport
deriving DecidableEq, Repr

/-- `http_dump_body`: read and drop the rest; `false` if a frame is an error. -/
def dump : List Frame → Bool
  | [] => true
  | .ioError :: _ => false
  | _ :: rest => dump rest

/-- The loop of `into_stream` with `bytes_read = read`: the chunks yielded to
the consumer, in order, and how the stream ends. -/
def streamAux (cap read : Nat) : List Frame → List Bytes × Outcome
  | [] => ([], .ok)
  | .ioError :: _ => ([], .transport)
  | .trailers :: rest => streamAux cap read rest
  | .data b :: rest =>
    if read + b.length > cap then
      ([], if dump rest then .tooLarge else .transport)
    else
      let r := streamAux cap (read + b.length) rest
      (b :: r.1, r.2)

/-- `StreamingBody::new(body, cap).into_stream()`. -/
def stream (cap : Nat) (fs : List Frame) : List Bytes × Outcome := streamAux cap 0 fs

/-- `into_bytes_mut` (what `UntypedBody` and `TypedBody` get): the
concatenation when the stream ends well, else the error. -/
def buffered (cap : Nat) (fs : List Frame) : Except Outcome Bytes :=
  match stream cap fs with
  | (cs, .ok) => .ok cs.flatten
  | (_, o) => .error o

/-- `RequestContext::request_body_max_bytes`:
`endpoint.request_body_max_bytes.unwrap_or(config.default_request_body_max_bytes)`. -/
def effectiveCap (override : Option Nat) (dflt : Nat) : Nat := override.getD dflt

/-- Status of the `HttpError` the consumer sees (`for_bad_request` in both cases). -/
def errStatus : Outcome → Option Nat
  | .ok => none
  | .tooLarge => some 400
  | .transport => some 400

/-! ### Specification vocabulary -/

/-- The data frames of a body, in order. -/
def dataOf : List Frame → List Bytes
  | [] => []
  | .data b :: rest => b :: dataOf rest
  | _ :: rest => dataOf rest

/-- The body as a byte string. -/
def content (fs : List Frame) : Bytes := (dataOf fs).flatten

def total (cs : List Bytes) : Nat := (cs.map List.length).sum

def totalData (fs : List Frame) : Nat := total (dataOf fs)

def noError : List Frame → Bool
  | [] => true
  | .ioError :: _ => false
  | _ :: rest => noError rest

/-- Running totals seen by a streaming consumer after each chunk. -/
def runningTotals : Nat → List Bytes → List Nat
  | _, [] => []
  | acc, c :: cs => (acc + c.length) :: runningTotals (acc + c.length) cs

end Dropshot.BodyCap
