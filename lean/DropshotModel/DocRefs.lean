/-
Reference bookkeeping of the OpenAPI document (`gen_openapi`): every endpoint
contributes the `$ref`s that occur inline in its operation (parameters, body,
responses, headers) and a set of named definitions (what schemars' generator
and `ReferenceVisitor` collected for it), each definition mentioning further
references.  The document's `components.schemas` is the union of the
contributed definitions; on a name clash the later contribution replaces the
earlier one (`IndexMap::extend` / `insert`).
-/
namespace Dropshot.DocRefs

/-- A named definition: its name and the names its schema refers to. -/
structure Def where
  name : String
  refs : List String
deriving Repr, DecidableEq

/-- What one endpoint adds to the document. -/
structure Contribution where
  inline : List String
  defs : List Def
deriving Repr

def Contribution.names (c : Contribution) : List String := c.defs.map (·.name)

/-- The contract of the schema generator for one endpoint: whatever the operation or one
of its definitions refers to is among its definitions. -/
def Contribution.closed (c : Contribution) : Prop :=
  (∀ r ∈ c.inline, r ∈ c.names) ∧ ∀ d ∈ c.defs, ∀ r ∈ d.refs, r ∈ c.names

/-- `components.schemas`: insert-or-replace by name, in order. -/
def insertDef (acc : List Def) (d : Def) : List Def :=
  if acc.any (·.name == d.name) then acc.map (fun x => if x.name == d.name then d else x) else acc ++ [d]

def components (cs : List Contribution) : List Def :=
  cs.foldl (fun acc c => c.defs.foldl insertDef acc) []

/-- Every reference the assembled document contains. -/
def docRefs (cs : List Contribution) : List String :=
  cs.flatMap (·.inline) ++ (components cs).flatMap (·.refs)

end Dropshot.DocRefs
