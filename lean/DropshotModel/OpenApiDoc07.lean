/-
OpenApiDoc07.lean — model for C07 ("the OpenAPI document tells the truth about
requests and responses").

* `Ty`         the universe of request / response types the check draws from;
* `schemaOf`   what schemars derives for a `Ty` under `SchemaSettings::openapi3`
               (references inlined: `Ty` is a finite tree; reference resolution
               itself is C08's `j2oas_preserves_document`);
* `decodeJson` what serde's derived `Deserialize` accepts from a JSON value;
* `formatOk`   the part of the contract that the schema only carries as the
               `format` annotation (integer widths, UUID syntax);
* `paramList`  `schema_util::schema2struct` on a parameter struct;
* `readParam` / `decodeStr` / `extractParams`  `serde_urlencoded` / path
               variables into a parameter struct;
* `loadBody`   `extractor/body.rs::http_request_load_body` (content-type table);
* `Kind`, `respond`, `docResponse`  the typed response kinds of `handler.rs` and
               what `gen_openapi` documents for them;
* `errorSchema`, `errorBody`  the hand-rolled `JsonSchema` of
               `HttpErrorResponseBody` (error.rs) and the body `into_response`
               serialises.

The coherence of schemars' derive with serde's derive is a contract of those
crates: `schemaOf` / `decodeJson` state it, the harness samples it on a fixed
family of real types.
-/
import DropshotModel.J2Oas

namespace Dropshot.Doc07
open Dropshot.Schema

/-! ## Types -/

inductive Width where
  | w8 | w16 | w32 | w64
deriving DecidableEq, Repr

def Width.bits : Width → Nat
  | .w8 => 8 | .w16 => 16 | .w32 => 32 | .w64 => 64

mutual
inductive Ty where
  | bool
  | int (w : Width) (signed : Bool)
  /-- `std::num::NonZeroU{8,16,32,64}` -/
  | nonzero (w : Width)
  | str
  | uuid
  /-- an enum with unit variants only (externally tagged: a string) -/
  | enumOf (vs : List String)
  | opt (t : Ty)
  | vec (t : Ty)
  /-- `BTreeMap<String, T>` / `HashMap<String, T>` -/
  | map (t : Ty)
  | struct (fs : Fields)
  | unit
  /-- `#[serde(untagged)] enum`: one alternative per variant, tried in order -/
  | untagged (alts : TyList)
/-- struct fields after `rename` and with `flatten`ed structs merged in;
`hasDefault` = `#[serde(default)]`. -/
inductive Fields where
  | nil
  | cons (name : String) (ty : Ty) (hasDefault : Bool) (rest : Fields)
inductive TyList where
  | nil
  | cons (t : Ty) (rest : TyList)
end

def Ty.isOpt : Ty → Bool
  | .opt _ => true
  | _ => false

/-- schemars puts these behind a `$ref` (named definitions). -/
def Ty.isRef : Ty → Bool
  | .struct _ => true
  | .enumOf _ => true
  | .untagged _ => true
  | _ => false

def intMin (w : Width) (signed : Bool) : Int := if signed then -(2 ^ (w.bits - 1) : Int) else 0
def intMax (w : Width) (signed : Bool) : Int :=
  if signed then (2 ^ (w.bits - 1) : Int) - 1 else (2 ^ w.bits : Int) - 1

def inRange (w : Width) (signed : Bool) (n : Int) : Bool :=
  decide (intMin w signed ≤ n) && decide (n ≤ intMax w signed)

def fmtName (w : Width) (signed : Bool) : String :=
  (if signed then "int" else "uint") ++ toString w.bits

def isHex (c : Char) : Bool :=
  ('0' ≤ c && c ≤ '9') || ('a' ≤ c && c ≤ 'f') || ('A' ≤ c && c ≤ 'F')

/-- hyphenated 8-4-4-4-12 form (the only spelling the generators use; the
`uuid` crate also accepts the simple, braced and URN forms). -/
def isUuid (s : String) : Bool :=
  let cs := s.toList
  cs.length == 36 &&
  (List.range 36).all fun i =>
    match cs[i]? with
    | some c => if i == 8 || i == 13 || i == 18 || i == 23 then c == '-' else isHex c
    | none => false

mutual
/-- inside the fragment on which the published schema provably means the same
(C08): no `()` (finding K3), no empty enum. -/
def Ty.wf : Ty → Bool
  | .unit => false
  | .enumOf vs => !vs.isEmpty
  | .opt t => t.wf
  | .vec t => t.wf
  | .map t => t.wf
  | .struct fs => fs.wf
  | .untagged alts => alts.wf
  | _ => true
def Fields.wf : Fields → Bool
  | .nil => true
  | .cons _ ty _ rest => ty.wf && rest.wf
def TyList.wf : TyList → Bool
  | .nil => true
  | .cons t rest => t.wf && rest.wf
end

def Fields.toList : Fields → List (String × Ty × Bool)
  | .nil => []
  | .cons n t d rest => (n, t, d) :: rest.toList

/-! ## The derived schema -/

/-- `SchemaObject { instance_type: Some(t), ..Default::default() }` with the
given groups. -/
def mkTyped (t : IType) (fmt : Option String := none) (en : Option (List J) := none)
    (num : Option NumV := none) (arr : JSArr := .none) (ob : JSObjV := .none)
    (ext : List (String × J) := []) : JS :=
  .obj none (some (.single t)) fmt en none .none num none arr ob none ext

def nullableExt : List (String × J) := [("nullable", .bool true)]

/-- `Option<T>::json_schema` with `option_nullable`: `nullable: true` is added to
the schema of `T`. -/
def withNullable : JS → JS
  | .obj md ty fmt en cv subs num str arr ob rf _ => .obj md ty fmt en cv subs num str arr ob rf nullableExt
  | s => s

/-- `{ "allOf": [s], "nullable": true }` — what `RemoveRefSiblings` makes of a
nullable reference. -/
def nullableWrap (s : JS) : JS :=
  .obj none none none none none (.some (.some (.cons s .nil)) .none .none .none .none .none .none)
    none none .none .none none nullableExt

/-- `{ "anyOf": [...] }` — what schemars derives for an untagged enum. -/
def anyOfSchema (l : JSList) : JS :=
  .obj none none none none none (.some .none (.some l) .none .none .none .none .none)
    none none .none .none none []

mutual
def schemaOf : Ty → JS
  | .bool => mkTyped .boolean
  | .int w signed =>
    mkTyped .integer (fmt := some (fmtName w signed))
      (num := if signed then none else some { minimum := some 0 })
  | .nonzero w => mkTyped .integer (fmt := some (fmtName w false)) (num := some { minimum := some 1 })
  | .str => mkTyped .string
  | .uuid => mkTyped .string (fmt := some "uuid")
  | .enumOf vs => mkTyped .string (en := some (vs.map .str))
  | .opt t => if t.isRef then nullableWrap (schemaOf t) else withNullable (schemaOf t)
  | .vec t => mkTyped .array (arr := .some (.single (schemaOf t)) .none none none none .none)
  | .map t => mkTyped .object (ob := .some none none [] .nil .nil (.some (schemaOf t)) .none)
  | .struct fs => mkTyped .object (ob := .some none none (requiredOf fs) (propsOf fs) .nil .none .none)
  | .unit => mkTyped .null
  | .untagged alts => anyOfSchema (schemaListOf alts)
def schemaListOf : TyList → JSList
  | .nil => .nil
  | .cons t rest => .cons (schemaOf t) (schemaListOf rest)
def propsOf : Fields → JSProps
  | .nil => .nil
  | .cons name ty _ rest => .cons name (schemaOf ty) (propsOf rest)
def requiredOf : Fields → List String
  | .nil => []
  | .cons name ty dflt rest => if dflt || ty.isOpt then requiredOf rest else name :: requiredOf rest
end

/-- The schema at the *root* of a body or response.  `gen_openapi` takes it from
`subschema_for::<T>()` and converts it directly; the `RemoveRefSiblings`
visitor only runs over the named definitions.  So `Option<T>` for a
referenceable `T` is `{ "$ref": T, "nullable": true }` there, of which the
converter keeps the bare `$ref`: with references inlined, the schema of `T`
itself — `null` is no longer admitted (finding K8).  Everything else is as in
`schemaOf`. -/
def rootSchemaOf : Ty → JS
  | .opt t => if t.isRef then schemaOf t else schemaOf (.opt t)
  | t => schemaOf t

/-! ## What serde accepts -/

/-- decoded values (shape only). -/
inductive Val where
  | unit
  | bool (b : Bool)
  | int (n : Int)
  | str (s : String)
  | none
  | some (v : Val)
  | list (vs : List Val)
  | map (kvs : List (String × Val))
  | struct (kvs : List (String × Val))

mutual
def decodeJson : Ty → J → Option Val
  | .bool, j => (match j with | .bool b => some (.bool b) | _ => none)
  | .int w signed, j => (match j with | .num n => if inRange w signed n then some (.int n) else none | _ => none)
  | .nonzero w, j =>
    (match j with | .num n => if decide (1 ≤ n) && decide (n ≤ intMax w false) then some (.int n) else none | _ => none)
  | .str, j => (match j with | .str s => some (.str s) | _ => none)
  | .uuid, j => (match j with | .str s => if isUuid s then some (.str s) else none | _ => none)
  | .enumOf vs, j => (match j with | .str s => if vs.contains s then some (.str s) else none | _ => none)
  | .opt t, j => if j.isNull then some .none else (decodeJson t j).map .some
  | .vec t, j => (match j with | .arr xs => (xs.mapM (decodeJson t)).map .list | _ => none)
  | .map t, j =>
    (match j with
      | .obj kvs => (kvs.mapM fun kv => (decodeJson t kv.2).map fun v => (kv.1, v)).map .map
      | _ => none)
  | .struct fs, j => (match j with | .obj kvs => (decodeFields fs kvs).map .struct | _ => none)
  | .unit, j => (match j with | .null => some .unit | _ => none)
  | .untagged alts, j => decodeAlts alts j
/-- serde's untagged strategy: the first variant that deserialises wins. -/
def decodeAlts : TyList → J → Option Val
  | .nil, _ => none
  | .cons t rest, j =>
    match decodeJson t j with
    | some v => some v
    | none => decodeAlts rest j
/-- a missing field is accepted iff it is an `Option` or has a serde default;
unknown fields are ignored. -/
def decodeFields : Fields → List (String × J) → Option (List (String × Val))
  | .nil, _ => some []
  | .cons name ty dflt rest, kvs =>
    match J.lookup name kvs with
    | none =>
      if dflt || ty.isOpt then (decodeFields rest kvs).map fun r => (name, .none) :: r else none
    | some v =>
      match decodeJson ty v with
      | none => none
      | some x => (decodeFields rest kvs).map fun r => (name, x) :: r
end

mutual
/-- what the schema states only through `format`: integer widths, UUID syntax. -/
def formatOk : Ty → J → Bool
  | .int w signed, j => (match j with | .num n => inRange w signed n | _ => true)
  | .nonzero w, j => (match j with | .num n => decide (n ≤ intMax w false) | _ => true)
  | .uuid, j => (match j with | .str s => isUuid s | _ => true)
  | .opt t, j => j.isNull || formatOk t j
  | .vec t, j => (match j with | .arr xs => xs.all (formatOk t) | _ => true)
  | .map t, j => (match j with | .obj kvs => kvs.all (fun kv => formatOk t kv.2) | _ => true)
  | .struct fs, j => (match j with | .obj kvs => formatOkFields fs kvs | _ => true)
  -- for an untagged union the side condition is per alternative: some
  -- alternative is both valid and within its formats, i.e. decodes
  | .untagged alts, j => (decodeAlts alts j).isSome
  | _, _ => true
def formatOkFields : Fields → List (String × J) → Bool
  | .nil, _ => true
  | .cons name ty _ rest, kvs =>
    (match J.lookup name kvs with | none => true | some v => formatOk ty v) && formatOkFields rest kvs
end

/-! ## Parameters (`schema2struct`, `serde_urlencoded`, path variables) -/

/-- `schema2struct` on a parameter struct: name, `required && object.required.contains(name)`,
the member schema. -/
def paramList : Fields → List (String × Bool × JS)
  | .nil => []
  | .cons name ty dflt rest => (name, !(dflt || ty.isOpt), schemaOf ty) :: paramList rest

def parseNat (cs : List Char) : Option Nat :=
  if cs.isEmpty || !cs.all Char.isDigit then none
  else some (cs.foldl (fun n c => n * 10 + (c.toNat - '0'.toNat)) 0)

/-- `str::parse::<iN/uN>()`: optional sign, decimal digits. -/
def parseInt (s : String) : Option Int :=
  match s.toList with
  | '-' :: rest => (parseNat rest).map fun n => -(n : Int)
  | '+' :: rest => (parseNat rest).map fun n => (n : Int)
  | cs => (parseNat cs).map fun n => (n : Int)

/-- the JSON value a parameter string stands for, read by the documented type. -/
def readParam : Ty → String → Option J
  | .bool, s => if s == "true" then some (.bool true) else if s == "false" then some (.bool false) else none
  | .int _ _, s => (parseInt s).map .num
  | .nonzero _, s => (parseInt s).map .num
  | .str, s => some (.str s)
  | .uuid, s => some (.str s)
  | .enumOf _, s => some (.str s)
  | .opt t, s => readParam t s
  | _, _ => none

def decodeStr (t : Ty) (s : String) : Option Val := (readParam t s).bind (decodeJson t)

def lookupStr (k : String) : List (String × String) → Option String
  | [] => none
  | (l, v) :: rest => if k == l then some v else lookupStr k rest

/-- `Query<T>` / `Path<T>` extraction into a struct: 400 on a missing required
member or an unreadable value; unknown keys ignored. -/
def extractParams : Fields → List (String × String) → Except Nat (List (String × Val))
  | .nil, _ => .ok []
  | .cons name ty dflt rest, q =>
    match lookupStr name q with
    | none =>
      if dflt || ty.isOpt then
        (match extractParams rest q with | .ok r => .ok ((name, .none) :: r) | .error e => .error e)
      else .error 400
    | some v =>
      match decodeStr ty v with
      | none => .error 400
      | some x =>
        match extractParams rest q with | .ok r => .ok ((name, x) :: r) | .error e => .error e

/-! ### Two quirks of the code as it stands (kept in the model; see notes/C07.md)

* a member reached through `#[serde(flatten)]` is buffered by serde as string
  content, and only string-like members can be read back from it: a numeric or
  boolean member of a flattened struct makes `Query<T>` extraction fail with
  400 whenever it is supplied;
* `HttpResponseHeaders<_, H>` serialises `H` with `to_map`, whose value
  serialiser accepts strings only: any other member type (integers, `Option`)
  makes every response a 500. -/

def Ty.stringly : Ty → Bool
  | .str => true
  | .uuid => true
  | .enumOf _ => true
  | .opt t => t.stringly
  | _ => false

def Fields.lookup (n : String) : Fields → Option Ty
  | .nil => none
  | .cons name ty _ rest => if n == name then some ty else rest.lookup n

/-- some supplied member comes from a flattened struct and is not string-like. -/
def flatBlocked (flat : List String) (fs : Fields) (q : List (String × String)) : Bool :=
  q.any (fun kv => flat.contains kv.1 &&
    (match fs.lookup kv.1 with | some t => !t.stringly | none => false))

/-- `Query<T>` extraction where the members named in `flat` come from a
flattened struct. -/
def extractParamsFlat (flat : List String) (fs : Fields) (q : List (String × String)) :
    Except Nat (List (String × Val)) :=
  if flatBlocked flat fs q then .error 400 else extractParams fs q

/-- can `to_map` serialise a header struct with these members? -/
def headersSerialisable : Fields → Bool
  | .nil => true
  | .cons _ ty _ rest => (match ty with | .str => true | _ => false) && headersSerialisable rest

/-! ## Request bodies -/

/-- `ApiEndpointBodyContentType`. -/
inductive BodyCT where
  | bytes | json | urlEncoded | multipart
deriving DecidableEq, Repr

/-- `ApiEndpointBodyContentType::from_mime_type`. -/
def BodyCT.ofMime (m : String) : Option BodyCT :=
  if m == "application/octet-stream" then some .bytes
  else if m == "application/json" then some .json
  else if m == "application/x-www-form-urlencoded" then some .urlEncoded
  else if m == "multipart/form-data" then some .multipart
  else none

def BodyCT.mime : BodyCT → String
  | .bytes => "application/octet-stream" | .json => "application/json"
  | .urlEncoded => "application/x-www-form-urlencoded" | .multipart => "multipart/form-data"

/-- `http_request_load_body` for a `TypedBody<T>` endpoint that expects JSON:
the media type (already lower-cased and stripped of parameters; `None` = no
`Content-Type` header = JSON) must be JSON and the parsed body must decode. -/
def loadBody (t : Ty) (mime : Option String) (body : Option J) : Except Nat Val :=
  match BodyCT.ofMime (mime.getD "application/json") with
  | none => .error 400
  | some .json =>
    (match body with
      | none => .error 400                        -- not JSON at all
      | some j => match decodeJson t j with | some v => .ok v | none => .error 400)
  | some _ => .error 400

/-- a `TypedBody<T>` endpoint declared with
`content_type = "application/x-www-form-urlencoded"`: the media type must be
that one, and the pairs must extract into the struct. -/
def loadForm (fs : Fields) (mime : Option String) (pairs : List (String × String)) :
    Except Nat (List (String × Val)) :=
  match BodyCT.ofMime (mime.getD "application/json") with
  | some .urlEncoded => extractParams fs pairs
  | _ => .error 400

/-- `MultipartBody`: a `Content-Type` header is mandatory, must be
`multipart/form-data` and carry a `boundary` parameter (`multer::parse_boundary`). -/
def loadMultipart (mime : Option String) (hasBoundary : Bool) : Except Nat Unit :=
  match mime with
  | none => .error 400
  | some m => if BodyCT.ofMime m == some .multipart && hasBoundary then .ok () else .error 400

/-- `UntypedBody` / `StreamingBody`: the media type is not looked at. -/
def loadBytes (_mime : Option String) : Except Nat Unit := .ok ()

/-- the media type an extractor documents for the request body, from the
declaration: `TypedBody` takes the endpoint's `content_type` (default JSON),
`MultipartBody` and `UntypedBody` fix their own — however many other
extractors the handler has. -/
def documentedBodyCT : BodyCT → String := BodyCT.mime

/-! ## Responses -/

/-- the typed response kinds of handler.rs. -/
inductive Kind where
  | ok | created | accepted | deleted | updatedNoContent | found | seeOther | temporaryRedirect
deriving DecidableEq, Repr

def Kind.status : Kind → Nat
  | .ok => 200 | .created => 201 | .accepted => 202 | .deleted => 204 | .updatedNoContent => 204
  | .found => 302 | .seeOther => 303 | .temporaryRedirect => 307

/-- kinds whose `Body` is a serialisable `T` (the others use `Empty`). -/
def Kind.hasBody : Kind → Bool
  | .ok | .created | .accepted => true
  | _ => false

structure Response where
  status : Nat
  contentType : Option String
  body : Option J

/-- `HttpCodedResponse::for_object`: the kind's status constant; a JSON body
with `content-type: application/json`, or no body and no content type. -/
def respond (k : Kind) (body : J) : Response :=
  if k.hasBody then ⟨k.status, some "application/json", some body⟩ else ⟨k.status, none, none⟩

/-- a response of kind `k` from an endpoint whose declared header struct is
`hdr` (`HttpResponseHeaders<_, H>`): when `to_map` cannot serialise `H` the
handler's result is turned into a 500. -/
def respondH (hdr : Option Fields) (k : Kind) (body : J) : Response :=
  match hdr with
  | some fs => if headersSerialisable fs then respond k body else ⟨500, some "application/json", none⟩
  | none => respond k body

structure DocResponse where
  status : Nat
  /-- media type ↦ schema; empty for `Empty` bodies (`is_empty`) -/
  content : List (String × JS)

/-- what `gen_openapi` records for the success response of an endpoint of kind
`k` with response type `t`. -/
def docResponse (k : Kind) (t : Ty) : DocResponse :=
  ⟨k.status, if k.hasBody then [("application/json", schemaOf t)] else []⟩

/-! ## Errors -/

/-- the hand-rolled schema of `HttpErrorResponseBody` (error.rs 143–184). -/
def errorSchema : JS :=
  .obj (some { description := some "Error information from a response." }) (some (.single .object))
    none none none .none none none .none
    (.some none none ["message", "request_id"]
      (.cons "error_code" (mkTyped .string) (.cons "message" (mkTyped .string)
        (.cons "request_id" (mkTyped .string) .nil)))
      .nil .none .none)
    none []

/-- the body `HttpError::into_response` serialises (`error_code` skipped when
`None`). -/
def errorBody (message : String) (errorCode : Option String) (requestId : String) : J :=
  .obj ([("request_id", .str requestId)]
    ++ (match errorCode with | some c => [("error_code", .str c)] | none => [])
    ++ [("message", .str message)])

end Dropshot.Doc07
