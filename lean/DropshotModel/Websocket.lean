/-
Model of the WebSocket upgrade handshake of dropshot
(`dropshot/src/websocket.rs`: `header_list_contains`,
`WebsocketUpgrade::from_request`, `derive_accept_key`, `WebsocketUpgrade::handle`)
and, written independently, the server-side requirement of RFC 6455 §4.2.1 over
the RFC 7230 list grammar (`rfcHandshake`).

Representation: a byte is a `Nat` (< 256 on real input), a byte string is a
`List Nat`, the request's header multimap is the list of
`(lower-case name, value)` pairs in wire order (`http::HeaderMap` keeps the
values of one name in insertion order; `get` returns the first, `get_all`
iterates all of them).
-/
import DropshotModel.Sha1
import DropshotModel.Base64

namespace Dropshot.Websocket

/-! ### Constants (explicit byte lists so that `decide` can evaluate them) -/

/-- `connection` -/
def hConnection : List Nat := [99, 111, 110, 110, 101, 99, 116, 105, 111, 110]
/-- `upgrade` (header name and, lower-case, the connection option) -/
def hUpgrade : List Nat := [117, 112, 103, 114, 97, 100, 101]
/-- `sec-websocket-version` -/
def hVersion : List Nat :=
  [115, 101, 99, 45, 119, 101, 98, 115, 111, 99, 107, 101, 116, 45, 118, 101, 114, 115, 105, 111, 110]
/-- `sec-websocket-key` -/
def hKey : List Nat :=
  [115, 101, 99, 45, 119, 101, 98, 115, 111, 99, 107, 101, 116, 45, 107, 101, 121]
/-- `sec-websocket-accept` -/
def hAccept : List Nat :=
  [115, 101, 99, 45, 119, 101, 98, 115, 111, 99, 107, 101, 116, 45, 97, 99, 99, 101, 112, 116]
/-- `upgrade` -/
def tUpgrade : List Nat := hUpgrade
/-- `websocket` -/
def tWebsocket : List Nat := [119, 101, 98, 115, 111, 99, 107, 101, 116]
/-- `13` -/
def v13 : List Nat := [49, 51]
/-- `Upgrade` (the value `handle` puts into the response's Connection header) -/
def vUpgradeCap : List Nat := [85, 112, 103, 114, 97, 100, 101]
/-- `258EAFA5-E914-47DA-95CA-C5AB0DC85B11` -/
def guid : List Nat :=
  [50, 53, 56, 69, 65, 70, 65, 53, 45, 69, 57, 49, 52, 45, 52, 55, 68, 65, 45, 57, 53, 67, 65, 45,
   67, 53, 65, 66, 48, 68, 67, 56, 53, 66, 49, 49]

abbrev Headers := List (List Nat × List Nat)

/-! ### The code: `header_list_contains`, `from_request`, `derive_accept_key`, `handle` -/

/-- `HeaderMap::get_all(name)`: every value of that name, in wire order. -/
def getAll (hdrs : Headers) (name : List Nat) : List (List Nat) :=
  hdrs.filterMap fun h => if h.1 = name then some h.2 else none

/-- `HeaderMap::get(name)`: the first value of that name. -/
def getFirst (hdrs : Headers) (name : List Nat) : Option (List Nat) :=
  (getAll hdrs name).head?

/-- A byte `HeaderValue::to_str` accepts: visible ASCII, SP or HTAB. -/
def isVisible (b : Nat) : Bool := (32 ≤ b && b < 127) || b == 9

/-- `HeaderValue::to_str().ok()`. -/
def toStr (v : List Nat) : Option (List Nat) :=
  if v.all isVisible then some v else none

def isComma (b : Nat) : Bool := b == 44
/-- Optional whitespace of RFC 7230: SP or HTAB. -/
def isOWS (b : Nat) : Bool := b == 32 || b == 9
/-- The separator set of `header_list_contains`: `','`, `' '`, `'\t'`. -/
def isSep (b : Nat) : Bool := isComma b || isOWS b
/-- The separator set before the repair of D5: `','`, `' '`. -/
def isSepAsIs (b : Nat) : Bool := b == 44 || b == 32

/-- `str::split(pred)` as (first piece, remaining pieces). -/
def split1 (p : Nat → Bool) : List Nat → List Nat × List (List Nat)
  | [] => ([], [])
  | b :: bs =>
    let r := split1 p bs
    if p b then ([], r.1 :: r.2) else (b :: r.1, r.2)

/-- `str::split(pred)`: `n` separators give `n + 1` pieces, empty pieces included. -/
def splitOn (p : Nat → Bool) (v : List Nat) : List (List Nat) :=
  (split1 p v).1 :: (split1 p v).2

/-- `u8::to_ascii_lowercase`. -/
def lower (b : Nat) : Nat := if 65 ≤ b ∧ b ≤ 90 then b + 32 else b

/-- `str::eq_ignore_ascii_case`. -/
def eqIgnoreCase (a b : List Nat) : Bool := a.map lower == b.map lower

/-- The closure body of `header_list_contains` on one header line. -/
def lineContains (tok v : List Nat) : Bool :=
  (splitOn isSep v).any fun e => eqIgnoreCase e tok

/-- `header_list_contains(headers, name, token)` as the code now stands: every
line of that name that is `to_str`-able, split on `','`, `' '`, `'\t'`,
compared ASCII-case-insensitively. -/
def listContains (hdrs : Headers) (name tok : List Nat) : Bool :=
  ((getAll hdrs name).filterMap toStr).any (lineContains tok)

/-- The pre-repair test (defect D5): only the first line, split on `','` and `' '`. -/
def listContainsAsIs (hdrs : Headers) (name tok : List Nat) : Bool :=
  match (getFirst hdrs name).bind toStr with
  | none => false
  | some v => (splitOn isSepAsIs v).any fun e => eqIgnoreCase e tok

/-- `derive_accept_key`: base64 (standard alphabet, padded) of the SHA-1 of the
key bytes followed by the RFC 6455 GUID. -/
def acceptKey (key : List Nat) : List Nat :=
  Base64.encode .standard (Sha1.sha1 (key ++ guid))

/-- Which check of `from_request` failed (each is `HttpError::for_bad_request`). -/
inductive HsErr where
  | oldHttp               -- "websocket upgrade requires HTTP/1.1" (repair of K20a)
  | noConnectionUpgrade   -- "expected connection upgrade"
  | noUpgradeWebsocket    -- "unexpected protocol for upgrade"
  | badVersion            -- "missing or invalid websocket version"
  | noKey                 -- "missing websocket key"
deriving DecidableEq, Repr

/-- Every failure of `from_request` is `HttpError::for_bad_request`: 400. -/
def HsErr.status : HsErr → Nat
  | _ => 400

/-- `WebsocketUpgrade::from_request`, checks in the code's order.  The key is
whatever bytes the first `Sec-WebSocket-Key` line carries (not validated, may
be empty); the result is the accept key stored in the extractor. -/
def handshakeWith (contains : Headers → List Nat → List Nat → Bool) (hdrs : Headers) :
    Except HsErr (List Nat) :=
  if !contains hdrs hConnection tUpgrade then .error .noConnectionUpgrade
  else if !contains hdrs hUpgrade tWebsocket then .error .noUpgradeWebsocket
  else if getFirst hdrs hVersion != some v13 then .error .badVersion
  else match getFirst hdrs hKey with
    | none => .error .noKey
    | some k => .ok (acceptKey k)

def handshake (hdrs : Headers) : Except HsErr (List Nat) := handshakeWith listContains hdrs

/-- The failed check, if any. -/
def failure (r : Except HsErr (List Nat)) : Option HsErr :=
  match r with
  | .ok _ => none
  | .error e => some e

/-- `from_request` before the repair of D5 (regression witness only). -/
def handshakeAsIs (hdrs : Headers) : Except HsErr (List Nat) := handshakeWith listContainsAsIs hdrs

/-- What the endpoint answers (status and the headers dropshot itself sets). -/
structure Response where
  status : Nat
  headers : Headers
deriving DecidableEq, Repr

/-- `WebsocketUpgrade::handle`: 101 with `Connection: Upgrade`,
`Upgrade: websocket`, `Sec-WebSocket-Accept: <accept key>`, in this order. -/
def switching (accept : List Nat) : Response :=
  { status := 101
    headers := [(hConnection, vUpgradeCap), (hUpgrade, tWebsocket), (hAccept, accept)] }

/-- The channel endpoint's answer: extractor failure → the error's status (no
handshake headers), success → `handle`'s 101. -/
def respond (hdrs : Headers) : Response :=
  match handshake hdrs with
  | .ok a => switching a
  | .error e => { status := e.status, headers := [] }

/-- The connection is handed to the channel handler iff the answer is 101. -/
def upgraded (hdrs : Headers) : Bool := (respond hdrs).status == 101

/-- `from_request` including its first check (repair of K20a):
`request.version() < HTTP/1.1` is refused before any header is looked at.
`http11` says whether the request's version is HTTP/1.1 or later; `handshake`
is the rest of the function, i.e. the HTTP/1.1 case. -/
def handshakeReq (http11 : Bool) (hdrs : Headers) : Except HsErr (List Nat) :=
  if !http11 then .error .oldHttp else handshake hdrs

/-- The channel endpoint's answer to a request of the given HTTP version. -/
def respondReq (http11 : Bool) (hdrs : Headers) : Response :=
  match handshakeReq http11 hdrs with
  | .ok a => switching a
  | .error e => { status := e.status, headers := [] }

/-! ### The specification: RFC 7230 lists, RFC 6455 §4.2.1 -/

/-- RFC 7230 §3.2.6 `tchar`. -/
def isTchar (b : Nat) : Bool :=
  (48 ≤ b && b ≤ 57) || (65 ≤ b && b ≤ 90) || (97 ≤ b && b ≤ 122) ||
  b == 33 || b == 35 || b == 36 || b == 37 || b == 38 || b == 39 || b == 42 || b == 43 ||
  b == 45 || b == 46 || b == 94 || b == 95 || b == 96 || b == 124 || b == 126

/-- RFC 7230 `token = 1*tchar`. -/
def isToken (t : List Nat) : Bool := !t.isEmpty && t.all isTchar

/-- RFC 7230 §6.7 `protocol = protocol-name ["/" protocol-version]`, both tokens. -/
def isProtocol (t : List Nat) : Bool :=
  match splitOn (· == 47) t with
  | [a] => isToken a
  | [a, b] => isToken a && isToken b
  | _ => false

/-- Strip optional whitespace from both ends. -/
def trimOWS (x : List Nat) : List Nat :=
  ((x.dropWhile isOWS).reverse.dropWhile isOWS).reverse

/-- RFC 7230 §7 `#element` as a recipient must read it: split at commas, strip
OWS around each piece, ignore empty elements. -/
def listElems (v : List Nat) : List (List Nat) :=
  ((splitOn isComma v).map trimOWS).filter fun e => !e.isEmpty

/-- RFC 7230 §3.2.2: several header lines of one list-valued field are
equivalent to one line with the values joined by commas, in order. -/
def combine : List (List Nat) → List Nat
  | [] => []
  | [v] => v
  | v :: vs => v ++ 44 :: combine vs

/-- The elements of the list-valued header `name` (empty when absent). -/
def fieldElems (hdrs : Headers) (name : List Nat) : List (List Nat) :=
  listElems (combine (getAll hdrs name))

/-- A header line that matches `#elem` (in the lenient recipient form with
empty elements): every comma-separated piece is OWS, or one `elem` with OWS
around it. -/
def legalLine (elem : List Nat → Bool) (v : List Nat) : Bool :=
  (splitOn isComma v).all fun piece => (trimOWS piece).isEmpty || elem (trimOWS piece)

/-- Every `Connection` line is a legal `#connection-option` (`token`) list and
every `Upgrade` line a legal `#protocol` list. -/
def legalLists (hdrs : Headers) : Bool :=
  (getAll hdrs hConnection).all (legalLine isToken) &&
  (getAll hdrs hUpgrade).all (legalLine isProtocol)

/-- RFC 6455 §4.2.1 item 4: a `Connection` field that includes the token
`Upgrade`, case-insensitively. -/
def rfcConnection (hdrs : Headers) : Bool :=
  (fieldElems hdrs hConnection).any fun e => e.map lower == tUpgrade

/-- RFC 6455 §4.2.1 item 3: an `Upgrade` field containing `websocket`,
case-insensitively. -/
def rfcUpgrade (hdrs : Headers) : Bool :=
  (fieldElems hdrs hUpgrade).any fun e => e.map lower == tWebsocket

/-- RFC 6455 §4.2.1 item 6: `Sec-WebSocket-Version` with the value 13.  (§4.1:
the field MUST NOT appear more than once; with several lines the first one is
the one taken, as the code does.) -/
def rfcVersion (hdrs : Headers) : Bool :=
  match getAll hdrs hVersion with
  | v :: _ => v == v13
  | [] => false

/-- The property's "a key": a `Sec-WebSocket-Key` field is present. -/
def rfcKey (hdrs : Headers) : Bool := !(getAll hdrs hKey).isEmpty

/-- RFC 6455 §4.2.1 item 5 in full: the key is the base64 encoding of 16 bytes.
Stricter than the property text; **not** enforced by the code (see
`C20.key_not_validated`). -/
def rfcKeyStrict (hdrs : Headers) : Bool :=
  match getAll hdrs hKey with
  | k :: _ => match Base64.decode .standard k with
    | some raw => raw.length == 16
    | none => false
  | [] => false

/-- The four handshake elements of the property, by the RFCs' grammar. -/
def rfcHandshake (hdrs : Headers) : Bool :=
  rfcConnection hdrs && rfcUpgrade hdrs && rfcVersion hdrs && rfcKey hdrs

/-- Remove every line of one header (used to state "an element is missing"). -/
def remove (name : List Nat) (hdrs : Headers) : Headers := hdrs.filter fun h => h.1 ≠ name

/-! ### hyper's request parser, as far as the harness relies on it -/

/-- A byte hyper/httparse accepts inside a header value: HTAB, SP, visible
ASCII and obs-text; control characters and DEL make the request a 400 before
dropshot sees it. -/
def wireByteOk (b : Nat) : Bool := b == 9 || (32 ≤ b && b != 127)

/-- hyper strips optional whitespace around a header value. -/
def wireValue (raw : List Nat) : List Nat := trimOWS raw

end Dropshot.Websocket
