/-
Model of the checks `ApiDescription::register` performs before handing the
endpoint to the router (dropshot/src/api_description.rs `validate_tags`,
`validate_path_parameters`, `validate_named_parameters`) and of the schema
classification they rely on (dropshot/src/type_util.rs).
-/
import DropshotModel.Router

namespace Dropshot

/-! ### Tags -/

inductive TagPolicy | any | atLeastOne | exactlyOne
deriving DecidableEq, Repr

structure TagConfig where
  policy : TagPolicy
  allowOther : Bool
  defined : List String
deriving Repr

inductive RegisterErr where
  | tagAtLeastOne | tagExactlyOne | tagInvalid
  | pathParamsMismatch     -- template variables ≠ declared path parameters
  | bothPathAndQuery
  | notScalar | notStringArray
deriving DecidableEq, Repr

/-- `validate_tags`: only endpoints that appear in the document are checked. -/
def validateTags (cfg : TagConfig) (visible : Bool) (tags : List String) : Option RegisterErr :=
  if !visible then none else
  match cfg.policy, tags.length with
  | .atLeastOne, 0 => some .tagAtLeastOne
  | .exactlyOne, n => if n ≠ 1 then some .tagExactlyOne else
      (if !cfg.allowOther && tags.any (fun t => !cfg.defined.contains t) then some .tagInvalid else none)
  | _, _ => if !cfg.allowOther && tags.any (fun t => !cfg.defined.contains t) then some .tagInvalid else none

/-! ### Parameter schemas as `type_util.rs` sees them -/

inductive Inst | bool | number | string | integer | array | object | null
deriving DecidableEq, Repr

inductive SubKind | allOf | anyOf | oneOf
deriving DecidableEq, Repr

/-- The shapes of `schemars::schema::Schema` the classification distinguishes. -/
inductive Shape where
  /-- a single instance type, no subschemas; `plain` = neither array nor object validation present -/
  | typed (t : Inst) (plain : Bool)
  /-- nothing but subschemas of one kind -/
  | sub (k : SubKind) (subs : List Shape)
  /-- `{"$ref": "#/components/schemas/<name>"}` and nothing else -/
  | ref (name : String)
  /-- `type: array` with a single item schema and nothing else -/
  | arrayOf (item : Shape)
  /-- anything else (boolean schemas, type lists, mixed objects, …) -/
  | other
deriving Repr

abbrev Deps := List (String × Shape)

/-- `type_resolve`: follow references (the harness generates no cycles; fuel
bounds the chain by the number of definitions). -/
def resolve (deps : Deps) : Nat → Shape → Shape
  | 0, s => s
  | fuel + 1, .ref n =>
    match deps.find? (fun d => d.1 == n) with
    | some d => resolve deps fuel d.2
    | none => .other
  | _, s => s

mutual
  /-- `type_is_scalar_common` with the instance-type predicate `ok`. -/
  def isScalarWith (ok : Inst → Bool) (deps : Deps) : Nat → Shape → Bool
    | 0, _ => false
    | fuel + 1, s =>
      match resolve deps (deps.length + 1) s with
      | .typed t plain => plain && ok t
      | .sub k subs =>
        match k with
        | .oneOf => allScalarWith ok deps fuel subs
        | _ => match subs with
          | [one] => isScalarWith ok deps fuel one
          | _ => false
      | _ => false
  def allScalarWith (ok : Inst → Bool) (deps : Deps) : Nat → List Shape → Bool
    | _, [] => true
    | fuel, s :: rest => isScalarWith ok deps fuel s && allScalarWith ok deps fuel rest
end

def scalarInst : Inst → Bool
  | .bool | .number | .string | .integer => true
  | _ => false

def stringInst : Inst → Bool
  | .string => true
  | _ => false

/-- `type_is_scalar` -/
def typeIsScalar (deps : Deps) (s : Shape) : Bool := isScalarWith scalarInst deps 64 s

/-- `type_is_string_enum` (despite its name: an array of strings) -/
def typeIsStringArray (deps : Deps) (s : Shape) : Bool :=
  match resolve deps (deps.length + 1) s with
  | .arrayOf item => isScalarWith stringInst deps 64 item
  | _ => false

/-! ### Named parameters -/

inductive ParamLoc | path | query | body
deriving DecidableEq, Repr

structure Param where
  loc : ParamLoc
  name : String
  shape : Shape
deriving Repr

def templateVars (p : List Seg) : List (String × Bool) :=
  p.filterMap fun s => match s with
    | .lit _ => none | .var n => some (n, false) | .wild n => some (n, true)

def sameSet (a b : List String) : Bool := a.all (b.contains ·) && b.all (a.contains ·)

/-- `validate_path_parameters`: the template's variables and the declared path
parameters must be the same set. -/
def validatePathParams (tpl : List Seg) (params : List Param) : Option RegisterErr :=
  let vars := (templateVars tpl).map (·.1)
  let declared := (params.filter (·.loc == .path)).map (·.name)
  if sameSet vars declared then none else some .pathParamsMismatch

/-- `validate_named_parameters`, in declaration order; the template's variables
are collected into a map, so for a repeated name the last occurrence decides. -/
def validateNamedParams (tpl : List Seg) (deps : Deps) : List Param → Option RegisterErr
  | [] => none
  | p :: rest =>
    let kindOf (n : String) : Option Bool := ((templateVars tpl).reverse.find? (fun v => v.1 == n)).map (·.2)
    let here : Option RegisterErr :=
      match p.loc with
      | .body => none
      | .path =>
        match kindOf p.name with
        | some false => if typeIsScalar deps p.shape then none else some .notScalar
        | some true => if typeIsStringArray deps p.shape then none else some .notStringArray
        | none => none  -- excluded by validatePathParams (the real code panics)
      | .query =>
        if (kindOf p.name).isSome then some .bothPathAndQuery
        else if typeIsScalar deps p.shape then none else some .notScalar
    match here with
    | some e => some e
    | none => validateNamedParams tpl deps rest

/-- The three validators in the order `register` runs them. -/
def validateEndpoint (cfg : TagConfig) (visible : Bool) (tags : List String) (tpl : List Seg)
    (deps : Deps) (params : List Param) : Option RegisterErr :=
  match validateTags cfg visible tags with
  | some e => some e
  | none =>
    match validatePathParams tpl params with
    | some e => some e
    | none => validateNamedParams tpl deps params

end Dropshot
