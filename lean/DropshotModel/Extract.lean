/-
Model of dropshot's request extractors (C09, C10):

* Rust's `FromStr` for the integer types, `bool` and `char` (what
  `from_map.rs` `de_value!` and `serde_urlencoded`'s `forward_parsed_value!`
  call);
* `from_map.rs` (`mapDe`): serde's derived struct visitor driven by the
  `MapDeserializer` over a `BTreeMap<String, VariableValue>`;
* `form_urlencoded::parse` + `serde_urlencoded` (`parseQuery`, `extractQuery`)
  as used by `extractor/query.rs` and the url-encoded arm of
  `extractor/body.rs`;
* the content-type handling of `http_request_load_body` (`loadBody`);
* RFC 7230 §4.1 chunked transfer coding (`chunk` / `dechunk`);
* `multer::parse_boundary` = the `mime` 0.3 parser + `get_param("boundary")`
  (`boundaryOf`), and the pre-repair `split("boundary=").nth(1)`
  (`boundaryAsIs`, defect D4);
* `HttpRouteHandler::handle_request` (`handle`: extract, then call or respond)
  and `RequestInfo::new` (`mkContext`).

Conventions (shared with Percent / Utf8 / Path): a byte string is a `List Nat`
with elements < 256; a Rust `String` is its UTF-8 byte string; a `char` is its
scalar value.  Integers are unbounded (`Nat` / `Int`) with explicit width checks.

External crates are *modelled, not verified*; the C09/C10 correspondence
streams compare every definition here with the crate or with a live server.
-/
import DropshotModel.Percent
import DropshotModel.Utf8
import DropshotModel.Path

namespace Dropshot.Extract
open Dropshot Dropshot.Percent Dropshot.Utf8

/-! ## 1. Scalars: Rust's `FromStr` -/

/-- `(c as char).to_digit(10)` -/
def digitVal (c : Nat) : Option Nat := if 48 ≤ c ∧ c ≤ 57 then some (c - 48) else none

/-- The digit loop of `from_str_radix(_, 10)` on an unbounded accumulator:
every byte must be an ASCII digit.  (Rust checks for overflow at each step;
since the accumulator only grows this is the same as one check at the end.) -/
def decAcc : Bytes → Nat → Option Nat
  | [], acc => some acc
  | c :: cs, acc =>
    match digitVal c with
    | some d => decAcc cs (acc * 10 + d)
    | none => none

/-- `"…".parse::<uN>()` for `N = w`: optional leading `+`, at least one digit,
nothing else, value < 2^w. -/
def parseUInt (w : Nat) (s : Bytes) : Option Nat :=
  let digits := match s with
    | 43 :: rest => rest
    | _ => s
  match digits with
  | [] => none
  | _ :: _ =>
    match decAcc digits 0 with
    | some n => if n < 2 ^ w then some n else none
    | none => none

/-- `"…".parse::<iN>()` for `N = w`: optional leading `+` or `-`, at least one
digit, nothing else, -2^(w-1) ≤ value < 2^(w-1). -/
def parseInt (w : Nat) (s : Bytes) : Option Int :=
  match s with
  | [] => none
  | 45 :: rest =>
    match rest with
    | [] => none
    | _ :: _ =>
      match decAcc rest 0 with
      | some n => if n ≤ 2 ^ (w - 1) then some (-(n : Int)) else none
      | none => none
  | 43 :: rest =>
    match rest with
    | [] => none
    | _ :: _ =>
      match decAcc rest 0 with
      | some n => if n < 2 ^ (w - 1) then some (n : Int) else none
      | none => none
  | _ :: _ =>
    match decAcc s 0 with
    | some n => if n < 2 ^ (w - 1) then some (n : Int) else none
    | none => none

/-- `"true"` / `"false"` -/
def sTrue : Bytes := [116, 114, 117, 101]
def sFalse : Bytes := [102, 97, 108, 115, 101]

/-- `"…".parse::<bool>()` -/
def parseBool (s : Bytes) : Option Bool :=
  if s = sTrue then some true else if s = sFalse then some false else none

/-- `"…".parse::<char>()`: exactly one scalar value. -/
def parseChar (s : Bytes) : Option Nat :=
  match utf8Decode s with
  | some [c] => some c
  | _ => none

/-- Decimal rendering (`Display` for the integer types), most significant digit
first; `tail` is what follows. -/
def renderAux (n : Nat) (tail : Bytes) : Bytes :=
  if n < 10 then (48 + n) :: tail else renderAux (n / 10) ((48 + n % 10) :: tail)
termination_by n
decreasing_by omega

def renderNat (n : Nat) : Bytes := renderAux n []

def renderInt (i : Int) : Bytes :=
  if i < 0 then 45 :: renderNat i.natAbs else renderNat i.toNat

/-! ## 2. The universe of parameter types -/

/-- Types a single string is parsed into. -/
inductive STy where
  | bool
  | uint (w : Nat)          -- u8 u16 u32 u64
  | int (w : Nat)           -- i8 i16 i32 i64
  | string
  | char
  | enum (variants : List Bytes)   -- unit variants, by (renamed) name
deriving DecidableEq, Repr

/-- Field types of a flat struct. -/
inductive FTy where
  | scalar (t : STy)
  | option (t : STy)        -- Option<T>
  | seq (t : STy)           -- Vec<T>: only a wildcard path variable can fill it
  | nested                  -- a struct-typed field (always refused)
deriving DecidableEq, Repr

/-- A parameter type: a flat struct (fields in declaration order, serde names),
or a bare type used where a struct is required (always refused). -/
inductive Ty where
  | struct (fields : List (Bytes × FTy))
  | bare (t : FTy)
deriving DecidableEq, Repr

inductive SVal where
  | bool (b : Bool)
  | nat (n : Nat)
  | int (i : Int)
  | str (s : Bytes)
  | chr (c : Nat)
  | variant (name : Bytes)
deriving DecidableEq, Repr

inductive FVal where
  | scalar (v : SVal)
  | none
  | some (v : SVal)
  | seq (vs : List SVal)
deriving DecidableEq, Repr

/-- A struct value: (field name, value) in declaration order. -/
abbrev Val := List (Bytes × FVal)

/-- `v` is a value of scalar type `t`. -/
def SVal.hasTy : SVal → STy → Bool
  | .bool _, .bool => true
  | .nat n, .uint w => decide (n < 2 ^ w)
  | .int i, .int w => decide (-(2 ^ (w - 1) : Int) ≤ i ∧ i < (2 ^ (w - 1) : Int))
  | .str _, .string => true
  | .chr c, .char => isScalar c
  | .variant n, .enum vs => vs.contains n
  | _, _ => false

def FVal.hasTy : FVal → FTy → Bool
  | .scalar v, .scalar t => v.hasTy t
  | .none, .option _ => true
  | .some v, .option t => v.hasTy t
  | .seq vs, .seq t => vs.all (·.hasTy t)
  | _, _ => false

/-- The one string a client writes for a scalar. -/
def SVal.render : SVal → Bytes
  | .bool true => sTrue
  | .bool false => sFalse
  | .nat n => renderNat n
  | .int i => renderInt i
  | .str s => s
  | .chr c => utf8Encode c
  | .variant n => n

/-- Why a deserialisation failed (message texts are not modelled). -/
inductive DeErr where
  | parse       -- a string did not parse as the scalar type
  | missing     -- "missing field"
  | variant     -- "unknown variant"
  | duplicate   -- "duplicate field"
  | shape       -- sequence where a value is needed or vice versa; bare type; nested struct
deriving DecidableEq, Repr

/-- Deserialise one string as a scalar (`MapDeserializer::Value` /
`serde_urlencoded::de::Part`). -/
def deScalar : STy → Bytes → Except DeErr SVal
  | .bool, s => match parseBool s with | some b => .ok (.bool b) | none => .error .parse
  | .uint w, s => match parseUInt w s with | some n => .ok (.nat n) | none => .error .parse
  | .int w, s => match parseInt w s with | some i => .ok (.int i) | none => .error .parse
  | .string, s => .ok (.str s)
  | .char, s => match parseChar s with | some c => .ok (.chr c) | none => .error .parse
  | .enum vs, s => if vs.contains s then .ok (.variant s) else .error .variant

/-- `VariableValue` (router.rs) -/
inductive VarVal where
  | str (s : Bytes)
  | comps (cs : List Bytes)
deriving DecidableEq, Repr

/-- Entries of a `BTreeMap<String, VariableValue>` in key order, or the
key/value pairs of a query string in wire order. -/
abbrev VarSet := List (Bytes × VarVal)

def deSeq (t : STy) : List Bytes → Except DeErr (List SVal)
  | [] => .ok []
  | c :: cs =>
    match deScalar t c with
    | .error e => .error e
    | .ok v =>
      match deSeq t cs with
      | .error e => .error e
      | .ok vs => .ok (v :: vs)

/-- Deserialise one map value as a field. -/
def deField : FTy → VarVal → Except DeErr FVal
  | .scalar t, .str s =>
    match deScalar t s with | .ok v => .ok (.scalar v) | .error e => .error e
  | .option t, .str s =>       -- `deserialize_option` = `visit_some(self)`
    match deScalar t s with | .ok v => .ok (.some v) | .error e => .error e
  | .seq t, .comps cs =>
    match deSeq t cs with | .ok vs => .ok (.seq vs) | .error e => .error e
  | .scalar _, .comps _ => .error .shape   -- "cannot deserialize sequence as a single value"
  | .option _, .comps _ => .error .shape
  | .seq _, .str _ => .error .shape        -- "cannot deserialize a single value as a sequence"
  | .nested, _ => .error .shape            -- "destination struct must be fully flattened"

def lookupField (fs : List (Bytes × FTy)) (k : Bytes) : Option FTy :=
  match fs.find? (fun f => f.1 = k) with
  | some f => some f.2
  | none => none

def lookupGot (got : List (Bytes × FVal)) (k : Bytes) : Option FVal :=
  match got.find? (fun f => f.1 = k) with
  | some f => some f.2
  | none => none

/-- The `visit_map` loop of serde's derived `Deserialize` for a struct without
`deny_unknown_fields`: entries in the order the `MapAccess` yields them; an
unknown key's value is skipped with `deserialize_ignored_any` (which still
refuses a `Components` value); a known key seen twice is "duplicate field". -/
def deEntries (fs : List (Bytes × FTy)) : VarSet → List (Bytes × FVal) →
    Except DeErr (List (Bytes × FVal))
  | [], got => .ok got
  | (k, v) :: rest, got =>
    match lookupField fs k with
    | none =>
      match v with
      | .str _ => deEntries fs rest got
      | .comps _ => .error .shape
    | some ft =>
      if (lookupGot got k).isSome then .error .duplicate
      else
        match deField ft v with
        | .error e => .error e
        | .ok fv => deEntries fs rest ((k, fv) :: got)

/-- After the loop: every field not seen is `None` if it is an `Option`, else
"missing field" (first in declaration order). -/
def finish (got : List (Bytes × FVal)) : List (Bytes × FTy) → Except DeErr Val
  | [] => .ok []
  | (name, ft) :: fs =>
    let here : Except DeErr FVal :=
      match lookupGot got name with
      | some fv => .ok fv
      | none => match ft with
        | .option _ => .ok .none
        | _ => .error .missing
    match here with
    | .error e => .error e
    | .ok fv =>
      match finish got fs with
      | .error e => .error e
      | .ok rest => .ok ((name, fv) :: rest)

def deStruct (fs : List (Bytes × FTy)) (entries : VarSet) : Except DeErr Val :=
  match deEntries fs entries [] with
  | .error e => .error e
  | .ok got => finish got fs

/-- `from_map::<T, VariableValue>(map)`; `vars` are the map's entries in key
order.  A bare (non-struct) `T` is refused: "must be applied to a flattened
struct rather than a raw type". -/
def mapDe : Ty → VarSet → Except DeErr Val
  | .struct fs, vars => deStruct fs vars
  | .bare _, _ => .error .shape

/-! ### `#[serde(flatten)]` inside a parameter struct

serde's derived visitor for a struct with a flattened member reads the known
(outer) fields directly and *buffers* every other entry: the value is taken
with `deserialize_any`, which `MapDeserializer` answers with `visit_str` (the
raw string, never a guessed number or boolean).  After the loop the outer
fields are finished, and the flattened struct is deserialised from the
buffer by serde's `ContentDeserializer`: a buffered string can fill a string,
a char, a unit-variant enum or an `Option` of those; it is refused ("invalid
type: string") for a boolean, an integer or a sequence. -/

/-- A flattened member read from the buffered string. -/
def deContentScalar : STy → Bytes → Except DeErr SVal
  | .string, s => .ok (.str s)
  | .char, s => match parseChar s with | some c => .ok (.chr c) | none => .error .parse
  | .enum vs, s => if vs.contains s then .ok (.variant s) else .error .variant
  | .bool, _ => .error .shape
  | .uint _, _ => .error .shape
  | .int _, _ => .error .shape

def deContentField : FTy → Bytes → Except DeErr FVal
  | .scalar t, s => match deContentScalar t s with | .ok v => .ok (.scalar v) | .error e => .error e
  | .option t, s => match deContentScalar t s with | .ok v => .ok (.some v) | .error e => .error e
  | .seq _, _ => .error .shape
  | .nested, _ => .error .shape

/-- The outer `visit_map` loop: known outer keys are deserialised at once,
every other entry is buffered as a string (a `Components` value cannot be
buffered: "cannot deserialize sequence as a single value"). -/
def deFlatEntries (outer : List (Bytes × FTy)) : VarSet → List (Bytes × FVal) → List (Bytes × Bytes) →
    Except DeErr (List (Bytes × FVal) × List (Bytes × Bytes))
  | [], got, buf => .ok (got, buf)
  | (k, v) :: rest, got, buf =>
    match lookupField outer k with
    | none =>
      match v with
      | .str s => deFlatEntries outer rest got (buf ++ [(k, s)])
      | .comps _ => .error .shape
    | some ft =>
      if (lookupGot got k).isSome then .error .duplicate
      else
        match deField ft v with
        | .error e => .error e
        | .ok fv => deFlatEntries outer rest ((k, fv) :: got) buf

/-- The flattened struct's `visit_map` over the buffer, in buffer order; keys
that are not members of the flattened struct are left alone. -/
def deFlatInner (inner : List (Bytes × FTy)) : List (Bytes × Bytes) → List (Bytes × FVal) →
    Except DeErr (List (Bytes × FVal))
  | [], got => .ok got
  | (k, s) :: rest, got =>
    match lookupField inner k with
    | none => deFlatInner inner rest got
    | some ft =>
      if (lookupGot got k).isSome then .error .duplicate
      else
        match deContentField ft s with
        | .error e => .error e
        | .ok fv => deFlatInner inner rest ((k, fv) :: got)

/-- `from_map::<T, VariableValue>` for `struct T { outer…, #[serde(flatten)] inner: U }`:
the value is the outer fields followed by the flattened ones. -/
def mapDeFlat (outer inner : List (Bytes × FTy)) (vars : VarSet) : Except DeErr Val :=
  match deFlatEntries outer vars [] [] with
  | .error e => .error e
  | .ok (got, buf) =>
    match finish got outer with
    | .error e => .error e
    | .ok o =>
      match deFlatInner inner buf [] with
      | .error e => .error e
      | .ok gi =>
        match finish gi inner with
        | .error e => .error e
        | .ok i => .ok (o ++ i)

/-! ## 3. Paths: route template, variables, `Path<T>` -/

/-- `PathSegment` of the endpoint's route template. -/
inductive RSeg where
  | lit (s : Bytes)
  | var (name : Bytes)
  | rest (name : Bytes)      -- `{name:.*}`
deriving DecidableEq, Repr

/-- Lexicographic order on byte strings (= `Ord for String`). -/
def bytesLt : Bytes → Bytes → Bool
  | [], [] => false
  | [], _ :: _ => true
  | _ :: _, [] => false
  | a :: as, b :: bs => if a < b then true else if b < a then false else bytesLt as bs

/-- `BTreeMap::insert` on the sorted entry list. -/
def varInsert (k : Bytes) (v : VarVal) : VarSet → VarSet
  | [] => [(k, v)]
  | (k', v') :: tl =>
    if k = k' then (k, v) :: tl
    else if bytesLt k k' then (k, v) :: (k', v') :: tl
    else (k', v') :: varInsert k v tl

/-- The variable bindings `lookup_route` produces for one route (the
single-route instance of the router's flat specification; that the trie
refines it is C01).  `none` = this route does not match (404). -/
def matchRoute : List RSeg → List Bytes → Option VarSet
  | [], [] => some []
  | [], _ :: _ => none
  | .lit s :: rs, seg :: segs => if s = seg then matchRoute rs segs else none
  | .lit _ :: _, [] => none
  | .var n :: rs, seg :: segs => (matchRoute rs segs).map (varInsert n (.str seg))
  | .var _ :: _, [] => none
  | .rest n :: _, segs => some [(n, .comps segs)]

inductive PathOutcome where
  | badPath          -- 400 from `input_path_to_segments`
  | noRoute          -- 404
  | ok (vars : VarSet)
deriving DecidableEq, Repr

/-- Raw request path → variables of one route. -/
def lookupVars (route : List RSeg) (path : Bytes) : PathOutcome :=
  match Path.inputSegments path with
  | .error _ => .badPath
  | .ok segs =>
    match matchRoute route segs with
    | none => .noRoute
    | some vs => .ok vs

/-- How a client writes one path segment: every byte percent-encoded. -/
def encodeSeg (s : Bytes) : Bytes := 47 :: pctEncodeAll s

/-- The decoded segments a client means for a route, given the strings to put
into its variables (`vals`: one string for a `var`, a list for `rest`). -/
def segsOf : List RSeg → (Bytes → List Bytes) → List Bytes
  | [], _ => []
  | .lit s :: rs, vals => s :: segsOf rs vals
  | .var n :: rs, vals => (vals n).headD [] :: segsOf rs vals
  | .rest n :: _, vals => vals n

/-- The request path for a route: `/`-joined percent-encoded segments. -/
def encodePath (route : List RSeg) (vals : Bytes → List Bytes) : Bytes :=
  (segsOf route vals).flatMap encodeSeg

/-- The bindings the router is expected to produce for that path. -/
def varsOf : List RSeg → (Bytes → List Bytes) → VarSet
  | [], _ => []
  | .lit _ :: rs, vals => varsOf rs vals
  | .var n :: rs, vals => varInsert n (.str ((vals n).headD [])) (varsOf rs vals)
  | .rest n :: _, vals => [(n, .comps (vals n))]

/-- The strings a client writes for one field value. -/
def FVal.segs : FVal → List Bytes
  | .scalar v => [v.render]
  | .some v => [v.render]
  | .none => []
  | .seq vs => vs.map SVal.render

def lookupVal (v : Val) (k : Bytes) : Option FVal :=
  match v.find? (fun f => f.1 = k) with
  | some f => some f.2
  | none => none

/-- Variable name ↦ strings, read off a struct value. -/
def valsOf (v : Val) (name : Bytes) : List Bytes :=
  match lookupVal v name with
  | some fv => fv.segs
  | none => []

/-- `v` is a value of the struct type with fields `fs`. -/
def valHasTy : Val → List (Bytes × FTy) → Bool
  | [], [] => true
  | (n, fv) :: v, (m, ft) :: fs => n == m && fv.hasTy ft && valHasTy v fs
  | _, _ => false

/-- Variable names of a route, up to and including a wildcard. -/
def routeVars : List RSeg → List Bytes
  | [] => []
  | .lit _ :: rs => routeVars rs
  | .var n :: rs => n :: routeVars rs
  | .rest n :: _ => [n]

/-- The route's variables are bound to fields of the right kind. -/
def routeKinds (fs : List (Bytes × FTy)) : List RSeg → Bool
  | [] => true
  | .lit _ :: rs => routeKinds fs rs
  | .var n :: rs =>
    (match lookupField fs n with
      | some (.scalar _) => true
      | some (.option _) => true
      | _ => false) && routeKinds fs rs
  | .rest n :: _ =>
    match lookupField fs n with
    | some (.seq _) => true
    | _ => false

/-- What `ApiDescription::register` checks of a `Path<T>` endpoint: the path
variables are exactly the fields of `T`, each once. -/
def pathFits (route : List RSeg) (fs : List (Bytes × FTy)) : Bool :=
  decide (fs.map Prod.fst).Nodup && decide (routeVars route).Nodup &&
    (fs.map Prod.fst).all (fun n => (routeVars route).contains n) && routeKinds fs route

/-! ## 4. Query strings and url-encoded bodies -/

/-- `slice.split(|b| b == sep)`: always at least one piece. -/
def splitOn (sep : Nat) : Bytes → List Bytes
  | [] => [[]]
  | b :: rest =>
    if b = sep then [] :: splitOn sep rest
    else
      match splitOn sep rest with
      | s :: ss => (b :: s) :: ss
      | [] => [[b]]

/-- Split at the first `sep` (`splitn(2, sep)`); no `sep`: second part empty. -/
def splitFirst (sep : Nat) : Bytes → Bytes × Bytes
  | [] => ([], [])
  | b :: rest =>
    if b = sep then ([], rest)
    else let (k, v) := splitFirst sep rest; (b :: k, v)

/-- `replace_plus` -/
def plusToSpace (bs : Bytes) : Bytes := bs.map fun b => if b = 43 then 32 else b

/-- U+FFFD in UTF-8 -/
def replacement : Bytes := [239, 191, 189]

/-- `String::from_utf8_lossy`: each maximal invalid prefix of a sequence
(`Utf8Chunks`) becomes one U+FFFD. -/
def utf8Lossy : Bytes → Bytes
  | [] => []
  | b0 :: rest =>
    if b0 < 128 then b0 :: utf8Lossy rest
    else if 194 ≤ b0 ∧ b0 ≤ 223 then
      match rest with
      | b1 :: r => if isCont b1 then b0 :: b1 :: utf8Lossy r else replacement ++ utf8Lossy (b1 :: r)
      | [] => replacement
    else if 224 ≤ b0 ∧ b0 ≤ 239 then
      match rest with
      | b1 :: r1 =>
        if inRange (if b0 = 224 then 160 else 128) (if b0 = 237 then 159 else 191) b1 then
          match r1 with
          | b2 :: r2 =>
            if isCont b2 then b0 :: b1 :: b2 :: utf8Lossy r2 else replacement ++ utf8Lossy (b2 :: r2)
          | [] => replacement
        else replacement ++ utf8Lossy (b1 :: r1)
      | [] => replacement
    else if 240 ≤ b0 ∧ b0 ≤ 244 then
      match rest with
      | b1 :: r1 =>
        if inRange (if b0 = 240 then 144 else 128) (if b0 = 244 then 143 else 191) b1 then
          match r1 with
          | b2 :: r2 =>
            if isCont b2 then
              match r2 with
              | b3 :: r3 =>
                if isCont b3 then b0 :: b1 :: b2 :: b3 :: utf8Lossy r3
                else replacement ++ utf8Lossy (b3 :: r3)
              | [] => replacement
            else replacement ++ utf8Lossy (b2 :: r2)
          | [] => replacement
        else replacement ++ utf8Lossy (b1 :: r1)
      | [] => replacement
    else replacement ++ utf8Lossy rest
termination_by bs => bs.length

/-- `form_urlencoded::decode` before the lossy step. -/
def formDecodeRaw (bs : Bytes) : Bytes := pctDecode (plusToSpace bs)

/-- `form_urlencoded::parse` before the lossy step: split on `&`, skip empty
pieces, split each at its first `=`, `+` → space, percent-decode. -/
def parseQueryRaw (q : Bytes) : List (Bytes × Bytes) :=
  ((splitOn 38 q).filter (· ≠ [])).map fun piece =>
    let kv := splitFirst 61 piece
    (formDecodeRaw kv.1, formDecodeRaw kv.2)

/-- `form_urlencoded::parse`: the (name, value) strings. -/
def parseQuery (q : Bytes) : List (Bytes × Bytes) :=
  (parseQueryRaw q).map fun kv => (utf8Lossy kv.1, utf8Lossy kv.2)

/-- One byte of a query-string *spelling*. -/
inductive QByte where
  | raw (b : Nat)                    -- written as is
  | enc (b : Nat) (upHi upLo : Bool) -- `%XY`, each hex digit in either case
  | plus                             -- `+` for a space
deriving DecidableEq, Repr

namespace QByte
def byte : QByte → Nat
  | .raw b => b
  | .enc b _ _ => b
  | .plus => 32
def wire : QByte → Bytes
  | .raw b => [b]
  | .enc b hi lo => [37, hexDigit hi (b / 16), hexDigit lo (b % 16)]
  | .plus => [43]
/-- Admissible in a key: a raw byte is none of `& = + %`. -/
def okKey : QByte → Bool
  | .raw b => b != 38 && b != 61 && b != 43 && b != 37
  | .enc b _ _ => decide (b < 256)
  | .plus => true
/-- Admissible in a value: a raw `=` is allowed there. -/
def okVal : QByte → Bool
  | .raw b => b != 38 && b != 43 && b != 37
  | .enc b _ _ => decide (b < 256)
  | .plus => true
end QByte

def qSpell (cs : List QByte) : Bytes := cs.flatMap QByte.wire
def qMeant (cs : List QByte) : Bytes := cs.map QByte.byte

/-- A query string spelled pair by pair: `k=v` joined by `&`. -/
def spellQuery : List (List QByte × List QByte) → Bytes
  | [] => []
  | [(k, v)] => qSpell k ++ 61 :: qSpell v
  | (k, v) :: rest => qSpell k ++ 61 :: qSpell v ++ 38 :: spellQuery rest

/-- RFC 3986 unreserved: ALPHA DIGIT `-` `.` `_` `~` -/
def unreserved (b : Nat) : Bool :=
  (48 ≤ b && b ≤ 57) || (65 ≤ b && b ≤ 90) || (97 ≤ b && b ≤ 122) ||
    b == 45 || b == 46 || b == 95 || b == 126

/-- The canonical spelling: unreserved bytes raw, everything else `%XX`. -/
def qCanon (bs : Bytes) : List QByte :=
  bs.map fun b => if unreserved b then .raw b else .enc b true true

/-- `encodeQuery`: canonical spelling of a list of pairs. -/
def encodeQuery (kvs : List (Bytes × Bytes)) : Bytes :=
  spellQuery (kvs.map fun kv => (qCanon kv.1, qCanon kv.2))

/-- `Query<T>` (`serde_urlencoded::from_str`) and the url-encoded `TypedBody<T>`
(`serde_urlencoded::Deserializer::new(form_urlencoded::parse(body))`): the
pairs in wire order through the same derived struct visitor.  Consequences:
a known key given twice is refused ("duplicate field"), unknown keys are
ignored, an absent `Option` field is `None`. -/
def extractQuery : Ty → Bytes → Except DeErr Val
  | .struct fs, q => deStruct fs ((parseQuery q).map fun kv => (kv.1, VarVal.str kv.2))
  | .bare _, _ => .error .shape

/-- The key/value pairs a client sends for a struct value: one per present field. -/
def queryPairs : Val → List (Bytes × Bytes)
  | [] => []
  | (n, .scalar sv) :: v => (n, sv.render) :: queryPairs v
  | (n, .some sv) :: v => (n, sv.render) :: queryPairs v
  | (_, .none) :: v => queryPairs v
  | (_, .seq _) :: v => queryPairs v

/-- Fields a query string can carry: single values, optional or not. -/
def FTy.single : FTy → Bool
  | .scalar _ => true
  | .option _ => true
  | _ => false

def queryable (fs : List (Bytes × FTy)) : Bool := fs.all fun f => f.2.single

/-! ## 5. `http_request_load_body`: content type -/

/-- `ApiEndpointBodyContentType` -/
inductive BodyCT where
  | bytes | json | urlEncoded | multipart
deriving DecidableEq, Repr

def mimeJson : Bytes := [97,112,112,108,105,99,97,116,105,111,110,47,106,115,111,110]
def mimeOctet : Bytes :=
  [97,112,112,108,105,99,97,116,105,111,110,47,111,99,116,101,116,45,115,116,114,101,97,109]
def mimeUrlEnc : Bytes :=
  [97,112,112,108,105,99,97,116,105,111,110,47,120,45,119,119,119,45,102,111,114,109,45,
   117,114,108,101,110,99,111,100,101,100]
def mimeMultipart : Bytes :=
  [109,117,108,116,105,112,97,114,116,47,102,111,114,109,45,100,97,116,97]

/-- `ApiEndpointBodyContentType::from_mime_type`: exact match. -/
def fromMime (m : Bytes) : Option BodyCT :=
  if m = mimeOctet then some .bytes
  else if m = mimeJson then some .json
  else if m = mimeUrlEnc then some .urlEncoded
  else if m = mimeMultipart then some .multipart
  else none

def BodyCT.mime : BodyCT → Bytes
  | .bytes => mimeOctet | .json => mimeJson | .urlEncoded => mimeUrlEnc | .multipart => mimeMultipart

/-- `HeaderValue::to_str`: every byte visible ASCII, SP or HTAB. -/
def headerToStr (bs : Bytes) : Option Bytes :=
  if bs.all (fun b => (32 ≤ b && b < 127) || b == 9) then some bs else none

def lowerByte (b : Nat) : Nat := if 65 ≤ b ∧ b ≤ 90 then b + 32 else b
def lower (bs : Bytes) : Bytes := bs.map lowerByte

/-- `str::trim_end` on a `to_str`-able value: SP and HTAB. -/
def trimEnd (bs : Bytes) : Bytes :=
  (bs.reverse.dropWhile fun b => b == 32 || b == 9).reverse

/-- `content_type[..find(';')].trim_end().to_lowercase()` -/
def mimeOf (ct : Bytes) : Bytes := lower (trimEnd (ct.takeWhile (· ≠ 59)))

/-- Every way `http_request_load_body` / the body extractors refuse a request.
Each is constructed with `HttpError::for_bad_request`. -/
inductive BodyErr where
  | tooLarge                 -- "request body exceeded maximum size" (C11)
  | headerNotStr             -- "invalid content type: …" (`to_str` failed)
  | unknownMime              -- `from_mime_type` failed
  | mismatch (expected got : BodyCT)   -- "expected content type …, got …"
  | decode (e : DeErr)       -- "unable to parse JSON body" / "… URL-encoded body"
  | json                     -- malformed JSON text
deriving DecidableEq, Repr

/-- The content type the request is taken to have: absent header = JSON. -/
def requestCT (hdr : Option Bytes) : Except BodyErr BodyCT :=
  match hdr with
  | none => .ok .json
  | some h =>
    match headerToStr h with
    | none => .error .headerNotStr
    | some s =>
      match fromMime (mimeOf s) with
      | none => .error .unknownMime
      | some ct => .ok ct

/-- `http_request_load_body`.  `cap` is `request_body_max_bytes`; `json` stands
for `serde_json` + the derived `Deserialize` of the body type (a parameter:
the codec is modelled separately, see `JsonBody.lean`). -/
def loadBody {α : Type} (json : Bytes → Except BodyErr α) (form : Bytes → Except DeErr α)
    (expected : BodyCT) (cap : Nat) (hdr : Option Bytes) (body : Bytes) : Except BodyErr α :=
  if body.length > cap then .error .tooLarge
  else
    match requestCT hdr with
    | .error e => .error e
    | .ok got =>
      match expected, got with
      | .json, .json => json body
      | .urlEncoded, .urlEncoded =>
        match form body with
        | .ok v => .ok v
        | .error e => .error (.decode e)
      | e, g => .error (.mismatch e g)

/-- Does the pair (endpoint's content type, request's content type) reach a decoder? -/
def ctAccepted (expected got : BodyCT) : Bool :=
  match expected, got with
  | .json, .json => true
  | .urlEncoded, .urlEncoded => true
  | _, _ => false

/-! ## 6. Chunked transfer coding (RFC 7230 §4.1) -/

def hexDigitLower (n : Nat) : Nat := hexDigit false n

/-- Hexadecimal rendering, most significant digit first. -/
def hexAux (n : Nat) (tail : Bytes) : Bytes :=
  if n < 16 then hexDigitLower n :: tail else hexAux (n / 16) (hexDigitLower (n % 16) :: tail)
termination_by n
decreasing_by omega

def renderHex (n : Nat) : Bytes := hexAux n []

def crlf : Bytes := [13, 10]

/-- One chunk: `size [ext] CRLF data CRLF`.  `ext` is the raw chunk-ext text
(empty, or `;name=value…`). -/
def chunkOne (data ext : Bytes) : Bytes :=
  renderHex data.length ++ ext ++ crlf ++ data ++ crlf

/-- Cut `bs` into chunks of the given sizes (a size 0 is read as 1; what is left
after the list is exhausted goes into one more chunk), the i-th chunk carrying
the i-th extension. -/
def chunkBody : Bytes → List Nat → List Bytes → Bytes
  | [], _, _ => []
  | b :: bs, [], exts => chunkOne (b :: bs) (exts.headD [])
  | b :: bs, n :: ns, exts =>
    chunkOne (b :: bs.take (n - 1)) (exts.headD []) ++ chunkBody (bs.drop (n - 1)) ns exts.tail
termination_by bs => bs.length
decreasing_by simp only [List.length_drop, List.length_cons]; omega

def trailerLine (t : Bytes × Bytes) : Bytes := t.1 ++ 58 :: 32 :: t.2 ++ crlf

/-- `chunk bs splits exts lastExt trailers`: the chunked encoding of `bs`:
chunks, last-chunk `0 [ext] CRLF`, trailer fields, CRLF. -/
def chunk (bs : Bytes) (splits : List Nat) (exts : List Bytes) (lastExt : Bytes)
    (trailers : List (Bytes × Bytes)) : Bytes :=
  chunkBody bs splits exts ++ 48 :: lastExt ++ crlf ++ trailers.flatMap trailerLine ++ crlf

/-- Read the hexadecimal chunk size: (value, rest) at the first non-hex byte. -/
def hexPrefix : Bytes → Nat → Nat × Bytes
  | [], acc => (acc, [])
  | c :: cs, acc =>
    match hexVal c with
    | some d => hexPrefix cs (acc * 16 + d)
    | none => (acc, c :: cs)

/-- Skip to the end of a line that has no bare CR or LF in it: the rest after
`CRLF`, `none` if a lone CR/LF or the end of input comes first. -/
def skipLine : Bytes → Option Bytes
  | [] => none
  | 13 :: 10 :: rest => some rest
  | 13 :: _ => none
  | 10 :: _ => none
  | _ :: rest => skipLine rest

/-- After the size: optional `;ext` up to CRLF.  (`BWS` before `;` is accepted as
hyper does.) -/
def afterSize : Bytes → Option Bytes
  | 13 :: 10 :: rest => some rest
  | 59 :: rest => skipLine rest
  | 32 :: rest => afterSize rest
  | 9 :: rest => afterSize rest
  | _ => none

/-- Trailer section: header lines (no bare CR or LF inside) up to the empty
line; the rest after it.  `atStart`: at the beginning of a line. -/
def skipTrailers : Bool → Bytes → Option Bytes
  | _, [] => none
  | true, 13 :: 10 :: rest => some rest
  | false, 13 :: 10 :: rest => skipTrailers true rest
  | _, 13 :: _ => none
  | _, 10 :: _ => none
  | _, _ :: rest => skipTrailers false rest

/-- Decode one chunked body from the front of `wire`: (payload, bytes that
follow the body — the next pipelined request).  `none` = malformed. -/
def dechunkAux : Nat → Bytes → Bytes → Option (Bytes × Bytes)
  | 0, _, _ => none
  | fuel + 1, wire, acc =>
    match wire with
    | [] => none
    | c :: _ =>
      if (hexVal c).isNone then none
      else
        let (n, r) := hexPrefix wire 0
        match afterSize r with
        | none => none
        | some r' =>
          if n = 0 then
            match skipTrailers true r' with
            | some rest => some (acc, rest)
            | none => none
          else if r'.length < n + 2 then none
          else
            match r'.drop n with
            | 13 :: 10 :: r'' => dechunkAux fuel r'' (acc ++ r'.take n)
            | _ => none

def dechunk (wire : Bytes) : Option (Bytes × Bytes) := dechunkAux (wire.length + 1) wire []

/-! ## 7. Multipart boundary: `multer::parse_boundary` -/

/-- `mime::parse::is_token` (TOKEN_MAP) -/
def isToken (c : Nat) : Bool :=
  (48 ≤ c && c ≤ 57) || (65 ≤ c && c ≤ 90) || (97 ≤ c && c ≤ 122) ||
    c == 33 || c == 35 || c == 36 || c == 37 || c == 38 || c == 39 || c == 42 || c == 43 ||
    c == 45 || c == 46 || c == 94 || c == 95 || c == 96 || c == 124 || c == 126

/-- `mime::parse::is_restricted_quoted_char` -/
def isQuotable (c : Nat) : Bool := c > 31 && c != 127 && c < 256

/-- Parser state of `mime::parse::parse` / `params_from_str`, one constructor
per position of its loops. -/
inductive MSt where
  | ty (acc : Bytes)                          -- top-level type, before `/`
  | sub (ty acc : Bytes)                      -- subtype
  | pstart                                    -- at the start of a parameter (`i == start`)
  | pname (acc : Bytes)                       -- in a parameter name
  | vstart (name : Bytes)                     -- just after `=`
  | vtok (name acc : Bytes)                   -- unquoted value
  | q0 (name : Bytes)                         -- just after the opening quote
  | q (name acc : Bytes)                      -- inside quotes
  | aq                                        -- after the closing quote
deriving DecidableEq, Repr

structure Mime where
  ty : Bytes
  sub : Bytes          -- the whole subtype text including any `+suffix`
  params : List (Bytes × Bytes)   -- in order; names as written
deriving DecidableEq, Repr

/-- Run the parser.  `m` accumulates type, subtype and finished parameters. -/
def mimeRun : MSt → Mime → Bytes → Option Mime
  -- end of input
  | .ty _, _, [] => none                              -- MissingSlash
  | .sub t acc, m, [] => some { m with ty := t, sub := acc }
  | .pstart, m, [] => some m
  | .pname _, _, [] => none                           -- MissingEqual
  | .vstart n, m, [] => some { m with params := m.params ++ [(n, [])] }
  | .vtok n acc, m, [] => some { m with params := m.params ++ [(n, acc)] }
  | .q0 _, _, [] => none                              -- MissingQuote
  | .q _ _, _, [] => none
  | .aq, m, [] => some m
  -- one byte
  | .ty acc, m, c :: cs =>
    if isToken c then mimeRun (.ty (acc ++ [c])) m cs
    else if c = 47 ∧ acc ≠ [] then mimeRun (.sub acc []) m cs
    else none
  | .sub t acc, m, c :: cs =>
    if c = 59 ∧ acc ≠ [] then mimeRun .pstart { m with ty := t, sub := acc } cs
    else if isToken c then mimeRun (.sub t (acc ++ [c])) m cs
    else none
  | .pstart, m, c :: cs =>
    if c = 32 then mimeRun .pstart m cs
    else if isToken c then mimeRun (.pname [c]) m cs
    else none
  | .pname acc, m, c :: cs =>
    if isToken c then mimeRun (.pname (acc ++ [c])) m cs
    else if c = 61 then mimeRun (.vstart acc) m cs
    else none
  | .vstart n, m, c :: cs =>
    if c = 34 then mimeRun (.q0 n) m cs
    else if isToken c then mimeRun (.vtok n [c]) m cs
    else none
  | .vtok n acc, m, c :: cs =>
    if isToken c then mimeRun (.vtok n (acc ++ [c])) m cs
    else if c = 59 then mimeRun .pstart { m with params := m.params ++ [(n, acc)] } cs
    else none
  | .q0 n, m, c :: cs =>
    -- a quote right after the opening quote is content (`i > start` fails)
    if isQuotable c then mimeRun (.q n [c]) m cs else none
  | .q n acc, m, c :: cs =>
    if c = 34 then mimeRun .aq { m with params := m.params ++ [(n, acc)] } cs
    else if isQuotable c then mimeRun (.q n (acc ++ [c])) m cs
    else none
  | .aq, m, c :: cs =>
    if c = 59 then mimeRun .pstart m cs
    else if c = 32 then mimeRun .aq m cs
    else none

/-- `s.parse::<mime::Mime>()` -/
def parseMime (s : Bytes) : Option Mime := mimeRun (.ty []) ⟨[], [], []⟩ s

/-- The text before the last `+` of `cs`; `none` if there is no `+`. -/
def cutLastPlus : Bytes → Option Bytes
  | [] => none
  | c :: cs =>
    match cutLastPlus cs with
    | some p => some (c :: p)
    | none => if c = 43 then some [] else none

/-- `Mime::subtype()`: the text before the last `+` that is not the first
character of the subtype (`image/svg+xml` → `svg`). -/
def subtypeName (sub : Bytes) : Bytes :=
  match sub with
  | [] => []
  | c :: rest =>
    match cutLastPlus rest with
    | some p => c :: p
    | none => sub

def sMultipart : Bytes := [109,117,108,116,105,112,97,114,116]
def sFormData : Bytes := [102,111,114,109,45,100,97,116,97]
def sBoundary : Bytes := [98,111,117,110,100,97,114,121]
def sBoundaryEq : Bytes := sBoundary ++ [61]

/-- `multer::parse_boundary`: media type `multipart/form-data` (any case), first
parameter named `boundary` (any case). -/
def boundaryOf (ct : Bytes) : Option Bytes :=
  match parseMime ct with
  | none => none
  | some m =>
    if lower m.ty = sMultipart ∧ lower (subtypeName m.sub) = sFormData then
      match m.params.find? (fun p => lower p.1 = sBoundary) with
      | some p => some p.2
      | none => none
    else none

/-- One parameter of a media type as a client may spell it (RFC 7231
§3.1.1.1 as the `mime` crate reads it): `;`, optional spaces, name, `=`, then a
token or a quoted string (which may be followed by spaces). -/
structure ParamSpelling where
  name : Bytes
  value : Bytes
  quoted : Bool
  spBefore : Nat      -- spaces after the `;`
  spAfter : Nat       -- spaces after the closing quote (quoted only)
deriving DecidableEq, Repr

def ParamSpelling.wire (p : ParamSpelling) : Bytes :=
  59 :: List.replicate p.spBefore 32 ++ p.name ++ 61 ::
    (if p.quoted then 34 :: p.value ++ 34 :: List.replicate p.spAfter 32 else p.value)

/-- The spelling is legal: the name is a token; an unquoted value is a token; a
quoted value is non-empty text without `"` or control characters. -/
def ParamSpelling.ok (p : ParamSpelling) : Bool :=
  p.name != [] && p.name.all isToken && p.value != [] &&
    (if p.quoted then p.value.all (fun c => isQuotable c && c != 34) else p.value.all isToken)

/-- A `Content-Type` value: type `/` subtype, then parameters. -/
def spellContentType (ty sub : Bytes) (ps : List ParamSpelling) : Bytes :=
  ty ++ 47 :: sub ++ ps.flatMap ParamSpelling.wire

/-- RFC 2046 §5.1.1 `bchars`. -/
def isBChar (c : Nat) : Bool :=
  (48 ≤ c && c ≤ 57) || (65 ≤ c && c ≤ 90) || (97 ≤ c && c ≤ 122) ||
    c == 39 || c == 40 || c == 41 || c == 43 || c == 95 || c == 44 || c == 45 || c == 46 ||
    c == 47 || c == 58 || c == 61 || c == 63 || c == 32

/-- RFC 2046 boundary: 1–70 `bchars`, not ending in a space. -/
def isBoundary (b : Bytes) : Bool :=
  b != [] && decide (b.length ≤ 70) && b.all isBChar && b.getLast? != some 32

/-- Drop everything up to and including the first occurrence of `pat`. -/
def afterFirst (pat : Bytes) : Bytes → Option Bytes
  | [] => if pat = [] then some [] else none
  | c :: cs => if pat.isPrefixOf (c :: cs) then some ((c :: cs).drop pat.length) else afterFirst pat cs

/-- Everything before the first occurrence of `pat` (all of it if none). -/
def beforeFirst (pat : Bytes) : Bytes → Bytes
  | [] => []
  | c :: cs => if pat.isPrefixOf (c :: cs) then [] else c :: beforeFirst pat cs

/-- The boundary as the code took it before the repair of D4:
`content_type.split("boundary=").nth(1)`. -/
def boundaryAsIs (ct : Bytes) : Option Bytes :=
  match afterFirst sBoundaryEq ct with
  | none => none
  | some rest => some (beforeFirst sBoundaryEq rest)

/-- `MultipartBody::from_request` up to `Multipart::new`. -/
inductive MultipartErr where
  | noHeader | headerNotStr | badContentType
deriving DecidableEq, Repr

def multipartBoundary (hdr : Option Bytes) : Except MultipartErr Bytes :=
  match hdr with
  | none => .error .noHeader
  | some h =>
    match headerToStr h with
    | none => .error .headerNotStr
    | some s =>
      match boundaryOf s with
      | some b => .ok b
      | none => .error .badContentType

/-! ## 8. The handler pipeline and the request context -/

/-- Every extractor failure, with the status its construction site gives it. -/
inductive ExtractErr where
  | path (e : DeErr)          -- http_util.rs `http_extract_path_params`: for_bad_request
  | query (e : DeErr)         -- extractor/query.rs `http_request_load_query`: for_bad_request
  | body (e : BodyErr)        -- extractor/body.rs: every site is for_bad_request
  | multipart (e : MultipartErr)   -- extractor/body.rs MultipartBody: for_bad_request ×4
deriving DecidableEq, Repr

/-- `ClientErrorStatusCode::BAD_REQUEST` at every site. -/
def ExtractErr.status : ExtractErr → Nat
  | .path _ => 400
  | .query _ => 400
  | .body _ => 400
  | .multipart _ => 400

/-- What `HttpRouteHandler::handle_request` does with a request. -/
inductive Outcome (α : Type) where
  | refused (status : Nat)      -- error response, handler function not called
  | called (arg : α)            -- handler function invoked with `arg`
deriving DecidableEq, Repr

def Outcome.handlerCalls {α : Type} : Outcome α → Nat
  | .refused _ => 0
  | .called _ => 1

/-- `handle_request`: `RequestExtractor::from_request(..).await.map_err(..)?`
and only then `self.handler.handle_request(rqctx, funcparams)`. -/
def handle {α : Type} (extracted : Except ExtractErr α) : Outcome α :=
  match extracted with
  | .ok v => .called v
  | .error e => .refused e.status

/-- The tuple extractor `(Path<P>, Query<Q>, X)`: `try_join!` polls in order;
the shared extractors are ready at once, so the first failure in the order
path, query, body is the one reported. -/
def extract3 {α β γ : Type} (p : Except ExtractErr α) (q : Except ExtractErr β)
    (b : Except ExtractErr γ) : Except ExtractErr (α × β × γ) :=
  match p with
  | .error e => .error e
  | .ok pv =>
    match q with
    | .error e => .error e
    | .ok qv =>
      match b with
      | .error e => .error e
      | .ok bv => .ok (pv, qv, bv)

def extractPath (t : Ty) (route : List RSeg) (path : Bytes) : Except ExtractErr Val :=
  match lookupVars route path with
  | .ok vars =>
    match mapDe t vars with
    | .ok v => .ok v
    | .error e => .error (.path e)
  -- not an extractor failure: the router answers before any extractor runs;
  -- recorded as a shape error so that the function is total
  | _ => .error (.path .shape)

/-- `Path<T>` for a `T` with a flattened part. -/
def extractPathFlat (outer inner : List (Bytes × FTy)) (route : List RSeg) (path : Bytes) :
    Except ExtractErr Val :=
  match lookupVars route path with
  | .ok vars =>
    match mapDeFlat outer inner vars with
    | .ok v => .ok v
    | .error e => .error (.path e)
  | _ => .error (.path .shape)

def extractQueryE (t : Ty) (q : Bytes) : Except ExtractErr Val :=
  match extractQuery t q with
  | .ok v => .ok v
  | .error e => .error (.query e)

/-- `TypedBody<T>` as an extractor. -/
def extractBodyE {α : Type} (json : Bytes → Except BodyErr α) (form : Bytes → Except DeErr α)
    (expected : BodyCT) (cap : Nat) (hdr : Option Bytes) (body : Bytes) : Except ExtractErr α :=
  match loadBody json form expected cap hdr body with
  | .ok v => .ok v
  | .error e => .error (.body e)

/-- `UntypedBody`: only the size limit can refuse it. -/
def extractUntypedE (cap : Nat) (body : Bytes) : Except ExtractErr Bytes :=
  if body.length > cap then .error (.body .tooLarge) else .ok body

/-- `MultipartBody` up to the construction of the `multer::Multipart`. -/
def extractMultipartE (hdr : Option Bytes) : Except ExtractErr Bytes :=
  match multipartBoundary hdr with
  | .ok b => .ok b
  | .error e => .error (.multipart e)

/-- A request as the server sees it. -/
structure Request where
  method : Bytes
  uri : Bytes
  headers : List (Bytes × Bytes)
  body : Bytes
deriving DecidableEq, Repr

/-- `RequestInfo` -/
structure Ctx where
  method : Bytes
  uri : Bytes
  headers : List (Bytes × Bytes)
  peer : Nat
deriving DecidableEq, Repr

/-- `RequestInfo::new(&request, remote_addr)`: copies of the request's own
method, URI and headers and the connection's peer address. -/
def mkContext (r : Request) (peer : Nat) : Ctx :=
  { method := r.method, uri := r.uri, headers := r.headers, peer := peer }

/-- One handler invocation: the context and the body bytes it is given. -/
def invoke (pr : Nat × Request) : Ctx × Bytes := (mkContext pr.2 pr.1, pr.2.body)

/-- The server over any arrival order of (peer, request) pairs: no state is
carried from one request to the next. -/
def serve (arrivals : List (Nat × Request)) : List (Ctx × Bytes) := arrivals.map invoke

end Dropshot.Extract
