/-
Model of dropshot's pagination support (`dropshot/src/pagination.rs`,
`RequestContext::page_limit` in `handler.rs`).

* page tokens: `serialize_page_token` / `deserialize_page_token`
  (JSON envelope `{"v":"v1","page_start":<selector>}` → base64 URL_SAFE, 512
  character bound on both sides; serde_json's recursion limit on the way in);
* `PaginationParams` as `serde_urlencoded` + `#[serde(flatten)]` +
  `deserialize_whichpage` read a query string;
* the `limit` parameter (`Option<NonZeroU32>`) and the effective page size;
* `ResultsPage::new` and a keyset scan that follows the returned tokens (C15).

Byte strings are `List Nat` (values < 256).  The page selector's own
(de)serialisation is a parameter (`SelCodec`): it is the application's serde
type, not dropshot's code.
-/
import DropshotModel.Json
import DropshotModel.Base64

namespace Dropshot.Pagination
open Dropshot.Json

abbrev Bytes := List Nat

/-- `MAX_TOKEN_LENGTH`. -/
def maxTokenLength : Nat := 512

/-- serde_json's deserializer starts with `remaining_depth = 128` and refuses
to *enter* the container that would bring it to zero: at most 127 containers
may be open at once in the typed traversal (the token envelope is the first,
so the selector may use 126).  Values that are skipped (unknown fields) are
consumed iteratively and do not count. -/
def maxJsonDepth : Nat := 127

/-- `"v"`, `"v1"`, `"page_start"`, `"page_token"`, `"limit"` as bytes. -/
def kV : Bytes := [118]
def kV1 : Bytes := [118, 49]
def kPageStart : Bytes := [112, 97, 103, 101, 95, 115, 116, 97, 114, 116]
def kPageToken : Bytes := [112, 97, 103, 101, 95, 116, 111, 107, 101, 110]
def kLimit : Bytes := [108, 105, 109, 105, 116]

/-- How the application's page selector type travels as JSON (its serde
`Serialize`/`Deserialize`).  `missing` is what serde produces when the field
is absent: `some none`-like for an `Option<_>` selector, `none` (an error) for
every other type. -/
structure SelCodec (σ : Type) where
  enc : σ → JVal
  dec : JVal → Option σ
  missing : Option σ
  /-- How many containers the type's deserializer has open at the deepest
  point while reading this document (skipped unknown fields do not count). -/
  typedDepth : JVal → Nat

/-- The identity codec: selectors are JSON values themselves. -/
def SelCodec.json : SelCodec JVal := ⟨id, some, none, JVal.depth⟩

/-- `SerializedToken { v: PaginationVersion::V1, page_start }`. -/
def envelope (sel : JVal) : JVal :=
  .obj (.cons kV (.str kV1) (.cons kPageStart sel .nil))

/-! ### issuing a token -/

/-- The only way issuing fails here: `HttpError::for_internal_error` (500).
(`serde_json::to_vec` itself cannot fail for the value shapes modelled.) -/
inductive IssueErr | tooLarge
deriving DecidableEq, Repr

def IssueErr.status : IssueErr → Nat
  | .tooLarge => 500

def tokenBytes (c : SelCodec σ) (s : σ) : Bytes :=
  Base64.encode .urlSafe (envelope (c.enc s)).print

def serializeToken (c : SelCodec σ) (s : σ) : Except IssueErr Bytes :=
  let t := tokenBytes c s
  if t.length > maxTokenLength then .error .tooLarge else .ok t

/-! ### reading a token back -/

/-- Why a token is "corrupted" (one message in the code; the sub-kinds label
the branch for the evidence histogram). -/
inductive Corrupt
  | json        -- not JSON (syntax, bad UTF-8, trailing bytes)
  | depth       -- the selector is nested deeper than serde_json's recursion limit
  | shape       -- neither an object nor a 2-element array
  | dupField    -- `v` or `page_start` twice
  | missingField
  | version     -- `v` is not the known version
  | selector    -- `page_start` is not a value of the selector type
deriving DecidableEq, Repr

inductive TokenErr
  | tooLarge
  | base64
  | corrupted (why : Corrupt)
deriving DecidableEq, Repr

/-- `PaginationVersion` has the single variant `V1` (`"v1"`).  serde_json reads
a unit variant from the string or from the one-entry object `{"v1": null}`.
Any other spelling is an unknown variant, i.e. a corrupted token; the explicit
`!= V1` test in the code is unreachable while there is one variant. -/
def decVersion : JVal → Bool
  | .str s => s = kV1
  | .obj (.cons k .null .nil) => k = kV1
  | _ => false

/-- Reading `page_start` at the selector type, one level inside the envelope. -/
def decSel (c : SelCodec σ) (x : JVal) : Except Corrupt σ :=
  if c.typedDepth x ≥ maxJsonDepth then .error .depth
  else
    match c.dec x with
    | some s => .ok s
    | none => .error .selector

/-- The derived `Deserialize` of `SerializedToken` over an object: fields in
document order, unknown fields skipped, a repeated known field refused. -/
def walkFields (c : SelCodec σ) : JFields → Bool → Option σ → Except Corrupt (Bool × Option σ)
  | .nil, v, ps => .ok (v, ps)
  | .cons k x rest, v, ps =>
    if k = kV then
      if v then .error .dupField
      else if decVersion x then walkFields c rest true ps else .error .version
    else if k = kPageStart then
      match ps with
      | some _ => .error .dupField
      | none =>
        match decSel c x with
        | .ok s => walkFields c rest v (some s)
        | .error e => .error e
    else walkFields c rest v ps

/-- serde_json hands a struct visitor either a map or a sequence. -/
def decEnvelope (c : SelCodec σ) : JVal → Except Corrupt σ
  | .obj kvs =>
    match walkFields c kvs false none with
    | .error e => .error e
    | .ok (false, _) => .error .missingField
    | .ok (true, some s) => .ok s
    | .ok (true, none) =>
      match c.missing with
      | some s => .ok s
      | none => .error .missingField
  | .arr (.cons a (.cons b .nil)) =>
    if decVersion a then decSel c b else .error .version
  | _ => .error .shape

def deserializeToken (c : SelCodec σ) (tok : Bytes) : Except TokenErr σ :=
  if tok.length > maxTokenLength then .error .tooLarge
  else
    match Base64.decode .urlSafe tok with
    | none => .error .base64
    | some bytes =>
      match Json.parse bytes with
      | none => .error (.corrupted .json)
      | some j =>
        match decEnvelope c j with
        | .ok s => .ok s
        | .error e => .error (.corrupted e)

/-! ### the `limit` parameter -/

def digitsValue (ds : Bytes) : Nat := ds.foldl (fun acc d => acc * 10 + (d - 48)) 0

/-- The digit string `parseU32` looks at: the input minus one leading `+`. -/
def stripPlus : Bytes → Bytes
  | 43 :: r => r
  | s => s

/-- `str::parse::<u32>`: an optional single `+`, then one or more ASCII digits,
value below 2^32.  (No `-` for an unsigned type, no whitespace, no `_`.) -/
def parseU32 (s : Bytes) : Option Nat :=
  let ds := stripPlus s
  if ds = [] then none
  else if ds.all isDigit then
    let n := digitsValue ds
    if n < 4294967296 then some n else none
  else none

/-- `Option<NonZeroU32>` out of a present `limit=<s>`: `some n` with
`1 ≤ n < 2^32`, or refused. -/
def parseLimit (s : Bytes) : Option Nat :=
  match parseU32 s with
  | some n => if n = 0 then none else some n
  | none => none

/-- `RequestContext::page_limit`. -/
def pageLimit (client : Option Nat) (max dflt : Nat) : Nat :=
  match client with
  | some n => min n max
  | none => dflt

/-- `ConfigDropshot`-independent constants fixed in `server.rs`. -/
def serverMax : Nat := 10000
def serverDefault : Nat := 100

/-! ### the query string -/

def hexv (c : Nat) : Option Nat := Json.hexVal c

/-- `form_urlencoded` decoding of one name or value: `+` is a space, `%XX` a
byte, a `%` not followed by two hex digits stays. -/
def formDecode : Bytes → Bytes
  | [] => []
  | 43 :: r => 32 :: formDecode r
  | 37 :: a :: b :: r =>
    match hexv a, hexv b with
    | some x, some y => (x * 16 + y) :: formDecode r
    | _, _ => 37 :: formDecode (a :: b :: r)
  | c :: r => c :: formDecode r

def splitOn1 (sep : Nat) : Bytes → Bytes × Option Bytes
  | [] => ([], none)
  | c :: r =>
    if c = sep then ([], some r)
    else
      let (a, b) := splitOn1 sep r
      (c :: a, b)

def splitAll (sep : Nat) : Nat → Bytes → List Bytes
  | 0, _ => []
  | f + 1, s =>
    match splitOn1 sep s with
    | (a, none) => [a]
    | (a, some r) => a :: splitAll sep f r

/-- `form_urlencoded::parse`: pieces between `&` (empty pieces skipped), each
split at its first `=`. -/
def parseQuery (q : Bytes) : List (Bytes × Bytes) :=
  ((splitAll 38 (q.length + 1) q).filter (· ≠ [])).map fun piece =>
    let (k, v) := splitOn1 61 piece
    (formDecode k, formDecode (v.getD []))

/-- Last value stored under a key (what a `BTreeMap` built by repeated
`insert` holds). -/
def lastValue (kvs : List (Bytes × Bytes)) (k : Bytes) : Option Bytes :=
  match (kvs.reverse.find? fun p => p.1 = k) with
  | some p => some p.2
  | none => none

inductive WhichPage (scan σ : Type)
  | first (s : scan)
  | next (p : σ)

inductive ParamErr
  | dupLimit
  | badLimit
  | token (e : TokenErr)
  | scan          -- the scan parameters do not deserialize
deriving DecidableEq, Repr

/-- Every way the query extractor can fail is `HttpError::for_bad_request`. -/
def ParamErr.status : ParamErr → Nat := fun _ => 400

/-- `deserialize_whichpage` over the flattened remainder: a `page_token`
decides alone; otherwise the scan parameters are read from the map
(`from_map`, a parameter: the application's type). -/
def whichPage (c : SelCodec σ) (scanOf : (Bytes → Option Bytes) → Option scan)
    (raw : List (Bytes × Bytes)) : Except ParamErr (WhichPage scan σ) :=
  match lastValue raw kPageToken with
  | some t =>
    match deserializeToken c t with
    | .ok s => .ok (.next s)
    | .error e => .error (.token e)
  | none =>
    match scanOf (lastValue raw) with
    | some s => .ok (.first s)
    | none => .error .scan

/-- The derived visitor of `PaginationParams` (with `#[serde(flatten)]`): the
`limit` key is consumed by the struct itself (twice is an error), every other
pair goes to the flattened `page` field. -/
def takeLimit : List (Bytes × Bytes) → Option Nat → Except ParamErr (Option Nat)
  | [], lim => .ok lim
  | (k, v) :: rest, lim =>
    if k = kLimit then
      match lim with
      | some _ => .error .dupLimit
      | none =>
        match parseLimit v with
        | some n => takeLimit rest (some n)
        | none => .error .badLimit
    else takeLimit rest lim

def parseParams (c : SelCodec σ) (scanOf : (Bytes → Option Bytes) → Option scan)
    (kvs : List (Bytes × Bytes)) : Except ParamErr (WhichPage scan σ × Option Nat) :=
  match takeLimit kvs none with
  | .error e => .error e
  | .ok lim =>
    match whichPage c scanOf (kvs.filter fun p => p.1 ≠ kLimit) with
    | .error e => .error e
    | .ok w => .ok (w, lim)

/-! ### `ResultsPage::new` and a keyset scan (C15) -/

/-- `ResultsPage::new`: the next-page selector is that of the last item, and
exists iff there is a last item. -/
def nextSelector (sel : α → σ) (items : List α) : Option σ :=
  items.getLast?.map sel

/-- One request against an unchanging collection listed in scan order: the
first page is the first `limit` items; the page after `last` is the first
`limit` items that come strictly after `last` in scan order (`lt`). -/
def page (lt : α → α → Bool) (coll : List α) (limit : Nat) : Option α → List α
  | none => coll.take limit
  | some last => (coll.dropWhile fun x => !lt last x).take limit

/-- Follow next-page selectors from the first page until none is returned.
Result: the pages in order, and whether the fuel ran out (it never does:
`C15.scan_fuel_ok`). -/
def scanFrom (lt : α → α → Bool) (coll : List α) (limit : Nat) : Nat → Option α → List (List α) × Bool
  | 0, _ => ([], true)
  | f + 1, which =>
    let p := page lt coll limit which
    match nextSelector id p with
    | none => ([p], false)
    | some last =>
      let (ps, ex) := scanFrom lt coll limit f (some last)
      (p :: ps, ex)

def scan (lt : α → α → Bool) (coll : List α) (limit : Nat) : List (List α) × Bool :=
  scanFrom lt coll limit (coll.length + 2) none

end Dropshot.Pagination
