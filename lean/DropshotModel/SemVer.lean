/-
Model of the `semver` crate's `Version`: parsing (`FromStr`) and ordering
(`Ord`, derived lexicographically over major, minor, patch, pre, build with the
hand-written `Ord` impls of `Prerelease` and `BuildMetadata`).

The crate itself is *modelled, not verified*: the correspondence stream `sv`
of C05 compares this file with the crate on valid and invalid strings.
-/
namespace Dropshot

abbrev Ident := List Char

structure SemVer where
  major : Nat
  minor : Nat
  patch : Nat
  pre   : List Ident   -- [] = a real release
  build : List Ident   -- [] = no build metadata
deriving DecidableEq, Repr

namespace SemVer

def isDigit (c : Char) : Bool := '0' ≤ c && c ≤ '9'
def isAlpha (c : Char) : Bool := ('a' ≤ c && c ≤ 'z') || ('A' ≤ c && c ≤ 'Z')
def isIdentChar (c : Char) : Bool := isDigit c || isAlpha c || c == '-'

def u64Max : Nat := 18446744073709551615

def digitsVal : List Char → Nat → Nat
  | [], acc => acc
  | c :: cs, acc => digitsVal cs (acc * 10 + (c.toNat - '0'.toNat))

/-- Split off the maximal prefix satisfying `p` (structural). -/
def spanP (p : Char → Bool) : List Char → List Char × List Char
  | [] => ([], [])
  | c :: cs => if p c then let (a, b) := spanP p cs; (c :: a, b) else ([], c :: cs)

/-- `numeric_identifier`: non-empty digit run, no leading zero, fits in u64. -/
def numId (s : List Char) : Option (Nat × List Char) :=
  let (ds, rest) := spanP isDigit s
  match ds with
  | [] => none
  | d :: more =>
    if d = '0' ∧ more ≠ [] then none
    else
      let v := digitsVal ds 0
      if v > u64Max then none else some (v, rest)

def dot : List Char → Option (List Char)
  | '.' :: rest => some rest
  | _ => none

/-- A finished identifier segment is acceptable: non-empty and, in a
pre-release, not an all-digit string with a leading zero. -/
def segOk (isPre : Bool) (seg : Ident) : Bool :=
  match seg with
  | [] => false
  | c :: more => !(isPre && !more.isEmpty && seg.all isDigit && c == '0')

/-- `identifier`: dot-separated non-empty segments of `[0-9A-Za-z-]`; stops at
the first other character.  `cur` is the segment being read (reversed), `acc`
the finished segments (reversed). -/
def identGo (isPre : Bool) : List Char → Ident → List Ident → Option (List Ident × List Char)
  | [], cur, acc =>
    if segOk isPre cur.reverse then some ((cur.reverse :: acc).reverse, []) else none
  | c :: cs, cur, acc =>
    if isIdentChar c then identGo isPre cs (c :: cur) acc
    else if c = '.' then
      if segOk isPre cur.reverse then identGo isPre cs [] (cur.reverse :: acc) else none
    else
      if segOk isPre cur.reverse then some ((cur.reverse :: acc).reverse, c :: cs) else none

def identSegs (isPre : Bool) (s : List Char) : Option (List Ident × List Char) :=
  identGo isPre s [] []

/-- `<Version as FromStr>::from_str`. -/
def parseChars (s : List Char) : Option SemVer :=
  match numId s with
  | none => none
  | some (major, t) =>
  match dot t with
  | none => none
  | some t =>
  match numId t with
  | none => none
  | some (minor, t) =>
  match dot t with
  | none => none
  | some t =>
  match numId t with
  | none => none
  | some (patch, t) =>
    let preR : Option (List Ident × List Char) :=
      match t with
      | '-' :: t' => identSegs true t'
      | _ => some ([], t)
    match preR with
    | none => none
    | some (pre, t) =>
      let buildR : Option (List Ident × List Char) :=
        match t with
        | '+' :: t' => identSegs false t'
        | _ => some ([], t)
      match buildR with
      | none => none
      | some (build, t) =>
        if t.isEmpty then some { major, minor, patch, pre, build } else none

def parse (s : String) : Option SemVer := parseChars s.toList

/-- Byte-wise lexicographic comparison (`Ord for str`). -/
def cmpStr : Ident → Ident → Ordering
  | [], [] => .eq
  | [], _ :: _ => .lt
  | _ :: _, [] => .gt
  | a :: as, b :: bs => (compare a.toNat b.toNat).then (cmpStr as bs)

def cmpPreId (a b : Ident) : Ordering :=
  match a.all isDigit, b.all isDigit with
  | true, true => (compare a.length b.length).then (cmpStr a b)
  | true, false => .lt
  | false, true => .gt
  | false, false => cmpStr a b

def dropZeros : Ident → Ident
  | '0' :: cs => dropZeros cs
  | cs => cs

def cmpBuildId (a b : Ident) : Ordering :=
  match a.all isDigit, b.all isDigit with
  | true, true =>
    let a' := dropZeros a
    let b' := dropZeros b
    ((compare a'.length b'.length).then (cmpStr a' b')).then (compare a.length b.length)
  | true, false => .lt
  | false, true => .gt
  | false, false => cmpStr a b

/-- Lexicographic over identifier lists; a proper prefix is smaller. -/
def cmpIds (f : Ident → Ident → Ordering) : List Ident → List Ident → Ordering
  | [], [] => .eq
  | [], _ :: _ => .lt
  | _ :: _, [] => .gt
  | a :: as, b :: bs => (f a b).then (cmpIds f as bs)

/-- `Ord for Prerelease`: the empty pre-release (a real release) is greatest. -/
def cmpPre : List Ident → List Ident → Ordering
  | [], [] => .eq
  | [], _ :: _ => .gt
  | _ :: _, [] => .lt
  | a, b => cmpIds cmpPreId a b

/-- `"".split('.')` yields one empty segment. -/
def buildSegs (b : List Ident) : List Ident := if b.isEmpty then [[]] else b

def cmpBuild (a b : List Ident) : Ordering := cmpIds cmpBuildId (buildSegs a) (buildSegs b)

/-- Derived `Ord for Version`. -/
def cmp (a b : SemVer) : Ordering :=
  (compare a.major b.major).then <|
  (compare a.minor b.minor).then <|
  (compare a.patch b.patch).then <|
  (cmpPre a.pre b.pre).then (cmpBuild a.build b.build)

instance : LE SemVer := ⟨fun a b => cmp a b ≠ .gt⟩
instance : LT SemVer := ⟨fun a b => cmp a b = .lt⟩
instance : DecidableLE SemVer := fun a b => inferInstanceAs (Decidable (cmp a b ≠ .gt))
instance : DecidableLT SemVer := fun a b => inferInstanceAs (Decidable (cmp a b = .lt))

def identsToString (ids : List Ident) : String :=
  ".".intercalate (ids.map String.ofList)

def render (v : SemVer) : String :=
  s!"{v.major}.{v.minor}.{v.patch}" ++
  (if v.pre.isEmpty then "" else "-" ++ identsToString v.pre) ++
  (if v.build.isEmpty then "" else "+" ++ identsToString v.build)

/-- The least version, `0.0.0-0`. -/
def bot : SemVer := { major := 0, minor := 0, patch := 0, pre := [['0']], build := [] }

end SemVer
end Dropshot
