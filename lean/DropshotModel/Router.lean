/-
Model of `HttpRouter` (dropshot/src/router.rs): the trie exactly as the code
builds it, `insert` with every panic as an error value, `lookup_route` with the
404/405/Allow computation, the preorder iterator, and the flat specification
(`matchT`, `Cands`) the trie is proved to refine.

All recursion is structural over the mutual inductives `Node`/`Edges`/`Children`.
A failed registration is terminal (the real `ApiDescription` is not used after
`register` panicked).
-/
import DropshotModel.Version

namespace Dropshot

/-- `PathSegment` -/
inductive Seg where
  | lit (s : String)
  | var (n : String)
  | wild (n : String)
deriving DecidableEq, Repr

/-- `VariableValue` -/
inductive VarVal where
  | str (s : String)
  | comps (ss : List String)
deriving DecidableEq, Repr

/-- Variable bindings in path order (the real `BTreeMap` is the same set of
bindings: names never repeat along an accepted path). -/
abbrev Vars := List (String × VarVal)

/-- The part of `ApiEndpoint` the router looks at. `id` names the handler. -/
structure Endpoint (V : Type) where
  id : Nat
  method : String
  path : List Seg
  versions : Range V
  visible : Bool := true
deriving Repr

instance {V : Type} [DecidableEq V] : DecidableEq (Endpoint V) := by
  intro a b
  cases a; cases b
  simp only [Endpoint.mk.injEq]
  infer_instance

/-- ASCII upper-casing of one character (kernel-reducible, unlike `String.toUpper`). -/
def upperChar (c : Char) : Char :=
  if 'a' ≤ c ∧ c ≤ 'z' then Char.ofNat (c.toNat - 32) else c

/-- `method.as_str().to_uppercase()` (methods are ASCII tokens). -/
def normMethod (m : String) : String := String.ofList (m.toList.map upperChar)

/-- Every `panic!` of `HttpRouter::insert`. -/
inductive RegErr where
  | litVsVar        -- literal segment where a variable/wildcard edge exists
  | varVsLit        -- variable segment where literal edges exist
  | varVsRest       -- variable segment where a wildcard edge exists
  | wildVsLit       -- wildcard where literal edges exist
  | wildVsVar       -- wildcard where a single-variable edge exists
  | nameMismatch    -- same kind of edge, different variable name
  | dupVar          -- variable name used twice in the path
  | afterWildcard   -- segments after a wildcard
  | duplicate       -- same method, same version range
  | overlap         -- same method, overlapping version ranges
deriving DecidableEq, Repr

/-- Failures of `lookup_route` (400 for a bad path is decided before the trie
is consulted; see `DropshotModel/Path.lean`). -/
inductive LookupErr where
  | notFound
  | methodNotAllowed (allow : List String)
deriving DecidableEq, Repr

mutual
  inductive Node (V : Type) where
    | mk (methods : List (String × List (Endpoint V))) (edges : Edges V)
  inductive Edges (V : Type) where
    | none
    | lits (cs : Children V)
    | single (n : String) (c : Node V)
    | rest (n : String) (c : Node V)
  -- kept sorted by key, as `BTreeMap` iterates
  inductive Children (V : Type) where
    | nil
    | cons (k : String) (c : Node V) (tl : Children V)
end

namespace Node
variable {V : Type}

def empty : Node V := .mk [] .none

def methods : Node V → List (String × List (Endpoint V))
  | .mk ms _ => ms

def edges : Node V → Edges V
  | .mk _ es => es

end Node

section Insert
variable {V : Type} [LE V] [LT V] [DecidableLE V] [DecidableLT V] [DecidableEq V]

/-- Handlers registered at a node for an (already upper-cased) method. -/
def handlersFor (ms : List (String × List (Endpoint V))) (m : String) : List (Endpoint V) :=
  match ms.find? (fun p => p.1 == m) with
  | some p => p.2
  | none => []

/-- Replace or insert the entry for `m`, keeping keys sorted. -/
def setHandlers : List (String × List (Endpoint V)) → String → List (Endpoint V) →
    List (String × List (Endpoint V))
  | [], m, hs => [(m, hs)]
  | (k, v) :: tl, m, hs =>
    if m = k then (k, hs) :: tl
    else if m < k then (m, hs) :: (k, v) :: tl
    else (k, v) :: setHandlers tl m hs

/-- The check loop at the end of `insert`. -/
def conflictWith (e : Endpoint V) : List (Endpoint V) → Option RegErr
  | [] => none
  | h :: tl =>
    if Range.overlaps h.versions e.versions then
      (if h.versions = e.versions then some .duplicate else some .overlap)
    else conflictWith e tl

/-- Push the endpoint onto the node's per-method vector. -/
def addHandler (ms : List (String × List (Endpoint V))) (e : Endpoint V) :
    Except RegErr (List (String × List (Endpoint V))) :=
  let m := normMethod e.method
  let existing := handlersFor ms m
  match conflictWith e existing with
  | some err => .error err
  | none => .ok (setHandlers ms m (existing ++ [e]))

/-- A fresh chain of nodes below an absent edge (what `get_or_insert` /
`or_insert_with` create), ending with the endpoint.  `seen` = variable names
used so far on this path. -/
def Node.chain : List Seg → List String → Endpoint V → Except RegErr (Node V)
  | [], _, e => .ok (.mk [(normMethod e.method, [e])] .none)
  | .lit s :: rest, seen, e =>
    match Node.chain rest seen e with
    | .error err => .error err
    | .ok c => .ok (.mk [] (.lits (.cons s c .nil)))
  | .var n :: rest, seen, e =>
    if n ∈ seen then .error .dupVar else
    match Node.chain rest (n :: seen) e with
    | .error err => .error err
    | .ok c => .ok (.mk [] (.single n c))
  | .wild n :: rest, seen, e =>
    if !rest.isEmpty then .error .afterWildcard
    else if n ∈ seen then .error .dupVar else
    match Node.chain rest (n :: seen) e with
    | .error err => .error err
    | .ok c => .ok (.mk [] (.rest n c))

mutual
  /-- `HttpRouter::insert` from the node reached so far. -/
  def Node.insertAt : Node V → List Seg → List String → Endpoint V → Except RegErr (Node V)
    | .mk ms es, [], _, e =>
      match addHandler ms e with
      | .error err => .error err
      | .ok ms' => .ok (.mk ms' es)
    | .mk ms es, seg :: rest, seen, e =>
      match Edges.insertAt es seg rest seen e with
      | .error err => .error err
      | .ok es' => .ok (.mk ms es')

  def Edges.insertAt : Edges V → Seg → List Seg → List String → Endpoint V → Except RegErr (Edges V)
    | .none, seg, rest, seen, e =>
      -- fresh edge: identical to inserting into an empty node
      match Node.chain (seg :: rest) seen e with
      | .error err => .error err
      | .ok (.mk _ es) => .ok es
    | .lits cs, .lit s, rest, seen, e =>
      match Children.insertAt cs s rest seen e with
      | .error err => .error err
      | .ok cs' => .ok (.lits cs')
    | .lits _, .var n, _, seen, _ =>
      if n ∈ seen then .error .dupVar else .error .varVsLit
    | .lits _, .wild n, rest, seen, _ =>
      if !rest.isEmpty then .error .afterWildcard
      else if n ∈ seen then .error .dupVar else .error .wildVsLit
    | .single _ _, .lit _, _, _, _ => .error .litVsVar
    | .single n' c, .var n, rest, seen, e =>
      if n ∈ seen then .error .dupVar
      else if n ≠ n' then .error .nameMismatch
      else
        match Node.insertAt c rest (n :: seen) e with
        | .error err => .error err
        | .ok c' => .ok (.single n' c')
    | .single _ _, .wild n, rest, seen, _ =>
      if !rest.isEmpty then .error .afterWildcard
      else if n ∈ seen then .error .dupVar else .error .wildVsVar
    | .rest _ _, .lit _, _, _, _ => .error .litVsVar
    | .rest _ _, .var n, _, seen, _ =>
      if n ∈ seen then .error .dupVar else .error .varVsRest
    | .rest n' c, .wild n, rest, seen, e =>
      if !rest.isEmpty then .error .afterWildcard
      else if n ∈ seen then .error .dupVar
      else if n ≠ n' then .error .nameMismatch
      else
        match Node.insertAt c rest (n :: seen) e with
        | .error err => .error err
        | .ok c' => .ok (.rest n' c')

  def Children.insertAt : Children V → String → List Seg → List String → Endpoint V →
      Except RegErr (Children V)
    | .nil, k, rest, seen, e =>
      match Node.chain rest seen e with
      | .error err => .error err
      | .ok c => .ok (.cons k c .nil)
    | .cons k' c tl, k, rest, seen, e =>
      if k = k' then
        match Node.insertAt c rest seen e with
        | .error err => .error err
        | .ok c' => .ok (.cons k' c' tl)
      else if k < k' then
        match Node.chain rest seen e with
        | .error err => .error err
        | .ok cn => .ok (.cons k cn (.cons k' c tl))
      else
        match Children.insertAt tl k rest seen e with
        | .error err => .error err
        | .ok tl' => .ok (.cons k' c tl')
end

/-- `HttpRouter::insert`. -/
def Node.insert (t : Node V) (e : Endpoint V) : Except RegErr (Node V) :=
  Node.insertAt t e.path [] e

/-- Register a list of endpoints in order; the first failure is terminal. -/
def insertAll : Node V → List (Endpoint V) → Except RegErr (Node V)
  | t, [] => .ok t
  | t, e :: es =>
    match Node.insert t e with
    | .error err => .error err
    | .ok t' => insertAll t' es

/-- `insertAll` together with the router's sticky `has_versioned_routes` flag
(set by `insert` whenever the endpoint's range is not `All`). -/
def insertAllF : Node V → Bool → List (Endpoint V) → Except RegErr (Node V × Bool)
  | t, f, [] => .ok (t, f)
  | t, f, e :: es =>
    match Node.insert t e with
    | .error err => .error err
    | .ok t' => insertAllF t' (f || !e.versions.isAll) es

/-- `ServerBuilder::start` with `VersionPolicy::Unversioned`: refused when the
router holds any version-restricted route (server.rs, `UnversionedServerHasVersionedRoutes`). -/
def unversionedServerStarts (es : List (Endpoint V)) : Option Bool :=
  match insertAllF Node.empty false es with
  | .error _ => none
  | .ok (_, flag) => some (!flag)

end Insert

section Lookup
variable {V : Type} [LE V] [LT V] [DecidableLE V] [DecidableLT V] [DecidableEq V]

mutual
  /-- The segment loop of `lookup_route`, followed by "a wildcard child
  consumes the implicit empty remainder".  Returns the node whose handlers
  decide, and the bindings in path order. -/
  def Node.walk : Node V → List String → Vars → Option (Node V × Vars)
    | .mk ms es, [], vars =>
      match es with
      | .rest n c => some (c, vars ++ [(n, .comps [])])
      | _ => some (.mk ms es, vars)
    | .mk _ es, s :: ss, vars => Edges.walk es s ss vars

  def Edges.walk : Edges V → String → List String → Vars → Option (Node V × Vars)
    | .none, _, _, _ => none
    | .lits cs, s, ss, vars => Children.walk cs s ss vars
    | .single n c, s, ss, vars => Node.walk c ss (vars ++ [(n, .str s)])
    | .rest n c, s, ss, vars =>
      -- all remaining segments; the child's own edges are not consulted
      some (c, vars ++ [(n, .comps (s :: ss))])

  def Children.walk : Children V → String → List String → Vars → Option (Node V × Vars)
    | .nil, _, _, _ => none
    | .cons k c tl, s, ss, vars =>
      if s = k then Node.walk c ss vars else Children.walk tl s ss vars
end

/-- `find_handler_matching_version` -/
def findHandler (hs : List (Endpoint V)) (v : Option V) : Option (Endpoint V) :=
  hs.find? (fun h => h.versions.matches v)

/-- Methods of the node that have a handler for this version (the `Allow` list,
in `BTreeMap` key order). -/
def allowedMethods (ms : List (String × List (Endpoint V))) (v : Option V) : List String :=
  (ms.filter (fun p => (findHandler p.2 v).isSome)).map (·.1)

/-- `lookup_route` on an already split and decoded path. -/
def Node.lookup (t : Node V) (m : String) (segs : List String) (v : Option V) :
    Except LookupErr (Endpoint V × Vars) :=
  match Node.walk t segs [] with
  | none => .error .notFound
  | some (n, vars) =>
    match findHandler (handlersFor n.methods (normMethod m)) v with
    | some e => .ok (e, vars)
    | none =>
      let allow := allowedMethods n.methods v
      if allow.isEmpty then .error .notFound else .error (.methodNotAllowed allow)

/-- The `Allow` computation as it stood before the repair of defect D3 (every
method key of the node).  Kept for the regression witness. -/
def Node.lookupAsIs (t : Node V) (m : String) (segs : List String) (v : Option V) :
    Except LookupErr (Endpoint V × Vars) :=
  match Node.walk t segs [] with
  | none => .error .notFound
  | some (n, vars) =>
    match findHandler (handlersFor n.methods (normMethod m)) v with
    | some e => .ok (e, vars)
    | none =>
      if (allowedMethods n.methods v).isEmpty then .error .notFound
      else .error (.methodNotAllowed (n.methods.map (·.1)))

end Lookup

section Iter
variable {V : Type} [LE V] [LT V] [DecidableLE V] [DecidableLT V] [DecidableEq V]

/-- How `HttpRouterIter::path` renders a segment (`iter_node` turns a wildcard
edge into a plain variable segment). -/
def Seg.render : Seg → String
  | .lit s => s
  | .var n => "{" ++ n ++ "}"
  | .wild n => "{" ++ n ++ "}"

def renderPath (segs : List Seg) : String := "/" ++ "/".intercalate (segs.map Seg.render)

mutual
  /-- Everything stored, in iterator order, with the address of its node. -/
  def Node.all : Node V → List Seg → List (List Seg × Endpoint V)
    | .mk ms es, pre =>
      (ms.flatMap fun p => p.2.map fun e => (pre, e)) ++ Edges.all es pre

  def Edges.all : Edges V → List Seg → List (List Seg × Endpoint V)
    | .none, _ => []
    | .lits cs, pre => Children.all cs pre
    | .single n c, pre => Node.all c (pre ++ [.var n])
    | .rest n c, pre => Node.all c (pre ++ [.wild n])

  def Children.all : Children V → List Seg → List (List Seg × Endpoint V)
    | .nil, _ => []
    | .cons k c tl, pre => Node.all c (pre ++ [.lit k]) ++ Children.all tl pre
end

/-- `HttpRouter::endpoints(version)`: (path, method, endpoint) in iterator order. -/
def Node.iter (t : Node V) (v : Option V) : List (String × String × Endpoint V) :=
  ((Node.all t []).filter fun p => p.2.versions.matches v).map fun p =>
    (renderPath p.1, normMethod p.2.method, p.2)

/-- The stored endpoints. -/
def Node.abs (t : Node V) : List (Endpoint V) := (Node.all t []).map (·.2)

end Iter

/-! ### Flat specification -/

/-- Does a path template match a split request path, and with which bindings?
Five equations: both empty; a final wildcard takes the remainder (possibly
empty); a literal must be equal; a variable binds one segment; nothing else. -/
def matchT : List Seg → List String → Option Vars
  | [], [] => some []
  | [.wild n], ss => some [(n, .comps ss)]
  | .lit s :: ps, x :: xs => if s = x then matchT ps xs else none
  | .var n :: ps, x :: xs => (matchT ps xs).map ((n, .str x) :: ·)
  | _, _ => none

section Spec
variable {V : Type} [LE V] [LT V] [DecidableLE V] [DecidableLT V] [DecidableEq V]

/-- Registered endpoints a request (method, path, version) matches. -/
def Cands (es : List (Endpoint V)) (m : String) (p : List String) (v : Option V) :
    List (Endpoint V) :=
  es.filter fun e =>
    normMethod e.method = normMethod m && (matchT e.path p).isSome && e.versions.matches v

/-- Methods for which this path is served at this version. -/
def servedMethods (es : List (Endpoint V)) (p : List String) (v : Option V) : List String :=
  (es.filter fun e => (matchT e.path p).isSome && e.versions.matches v).map fun e =>
    normMethod e.method

end Spec

/-! ### Route-template parsing (`route_path_to_segments` + `PathSegment::from`) -/

inductive TemplateErr where
  | noLeadingSlash | emptySegment | missingOpenBrace | missingCloseBrace
  | emptyVarName | badPattern
deriving DecidableEq, Repr

/-- `PathSegment::from` on the characters of one raw segment. -/
def parseSeg (cs : List Char) : Except TemplateErr Seg :=
  let startsB := cs.head? == some '{'
  let endsB := cs.getLast? == some '}'
  if startsB || endsB then
    if !startsB then .error .missingOpenBrace
    else if !endsB then .error .missingCloseBrace
    else
      -- `&segment[1..len-1]`; for the one-character segments "{" and "}" the
      -- real slice would panic (start > end); both are reported as errors here
      if cs.length < 2 then .error .missingCloseBrace else
      let inner := (cs.drop 1).dropLast
      let (name, pat) := match inner.span (· != ':') with
        | (nm, []) => (nm, (none : Option (List Char)))
        | (nm, _ :: p) => (nm, some p)
      if name.isEmpty then .error .emptyVarName
      else match pat with
        | none => .ok (.var (String.ofList name))
        | some p => if p = ['.', '*'] then .ok (.wild (String.ofList name)) else .error .badPattern
  else .ok (.lit (String.ofList cs))

/-- Split on '/' (structural). -/
def splitSlash : List Char → List Char → List (List Char)
  | [], cur => [cur.reverse]
  | c :: cs, cur => if c = '/' then cur.reverse :: splitSlash cs [] else splitSlash cs (c :: cur)

def mapSegs : List (List Char) → Except TemplateErr (List Seg)
  | [] => .ok []
  | r :: rs =>
    match parseSeg r with
    | .error e => .error e
    | .ok s => match mapSegs rs with
      | .error e => .error e
      | .ok ss => .ok (s :: ss)

/-- `route_path_to_segments` then `PathSegment::from` on each segment. -/
def routeSegs (path : String) : Except TemplateErr (List Seg) :=
  match path.toList with
  | '/' :: rest =>
    let raw := splitSlash rest []
    -- only the final segment may be empty (a trailing '/'), and it is dropped
    let body := raw.dropLast
    let last := raw.getLast?.getD []
    if body.any (·.isEmpty) then .error .emptySegment
    else mapSegs (if last.isEmpty then body else body ++ [last])
  | _ => .error .noLeadingSlash

end Dropshot
