/-
Executable contract of `serde_json` (1.0, `Deserializer::from_slice`) + serde's
derived `Deserialize` for the flat struct types of `Extract.lean`, as used by
`http_request_load_body` for `application/json` bodies (C09 / C10 drivers).

*Modelled, not verified, and no theorem depends on it*: the C09/C10 theorems
take the JSON codec as a parameter.  The driver compares this file with the
real server on every run.

`http_request_load_body` calls
`serde_path_to_error::deserialize(&mut Deserializer::from_slice(body))` and then
`Deserializer::end()`: the first JSON value is decoded into the type, then only
whitespace may follow (`decode`).  `decodeStrict` is the RFC 8259 reading used
as the specification (one value surrounded by optional whitespace, of the
type).  Before the repair of finding K10a (commit 15a2707) `end()` was not
called and bytes after the first value were not looked at: `decodeAsIs`, kept
for the regression witness `C10.decodeAsIs_fails`.

Not modelled: the recursion limit (128), `arbitrary_precision`, the laxer
syntax check serde_json applies to values of *unknown* fields (`ignore_value`
does not validate UTF-8 or surrogate pairs inside skipped strings).
-/
import DropshotModel.Extract

namespace Dropshot.JsonBody
open Dropshot Dropshot.Utf8 Dropshot.Extract

inductive JVal where
  | null
  | bool (b : Bool)
  | int (neg : Bool) (n : Nat)     -- integer literal; `-0` is a float for serde_json
  | float                          -- any number with a fraction or exponent, and `-0`
  | str (s : Bytes)
  | arr (vs : List JVal)
  | obj (kvs : List (Bytes × JVal))
deriving Repr

def isWs (c : Nat) : Bool := c == 32 || c == 9 || c == 10 || c == 13

def skipWs : Bytes → Bytes
  | [] => []
  | c :: cs => if isWs c then skipWs cs else c :: cs

def isDig (c : Nat) : Bool := 48 ≤ c && c ≤ 57

/-- Consume digits: (value continued from `acc`, count, rest). -/
def digits : Bytes → Nat → Nat → Nat × Nat × Bytes
  | [], acc, k => (acc, k, [])
  | c :: cs, acc, k => if isDig c then digits cs (acc * 10 + (c - 48)) (k + 1) else (acc, k, c :: cs)

/-- Optional fraction and exponent after the integer part: `some (isFloat, rest)`;
`none` = malformed. -/
def fracExp (bs : Bytes) : Option (Bool × Bytes) :=
  let afterFrac : Option (Bool × Bytes) :=
    match bs with
    | 46 :: r =>
      let (_, k, r') := digits r 0 0
      if k = 0 then none else some (true, r')
    | _ => some (false, bs)
  match afterFrac with
  | none => none
  | some (f, r) =>
    match r with
    | c :: r1 =>
      if c = 101 || c = 69 then
        let r2 := match r1 with
          | 43 :: t => t
          | 45 :: t => t
          | _ => r1
        let (_, k, r3) := digits r2 0 0
        if k = 0 then none else some (true, r3)
      else some (f, r)
    | [] => some (f, r)

/-- A JSON number starting at `bs` (after an optional `-`). -/
def number (neg : Bool) (bs : Bytes) : Option (JVal × Bytes) :=
  match bs with
  | 48 :: r =>
    -- a leading zero may not be followed by a digit
    match r with
    | c :: _ => if isDig c then none else
        match fracExp r with
        | none => none
        | some (true, r') => some (.float, r')
        | some (false, r') => some (if neg then .float else .int false 0, r')
    | [] => some (if neg then .float else .int false 0, [])
  | c :: _ =>
    if isDig c then
      let (n, _, r) := digits bs 0 0
      match fracExp r with
      | none => none
      | some (true, r') => some (.float, r')
      | some (false, r') => some (.int neg n, r')
    else none
  | [] => none

def hex4 : Bytes → Option (Nat × Bytes)
  | a :: b :: c :: d :: r =>
    match Percent.hexVal a, Percent.hexVal b, Percent.hexVal c, Percent.hexVal d with
    | some w, some x, some y, some z => some (((w * 16 + x) * 16 + y) * 16 + z, r)
    | _, _, _, _ => none
  | _ => none

/-- String contents after the opening quote: decoded bytes (not yet checked for
UTF-8 validity; accumulated in reverse) and the rest after the closing quote. -/
def strBody : Nat → Bytes → Bytes → Option (Bytes × Bytes)
  | 0, _, _ => none
  | _ + 1, [], _ => none
  | fuel + 1, c :: cs, acc =>
    if c = 34 then some (acc.reverse, cs)
    else if c < 32 then none
    else if c = 92 then
      match cs with
      | 34 :: r => strBody fuel r (34 :: acc)
      | 92 :: r => strBody fuel r (92 :: acc)
      | 47 :: r => strBody fuel r (47 :: acc)
      | 98 :: r => strBody fuel r (8 :: acc)
      | 102 :: r => strBody fuel r (12 :: acc)
      | 110 :: r => strBody fuel r (10 :: acc)
      | 114 :: r => strBody fuel r (13 :: acc)
      | 116 :: r => strBody fuel r (9 :: acc)
      | 117 :: r =>
        match hex4 r with
        | none => none
        | some (u, r1) =>
          if 0xD800 ≤ u ∧ u ≤ 0xDBFF then
            match r1 with
            | 92 :: 117 :: r2 =>
              match hex4 r2 with
              | none => none
              | some (l, r3) =>
                if 0xDC00 ≤ l ∧ l ≤ 0xDFFF then
                  strBody fuel r3
                    ((utf8Encode (0x10000 + (u - 0xD800) * 1024 + (l - 0xDC00))).reverse ++ acc)
                else none
            | _ => none
          else if 0xDC00 ≤ u ∧ u ≤ 0xDFFF then none
          else strBody fuel r1 ((utf8Encode u).reverse ++ acc)
      | _ => none
    else strBody fuel cs (c :: acc)

def jstring (bs : Bytes) : Option (Bytes × Bytes) :=
  match strBody (bs.length + 1) bs [] with
  | some (s, r) => if utf8Valid s then some (s, r) else none
  | none => none

def lit (word : Bytes) (v : JVal) (bs : Bytes) : Option (JVal × Bytes) :=
  if word.isPrefixOf bs then some (v, bs.drop word.length) else none

mutual
  /-- One JSON value at the front of `bs` (leading whitespace allowed). -/
  def value : Nat → Bytes → Option (JVal × Bytes)
    | 0, _ => none
    | fuel + 1, bs =>
      match skipWs bs with
      | [] => none
      | 110 :: r => lit [117, 108, 108] .null r
      | 116 :: r => lit [114, 117, 101] (.bool true) r
      | 102 :: r => lit [97, 108, 115, 101] (.bool false) r
      | 34 :: r =>
        match jstring r with
        | some (s, r') => some (.str s, r')
        | none => none
      | 45 :: r => number true r
      | 91 :: r =>
        match skipWs r with
        | 93 :: r' => some (.arr [], r')
        | _ => elems fuel r []
      | 123 :: r =>
        match skipWs r with
        | 125 :: r' => some (.obj [], r')
        | _ => members fuel r []
      | c :: r => if isDig c then number false (c :: r) else none
  /-- Array elements after `[` (at least one). -/
  def elems : Nat → Bytes → List JVal → Option (JVal × Bytes)
    | 0, _, _ => none
    | fuel + 1, bs, acc =>
      match value fuel bs with
      | none => none
      | some (v, r) =>
        match skipWs r with
        | 44 :: r' => elems fuel r' (acc ++ [v])
        | 93 :: r' => some (.arr (acc ++ [v]), r')
        | _ => none
  /-- Object members after `{` (at least one). -/
  def members : Nat → Bytes → List (Bytes × JVal) → Option (JVal × Bytes)
    | 0, _, _ => none
    | fuel + 1, bs, acc =>
      match skipWs bs with
      | 34 :: r =>
        match jstring r with
        | none => none
        | some (k, r1) =>
          match skipWs r1 with
          | 58 :: r2 =>
            match value fuel r2 with
            | none => none
            | some (v, r3) =>
              match skipWs r3 with
              | 44 :: r4 => members fuel r4 (acc ++ [(k, v)])
              | 125 :: r4 => some (.obj (acc ++ [(k, v)]), r4)
              | _ => none
          | _ => none
      | _ => none
end

/-- The first JSON value of a document and what follows it. -/
def parseFirst (body : Bytes) : Option (JVal × Bytes) := value (2 * body.length + 2) body

/-! ### serde's derived visitors over a parsed value -/

def deScalarJ : STy → JVal → Except DeErr SVal
  | .bool, .bool b => .ok (.bool b)
  | .uint w, .int false n => if n < 2 ^ w then .ok (.nat n) else .error .parse
  | .int w, .int neg n =>
    if neg then (if n ≤ 2 ^ (w - 1) then .ok (.int (-(n : Int))) else .error .parse)
    else (if n < 2 ^ (w - 1) then .ok (.int n) else .error .parse)
  | .string, .str s => .ok (.str s)
  | .char, .str s => match parseChar s with | some c => .ok (.chr c) | none => .error .parse
  | .enum vs, .str s => if vs.contains s then .ok (.variant s) else .error .variant
  -- serde_json also reads a unit variant from the externally tagged form `{"Variant": null}`
  | .enum vs, .obj [(k, .null)] => if vs.contains k then .ok (.variant k) else .error .variant
  | _, _ => .error .parse

def deSeqJ (t : STy) : List JVal → Except DeErr (List SVal)
  | [] => .ok []
  | v :: vs =>
    match deScalarJ t v with
    | .error e => .error e
    | .ok x => match deSeqJ t vs with
      | .error e => .error e
      | .ok xs => .ok (x :: xs)

def deFieldJ : FTy → JVal → Except DeErr FVal
  | .scalar t, v => match deScalarJ t v with | .ok x => .ok (.scalar x) | .error e => .error e
  | .option _, .null => .ok .none
  | .option t, v => match deScalarJ t v with | .ok x => .ok (.some x) | .error e => .error e
  | .seq t, .arr vs => match deSeqJ t vs with | .ok xs => .ok (.seq xs) | .error e => .error e
  | .seq _, _ => .error .parse
  | .nested, _ => .error .shape

/-- `visit_map`: members in document order; a known key twice is an error;
unknown keys are skipped. -/
def deMembers (fs : List (Bytes × FTy)) : List (Bytes × JVal) → List (Bytes × FVal) →
    Except DeErr (List (Bytes × FVal))
  | [], got => .ok got
  | (k, v) :: rest, got =>
    match lookupField fs k with
    | none => deMembers fs rest got
    | some ft =>
      if (lookupGot got k).isSome then .error .duplicate
      else match deFieldJ ft v with
        | .error e => .error e
        | .ok fv => deMembers fs rest ((k, fv) :: got)

/-- `visit_seq`: one element per field, in declaration order, no more, no fewer. -/
def dePositional : List (Bytes × FTy) → List JVal → Except DeErr Val
  | [], [] => .ok []
  | [], _ :: _ => .error .shape
  | _ :: _, [] => .error .shape
  | (n, ft) :: fs, v :: vs =>
    match deFieldJ ft v with
    | .error e => .error e
    | .ok fv => match dePositional fs vs with
      | .error e => .error e
      | .ok rest => .ok ((n, fv) :: rest)

def deStructJ (fs : List (Bytes × FTy)) : JVal → Except DeErr Val
  | .obj kvs =>
    match deMembers fs kvs [] with
    | .error e => .error e
    | .ok got => finish got fs
  | .arr vs => dePositional fs vs
  | _ => .error .shape

/-- What the server does with a JSON body of struct type `fs`: decode the first
value into the type (`serde_path_to_error::deserialize`), then
`Deserializer::end()`: anything but whitespace after it is an error. -/
def decode (fs : List (Bytes × FTy)) (body : Bytes) : Except BodyErr Val :=
  match parseFirst body with
  | none => .error .json
  | some (v, rest) =>
    match deStructJ fs v with
    | .error e => .error (.decode e)
    | .ok x => if skipWs rest ≠ [] then .error .json else .ok x

/-- As the code stood before the repair of K10a: nothing after the first value
is examined. -/
def decodeAsIs (fs : List (Bytes × FTy)) (body : Bytes) : Except BodyErr Val :=
  match parseFirst body with
  | none => .error .json
  | some (v, _) =>
    match deStructJ fs v with
    | .ok x => .ok x
    | .error e => .error (.decode e)

/-- The RFC 8259 reading (the specification): the body is one JSON value,
optionally surrounded by whitespace, and that value is of the type. -/
def decodeStrict (fs : List (Bytes × FTy)) (body : Bytes) : Except BodyErr Val :=
  match parseFirst body with
  | none => .error .json
  | some (v, rest) =>
    if skipWs rest ≠ [] then .error .json
    else match deStructJ fs v with
      | .ok x => .ok x
      | .error e => .error (.decode e)

/-- A complete, well-typed JSON value followed by something other than
whitespace (the inputs of the repaired finding K10a; now a class label). -/
def trailingGarbage (fs : List (Bytes × FTy)) (body : Bytes) : Bool :=
  match parseFirst body with
  | some (v, rest) =>
    decide (skipWs rest ≠ []) && (match deStructJ fs v with | .ok _ => true | .error _ => false)
  | none => false

end Dropshot.JsonBody
