/-
SchemaJson.lean — unverified glue shared by the C07/C08 drivers: a JSON reader
and printer for `Schema.J`, key-order canonicalisation, the structural dump
format in which the harness transmits a `schemars::schema::Schema`
(`JS.ofJson`), the serialisation of `openapiv3::Schema` (`RefOr.toJson`,
mirroring the crate's serde attributes) and its inverse (`RefOr.ofJson`, strict:
an unknown keyword is a parse failure, never ignored).

Numbers: integral values only.  `1.0`, `2e3`, `-0.0` are read as integers;
a non-integral number is a parse failure (no generator emits one).
-/
import DropshotModel.J2Oas

namespace Dropshot.Schema

/-! ## Reader -/

structure PState where
  s : Array Char
  i : Nat

namespace Reader

def peek (p : PState) : Option Char := p.s[p.i]?
def adv (p : PState) (n : Nat := 1) : PState := { p with i := p.i + n }

partial def skipWs (p : PState) : PState :=
  match peek p with
  | some ' ' | some '\n' | some '\t' | some '\r' => skipWs (adv p)
  | _ => p

def hexVal (c : Char) : Option Nat :=
  if '0' ≤ c ∧ c ≤ '9' then some (c.toNat - '0'.toNat)
  else if 'a' ≤ c ∧ c ≤ 'f' then some (c.toNat - 'a'.toNat + 10)
  else if 'A' ≤ c ∧ c ≤ 'F' then some (c.toNat - 'A'.toNat + 10)
  else none

def hex4 (p : PState) : Option (Nat × PState) := do
  let a ← (peek p).bind hexVal
  let b ← (peek (adv p)).bind hexVal
  let c ← (peek (adv p 2)).bind hexVal
  let d ← (peek (adv p 3)).bind hexVal
  pure (((a * 16 + b) * 16 + c) * 16 + d, adv p 4)

partial def strBody (p : PState) (acc : List Char) : Option (String × PState) :=
  match peek p with
  | none => none
  | some '"' => some (String.ofList acc.reverse, adv p)
  | some '\\' =>
    match peek (adv p) with
    | some '"' => strBody (adv p 2) ('"' :: acc)
    | some '\\' => strBody (adv p 2) ('\\' :: acc)
    | some '/' => strBody (adv p 2) ('/' :: acc)
    | some 'b' => strBody (adv p 2) (Char.ofNat 8 :: acc)
    | some 'f' => strBody (adv p 2) (Char.ofNat 12 :: acc)
    | some 'n' => strBody (adv p 2) ('\n' :: acc)
    | some 'r' => strBody (adv p 2) ('\r' :: acc)
    | some 't' => strBody (adv p 2) ('\t' :: acc)
    | some 'u' =>
      match hex4 (adv p 2) with
      | none => none
      | some (hi, p') =>
        if 0xD800 ≤ hi ∧ hi < 0xDC00 then
          -- surrogate pair
          match peek p', peek (adv p') with
          | some '\\', some 'u' =>
            match hex4 (adv p' 2) with
            | some (lo, p'') =>
              if 0xDC00 ≤ lo ∧ lo < 0xE000 then
                strBody p'' (Char.ofNat (0x10000 + (hi - 0xD800) * 0x400 + (lo - 0xDC00)) :: acc)
              else none
            | none => none
          | _, _ => none
        else strBody p' (Char.ofNat hi :: acc)
    | _ => none
  | some c => strBody (adv p) (c :: acc)

partial def digits (p : PState) (acc : List Char) : List Char × PState :=
  match peek p with
  | some c => if c.isDigit then digits (adv p) (c :: acc) else (acc.reverse, p)
  | none => (acc.reverse, p)

def natOf (ds : List Char) : Nat := ds.foldl (fun n c => n * 10 + (c.toNat - '0'.toNat)) 0

/-- number ↦ integer when integral. -/
def number (p : PState) : Option (Int × PState) :=
  let (neg, p) := match peek p with | some '-' => (true, adv p) | _ => (false, p)
  let (ip, p) := digits p []
  if ip.isEmpty then none else
  let (fp, p) := match peek p with
    | some '.' => digits (adv p) []
    | _ => ([], p)
  let (ex, p) : Int × PState := match peek p with
    | some 'e' | some 'E' =>
      let (eneg, p') := match peek (adv p) with
        | some '-' => (true, adv p 2) | some '+' => (false, adv p 2) | _ => (false, adv p)
      let (ed, p'') := digits p' []
      ((if eneg then -(natOf ed : Int) else (natOf ed : Int)), p'')
    | _ => (0, p)
  let mant : Nat := natOf (ip ++ fp)
  let e : Int := ex - fp.length
  let mag : Option Nat :=
    if e ≥ 0 then some (mant * 10 ^ e.toNat)
    else
      let d := 10 ^ (-e).toNat
      if mant % d == 0 then some (mant / d) else none
  match mag with
  | none => none
  | some m => some ((if neg then -(m : Int) else (m : Int)), p)

def lit (p : PState) (w : String) : Option PState :=
  let cs := w.toList
  if (List.range cs.length).all (fun k => p.s[p.i + k]? == cs[k]?) then some (adv p cs.length) else none

mutual
partial def value (p : PState) : Option (J × PState) :=
  let p := skipWs p
  match peek p with
  | some 'n' => (lit p "null").map fun p => (.null, p)
  | some 't' => (lit p "true").map fun p => (.bool true, p)
  | some 'f' => (lit p "false").map fun p => (.bool false, p)
  | some '"' => (strBody (adv p) []).map fun (s, p) => (.str s, p)
  | some '[' =>
    let p := skipWs (adv p)
    if peek p == some ']' then some (.arr [], adv p) else elems p []
  | some '{' =>
    let p := skipWs (adv p)
    if peek p == some '}' then some (.obj [], adv p) else members p []
  | some _ => (number p).map fun (n, p) => (.num n, p)
  | none => none
partial def elems (p : PState) (acc : List J) : Option (J × PState) :=
  match value p with
  | none => none
  | some (v, p) =>
    let p := skipWs p
    match peek p with
    | some ',' => elems (adv p) (v :: acc)
    | some ']' => some (.arr (v :: acc).reverse, adv p)
    | _ => none
partial def members (p : PState) (acc : List (String × J)) : Option (J × PState) :=
  let p := skipWs p
  match peek p with
  | some '"' =>
    match strBody (adv p) [] with
    | none => none
    | some (k, p) =>
      let p := skipWs p
      if peek p != some ':' then none else
      match value (adv p) with
      | none => none
      | some (v, p) =>
        let p := skipWs p
        match peek p with
        | some ',' => members (adv p) ((k, v) :: acc)
        | some '}' => some (.obj ((k, v) :: acc).reverse, adv p)
        | _ => none
  | _ => none
end

end Reader

def parseJson (s : String) : Option J :=
  match Reader.value ⟨s.toList.toArray, 0⟩ with
  | some (v, p) => if (Reader.skipWs p).i == p.s.size || (Reader.skipWs p).i ≥ p.s.size then some v else none
  | none => none

/-- hex field → JSON. -/
def parseJsonBytes (bs : List UInt8) : Option J :=
  match String.fromUTF8? (ByteArray.mk bs.toArray) with
  | some s => parseJson s
  | none => none

/-! ## Printer and canonical form -/

def escChar (c : Char) : String :=
  if c == '"' then "\\\"" else if c == '\\' then "\\\\"
  else if c == '\n' then "\\n" else if c == '\r' then "\\r" else if c == '\t' then "\\t"
  else if c.toNat < 0x20 then
    let h := Nat.toDigits 16 c.toNat
    "\\u" ++ String.ofList (List.replicate (4 - h.length) '0' ++ h)
  else String.singleton c

def escStr (s : String) : String := "\"" ++ String.join (s.toList.map escChar) ++ "\""

partial def J.print : J → String
  | .null => "null"
  | .bool b => if b then "true" else "false"
  | .num n => toString n
  | .str s => escStr s
  | .arr xs => "[" ++ ",".intercalate (xs.map J.print) ++ "]"
  | .obj kvs => "{" ++ ",".intercalate (kvs.map fun (k, v) => escStr k ++ ":" ++ J.print v) ++ "}"

def insertKV (kv : String × J) : List (String × J) → List (String × J)
  | [] => [kv]
  | x :: xs => if kv.1 < x.1 then kv :: x :: xs else x :: insertKV kv xs

/-- objects key-sorted, recursively. -/
partial def J.canon : J → J
  | .arr xs => .arr (xs.map J.canon)
  | .obj kvs => .obj ((kvs.map fun (k, v) => (k, J.canon v)).foldr insertKV [])
  | j => j

def J.eqv (a b : J) : Bool := J.beq a.canon b.canon

/-! ## Small accessors -/

def J.get? (j : J) (k : String) : Option J :=
  match j with
  | .obj kvs => J.lookup k kvs
  | _ => none

def J.asStr? : J → Option String | .str s => some s | _ => none
def J.asInt? : J → Option Int | .num n => some n | _ => none
def J.asNat? : J → Option Nat | .num n => if n ≥ 0 then some n.toNat else none | _ => none
def J.asBool? : J → Option Bool | .bool b => some b | _ => none
def J.asArr? : J → Option (List J) | .arr xs => some xs | _ => none
def J.asObj? : J → Option (List (String × J)) | .obj kvs => some kvs | _ => none

/-- optional field with a reader: absent ↦ `some none`, unreadable ↦ `none`. -/
def optField {α : Type} (j : J) (k : String) (f : J → Option α) : Option (Option α) :=
  match j.get? k with
  | none => some none
  | some v => (f v).map some

def JSList.ofList : List JS → JSList
  | [] => .nil
  | s :: rest => .cons s (JSList.ofList rest)

def JSProps.ofList : List (String × JS) → JSProps
  | [] => .nil
  | (k, s) :: rest => .cons k s (JSProps.ofList rest)

partial def JSList.toList : JSList → List JS
  | .nil => []
  | .cons s rest => s :: rest.toList

partial def JSProps.toList : JSProps → List (String × JS)
  | .nil => []
  | .cons k s rest => (k, s) :: rest.toList

def ORList.ofList : List RefOr → ORList
  | [] => .nil
  | s :: rest => .cons s (ORList.ofList rest)

def ORProps.ofList : List (String × RefOr) → ORProps
  | [] => .nil
  | (k, s) :: rest => .cons k s (ORProps.ofList rest)

partial def ORList.toList : ORList → List RefOr
  | .nil => []
  | .cons s rest => s :: rest.toList

partial def ORProps.toList : ORProps → List (String × RefOr)
  | .nil => []
  | .cons k s rest => (k, s) :: rest.toList

/-! ## The harness' structural dump of `schemars::schema::Schema`

Keys are the Rust field names; a key is present iff the field is `Some`
(`const_value: null` is `Some(Null)`); the boxed groups `metadata`,
`subschemas`, `number`, `string`, `array`, `object` are nested objects, so
`None` and `Some(default)` stay distinct. -/

def itypeOf : String → Option IType
  | "null" => some .null | "boolean" => some .boolean | "object" => some .object
  | "array" => some .array | "number" => some .number | "string" => some .string
  | "integer" => some .integer | _ => none

def allowedKeys (j : J) (ks : List String) : Bool :=
  match j with
  | .obj kvs => kvs.all (fun kv => ks.contains kv.1)
  | _ => false

mutual
partial def JS.ofJson (j : J) : Option JS :=
  match j with
  | .bool b => some (.bool b)
  | .obj _ => do
    if !allowedKeys j ["metadata", "instance_type", "format", "enum_values", "const_value", "subschemas",
        "number", "string", "array", "object", "reference", "extensions"] then none
    let md ← optField j "metadata" fun m => do
      if !allowedKeys m ["id", "title", "description", "default", "deprecated", "read_only",
        "write_only", "examples"] then none
      let id ← optField m "id" J.asStr?
      let title ← optField m "title" J.asStr?
      let desc ← optField m "description" J.asStr?
      let dep ← optField m "deprecated" J.asBool?
      let ro ← optField m "read_only" J.asBool?
      let wo ← optField m "write_only" J.asBool?
      let ex ← optField m "examples" J.asArr?
      pure ({ id := id, title := title, description := desc, default := m.get? "default",
              deprecated := dep.getD false, readOnly := ro.getD false, writeOnly := wo.getD false,
              examples := ex.getD [] } : Meta)
    let ty ← optField j "instance_type" fun t =>
      match t with
      | .str s => (itypeOf s).map .single
      | .arr xs => (xs.mapM fun (x : J) => x.asStr?.bind itypeOf).map .vec
      | _ => none
    let fmt ← optField j "format" J.asStr?
    let en ← optField j "enum_values" J.asArr?
    let cv := j.get? "const_value"
    let subs ← match j.get? "subschemas" with
      | none => some JSSubs.none
      | some s => do
        if !allowedKeys s ["all_of", "any_of", "one_of", "not", "if_schema", "then_schema", "else_schema"] then none
        let a ← JS.optListOf (s.get? "all_of")
        let b ← JS.optListOf (s.get? "any_of")
        let c ← JS.optListOf (s.get? "one_of")
        let n ← JS.optOf (s.get? "not")
        let i ← JS.optOf (s.get? "if_schema")
        let t ← JS.optOf (s.get? "then_schema")
        let e ← JS.optOf (s.get? "else_schema")
        pure (JSSubs.some a b c n i t e)
    let num ← optField j "number" fun m => do
      if !allowedKeys m ["multiple_of", "maximum", "exclusive_maximum", "minimum", "exclusive_minimum"] then none
      let a ← optField m "multiple_of" J.asInt?
      let b ← optField m "maximum" J.asInt?
      let c ← optField m "exclusive_maximum" J.asInt?
      let d ← optField m "minimum" J.asInt?
      let e ← optField m "exclusive_minimum" J.asInt?
      pure ({ multipleOf := a, maximum := b, exclusiveMaximum := c, minimum := d, exclusiveMinimum := e } : NumV)
    let str ← optField j "string" fun m => do
      if !allowedKeys m ["max_length", "min_length", "pattern"] then none
      let a ← optField m "max_length" J.asNat?
      let b ← optField m "min_length" J.asNat?
      let c ← optField m "pattern" J.asStr?
      pure ({ maxLength := a, minLength := b, pattern := c } : StrV)
    let arr ← match j.get? "array" with
      | none => some JSArr.none
      | some a => do
        if !allowedKeys a ["items", "additional_items", "max_items", "min_items", "unique_items", "contains"] then none
        let items ← match a.get? "items" with
          | none => some JSItems.none
          | some (.arr xs) => (xs.mapM JS.ofJson).map fun l => JSItems.vec (JSList.ofList l)
          | some s => (JS.ofJson s).map JSItems.single
        let ai ← JS.optOf (a.get? "additional_items")
        let mx ← optField a "max_items" J.asNat?
        let mn ← optField a "min_items" J.asNat?
        let u ← optField a "unique_items" J.asBool?
        let c ← JS.optOf (a.get? "contains")
        pure (JSArr.some items ai mx mn u c)
    let ob ← match j.get? "object" with
      | none => some JSObjV.none
      | some o => do
        if !allowedKeys o ["max_properties", "min_properties", "required", "properties", "pattern_properties",
          "additional_properties", "property_names"] then none
        let mx ← optField o "max_properties" J.asNat?
        let mn ← optField o "min_properties" J.asNat?
        let req ← optField o "required" fun r => r.asArr?.bind (·.mapM J.asStr?)
        let props ← JS.propsOf (o.get? "properties")
        let pprops ← JS.propsOf (o.get? "pattern_properties")
        let ap ← JS.optOf (o.get? "additional_properties")
        let pn ← JS.optOf (o.get? "property_names")
        pure (JSObjV.some mx mn (req.getD []) props pprops ap pn)
    let rf ← optField j "reference" J.asStr?
    let ext ← optField j "extensions" J.asObj?
    pure (.obj md ty fmt en cv subs num str arr ob rf (ext.getD []))
  | _ => none
partial def JS.optOf : Option J → Option JSOpt
  | none => some .none
  | some s => (JS.ofJson s).map .some
partial def JS.optListOf : Option J → Option JSOptList
  | none => some .none
  | some (.arr xs) => (xs.mapM JS.ofJson).map fun l => .some (JSList.ofList l)
  | some _ => none
partial def JS.propsOf : Option J → Option JSProps
  | none => some .nil
  | some (.obj kvs) => (kvs.mapM fun (kv : String × J) => (JS.ofJson kv.2).map fun s => (kv.1, s)).map JSProps.ofList
  | some _ => none
end

/-! ## `openapiv3::Schema` ↔ JSON -/

def optKV {α : Type} (k : String) (o : Option α) (f : α → J) : List (String × J) :=
  match o with
  | none => []
  | some a => [(k, f a)]

def flagKV (k : String) (b : Bool) : List (String × J) := if b then [(k, .bool true)] else []

def SData.toKVs (d : SData) : List (String × J) :=
  flagKV "nullable" d.nullable ++ flagKV "readOnly" d.readOnly ++ flagKV "writeOnly" d.writeOnly
  ++ flagKV "deprecated" d.deprecated ++ optKV "example" d.exampleVal id ++ optKV "title" d.title .str
  ++ optKV "description" d.description .str ++ optKV "default" d.default id ++ d.extensions

def enumKV {α : Type} (e : List (Option α)) (f : α → J) : List (String × J) :=
  if e.isEmpty then [] else [("enum", .arr (e.map fun | none => .null | some a => f a))]

def NumType.toKVs (t : NumType) : List (String × J) :=
  optKV "format" t.format.toOption .str ++ optKV "multipleOf" t.multipleOf .num
  ++ flagKV "exclusiveMinimum" t.exclusiveMinimum ++ flagKV "exclusiveMaximum" t.exclusiveMaximum
  ++ optKV "minimum" t.minimum .num ++ optKV "maximum" t.maximum .num ++ enumKV t.enumeration .num

def natJ (n : Nat) : J := .num n

mutual
partial def RefOr.toJson : RefOr → J
  | .ref r => .obj [("$ref", .str r)]
  | .item (.mk d k) => .obj (d.toKVs ++ OKind.toKVs k)
partial def OKind.toKVs : OKind → List (String × J)
  | .string t =>
    [("type", .str "string")] ++ optKV "format" t.format.toOption .str ++ optKV "pattern" t.pattern .str
    ++ enumKV t.enumeration .str ++ optKV "minLength" t.minLength natJ ++ optKV "maxLength" t.maxLength natJ
  | .number t => [("type", .str "number")] ++ t.toKVs
  | .integer t => [("type", .str "integer")] ++ t.toKVs
  | .object props req addl minP maxP =>
    let ps := props.toList
    [("type", .str "object")]
    ++ (if ps.isEmpty then [] else [("properties", .obj (ps.map fun (k, r) => (k, r.toJson)))])
    ++ (if req.isEmpty then [] else [("required", .arr (req.map .str))])
    ++ (match addl with
        | .none => []
        | .any b => [("additionalProperties", .bool b)]
        | .schema r => [("additionalProperties", r.toJson)])
    ++ optKV "minProperties" minP natJ ++ optKV "maxProperties" maxP natJ
  | .array items minI maxI uniq =>
    [("type", .str "array")]
    ++ (match items with | .none => [] | .some r => [("items", r.toJson)])
    ++ optKV "minItems" minI natJ ++ optKV "maxItems" maxI natJ ++ flagKV "uniqueItems" uniq
  | .boolean e => [("type", .str "boolean")] ++ enumKV e .bool
  | .oneOf l => [("oneOf", .arr (l.toList.map RefOr.toJson))]
  | .allOf l => [("allOf", .arr (l.toList.map RefOr.toJson))]
  | .anyOf l => [("anyOf", .arr (l.toList.map RefOr.toJson))]
  | .not r => [("not", r.toJson)]
  | .any => []
end

def dataKeys : List String :=
  ["nullable", "readOnly", "writeOnly", "deprecated", "example", "title", "description", "default"]

def isExtKey (k : String) : Bool := isXExt k

def SData.ofJson (j : J) : Option SData := do
  let n ← optField j "nullable" J.asBool?
  let ro ← optField j "readOnly" J.asBool?
  let wo ← optField j "writeOnly" J.asBool?
  let dep ← optField j "deprecated" J.asBool?
  let title ← optField j "title" J.asStr?
  let desc ← optField j "description" J.asStr?
  let kvs ← j.asObj?
  pure { nullable := n.getD false, readOnly := ro.getD false, writeOnly := wo.getD false,
         deprecated := dep.getD false, exampleVal := j.get? "example", title := title,
         description := desc, default := j.get? "default",
         extensions := kvs.filter (fun kv => isExtKey kv.1) }

def enumOf {α : Type} (j : J) (f : J → Option α) : Option (List (Option α)) :=
  match j.get? "enum" with
  | none => some []
  | some (.arr xs) => xs.mapM fun x => match x with | .null => some none | v => (f v).map some
  | some _ => none

def numTypeOf (j : J) (known : List String) : Option NumType := do
  let fmt ← optField j "format" J.asStr?
  let mo ← optField j "multipleOf" J.asInt?
  let emn ← optField j "exclusiveMinimum" J.asBool?
  let emx ← optField j "exclusiveMaximum" J.asBool?
  let mn ← optField j "minimum" J.asInt?
  let mx ← optField j "maximum" J.asInt?
  let e ← enumOf j J.asInt?
  pure { format := mkFmt known fmt, multipleOf := mo, exclusiveMinimum := emn.getD false,
         exclusiveMaximum := emx.getD false, minimum := mn, maximum := mx, enumeration := e }

/-- every key is schema data, an `x-` extension, or one of `ks`. -/
def keysWithin (j : J) (ks : List String) : Bool :=
  match j with
  | .obj kvs => kvs.all (fun kv => dataKeys.contains kv.1 || isExtKey kv.1 || ks.contains kv.1)
  | _ => false

mutual
/-- strict reader of an OpenAPI 3.0 schema object as openapiv3 serialises it. -/
partial def RefOr.ofJson (j : J) : Option RefOr :=
  match j.get? "$ref" with
  | some (.str r) => if allowedKeys j ["$ref"] then some (.ref r) else none
  | some _ => none
  | none => do
    let d ← SData.ofJson j
    let k ← OKind.ofJson j
    pure (.item (.mk d k))
partial def OKind.ofJson (j : J) : Option OKind :=
  match j.get? "type" with
  | some (.str "string") => do
    if !keysWithin j ["type", "format", "pattern", "enum", "minLength", "maxLength"] then none
    let fmt ← optField j "format" J.asStr?
    let pat ← optField j "pattern" J.asStr?
    let e ← enumOf j J.asStr?
    let mn ← optField j "minLength" J.asNat?
    let mx ← optField j "maxLength" J.asNat?
    pure (.string { format := mkFmt strFormats fmt, pattern := pat, enumeration := e, minLength := mn, maxLength := mx })
  | some (.str "number") =>
    if !keysWithin j ["type", "format", "multipleOf", "exclusiveMinimum", "exclusiveMaximum", "minimum", "maximum", "enum"] then none
    else (numTypeOf j numFormats).map .number
  | some (.str "integer") =>
    if !keysWithin j ["type", "format", "multipleOf", "exclusiveMinimum", "exclusiveMaximum", "minimum", "maximum", "enum"] then none
    else (numTypeOf j intFormats).map .integer
  | some (.str "boolean") =>
    if !keysWithin j ["type", "enum"] then none else (enumOf j J.asBool?).map .boolean
  | some (.str "object") => do
    if !keysWithin j ["type", "properties", "required", "additionalProperties", "minProperties", "maxProperties"] then none
    let props ← match j.get? "properties" with
      | none => some []
      | some (.obj kvs) => kvs.mapM fun (kv : String × J) => (RefOr.ofJson kv.2).map fun r => (kv.1, r)
      | some _ => none
    let req ← optField j "required" fun r => r.asArr?.bind (·.mapM J.asStr?)
    let addl ← match j.get? "additionalProperties" with
      | none => some OAddl.none
      | some (.bool b) => some (OAddl.any b)
      | some s => (RefOr.ofJson s).map OAddl.schema
    let mn ← optField j "minProperties" J.asNat?
    let mx ← optField j "maxProperties" J.asNat?
    pure (.object (ORProps.ofList props) (req.getD []) addl mn mx)
  | some (.str "array") => do
    if !keysWithin j ["type", "items", "minItems", "maxItems", "uniqueItems"] then none
    let items ← match j.get? "items" with
      | none => some OROpt.none
      | some s => (RefOr.ofJson s).map OROpt.some
    let mn ← optField j "minItems" J.asNat?
    let mx ← optField j "maxItems" J.asNat?
    let u ← optField j "uniqueItems" J.asBool?
    pure (.array items mn mx (u.getD false))
  | some _ => none
  | none =>
    let listOf (k : String) : Option ORList :=
      match j.get? k with
      | some (.arr xs) => (xs.mapM RefOr.ofJson).map ORList.ofList
      | _ => none
    if (j.get? "oneOf").isSome then
      if keysWithin j ["oneOf"] then (listOf "oneOf").map .oneOf else none
    else if (j.get? "allOf").isSome then
      if keysWithin j ["allOf"] then (listOf "allOf").map .allOf else none
    else if (j.get? "anyOf").isSome then
      if keysWithin j ["anyOf"] then (listOf "anyOf").map .anyOf else none
    else match j.get? "not" with
      | some s => if keysWithin j ["not"] then (RefOr.ofJson s).map .not else none
      | none => if keysWithin j [] then some .any else none
end

end Dropshot.Schema
